package homesim

import (
	"fmt"
	"os"

	"github.com/AdguardTeam/AdGuardHome/internal/home"
	"github.com/AdguardTeam/AdGuardHome/verifsim/kernel"
)

// NewFirstRun assembles a node in a fresh directory as a process started
// without a configuration file: no administrator exists, the node is in
// first-run mode.  Install then does what the install wizard's configure step
// does, in the same process.  Call it inside the bubble.
func NewFirstRun(c Conf) (n *Node, err error) {
	dir, err := kernel.TempDir("homesim")
	if err != nil {
		return nil, err
	}
	h, err := home.VerifHomesimNewFirstRunNode(&home.VerifHomesimConf{
		WorkDir:    dir,
		User:       User,
		Password:   Password,
		SessionTTL: c.SessionTTL,
		Attempts:   c.Attempts,
		BlockDur:   c.BlockDur,
		ClientFS:   ClientFS,
		Full:       c.Full,
	})
	if err != nil {
		_ = os.RemoveAll(dir)
		return nil, fmt.Errorf("harness: assembling first-run node: %w", err)
	}
	return &Node{H: h, Dir: dir}, nil
}

// Install creates the administrator (User, Password) the way the install
// wizard's configure step does and takes the node out of first-run mode.
func (n *Node) Install() error {
	if err := n.H.Install(); err != nil {
		return fmt.Errorf("harness: install step: %w", err)
	}
	return nil
}
