// Package homesim is engine E5 "homeweb": the web and authentication part of
// an AdGuard Home node (package home's globals) assembled by the real
// constructors and the real route-registration code through the verif hook of
// package home, driven in-process (no listener) with requests that are parsed
// exactly as net/http's server parses them.
package homesim

import (
	"bytes"
	"context"
	"fmt"
	"io"
	"net"
	"net/http"
	"net/http/httptest"
	"os"
	"testing/fstest"
	"time"

	"github.com/AdguardTeam/AdGuardHome/internal/home"
	"github.com/AdguardTeam/AdGuardHome/verifsim/kernel"
)

// Package net initialises its resolver configuration lazily, with a channel
// that would belong to the bubble of whichever case happens to trigger it
// first (dnsforward.NewServer looks at the system resolvers) and would be
// unusable from the next bubble.  Trigger it here, outside any bubble.
func init() {
	_, _ = net.DefaultResolver.LookupHost(context.Background(), "localhost")
}

// Credentials of the only administrator of every simulated node.
const (
	User     = "admin"
	Password = "correct-horse-1"
)

// ClientFS is the static front-end served by the simulated node.
var ClientFS = fstest.MapFS{
	"index.html":         {Data: []byte("<html>dashboard</html>")},
	"login.html":         {Data: []byte("<html>login</html>")},
	"install.html":       {Data: []byte("<html>install</html>")},
	"favicon.png":        {Data: []byte("png")},
	"assets/app.js":      {Data: []byte("console.log(1)")},
	"assets/css/a.css":   {Data: []byte("body{}")},
	"assets/favicon.png": {Data: []byte("png")},
}

// Conf are the knobs of a node.
type Conf struct {
	SessionTTL    uint32
	Attempts      uint
	BlockDur      time.Duration
	JustInstalled bool
	Full          bool
}

// Node is one assembled node in its own tmpfs directory.
type Node struct {
	H   *home.VerifHomesimNode
	Dir string
}

// New assembles a node in a fresh directory.  Call it inside the bubble.
func New(c Conf) (n *Node, err error) {
	dir, err := kernel.TempDir("homesim")
	if err != nil {
		return nil, err
	}
	h, err := home.VerifHomesimNewNode(&home.VerifHomesimConf{
		WorkDir:       dir,
		User:          User,
		Password:      Password,
		SessionTTL:    c.SessionTTL,
		Attempts:      c.Attempts,
		BlockDur:      c.BlockDur,
		ClientFS:      ClientFS,
		JustInstalled: c.JustInstalled,
		Full:          c.Full,
	})
	if err != nil {
		_ = os.RemoveAll(dir)
		return nil, fmt.Errorf("harness: assembling node: %w", err)
	}
	return &Node{H: h, Dir: dir}, nil
}

// Close stops the node and removes its directory.
func (n *Node) Close() {
	n.H.Close()
	_ = os.RemoveAll(n.Dir)
}

// Req is one admin-client request.
type Req struct {
	Method string
	// Target is the request target as it appears on the request line.
	Target     string
	RemoteAddr string
	// Cookie is the value of the session cookie; "" = no cookie.
	Cookie string
	// Basic credentials are sent when BasicUser != "".
	BasicUser, BasicPass string
	ContentType          string
	Body                 []byte
	Header               map[string]string
}

// Resp is what came back.
type Resp struct {
	Code       int
	Location   string
	RetryAfter string
	// SessionCookie is the value of a Set-Cookie for the session cookie, nil if
	// the response set none.
	SessionCookie *http.Cookie
	Body          []byte
}

// HandlerPanic is returned by Do when the handler chain panicked.
type HandlerPanic struct {
	Req   string
	Value any
}

func (p *HandlerPanic) Error() string {
	return fmt.Sprintf("handler panicked on %s: %v", p.Req, p.Value)
}

// SessionCookieName is the name of the session cookie of the admin API.
const SessionCookieName = "agh_session"

// Do sends r through the handler the node's listeners would serve.
func (n *Node) Do(r *Req) (resp *Resp, err error) {
	var body io.Reader
	if r.Body != nil {
		body = bytes.NewReader(r.Body)
	}
	req := httptest.NewRequest(r.Method, r.Target, body)
	if r.RemoteAddr != "" {
		req.RemoteAddr = r.RemoteAddr
	}
	if r.ContentType != "" {
		req.Header.Set("Content-Type", r.ContentType)
	}
	if r.Cookie != "" {
		req.AddCookie(&http.Cookie{Name: SessionCookieName, Value: r.Cookie})
	}
	if r.BasicUser != "" {
		req.SetBasicAuth(r.BasicUser, r.BasicPass)
	}
	for k, v := range r.Header {
		req.Header.Set(k, v)
	}
	rec := httptest.NewRecorder()
	defer func() {
		if p := recover(); p != nil {
			err = &HandlerPanic{Req: r.Method + " " + r.Target, Value: p}
		}
	}()
	n.H.Handler().ServeHTTP(rec, req)
	res := rec.Result()
	resp = &Resp{Code: res.StatusCode, Location: res.Header.Get("Location"), RetryAfter: res.Header.Get("Retry-After")}
	resp.Body, _ = io.ReadAll(res.Body)
	for _, c := range res.Cookies() {
		if c.Name == SessionCookieName {
			resp.SessionCookie = c
		}
	}
	return resp, nil
}
