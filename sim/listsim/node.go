package listsim

import (
	"encoding/json"
	"fmt"
	"io"
	"net/http"
	"net/netip"
	"net/url"
	"os"
	"path/filepath"
	"sort"
	"syscall"
	"time"

	"github.com/AdguardTeam/AdGuardHome/internal/filtering"
	"github.com/AdguardTeam/AdGuardHome/internal/filtering/rulelist"
	"github.com/AdguardTeam/AdGuardHome/verifsim/env"
	"github.com/AdguardTeam/AdGuardHome/verifsim/kernel"
	"github.com/AdguardTeam/golibs/log"
)

// ListConf is what the YAML configuration keeps of one filter list.
type ListConf struct {
	ID      int64
	URL     string
	Name    string
	Enabled bool
}

// Options is the part of the configuration a case varies.
type Options struct {
	DataDir        string
	Block, Allow   []ListConf
	UserRules      []string
	SafeFSPatterns []string
	IntervalH      uint32
	ClientTimeout  time.Duration
}

// Node is one running filtering module.
type Node struct {
	Opt      Options
	F        *filtering.DNSFilter
	Mux      *env.Mux
	Srv      *Server
	Modified int
	// OnModified, if set, is called whenever the module asks for the
	// configuration to be written out (after Modified has been counted).
	OnModified func()
	conf       *filtering.Config
}

func toYAML(l []ListConf) []filtering.FilterYAML {
	out := make([]filtering.FilterYAML, 0, len(l))
	for _, c := range l {
		f := filtering.FilterYAML{Enabled: c.Enabled, URL: c.URL, Name: c.Name}
		f.ID = rulelist.URLFilterID(c.ID)
		out = append(out, f)
	}
	return out
}

func fromYAML(l []filtering.FilterYAML) []ListConf {
	out := make([]ListConf, 0, len(l))
	for _, f := range l {
		out = append(out, ListConf{ID: int64(f.ID), URL: f.URL, Name: f.Name, Enabled: f.Enabled})
	}
	return out
}

// Open assembles and starts the module the way home does: New, synchronous
// EnableFilters, Start (handlers + updates loop).  It must be called inside
// the bubble.
func Open(opt Options, srv *Server) (*Node, error) {
	log.SetOutput(io.Discard)
	n := &Node{Opt: opt, Srv: srv, Mux: env.NewMux()}
	n.conf = &filtering.Config{
		DataDir:                    opt.DataDir,
		Filters:                    toYAML(opt.Block),
		WhitelistFilters:           toYAML(opt.Allow),
		UserRules:                  append([]string(nil), opt.UserRules...),
		SafeFSPatterns:             append([]string(nil), opt.SafeFSPatterns...),
		FiltersUpdateIntervalHours: opt.IntervalH,
		FilteringEnabled:           true,
		ProtectionEnabled:          true,
		BlockingMode:               filtering.BlockingModeDefault,
		HTTPClient:                 &http.Client{Transport: srv, Timeout: opt.ClientTimeout},
		HTTPRegister:               n.Mux.Register,
		ConfigModified: func() {
			n.Modified++
			if n.OnModified != nil {
				n.OnModified()
			}
		},
		ApplyClientFiltering: func(string, netip.Addr, *filtering.Settings) {},
	}
	f, err := filtering.New(n.conf, nil)
	if err != nil {
		return nil, err
	}
	n.F = f
	f.EnableFilters(false)
	f.Start()
	// Phase offset: the updates-loop timer now lives on the grid "start + whole
	// seconds"; everything the driver starts (operations, client timeouts,
	// stalls, advances) is kept 137 ms off that grid, so that a driver-side
	// timer and the loop timer never fire at the same simulated instant (two
	// goroutines woken at one instant run in an order the simulation does not
	// control, e.g. unlock of the refresh lock vs the loop's TryLock).
	time.Sleep(137 * time.Millisecond)
	return n, nil
}

// Close stops the module and waits until its goroutines are gone.
func (n *Node) Close() {
	n.F.Close()
	kernel.Wait()
}

// Drain lets the timers of the HTTP client run out (net/http keeps a timer
// goroutine per request until the body is closed or the timeout passes, and
// the system does not close the body of a response whose status is not 200);
// a bubble cannot end while they live.  Call it after the last Close.
func (n *Node) Drain() {
	time.Sleep(n.Opt.ClientTimeout + time.Second)
	kernel.Wait()
}

// DiskConfig returns what home would have written to the YAML file.
func (n *Node) DiskConfig() (block, allow []ListConf, userRules []string, patterns []string, ivl uint32) {
	c := &filtering.Config{}
	n.F.WriteDiskConfig(c)
	return fromYAML(c.Filters), fromYAML(c.WhitelistFilters), c.UserRules, c.SafeFSPatterns, c.FiltersUpdateIntervalHours
}

// Settle waits for quiescence, letting stalled list-server connections run to
// their end on the simulated clock (mode A: one operation at a time).
func (n *Node) Settle() time.Duration {
	var spent time.Duration
	for {
		kernel.Wait()
		if n.Srv.Stalling() == 0 {
			return spent
		}
		time.Sleep(time.Second)
		spent += time.Second
	}
}

// FilterJSON mirrors one entry of GET /control/filtering/status.
type FilterJSON struct {
	URL         string `json:"url"`
	Name        string `json:"name"`
	LastUpdated string `json:"last_updated"`
	ID          int64  `json:"id"`
	RulesCount  uint32 `json:"rules_count"`
	Enabled     bool   `json:"enabled"`
}

// Status mirrors GET /control/filtering/status.
type Status struct {
	Filters          []FilterJSON `json:"filters"`
	WhitelistFilters []FilterJSON `json:"whitelist_filters"`
	UserRules        []string     `json:"user_rules"`
	Interval         uint32       `json:"interval"`
	Enabled          bool         `json:"enabled"`
}

// APIError wraps trouble while calling a handler.
func apiErr(err error) error {
	if hp, ok := err.(*env.HandlerPanic); ok {
		return kernel.Violationf("api-panic", "%v", hp)
	}
	return err
}

// Do calls one handler with a JSON body.
func (n *Node) Do(method, target string, req any) (code int, body []byte, err error) {
	var b []byte
	if req != nil {
		if b, err = json.Marshal(req); err != nil {
			return 0, nil, err
		}
	}
	code, body, err = n.Mux.Do(method, target, b)
	return code, body, apiErr(err)
}

// Status reads the filtering status.
func (n *Node) Status() (*Status, []byte, error) {
	code, body, err := n.Do(http.MethodGet, "/control/filtering/status", nil)
	if err != nil {
		return nil, nil, err
	}
	if code != http.StatusOK {
		return nil, body, kernel.Violationf("api-status", "GET filtering/status -> %d %s", code, body)
	}
	st := &Status{}
	if err = json.Unmarshal(body, st); err != nil {
		return nil, body, kernel.Violationf("api-json", "GET filtering/status: %v in %s", err, body)
	}
	return st, body, nil
}

// AddURL calls POST /control/filtering/add_url.
func (n *Node) AddURL(name, u string, white bool) (int, []byte, error) {
	return n.Do(http.MethodPost, "/control/filtering/add_url", map[string]any{"name": name, "url": u, "whitelist": white})
}

// SetURL calls POST /control/filtering/set_url.
func (n *Node) SetURL(target string, white bool, name, newURL string, enabled bool) (int, []byte, error) {
	return n.Do(http.MethodPost, "/control/filtering/set_url", map[string]any{
		"url": target, "whitelist": white,
		"data": map[string]any{"name": name, "url": newURL, "enabled": enabled},
	})
}

// RemoveURL calls POST /control/filtering/remove_url.
func (n *Node) RemoveURL(u string, white bool) (int, []byte, error) {
	return n.Do(http.MethodPost, "/control/filtering/remove_url", map[string]any{"url": u, "whitelist": white})
}

// Refresh calls POST /control/filtering/refresh (forced refresh).
func (n *Node) Refresh(white bool) (code int, updated int, body []byte, err error) {
	code, body, err = n.Do(http.MethodPost, "/control/filtering/refresh", map[string]any{"whitelist": white})
	if err != nil || code != http.StatusOK {
		return code, 0, body, err
	}
	var r struct {
		Updated int `json:"updated"`
	}
	if err = json.Unmarshal(body, &r); err != nil {
		return code, 0, body, kernel.Violationf("api-json", "POST filtering/refresh: %v in %s", err, body)
	}
	return code, r.Updated, body, nil
}

// SetRules calls POST /control/filtering/set_rules.
func (n *Node) SetRules(rules []string) (int, []byte, error) {
	return n.Do(http.MethodPost, "/control/filtering/set_rules", map[string]any{"rules": rules})
}

// SetConfig calls POST /control/filtering/config.
func (n *Node) SetConfig(enabled bool, intervalH uint32) (int, []byte, error) {
	return n.Do(http.MethodPost, "/control/filtering/config", map[string]any{"enabled": enabled, "interval": intervalH})
}

// Verdict is the part of GET /control/filtering/check_host an oracle uses.
type Verdict struct {
	Reason string `json:"reason"`
	Rules  []struct {
		Text string `json:"text"`
		ID   int64  `json:"filter_list_id"`
	} `json:"rules"`
}

// CheckHost asks the module for its decision on a host name.
func (n *Node) CheckHost(name string) (*Verdict, error) {
	code, body, err := n.Do(http.MethodGet, "/control/filtering/check_host?name="+url.QueryEscape(name), nil)
	if err != nil {
		return nil, err
	}
	if code != http.StatusOK {
		return nil, kernel.Violationf("api-status", "GET check_host %s -> %d %s", name, code, body)
	}
	v := &Verdict{}
	if err = json.Unmarshal(body, v); err != nil {
		return nil, kernel.Violationf("api-json", "GET check_host: %v in %s", err, body)
	}
	return v, nil
}

// FiltersDir is data/filters.
func (n *Node) FiltersDir() string { return filepath.Join(n.Opt.DataDir, "filters") }

// ListPath is the file of the list with the given id.
func (n *Node) ListPath(id int64) string {
	return filepath.Join(n.FiltersDir(), fmt.Sprintf("%d.txt", id))
}

// FileState is what an oracle looks at.
type FileState struct {
	Exists bool
	Data   []byte
	Inode  uint64
}

// ReadFileState reads a file and its inode number.
func ReadFileState(path string) (FileState, error) {
	fi, err := os.Stat(path)
	if os.IsNotExist(err) {
		return FileState{}, nil
	} else if err != nil {
		return FileState{}, err
	}
	b, err := os.ReadFile(path)
	if err != nil {
		return FileState{}, err
	}
	st := FileState{Exists: true, Data: b}
	if s, ok := fi.Sys().(*syscall.Stat_t); ok {
		st.Inode = s.Ino
	}
	return st, nil
}

// DirNames lists the names in dir, sorted.
func DirNames(dir string) ([]string, error) {
	es, err := os.ReadDir(dir)
	if err != nil {
		return nil, err
	}
	out := make([]string, 0, len(es))
	for _, e := range es {
		out = append(out, e.Name())
	}
	sort.Strings(out)
	return out, nil
}

// FixMtimes makes the simulated disk's timestamps follow the simulated clock:
// a file created by the system carries the host kernel's real time, which the
// system later reads back (load: LastUpdated = mtime) and compares with the
// simulated clock.  Every file under dir whose mtime is not a simulated
// instant is stamped with the current simulated time.
func FixMtimes(dir string) error {
	now := time.Now()
	horizon := kernel.Epoch.Add(15 * 365 * 24 * time.Hour)
	return filepath.Walk(dir, func(p string, fi os.FileInfo, err error) error {
		if err != nil || fi.IsDir() {
			return err
		}
		if fi.ModTime().After(horizon) {
			return os.Chtimes(p, now, now)
		}
		return nil
	})
}
