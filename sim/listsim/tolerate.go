package listsim

import (
	"bufio"
	"encoding/json"
	"os"
	"path/filepath"
	"strings"

	"github.com/AdguardTeam/AdGuardHome/verifsim/kernel"
)

// Tolerate is c.Tolerate with a fallback for replays: the driver does not hand
// the list of known findings to a replay process, so a scenario recorded for
// class X (found after carrying on past a known finding Y) would stop at Y.
// When replaying, the known classes are read from the property's
// known_findings.jsonl, and every known class except the one the replay file
// was recorded for is tolerated.
func Tolerate(c *kernel.Ctx, prop, pkg string, v *kernel.Violation) bool {
	if c.Tolerate(v) {
		return true
	}
	path := os.Getenv("VERIF_REPLAY")
	if path == "" || os.Getenv("VERIF_KNOWN") != "" {
		return false
	}
	b, err := os.ReadFile(path)
	if err != nil {
		return false
	}
	var rf struct {
		Class string `json:"class"`
	}
	if json.Unmarshal(b, &rf) != nil || rf.Class == v.Class {
		return false
	}
	for _, p := range []string{filepath.Join("props", pkg, "known_findings.jsonl"), filepath.Join("..", "known_findings.jsonl")} {
		f, err := os.Open(p)
		if err != nil {
			continue
		}
		sc := bufio.NewScanner(f)
		sc.Buffer(nil, 1<<20)
		for sc.Scan() {
			line := strings.TrimSpace(sc.Text())
			var k struct {
				Property string `json:"property"`
				Class    string `json:"class"`
			}
			if line == "" || json.Unmarshal([]byte(line), &k) != nil {
				continue
			}
			if k.Property == prop && k.Class == v.Class {
				f.Close()
				return true
			}
		}
		f.Close()
	}
	return false
}
