package listsim

import (
	"bytes"
	"fmt"
	"hash/crc32"
	"strings"
	"unicode"
	"unicode/utf8"
)

// Part is one generated line (or line fragment) of a list text.
type Part struct {
	K    string `json:"k"`
	N    int    `json:"n,omitempty"`
	Pre  int    `json:"pre,omitempty"`
	Post int    `json:"post,omitempty"`
	EOL  int    `json:"eol,omitempty"`
}

// Content is a generated list text; its index in the scenario's table is its
// version number, which names its probe host.
type Content struct {
	Parts []Part `json:"parts"`
}

// Part kinds.
var PartKinds = []string{"rule", "probe", "comment", "bang", "title", "blank", "long", "ctl", "html", "cmtctl"}

// WS is the alphabet of leading / trailing blanks.
var WS = []string{"", " ", "\t", "  ", " \t ", "\v", "\f", "\u00a0", "\u0085 "}

// EOLs is the alphabet of line terminators ("" joins with the next part; a
// lone "\r" is not a line terminator for a text file read line by line).
var EOLs = []string{"\n", "\r\n", "\n\n", "\r\r\n", "\r", ""}

// LongSizes are the lengths of the "long" lines, around the scanner's 64 KiB
// token limit.
var LongSizes = []int{300, 4000, 65000, 65520, 65536, 65560, 70000, 200000}

var ctlBytes = []byte{0x00, 0x01, 0x07, 0x08, 0x0b, 0x0c, 0x1b, 0x7f, 0x1f}

// ProbeName is the host name that only version v of the content blocks.
func ProbeName(v int) string { return fmt.Sprintf("v%d.probe.test", v) }

// ProbeRules are the two spellings of the probe rule of version v.
func ProbeRules(v int) [2]string {
	return [2]string{"||" + ProbeName(v) + "^", "0.0.0.0 " + ProbeName(v)}
}

func partText(v int, p Part) string {
	n := p.N
	if n < 0 {
		n = -n
	}
	switch p.K {
	case "rule":
		switch n % 7 {
		case 0:
			return fmt.Sprintf("||junk%d.example^", n)
		case 1:
			return fmt.Sprintf("0.0.0.0 host%d.example", n)
		case 2:
			return fmt.Sprintf("@@||ok%d.example^", n)
		case 3:
			return fmt.Sprintf("plain%d.example", n)
		case 4:
			return fmt.Sprintf("/regex%d\\.example/", n)
		case 5:
			return fmt.Sprintf("||imp%d.example^$important", n)
		default:
			return fmt.Sprintf("127.0.0.1 a%d.example b%d.example", n, n)
		}
	case "probe":
		return ProbeRules(v)[n%2]
	case "comment":
		switch n % 4 {
		case 0:
			return fmt.Sprintf("# comment %d", n)
		case 1:
			return "#"
		case 2:
			return "# " + ProbeRules(v)[0]
		default:
			return "#||hidden.example^"
		}
	case "bang":
		switch n % 4 {
		case 0:
			return fmt.Sprintf("! comment %d", n)
		case 1:
			return "!"
		case 2:
			return "! Title:"
		default:
			return "!Title: no blank"
		}
	case "title":
		switch n % 3 {
		case 0:
			return fmt.Sprintf("! Title: List %d", n)
		case 1:
			return "! Title:    "
		default:
			return "! Title: " + strings.Repeat("T", 300)
		}
	case "blank":
		return ""
	case "long":
		return "||" + strings.Repeat("a", LongSizes[n%len(LongSizes)]) + ".example^"
	case "ctl":
		b := string([]byte{ctlBytes[n%len(ctlBytes)]})
		switch (n / len(ctlBytes)) % 3 {
		case 0:
			return "||ctl" + b + ".example^"
		case 1:
			return b + "||ctl.example^"
		default:
			return "||ctl.example^" + b
		}
	case "cmtctl":
		return "# binary \x00\x01 in a comment"
	case "html":
		switch n % 4 {
		case 0:
			return "<html>"
		case 1:
			return "<!DOCTYPE html>"
		case 2:
			return "<HTML lang=\"en\"><head><title>x</title>"
		default:
			return "<!doctype HTML PUBLIC>"
		}
	}
	return "||unknown.example^"
}

// Render produces the bytes the server sends for version v.
func (c *Content) Render(v int) []byte {
	var b bytes.Buffer
	for _, p := range c.Parts {
		b.WriteString(WS[p.Pre%len(WS)])
		b.WriteString(partText(v, p))
		b.WriteString(WS[p.Post%len(WS)])
		b.WriteString(EOLs[p.EOL%len(EOLs)])
	}
	return b.Bytes()
}

// HTMLPage is a typical error page served with status 200.
func HTMLPage(n int) []byte {
	switch n % 3 {
	case 0:
		return []byte("<!DOCTYPE html>\n<html>\n<head><title>Not found</title></head>\n<body>\n||v0.probe.test^\n</body>\n</html>\n")
	case 1:
		return []byte("\n\n  <html><body>captive portal</body></html>")
	default:
		return []byte("# cached copy\r\n<HTML>\r\n<body>login</body>\r\n||v1.probe.test^\r\n")
	}
}

// BinaryBlob is an unmistakably binary body: NUL bytes in lines that are not
// comments.
func BinaryBlob(n int) []byte {
	head := [][]byte{
		{0x1f, 0x8b, 0x08, 0x00, 0x00, 0x00, 0x00, 0x00},
		{'P', 'K', 0x03, 0x04, 0x14, 0x00},
		{0x89, 'P', 'N', 'G', '\r', '\n', 0x1a, '\n', 0x00, 0x00},
		[]byte("||v0.probe.test^\n\x00\x00\x7fELF\n"),
	}[n%4]
	var b bytes.Buffer
	b.Write(head)
	x := uint32(n)*2654435761 + 12345
	for i := 0; i < 600+(n%5)*900; i++ {
		x = x*1664525 + 1013904223
		c := byte(x >> 24)
		if i%97 == 0 {
			c = '\n'
		}
		if i%97 == 1 {
			c = 0x00
		}
		b.WriteByte(c)
	}
	return b.Bytes()
}

// ---- the independent normal form (written from the property statement) ------

func trimSpace(s string) string {
	for len(s) > 0 {
		r, n := utf8.DecodeRuneInString(s)
		if !unicode.IsSpace(r) {
			break
		}
		s = s[n:]
	}
	for len(s) > 0 {
		r, n := utf8.DecodeLastRuneInString(s)
		if !unicode.IsSpace(r) {
			break
		}
		s = s[:len(s)-n]
	}
	return s
}

// NormalForm is the statement's normal form of a list text: comments and blank
// lines dropped, lines trimmed, one "\n" after each remaining line.
func NormalForm(text []byte) (nf []byte, lines []string) {
	var out bytes.Buffer
	for _, l := range strings.Split(string(text), "\n") {
		t := trimSpace(l)
		if t == "" || t[0] == '#' || t[0] == '!' {
			continue
		}
		lines = append(lines, t)
		out.WriteString(t)
		out.WriteByte('\n')
	}
	return out.Bytes(), lines
}

// LinesChecksum is the CRC-32 (IEEE) over the rule lines, the checksum the
// statement's "unchanged checksum" refers to.
func LinesChecksum(lines []string) uint32 {
	var c uint32
	for _, l := range lines {
		c = crc32.Update(c, crc32.IEEETable, []byte(l))
	}
	return c
}

// Ambiguous reports whether a completely delivered text is of a kind for which
// the statement allows the refresh to fail (binary-looking bytes, HTML
// mark-up) or for which acceptance is an implementation limit (very long
// lines): either outcome — nothing changed, or the normal form stored — is
// then accepted.
func Ambiguous(text []byte) bool {
	low := bytes.ToLower(text)
	if bytes.Contains(low, []byte("<html")) || bytes.Contains(low, []byte("<!doctype")) {
		return true
	}
	run := 0
	for _, b := range text {
		if (b < 0x20 && b != '\n' && b != '\r' && b != '\t') || b == 0x7f {
			return true
		}
		if b == '\n' {
			run = 0
			continue
		}
		if run++; run > 60000 {
			return true
		}
	}
	return false
}
