// Package listsim is engine E7 "listrefresh": the real filtering.DNSFilter
// (filter-list download, parser, atomic file replacement, engines, HTTP
// handlers, the updates loop with its timer) on a tmpfs data directory inside
// a synctest bubble, with the list server replaced by an http.RoundTripper that
// misbehaves on purpose.
package listsim

import (
	"bufio"
	"bytes"
	"context"
	"errors"
	"fmt"
	"io"
	"net"
	"net/http"
	"strconv"
	"sync"
	"time"
)

// Reply kinds.  The "ok*" kinds deliver the complete body with the three HTTP/1
// body framings; the others are the failure classes of DESIGN §2.5.
const (
	KindOK        = "ok"          // 200, Content-Length, complete
	KindOKChunked = "ok_chunked"  // 200, chunked, complete
	KindOKClose   = "ok_close"    // 200, delimited by connection close, complete
	KindDial      = "dial"        // connection refused: no response at all
	KindStatus    = "status"      // complete response with a status != 200
	KindCutHdr    = "cut_hdr"     // connection dies before the header block is complete
	KindCutCL     = "cut_cl"      // Content-Length announced, body cut short
	KindCutChunk  = "cut_chunked" // chunked body cut short (no terminating chunk)
	KindSlowHdr   = "slow_hdr"    // nothing arrives for Delay (past the client timeout)
	KindSlowBody  = "slow_body"   // headers and Cut body bytes arrive, then silence for Delay
)

// Reply is what the simulated list server does with one request.
type Reply struct {
	Kind   string
	Status int // for KindStatus
	Body   []byte
	// Cut is the number of body bytes (header bytes for KindCutHdr) that are
	// delivered before the connection dies or stalls.
	Cut   int
	Delay time.Duration
	// Tag is an opaque label of the caller (e.g. content id) kept in the log.
	Tag string
}

// Complete reports whether the reply delivers the whole body with status 200
// in a way the client can recognise as complete.
func (r *Reply) Complete() bool {
	return r.Kind == KindOK || r.Kind == KindOKChunked || r.Kind == KindOKClose
}

// Record is one request seen by the server.
type Record struct {
	URL   string
	Reply Reply
	// Refused is set when the transport refused the request before any
	// "network" activity (unsupported scheme), like http.Transport does.
	Refused bool
	// TimedOut is set when the client's context ended while the server was
	// stalling.
	TimedOut bool
	// Delivered is the number of raw response bytes handed to the client.
	Delivered int
	// Local marks a record the harness made up for a list whose source is a
	// local file (no request reaches the server): Body is what the file held,
	// Unreadable that it could not be read (missing, a directory), Uncertain
	// that the system may or may not have read it during the operation.
	Local, Unreadable, Uncertain bool
}

// Server is the simulated list server: an http.RoundTripper.
type Server struct {
	mu sync.Mutex
	// Plan decides the reply for a request.  It is called with the mutex held,
	// on the goroutine that performs the request.
	Plan     func(url string) Reply
	log      []*Record
	stalling int
	// Latency, if set, stands for the network's latency: it is called on the
	// requesting goroutine, without the mutex, after the reply to a request has
	// been decided and before every read from the connection.  (Under the
	// cooperative scheduler, where the simulated clock stands still, it is a
	// scheduling point; nil = no latency, the behaviour of the sequential
	// modes.)
	Latency func()
}

// Take returns and clears the request log.
func (s *Server) Take() []*Record {
	s.mu.Lock()
	defer s.mu.Unlock()
	l := s.log
	s.log = nil
	return l
}

// Stalling is the number of requests whose connection is currently silent
// (a goroutine of the system is blocked in Read on the simulated clock).
func (s *Server) Stalling() int {
	s.mu.Lock()
	defer s.mu.Unlock()
	return s.stalling
}

func (s *Server) stall(d int) {
	s.mu.Lock()
	s.stalling += d
	s.mu.Unlock()
}

const chunkSize = 700

func chunked(b []byte, terminate bool) []byte {
	var out bytes.Buffer
	for len(b) > 0 {
		n := min(len(b), chunkSize)
		out.WriteString(strconv.FormatInt(int64(n), 16))
		out.WriteString("\r\n")
		out.Write(b[:n])
		out.WriteString("\r\n")
		b = b[n:]
	}
	if terminate {
		out.WriteString("0\r\n\r\n")
	}
	return out.Bytes()
}

// wire renders the raw HTTP/1.1 byte stream of the reply and the offset at
// which the stream stalls (-1: never).
func wire(r *Reply) (raw []byte, stallAt int) {
	status := http.StatusOK
	if r.Kind == KindStatus {
		status = r.Status
	}
	var hdr bytes.Buffer
	fmt.Fprintf(&hdr, "HTTP/1.1 %d %s\r\n", status, http.StatusText(status))
	hdr.WriteString("Server: listsim\r\nContent-Type: text/plain; charset=utf-8\r\n")
	body := r.Body
	cut := max(0, min(r.Cut, len(body)))
	switch r.Kind {
	case KindOKChunked, KindCutChunk:
		hdr.WriteString("Transfer-Encoding: chunked\r\n\r\n")
	case KindOKClose:
		hdr.WriteString("Connection: close\r\n\r\n")
	default:
		fmt.Fprintf(&hdr, "Content-Length: %d\r\n\r\n", len(body))
	}
	h := hdr.Bytes()
	switch r.Kind {
	case KindOK, KindOKClose, KindStatus:
		return append(h, body...), -1
	case KindOKChunked:
		return append(h, chunked(body, true)...), -1
	case KindCutHdr:
		return h[:max(0, min(r.Cut, len(h)-1))], -1
	case KindCutCL:
		if cut >= len(body) && len(body) > 0 {
			cut = len(body) - 1
		}
		return append(h, body[:cut]...), -1
	case KindCutChunk:
		return append(h, chunked(body[:cut], false)...), -1
	case KindSlowHdr:
		return append(h, body...), 0
	case KindSlowBody:
		return append(h, body...), len(h) + cut
	}
	return append(h, body...), -1
}

// conn is the client's end of the simulated connection.
type conn struct {
	srv     *Server
	ctx     context.Context
	raw     []byte
	off     int
	stallAt int
	delay   time.Duration
	rec     *Record
}

func (c *conn) Read(p []byte) (n int, err error) {
	if f := c.srv.Latency; f != nil {
		f()
	}
	if c.stallAt >= 0 && c.off >= c.stallAt {
		c.stallAt = -1
		c.srv.stall(1)
		t := time.NewTimer(c.delay)
		select {
		case <-t.C:
			c.srv.stall(-1)
		case <-c.ctx.Done():
			t.Stop()
			c.srv.stall(-1)
			c.rec.TimedOut = true
			return 0, c.ctx.Err()
		}
	}
	if err = c.ctx.Err(); err != nil {
		c.rec.TimedOut = true
		return 0, err
	}
	if c.off >= len(c.raw) {
		return 0, io.EOF
	}
	end := len(c.raw)
	if c.stallAt > c.off {
		end = c.stallAt
	}
	n = copy(p, c.raw[c.off:end])
	c.off += n
	c.rec.Delivered = c.off
	return n, nil
}

// RoundTrip implements http.RoundTripper.
func (s *Server) RoundTrip(req *http.Request) (*http.Response, error) {
	s.mu.Lock()
	rec := &Record{URL: req.URL.String()}
	s.log = append(s.log, rec)
	if sch := req.URL.Scheme; sch != "http" && sch != "https" {
		// net/http.Transport: no registered protocol for anything else.
		rec.Refused = true
		s.mu.Unlock()
		return nil, fmt.Errorf("unsupported protocol scheme %q", sch)
	}
	if req.URL.Host == "" {
		rec.Refused = true
		s.mu.Unlock()
		return nil, errors.New("http: no Host in request URL")
	}
	rec.Reply = s.Plan(rec.URL)
	s.mu.Unlock()
	if f := s.Latency; f != nil {
		f()
	}

	r := &rec.Reply
	if r.Kind == KindDial {
		return nil, &net.OpError{Op: "dial", Net: "tcp", Err: errors.New("connect: connection refused")}
	}
	raw, stallAt := wire(r)
	c := &conn{srv: s, ctx: req.Context(), raw: raw, stallAt: stallAt, delay: r.Delay, rec: rec}
	resp, err := http.ReadResponse(bufio.NewReader(c), req)
	if err != nil {
		if errors.Is(err, io.ErrUnexpectedEOF) || errors.Is(err, io.EOF) {
			return nil, fmt.Errorf("server closed the connection: %w", io.ErrUnexpectedEOF)
		}
		return nil, err
	}
	return resp, nil
}
