// Package kernel is the property-independent part of the deterministic
// simulation harness: the single seeded choice source (rapid), scenario
// (de)serialisation, the per-case event log and its digest, fault / probe
// counters, violation reporting, shrinking glue and replay.
//
// One *case* = one scenario drawn from the rapid bit stream (outside any
// bubble), executed by the property's Run function (which owns its synctest
// bubble), and judged by the property's oracle.  Nothing in here reads a real
// clock on a path that influences a case.
package kernel

import (
	"crypto/sha256"
	"encoding/hex"
	"encoding/json"
	"fmt"
	"hash"
	"hash/fnv"
	"os"
	"path/filepath"
	"runtime"
	"runtime/debug"
	"sort"
	"strconv"
	"strings"
	"testing"
	"time"

	"pgregory.net/rapid"
)

// Violation is returned by a property's Run when the oracle rejects what the
// real code did.  Class is a short stable identifier of the kind of failure
// (used to keep shrinking on the same failure and to match known findings);
// Msg carries the details.
type Violation struct {
	Class string
	Msg   string
}

func (v *Violation) Error() string { return v.Class + ": " + v.Msg }

// Violationf builds a *Violation.
func Violationf(class, format string, args ...any) *Violation {
	return &Violation{Class: class, Msg: fmt.Sprintf(format, args...)}
}

// Ctx is the per-case recorder handed to Run.
type Ctx struct {
	Tier string

	log     []string
	h       hash.Hash64
	states  map[uint64]struct{}
	Faults  map[string]int
	Probes  map[string]int
	Ops     int
	SimTime time.Duration
	// KeepLog makes Eventf retain the lines (replay / failing case only).
	KeepLog bool

	known     map[string]bool
	KnownHits []*Violation
}

// Tolerate reports whether v is a listed known finding (by class).  If so it
// is recorded and the caller may carry on with the case; the kernel prints it
// as KNOWN-FINDING instead of VIOLATION.
func (c *Ctx) Tolerate(v *Violation) bool {
	if v == nil || !c.IsKnown(v.Class) {
		return false
	}
	c.KnownHits = append(c.KnownHits, v)
	return true
}

// IsKnown reports whether class is listed (exactly, or by a listed prefix
// ending in '*', which only survey runs use).
func (c *Ctx) IsKnown(class string) bool {
	if c.known[class] {
		return true
	}
	for k := range c.known {
		if strings.HasSuffix(k, "*") && strings.HasPrefix(class, strings.TrimSuffix(k, "*")) {
			return true
		}
	}
	return false
}

func knownFromEnv() map[string]bool {
	m := map[string]bool{}
	for _, k := range strings.Split(os.Getenv("VERIF_KNOWN"), "|") {
		if k = strings.TrimSpace(k); k != "" {
			m[k] = true
		}
	}
	return m
}

func newCtx(tier string, states map[uint64]struct{}) *Ctx {
	return &Ctx{
		Tier:   tier,
		h:      fnv.New64a(),
		states: states,
		Faults: map[string]int{},
		Probes: map[string]int{},
		known:  knownFromEnv(),
	}
}

// Eventf appends a line to the case's event log.  The log is what the
// determinism self-test diffs, so callers must only put values in it that are
// functions of the scenario and of the system's behaviour (never real time,
// pointers, temp paths or map-ordered dumps).
func (c *Ctx) Eventf(format string, args ...any) {
	s := fmt.Sprintf(format, args...)
	_, _ = c.h.Write([]byte(s))
	_, _ = c.h.Write([]byte{'\n'})
	if c.KeepLog {
		c.log = append(c.log, s)
	}
}

// Step marks the end of one generated operation: it counts the op and records
// the digest of the event-log prefix as one reached state.
func (c *Ctx) Step() {
	c.Ops++
	if c.states != nil && len(c.states) < maxStates {
		c.states[c.h.Sum64()] = struct{}{}
	}
}

// Fault counts one fault that actually fired.
func (c *Ctx) Fault(kind string) { c.Faults[kind]++ }

// Probe counts one hit of a reach probe.
func (c *Ctx) Probe(name string) { c.Probes[name]++ }

// Digest returns the digest of the event log so far.
func (c *Ctx) Digest() string { return strconv.FormatUint(c.h.Sum64(), 16) }

// Log returns the retained lines.
func (c *Ctx) Log() []string { return c.log }

const maxStates = 400_000

// Property is what one prop file provides.
type Property struct {
	ID    string
	Level string // exploration | fault_enumeration
	// Rule describes generation and the non-triviality rule for evidence.
	Rule string
	// Gen draws a scenario.  It runs outside any bubble.  The result must be a
	// pointer to a JSON-serialisable struct.
	Gen func(t *rapid.T, tier string) any
	// New returns an empty scenario to decode a replay file into.
	New func() any
	// Run executes the scenario against the real code and returns nil, a
	// *Violation, or any other error for harness trouble.
	Run func(t *testing.T, sc any, c *Ctx) error
	// NonTrivial says whether the executed case counts as non-trivial.
	NonTrivial func(sc any, c *Ctx) bool
	// Exhaustive is set by properties whose Run enumerated a finite space
	// completely (reported in evidence when every case says so).
	Real        []string
	Stub        []string
	Assumptions []string
	// FaultKinds lists the fault kinds this property's simulator can inject,
	// so that evidence shows zeros explicitly.
	FaultKinds []string
	// ProbeNames lists the reach probes, for the same reason.
	ProbeNames []string
}

// workerOut is what one worker process writes.
type workerOut struct {
	Property    string               `json:"property"`
	Worker      int                  `json:"worker"`
	Seed        uint64               `json:"seed"`
	Tier        string               `json:"tier"`
	Cases       int                  `json:"cases"`
	Skipped     int                  `json:"skipped_after_budget"`
	NonTrivial  []string             `json:"nontrivial_digests"`
	Ops         int                  `json:"ops"`
	SimTimeS    float64              `json:"sim_time_s"`
	WallS       float64              `json:"wall_s"`
	Faults      map[string]int       `json:"faults"`
	Probes      map[string]int       `json:"probes"`
	States      []string             `json:"states"`
	CaseDigests []string             `json:"case_digests,omitempty"`
	Samples     []any                `json:"samples"`
	Violation   *violationOut        `json:"violation,omitempty"`
	Known       map[string]*knownOut `json:"known,omitempty"`
	HarnessErr  string               `json:"harness_error,omitempty"`
	Meta        map[string]any       `json:"meta"`
	Notes       map[string]bool      `json:"-"`
}

type knownOut struct {
	Class    string          `json:"class"`
	Count    int             `json:"count"`
	Msg      string          `json:"msg"`
	Scenario json.RawMessage `json:"scenario"`
}

type violationOut struct {
	Property  string          `json:"property"`
	Class     string          `json:"class"`
	Msg       string          `json:"msg"`
	Seed      uint64          `json:"seed"`
	Worker    int             `json:"worker"`
	Tier      string          `json:"tier"`
	Minimised bool            `json:"minimised"`
	Digest    string          `json:"event_log_digest"`
	Scenario  json.RawMessage `json:"scenario"`
	EventLog  []string        `json:"event_log,omitempty"`
	// First is the first (un-minimised) failing case.
	First *violationOut `json:"first_failing_case,omitempty"`
}

func envInt(name string, def int) int {
	v := os.Getenv(name)
	if v == "" {
		return def
	}
	n, err := strconv.Atoi(v)
	if err != nil {
		return def
	}
	return n
}

func splitmix(x uint64) uint64 {
	x += 0x9e3779b97f4a7c15
	x = (x ^ (x >> 30)) * 0xbf58476d1ce4e5b9
	x = (x ^ (x >> 27)) * 0x94d049bb133111eb
	return x ^ (x >> 31)
}

// WorkerSeed derives the rapid seed of one worker from VERIF_SEED.
func WorkerSeed(base uint64, worker int) uint64 {
	s := splitmix(base*1_000_003 + uint64(worker)*7919 + 17)
	s &= (1 << 62) - 1
	if s == 0 {
		s = 1
	}
	return s
}

// ScenarioDigest returns a digest of the scenario's JSON form.
func ScenarioDigest(sc any) (digest string, raw []byte) {
	raw, err := json.Marshal(sc)
	if err != nil {
		panic(fmt.Errorf("scenario not serialisable: %w", err))
	}
	sum := sha256.Sum256(raw)
	return hex.EncodeToString(sum[:8]), raw
}

// quietTB is the rapid.TB the kernel hands to rapid.Check, so that a failing
// property does not fail the Go test by itself: the kernel decides.
type quietTB struct {
	name   string
	failed bool
	msgs   []string
}

func (q *quietTB) Helper()                          {}
func (q *quietTB) Name() string                     { return q.name }
func (q *quietTB) Logf(format string, args ...any)  {}
func (q *quietTB) Log(args ...any)                  {}
func (q *quietTB) Skipf(format string, args ...any) { panic("skip") }
func (q *quietTB) Skip(args ...any)                 { panic("skip") }
func (q *quietTB) SkipNow()                         { panic("skip") }
func (q *quietTB) Errorf(format string, args ...any) {
	q.failed = true
	q.msgs = append(q.msgs, fmt.Sprintf(format, args...))
}
func (q *quietTB) Error(args ...any)                 { q.failed = true; q.msgs = append(q.msgs, fmt.Sprint(args...)) }
func (q *quietTB) Fatalf(format string, args ...any) { q.Errorf(format, args...); panic(failNow{}) }
func (q *quietTB) Fatal(args ...any)                 { q.Error(args...); panic(failNow{}) }
func (q *quietTB) FailNow()                          { q.failed = true; panic(failNow{}) }
func (q *quietTB) Fail()                             { q.failed = true }
func (q *quietTB) Failed() bool                      { return q.failed }

type failNow struct{}

// Main is the body of the single Go test of the prop package.
func Main(t *testing.T, props map[string]*Property) {
	id := os.Getenv("VERIF_PROP")
	p := props[id]
	if p == nil {
		ids := make([]string, 0, len(props))
		for k := range props {
			ids = append(ids, k)
		}
		sort.Strings(ids)
		t.Skipf("VERIF_PROP=%q not set or unknown; known: %s", id, strings.Join(ids, " "))
		return
	}
	debug.SetTraceback("all")

	if path := os.Getenv("VERIF_REPLAY"); path != "" {
		replay(t, p, path)
		return
	}
	explore(t, p)
}

func writeJSON(path string, v any) error {
	b, err := json.MarshalIndent(v, "", " ")
	if err != nil {
		return err
	}
	tmp := path + ".tmp"
	if err = os.WriteFile(tmp, b, 0o644); err != nil {
		return err
	}
	return os.Rename(tmp, path)
}

// runCase runs one scenario with panics in the calling goroutine turned into
// violations of class "panic".
func runCase(t *testing.T, p *Property, sc any, c *Ctx) (err error) {
	// Real-time watchdog (this code runs outside the bubble): a case that does
	// not finish is a stall of the system under test or of the harness; dump
	// all goroutines and end the process so that the driver can replay it.
	if d := time.Duration(envInt("VERIF_CASE_TIMEOUT_S", 600)) * time.Second; d > 0 {
		wd := time.AfterFunc(d, func() {
			fmt.Printf("WATCHDOG: case exceeded %s of real time; goroutine dump follows\n", d)
			buf := make([]byte, 1<<22)
			n := runtime.Stack(buf, true)
			_, _ = os.Stdout.Write(buf[:n])
			os.Exit(3)
		})
		defer wd.Stop()
	}
	defer func() {
		if r := recover(); r != nil {
			if _, ok := r.(failNow); ok {
				panic(r)
			}
			err = Violationf("panic", "%v\n%s", r, debug.Stack())
		}
	}()
	return p.Run(t, sc, c)
}

func explore(t *testing.T, p *Property) {
	base, _ := strconv.ParseUint(os.Getenv("VERIF_SEED"), 10, 64)
	worker := envInt("VERIF_WORKER", 0)
	cases := envInt("VERIF_CASES", 100)
	budget := time.Duration(envInt("VERIF_BUDGET_S", 0)) * time.Second
	tier := os.Getenv("VERIF_TIER")
	if tier == "" {
		tier = "quick"
	}
	outDir := os.Getenv("VERIF_OUT")
	if outDir == "" {
		outDir = t.TempDir()
	}
	keepDigests := os.Getenv("VERIF_CASE_DIGESTS") != ""
	seed := WorkerSeed(base, worker)

	out := &workerOut{
		Property: p.ID, Worker: worker, Seed: seed, Tier: tier,
		Faults: map[string]int{}, Probes: map[string]int{}, Meta: map[string]any{},
	}
	out.Meta["rule"] = p.Rule
	out.Meta["real"] = p.Real
	out.Meta["stub"] = p.Stub
	out.Meta["assumptions"] = p.Assumptions
	out.Meta["level"] = p.Level
	for _, k := range p.FaultKinds {
		out.Faults[k] = 0
	}
	for _, k := range p.ProbeNames {
		out.Probes[k] = 0
	}
	states := map[uint64]struct{}{}
	nontrivial := map[string]struct{}{}
	curPath := filepath.Join(outDir, fmt.Sprintf("current-%d.json", worker))

	start := time.Now() // real time: budget only, never reaches a case.
	var (
		first      *violationOut
		last       *violationOut
		harnessErr error
		sampleStep = 1
	)

	prop := func(rt *rapid.T) {
		if harnessErr != nil {
			return
		}
		if first == nil && budget > 0 && time.Since(start) > budget {
			out.Skipped++
			return
		}
		sc := p.Gen(rt, tier)
		dig, raw := ScenarioDigest(sc)
		// Leave the scenario where the driver finds it if the process dies.
		_ = os.WriteFile(curPath, raw, 0o644)

		c := newCtx(tier, states)
		if first != nil {
			c.states = nil
		}
		evDir := os.Getenv("VERIF_EVENTS_DIR")
		c.KeepLog = evDir != ""
		err := runCase(t, p, sc, c)
		if evDir != "" && first == nil {
			// Debugging aid for the determinism self-test: one event log per case.
			_ = os.WriteFile(fmt.Sprintf("%s/case-%04d.txt", evDir, out.Cases), []byte(string(raw)+"\n"+strings.Join(c.Log(), "\n")+"\n"), 0o644)
		}
		if first == nil {
			out.Cases++
			out.Ops += c.Ops
			out.SimTimeS += c.SimTime.Seconds()
			for k, v := range c.Faults {
				out.Faults[k] += v
			}
			for k, v := range c.Probes {
				out.Probes[k] += v
			}
			if p.NonTrivial == nil || p.NonTrivial(sc, c) {
				nontrivial[dig] = struct{}{}
			}
			if keepDigests {
				out.CaseDigests = append(out.CaseDigests, dig+":"+c.Digest())
			}
			if out.Cases == sampleStep && len(out.Samples) < 4 {
				out.Samples = append(out.Samples, json.RawMessage(raw))
				sampleStep *= 7
			}
		}
		if first == nil {
			hits := c.KnownHits
			if v, ok := err.(*Violation); ok && c.Tolerate(v) {
				hits = c.KnownHits
				err = nil
			}
			for _, v := range hits {
				if out.Known == nil {
					out.Known = map[string]*knownOut{}
				}
				k := out.Known[v.Class]
				if k == nil {
					k = &knownOut{Class: v.Class, Msg: v.Msg, Scenario: raw}
					out.Known[v.Class] = k
				}
				k.Count++
			}
		} else if v, ok := err.(*Violation); ok && c.IsKnown(v.Class) {
			err = nil
		}
		if err == nil {
			return
		}
		v, ok := err.(*Violation)
		if !ok {
			harnessErr = err
			return
		}
		vo := &violationOut{
			Property: p.ID, Class: v.Class, Msg: v.Msg, Seed: seed, Worker: worker,
			Tier: tier, Digest: c.Digest(), Scenario: raw,
		}
		if first == nil {
			first = vo
		} else if v.Class != first.Class {
			// Shrinking must stay on the same failure.
			return
		}
		last = vo
		rt.Fatalf("VIOLATION %s", first.Class)
	}

	q := &quietTB{name: "verif-" + p.ID}
	func() {
		defer func() {
			if r := recover(); r != nil {
				if _, ok := r.(failNow); !ok {
					panic(r)
				}
			}
		}()
		setRapidFlags(seed, cases)
		rapid.Check(q, prop)
	}()
	_ = os.Remove(curPath)

	out.WallS = time.Since(start).Seconds()
	for d := range nontrivial {
		out.NonTrivial = append(out.NonTrivial, d)
	}
	sort.Strings(out.NonTrivial)
	for s := range states {
		out.States = append(out.States, strconv.FormatUint(s, 36))
	}
	sort.Strings(out.States)
	if harnessErr != nil {
		out.HarnessErr = harnessErr.Error()
	}
	if last != nil {
		last.Minimised = last != first
		if last != first {
			last.First = first
		}
		// Re-run the minimal case once with the log kept, for the replay file.
		sc := p.New()
		if err := json.Unmarshal(last.Scenario, sc); err == nil {
			c := newCtx(tier, nil)
			c.KeepLog = true
			_ = runCase(t, p, sc, c)
			last.EventLog = tailLines(c.Log(), 400)
		}
		out.Violation = last
	} else if q.failed && harnessErr == nil {
		out.HarnessErr = "rapid reported failure without a violation: " + strings.Join(q.msgs, "; ")
	}
	if err := writeJSON(filepath.Join(outDir, fmt.Sprintf("worker-%d.json", worker)), out); err != nil {
		t.Fatalf("writing worker output: %v", err)
	}
	switch {
	case out.HarnessErr != "":
		fmt.Printf("HARNESS-ERROR property=%s worker=%d %s\n", p.ID, worker, out.HarnessErr)
		os.Exit(2)
	case out.Violation != nil:
		fmt.Printf("WORKER-VIOLATION property=%s worker=%d class=%s\n", p.ID, worker, out.Violation.Class)
		os.Exit(1)
	}
}

func tailLines(l []string, n int) []string {
	if len(l) <= n {
		return l
	}
	return append([]string{fmt.Sprintf("... %d earlier lines omitted ...", len(l)-n)}, l[len(l)-n:]...)
}

// replayFile is the on-disk replay format (also what the driver writes).
type replayFile struct {
	Property string          `json:"property"`
	Class    string          `json:"class"`
	Msg      string          `json:"msg"`
	Seed     uint64          `json:"seed"`
	Tier     string          `json:"tier"`
	Digest   string          `json:"event_log_digest"`
	Scenario json.RawMessage `json:"scenario"`
}

func replay(t *testing.T, p *Property, path string) {
	b, err := os.ReadFile(path)
	if err != nil {
		fmt.Printf("HARNESS-ERROR reading replay: %v\n", err)
		os.Exit(2)
	}
	var rf replayFile
	if err = json.Unmarshal(b, &rf); err != nil {
		fmt.Printf("HARNESS-ERROR decoding replay: %v\n", err)
		os.Exit(2)
	}
	sc := p.New()
	if err = json.Unmarshal(rf.Scenario, sc); err != nil {
		fmt.Printf("HARNESS-ERROR decoding scenario: %v\n", err)
		os.Exit(2)
	}
	tier := rf.Tier
	if tier == "" {
		tier = "quick"
	}
	c := newCtx(tier, nil)
	c.KeepLog = true
	err = runCase(t, p, sc, c)
	if os.Getenv("VERIF_REPLAY_LOG") != "" {
		for _, l := range c.Log() {
			fmt.Println("  | " + l)
		}
	}
	if err == nil {
		fmt.Printf("REPLAY-RESULT property=%s outcome=pass digest=%s\n", p.ID, c.Digest())
		os.Exit(0)
	}
	v, ok := err.(*Violation)
	if !ok {
		fmt.Printf("HARNESS-ERROR property=%s %v\n", p.ID, err)
		os.Exit(2)
	}
	fmt.Printf("REPLAY-RESULT property=%s outcome=violation class=%s digest=%s\n", p.ID, v.Class, c.Digest())
	fmt.Printf("REPLAY-MSG %s\n", strings.ReplaceAll(v.Msg, "\n", "\n  "))
	os.Exit(1)
}
