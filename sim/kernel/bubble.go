package kernel

import (
	"fmt"
	"os"
	"path/filepath"
	"runtime/debug"
	"strings"
	"testing"
	"testing/synctest"
	"time"
)

// Epoch is the instant at which every bubble's fake clock starts.
var Epoch = time.Date(2000, 1, 1, 0, 0, 0, 0, time.UTC)

// Bubble runs f inside a synctest bubble (fake clock, quiescence detection)
// and returns f's error.  A panic in f's own goroutine becomes a violation of
// class "panic"; the end-of-bubble "goroutines remain blocked" panic of
// synctest becomes a harness error (the case leaked a goroutine, which is the
// harness's fault, not the system's).
func Bubble(t *testing.T, f func() error) (err error) {
	// synctest.Test calls t.FailNow (runtime.Goexit) when the bubble's inner
	// test has been marked failed — which the testing package does by itself
	// when the race detector has reported something during the bubble.  Run
	// it on its own goroutine so that this only ends that goroutine and the
	// kernel can go on and report.
	done := make(chan struct{})
	returned := make(chan error, 1)
	go func() {
		defer close(done)
		defer func() {
			if r := recover(); r != nil {
				if _, ok := r.(failNow); ok {
					err = fmt.Errorf("harness: rapid assertion inside a bubble")
					return
				}
				s := fmt.Sprint(r)
				if strings.Contains(s, "deadlock: main bubble goroutine has exited") {
					// A case that has found a deadlock of the system leaves
					// the deadlocked goroutines behind on purpose: its
					// verdict stands.
					if _, isV := err.(*Violation); !isV {
						err = fmt.Errorf("harness: bubble leaked goroutines: %s", s)
					}
					return
				}
				err = Violationf("panic", "%v\n%s", r, debug.Stack())
			}
		}()
		synctest.Test(t, func(t *testing.T) {
			defer func() {
				if r := recover(); r != nil {
					err = Violationf("panic", "%v\n%s", r, debug.Stack())
				}
			}()
			err = f()
			returned <- err
		})
	}()
	select {
	case <-done:
		return err
	case e := <-returned:
		// f is over; the bubble is waiting for its goroutines.  Goroutines of
		// a deadlocked system may never exit, nor block durably: a violation
		// does not wait for them for more than a moment.
		grace := 30 * time.Second
		if _, isV := e.(*Violation); isV {
			grace = 2 * time.Second
		}
		tm := time.NewTimer(grace)
		defer tm.Stop()
		select {
		case <-done:
			return err
		case <-tm.C:
			if e == nil {
				e = fmt.Errorf("harness: bubble did not wind down within %v", grace)
			}
			return e
		}
	}
}

// Wait blocks until every other goroutine of the bubble is durably blocked.
func Wait() { synctest.Wait() }

// SimNow returns the simulated time elapsed since the epoch.
func SimNow() time.Duration { return time.Since(Epoch) }

// TempDir creates a fresh per-case directory on tmpfs.  The caller removes it.
func TempDir(tag string) (string, error) {
	base := os.Getenv("VERIF_SCRATCH")
	if base == "" {
		base = "/dev/shm"
	}
	return os.MkdirTemp(base, "verif-"+tag+"-")
}

// CleanPath strips the per-case directory from s, so that paths can be put in
// event logs.
func CleanPath(dir, s string) string {
	return strings.ReplaceAll(s, dir, "$DIR")
}

// FileSize returns the size of the file or -1.
func FileSize(path string) int64 {
	fi, err := os.Stat(path)
	if err != nil {
		return -1
	}
	return fi.Size()
}

var _ = filepath.Join
