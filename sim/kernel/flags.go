package kernel

import (
	"flag"
	"os"
	"strconv"
)

// setRapidFlags points rapid at the worker's seed and case count.  rapid reads
// these from package-level flags registered in the test binary.
func setRapidFlags(seed uint64, cases int) {
	must := func(err error) {
		if err != nil {
			panic(err)
		}
	}
	must(flag.Set("rapid.seed", strconv.FormatUint(seed, 10)))
	must(flag.Set("rapid.checks", strconv.Itoa(cases)))
	must(flag.Set("rapid.nofailfile", "true"))
	shrink := os.Getenv("VERIF_SHRINK_S")
	if shrink == "" {
		shrink = "20"
	}
	must(flag.Set("rapid.shrinktime", shrink+"s"))
}
