// Package crashfs is engine E6: a disk model fed by the intercepted syscall
// stream of a helper process (strace), ALICE / CrashMonkey style.  It parses
// the trace, replays it into a model of a file tree (path -> inode, inode ->
// durable bytes + un-synced operations) and enumerates what a reader can see
// after every syscall and what can be on disk after a power loss at every
// syscall boundary.
//
// The model is the trusted base of property C14.  It is the standard
// pessimistic one: data written to a file is durable only after fsync /
// fdatasync of that file (until then any subset of its 4 KiB blocks and of its
// truncations may have reached the disk); directory operations (create,
// rename, unlink) become durable in the order issued, at or after - never
// before - the call, and nothing in the traced code makes them durable
// earlier.
package crashfs

import (
	"bufio"
	"fmt"
	"io"
	"regexp"
	"strconv"
	"strings"
)

// TraceSet is the -e trace= expression.  It contains every syscall the model
// interprets plus every syscall that could change file contents or names in a
// way the model does NOT interpret; the latter make Replay fail loudly when
// they touch the watched tree.
const TraceSet = "open,openat,openat2,creat,write,pwrite64,writev,pwritev,pwritev2,sendfile,copy_file_range,splice," +
	"fsync,fdatasync,sync,syncfs,sync_file_range,ftruncate,truncate,fallocate," +
	"rename,renameat,renameat2,unlink,unlinkat,link,linkat,symlink,symlinkat,close,fchmod,fchmodat,mkdir,mkdirat,rmdir,dup,dup2,dup3"

// Event is one completed syscall of the trace.
type Event struct {
	Line     int    // 1-based line of the completion in the trace file
	Tid      int    // 0 when strace ran without -f
	Name     string // syscall name
	Args     []string
	Ret      int64
	Errno    string // "" on success
	Injected bool
	// Ord is the 1-based ordinal of this call among the calls of the same
	// name made by the same tid since the start of the trace (what strace's
	// inject=...:when= counts).
	Ord int
}

func (e *Event) String() string {
	s := fmt.Sprintf("%s(%s) = %d", e.Name, strings.Join(e.Args, ", "), e.Ret)
	if e.Errno != "" {
		s += " " + e.Errno
	}
	if e.Injected {
		s += " (INJECTED)"
	}
	return s
}

var (
	reTid      = regexp.MustCompile(`^(\d+)\s+(.*)$`)
	reResumed  = regexp.MustCompile(`^<\.\.\. (\w+) resumed>\s?(.*)$`)
	reCallHead = regexp.MustCompile(`^(\w+)\((.*)$`)
	reResult   = regexp.MustCompile(`^(.*)\)\s+= (-?\d+|\?|0x[0-9a-f]+)(<[^>]*>)?(?: (E[A-Z0-9]+) \([^)]*\))?( \(INJECTED\))?\s*$`)
)

// Trace is a parsed strace output.
type Trace struct {
	Events []*Event
	// ExitCodes maps tid -> exit status seen in "+++ exited with N +++".
	ExitCodes map[int]int
	// Killed is set when a "+++ killed by" line was seen.
	Killed string
	// MainTid is the tid of the first line (the traced program's main thread).
	MainTid int
}

// Parse reads the output of `strace [-f] -y -s 0 -e trace=...`.
func Parse(r io.Reader) (*Trace, error) {
	tr := &Trace{ExitCodes: map[int]int{}}
	pending := map[int]string{} // tid -> text of the unfinished call
	ords := map[string]int{}
	sc := bufio.NewScanner(r)
	sc.Buffer(make([]byte, 1<<20), 1<<26)
	lineNo := 0
	first := true
	for sc.Scan() {
		lineNo++
		line := sc.Text()
		tid := 0
		if m := reTid.FindStringSubmatch(line); m != nil {
			tid, _ = strconv.Atoi(m[1])
			line = m[2]
		}
		if first {
			tr.MainTid = tid
			first = false
		}
		switch {
		case strings.HasPrefix(line, "+++ exited with "):
			n, _ := strconv.Atoi(strings.TrimSuffix(strings.TrimPrefix(line, "+++ exited with "), " +++"))
			tr.ExitCodes[tid] = n
			continue
		case strings.HasPrefix(line, "+++ killed by "):
			tr.Killed = line
			continue
		case strings.HasPrefix(line, "--- "), strings.HasPrefix(line, "+++ "):
			continue
		}
		if strings.HasSuffix(line, "<unfinished ...>") {
			pending[tid] = strings.TrimSuffix(line, "<unfinished ...>")
			continue
		}
		if m := reResumed.FindStringSubmatch(line); m != nil {
			head, ok := pending[tid]
			if !ok {
				return nil, fmt.Errorf("trace line %d: resumed call without start: %q", lineNo, line)
			}
			delete(pending, tid)
			line = head + m[2]
		}
		if strings.Contains(line, "<detached ...>") || strings.HasPrefix(line, "???(") {
			// "???() = ?": a thread that went away before strace learnt which
			// call it was in (process exit).
			continue
		}
		hm := reCallHead.FindStringSubmatch(line)
		if hm == nil {
			return nil, fmt.Errorf("trace line %d: unrecognised: %q", lineNo, line)
		}
		rm := reResult.FindStringSubmatch(hm[2])
		if rm == nil {
			return nil, fmt.Errorf("trace line %d: no result: %q", lineNo, line)
		}
		ev := &Event{Line: lineNo, Tid: tid, Name: hm[1], Args: splitArgs(rm[1])}
		if rm[2] == "?" {
			// The call never returned (process exited inside it).
			continue
		}
		v, err := strconv.ParseInt(rm[2], 0, 64)
		if err != nil {
			return nil, fmt.Errorf("trace line %d: result %q: %v", lineNo, rm[2], err)
		}
		ev.Ret = v
		ev.Errno = rm[4]
		ev.Injected = rm[5] != ""
		k := strconv.Itoa(tid) + "/" + ev.Name
		ords[k]++
		ev.Ord = ords[k]
		tr.Events = append(tr.Events, ev)
	}
	if err := sc.Err(); err != nil {
		return nil, err
	}
	return tr, nil
}

// splitArgs splits a strace argument list at top-level commas.
func splitArgs(s string) []string {
	var out []string
	depth := 0
	inStr := false
	start := 0
	for i := 0; i < len(s); i++ {
		c := s[i]
		if inStr {
			if c == '\\' {
				i++
			} else if c == '"' {
				inStr = false
			}
			continue
		}
		switch c {
		case '"':
			inStr = true
		case '<', '[', '{', '(':
			depth++
		case '>', ']', '}', ')':
			if depth > 0 {
				depth--
			}
		case ',':
			if depth == 0 {
				out = append(out, strings.TrimSpace(s[start:i]))
				start = i + 1
			}
		}
	}
	if t := strings.TrimSpace(s[start:]); t != "" || len(out) > 0 {
		out = append(out, t)
	}
	return out
}

// unquote returns the Go value of a strace string argument ("..." possibly
// followed by "..." when abbreviated).
func unquote(a string) (string, bool) {
	a = strings.TrimSuffix(a, "...")
	if len(a) < 2 || a[0] != '"' || a[len(a)-1] != '"' {
		return "", false
	}
	s, err := strconv.Unquote(a)
	if err != nil {
		return "", false
	}
	return s, true
}

// fdArg splits `7</path/to/file>` into 7 and the path annotation.
func fdArg(a string) (fd int, path string, ok bool) {
	i := strings.IndexByte(a, '<')
	num := a
	if i >= 0 {
		num = a[:i]
		path = strings.TrimSuffix(a[i+1:], ">")
		path = strings.TrimSuffix(path, " (deleted)")
	}
	if num == "AT_FDCWD" {
		return -100, "", true
	}
	n, err := strconv.Atoi(num)
	if err != nil {
		return 0, "", false
	}
	return n, path, true
}
