package crashfs

import (
	"bytes"
	"fmt"
	"path/filepath"
	"sort"
	"strconv"
	"strings"
)

// BlockSize is the granularity at which un-synced file data may or may not
// have reached the disk.
const BlockSize = 4096

// MarkerDir is the (non-existent) directory whose openat(2) attempts the
// helper uses to mark phases in the trace.
const MarkerDir = "/verif-crashfs-marker"

// pendOp is one un-synced operation on an inode at block granularity.
type pendOp struct {
	trunc bool
	size  int64 // trunc: new size
	off   int64 // write: offset
	data  []byte
}

// Inode is one regular file of the model.
type Inode struct {
	ID int
	// Durable is the content guaranteed to be on disk (as of the last fsync).
	Durable []byte
	// Cache is the content a reader sees now (every operation applied).
	Cache []byte
	// pend lists the operations since the last fsync, in order.
	pend []pendOp
	// Gen changes whenever Durable, Cache or pend change.
	Gen int
	// Born is the index of the event that created the inode (-1: initial).
	Born int
}

type dirOp struct {
	kind     string // link | rename | unlink
	path, to string
	ino      int
}

type openFile struct {
	ino    int
	off    int64
	app    bool
	isDir  bool
	wr     bool
	path   string
}

// Disk is the model of the watched part of the file system.
type Disk struct {
	roots []string

	inodes []*Inode
	// initial is the namespace before the trace started (all durable).
	initial map[string]int
	// ns is the current (cache) namespace.
	ns map[string]int
	// journal lists the directory operations issued so far, in order.
	journal []dirOp
	// durableDirOps is the journal prefix known to be durable.
	durableDirOps int
	// NsGen changes whenever the namespace changes.
	NsGen int

	fds map[int]*openFile

	// Content returns the bytes of a write of n bytes at offset off into the
	// inode (the trace carries no payloads).
	Content func(ino *Inode, off, n int64) ([]byte, error)
	// Capture is set when the trace was recorded with a string limit larger
	// than every write (strace -s): the payload of each write is then taken
	// from the trace itself and Content is not consulted.
	Capture bool
}

// NewDisk returns a model watching every path under one of roots, with the
// given initial (durable) files.
func NewDisk(roots []string, initial map[string][]byte) *Disk {
	d := &Disk{roots: roots, initial: map[string]int{}, ns: map[string]int{}, fds: map[int]*openFile{}}
	paths := make([]string, 0, len(initial))
	for p := range initial {
		paths = append(paths, p)
	}
	sort.Strings(paths)
	for _, p := range paths {
		ino := d.newInode(-1)
		ino.Durable = append([]byte(nil), initial[p]...)
		ino.Cache = append([]byte(nil), initial[p]...)
		d.initial[p] = ino.ID
		d.ns[p] = ino.ID
	}
	return d
}

func (d *Disk) newInode(born int) *Inode {
	ino := &Inode{ID: len(d.inodes), Born: born}
	d.inodes = append(d.inodes, ino)
	return ino
}

// Watched reports whether path is inside the modelled tree.
func (d *Disk) Watched(path string) bool {
	for _, r := range d.roots {
		if path == r || strings.HasPrefix(path, r+"/") {
			return true
		}
	}
	return false
}

// Inode returns the inode with the given id.
func (d *Disk) Inode(id int) *Inode { return d.inodes[id] }

// Lookup returns the inode currently visible at path (cache view).
func (d *Disk) Lookup(path string) (*Inode, bool) {
	id, ok := d.ns[path]
	if !ok {
		return nil, false
	}
	return d.inodes[id], true
}

// Paths returns the current namespace, sorted.
func (d *Disk) Paths() []string {
	out := make([]string, 0, len(d.ns))
	for p := range d.ns {
		out = append(out, p)
	}
	sort.Strings(out)
	return out
}

// JournalLen is the number of directory operations issued so far.
func (d *Disk) JournalLen() int { return len(d.journal) }

// Candidates returns, for a power loss now, every inode the path may resolve
// to: one per durable prefix of the directory-operation journal (-1 stands
// for "no such file").  The result is sorted and free of duplicates.
func (d *Disk) Candidates(path string) []int {
	ns := map[string]int{}
	for p, id := range d.initial {
		ns[p] = id
	}
	seen := map[int]bool{}
	note := func() {
		if id, ok := ns[path]; ok {
			seen[id] = true
		} else {
			seen[-1] = true
		}
	}
	for j := 0; j <= len(d.journal); j++ {
		if j > 0 {
			applyDirOp(ns, d.journal[j-1])
		}
		if j >= d.durableDirOps {
			note()
		}
	}
	out := make([]int, 0, len(seen))
	for id := range seen {
		out = append(out, id)
	}
	sort.Ints(out)
	return out
}

func applyDirOp(ns map[string]int, op dirOp) {
	switch op.kind {
	case "link":
		ns[op.path] = op.ino
	case "unlink":
		delete(ns, op.path)
	case "rename":
		if id, ok := ns[op.path]; ok {
			delete(ns, op.path)
			ns[op.to] = id
		}
	}
}

func (d *Disk) dirOp(op dirOp) {
	d.journal = append(d.journal, op)
	applyDirOp(d.ns, op)
	d.NsGen++
}

func (ino *Inode) write(off int64, data []byte) {
	end := off + int64(len(data))
	if int64(len(ino.Cache)) < end {
		ino.Cache = append(ino.Cache, make([]byte, end-int64(len(ino.Cache)))...)
	}
	copy(ino.Cache[off:end], data)
	// Split at block boundaries: each piece may reach the disk on its own.
	for len(data) > 0 {
		n := BlockSize - int(off%BlockSize)
		if n > len(data) {
			n = len(data)
		}
		ino.pend = append(ino.pend, pendOp{off: off, data: data[:n:n]})
		off += int64(n)
		data = data[n:]
	}
	ino.Gen++
}

func (ino *Inode) truncate(size int64) {
	if int64(len(ino.Cache)) > size {
		ino.Cache = ino.Cache[:size:size]
	} else {
		ino.Cache = append(ino.Cache, make([]byte, size-int64(len(ino.Cache)))...)
	}
	ino.pend = append(ino.pend, pendOp{trunc: true, size: size})
	ino.Gen++
}

func (ino *Inode) sync() {
	ino.Durable = append([]byte(nil), ino.Cache...)
	ino.pend = nil
	ino.Gen++
}

// PendingOps is the number of un-synced block operations of the inode.
func (ino *Inode) PendingOps() int { return len(ino.pend) }

// CrashState builds the on-disk content of the inode after a power loss in
// which exactly the un-synced operations selected by keep (by index, in order)
// reached the disk.
func (ino *Inode) CrashState(keep func(i int) bool) []byte {
	st := append([]byte(nil), ino.Durable...)
	for i, op := range ino.pend {
		if !keep(i) {
			continue
		}
		if op.trunc {
			if int64(len(st)) > op.size {
				st = st[:op.size]
			} else {
				st = append(st, make([]byte, op.size-int64(len(st)))...)
			}
			continue
		}
		end := op.off + int64(len(op.data))
		if int64(len(st)) < end {
			st = append(st, make([]byte, end-int64(len(st)))...)
		}
		copy(st[op.off:end], op.data)
	}
	return st
}

// Effect describes what Apply did with an event.
type Effect struct {
	// Touched is true when the event changed the model (data or namespace) or
	// was a sync.
	Touched bool
	// Desc is a normalised one-line description for event logs ("" when the
	// event does not concern the watched tree).
	Desc string
	// Marker is the text of a phase marker issued by the helper.
	Marker string
}

// Norm rewrites watched paths for logs.
type Norm func(path string) string

func flagsHave(flags, f string) bool {
	for _, x := range strings.Split(flags, "|") {
		if x == f {
			return true
		}
	}
	return false
}

func (d *Disk) resolve(dirArg, pathArg string) (string, bool) {
	p, ok := unquote(pathArg)
	if !ok {
		return "", false
	}
	if filepath.IsAbs(p) {
		return filepath.Clean(p), true
	}
	_, dirPath, ok := fdArg(dirArg)
	if !ok || dirPath == "" {
		return "", false
	}
	return filepath.Join(dirPath, p), true
}

// Apply replays one event of index idx into the model.  An event the model
// cannot interpret that touches the watched tree is an error (harness
// trouble, never a verdict).
func (d *Disk) Apply(idx int, ev *Event, norm Norm) (Effect, error) {
	var eff Effect
	failed := ev.Errno != ""
	res := func() string {
		if failed {
			s := "-" + ev.Errno
			if ev.Injected {
				s += "(injected)"
			}
			return s
		}
		return "ok"
	}
	arg := func(i int) string {
		if i < len(ev.Args) {
			return ev.Args[i]
		}
		return ""
	}
	fdOf := func(i int) (int, *openFile) {
		fd, apath, ok := fdArg(arg(i))
		if !ok {
			return -1, nil
		}
		of := d.fds[fd]
		if of != nil && apath != "" && !d.Watched(apath) {
			// strace's own decoding (-y) says that this descriptor is
			// something outside the watched tree now: its close was not seen
			// (another, untraced thread - e.g. a finalizer - closed it) and
			// the number has been reused.
			delete(d.fds, fd)
			return fd, nil
		}
		return fd, of
	}
	unsupported := func(what string) (Effect, error) {
		return eff, fmt.Errorf("crashfs: syscall not interpreted by the disk model touches the watched tree (%s): %s", what, ev)
	}

	switch ev.Name {
	case "openat", "open", "creat", "openat2":
		var path, flags string
		var ok bool
		switch ev.Name {
		case "openat":
			path, ok = d.resolve(arg(0), arg(1))
			flags = arg(2)
		case "open":
			path, ok = d.resolve("AT_FDCWD", arg(0))
			flags = arg(1)
		case "creat":
			path, ok = d.resolve("AT_FDCWD", arg(0))
			flags = "O_WRONLY|O_CREAT|O_TRUNC"
		default:
			path, ok = d.resolve(arg(0), arg(1))
			if ok && d.Watched(path) {
				return unsupported("openat2")
			}
			return eff, nil
		}
		if !failed {
			// Whatever this number meant before, it is a new file now.
			delete(d.fds, int(ev.Ret))
		}
		if !ok {
			return eff, nil
		}
		if strings.HasPrefix(path, MarkerDir+"/") {
			eff.Marker = strings.TrimPrefix(path, MarkerDir+"/")
			return eff, nil
		}
		if !d.Watched(path) {
			return eff, nil
		}
		wr := flagsHave(flags, "O_WRONLY") || flagsHave(flags, "O_RDWR")
		mode := "r"
		if wr {
			mode = "w"
		}
		for _, f := range []string{"O_CREAT", "O_EXCL", "O_TRUNC", "O_APPEND", "O_DIRECTORY"} {
			if flagsHave(flags, f) {
				mode += "," + strings.ToLower(strings.TrimPrefix(f, "O_"))
			}
		}
		if flagsHave(flags, "O_TMPFILE") || flagsHave(flags, "O_PATH") {
			return unsupported("open flags " + flags)
		}
		eff.Desc = fmt.Sprintf("open %s [%s] %s", norm(path), mode, res())
		if failed {
			return eff, nil
		}
		of := &openFile{path: path, wr: wr, app: flagsHave(flags, "O_APPEND")}
		ino, exists := d.Lookup(path)
		switch {
		case flagsHave(flags, "O_DIRECTORY") || (!exists && !flagsHave(flags, "O_CREAT")):
			// A directory (or something outside the model's knowledge).
			of.isDir = true
			of.ino = -1
		case !exists:
			ino = d.newInode(idx)
			d.dirOp(dirOp{kind: "link", path: path, ino: ino.ID})
			of.ino = ino.ID
			eff.Touched = true
		default:
			of.ino = ino.ID
			if flagsHave(flags, "O_TRUNC") && wr && len(ino.Cache) > 0 {
				ino.truncate(0)
				eff.Touched = true
			} else if flagsHave(flags, "O_TRUNC") && wr {
				// Truncating an empty file changes nothing.
				eff.Touched = false
			}
		}
		d.fds[int(ev.Ret)] = of
		return eff, nil

	case "close":
		fd, of := fdOf(0)
		if of == nil {
			return eff, nil
		}
		if _, apath, _ := fdArg(arg(0)); apath != "" && d.Watched(apath) && apath != of.path {
			// With several traced threads, a close and the open that reuses
			// its number can be reported in either order.  strace decoded
			// the descriptor when the close was entered: if that is not the
			// file the model has under this number, the number already
			// belongs to a newer open and the mapping stays.
			if id, ok := d.ns[apath]; !ok || id != of.ino {
				eff.Desc = fmt.Sprintf("close %s %s", norm(apath), res())
				return eff, nil
			}
		}
		eff.Desc = fmt.Sprintf("close %s %s", norm(of.path), res())
		// The descriptor is released even when close reports an error.
		delete(d.fds, fd)
		return eff, nil

	case "write", "pwrite64":
		_, of := fdOf(0)
		if of == nil {
			return eff, nil
		}
		if of.isDir || of.ino < 0 {
			return unsupported("write to a non-file")
		}
		ino := d.inodes[of.ino]
		off := of.off
		if ev.Name == "pwrite64" {
			v, err := strconv.ParseInt(arg(3), 0, 64)
			if err != nil {
				return unsupported("pwrite64 offset")
			}
			off = v
		} else if of.app {
			off = int64(len(ino.Cache))
		}
		want, _ := strconv.ParseInt(arg(2), 0, 64)
		eff.Desc = fmt.Sprintf("%s %s off=%d len=%d -> %s", ev.Name, norm(of.path), off, want, res())
		if failed {
			return eff, nil
		}
		n := ev.Ret
		if n != want {
			eff.Desc += fmt.Sprintf(" short=%d", n)
		}
		if n > 0 {
			var data []byte
			if d.Capture {
				str, ok := unquote(arg(1))
				if !ok || int64(len(str)) < n {
					return eff, fmt.Errorf("crashfs: cannot decode the payload of a %d-byte write to %s (got %d bytes, decoded=%v)", n, norm(of.path), len(str), ok)
				}
				data = []byte(str[:n])
			} else {
				var err error
				data, err = d.Content(ino, off, n)
				if err != nil {
					return eff, err
				}
			}
			ino.write(off, data)
			eff.Touched = true
		}
		if ev.Name == "write" {
			of.off = off + n
		}
		return eff, nil

	case "ftruncate":
		_, of := fdOf(0)
		if of == nil {
			return eff, nil
		}
		size, err := strconv.ParseInt(arg(1), 0, 64)
		if err != nil || of.ino < 0 {
			return unsupported("ftruncate")
		}
		eff.Desc = fmt.Sprintf("ftruncate %s size=%d %s", norm(of.path), size, res())
		if !failed {
			d.inodes[of.ino].truncate(size)
			eff.Touched = true
		}
		return eff, nil

	case "fsync", "fdatasync":
		_, of := fdOf(0)
		if of == nil {
			return eff, nil
		}
		eff.Desc = fmt.Sprintf("%s %s %s", ev.Name, norm(of.path), res())
		if failed {
			return eff, nil
		}
		eff.Touched = true
		if of.isDir || of.ino < 0 {
			// Syncing a directory commits the directory operations so far.
			d.durableDirOps = len(d.journal)
			d.NsGen++
			return eff, nil
		}
		d.inodes[of.ino].sync()
		return eff, nil

	case "rename", "renameat", "renameat2":
		var from, to string
		var ok1, ok2 bool
		if ev.Name == "rename" {
			from, ok1 = d.resolve("AT_FDCWD", arg(0))
			to, ok2 = d.resolve("AT_FDCWD", arg(1))
		} else {
			from, ok1 = d.resolve(arg(0), arg(1))
			to, ok2 = d.resolve(arg(2), arg(3))
		}
		if !ok1 || !ok2 || (!d.Watched(from) && !d.Watched(to)) {
			return eff, nil
		}
		if ev.Name == "renameat2" && arg(4) != "0" && arg(4) != "" {
			return unsupported("renameat2 flags")
		}
		eff.Desc = fmt.Sprintf("rename %s -> %s %s", norm(from), norm(to), res())
		if failed {
			return eff, nil
		}
		if _, ok := d.ns[from]; !ok {
			// Renaming something the model does not know (a directory or a
			// file from outside the watched tree).
			if d.Watched(from) && d.Watched(to) {
				return unsupported("rename of an unknown file")
			}
			return unsupported("rename across the watched boundary")
		}
		d.dirOp(dirOp{kind: "rename", path: from, to: to})
		eff.Touched = true
		return eff, nil

	case "unlink", "unlinkat":
		var path string
		var ok bool
		if ev.Name == "unlink" {
			path, ok = d.resolve("AT_FDCWD", arg(0))
		} else {
			path, ok = d.resolve(arg(0), arg(1))
		}
		if !ok || !d.Watched(path) {
			return eff, nil
		}
		eff.Desc = fmt.Sprintf("unlink %s %s", norm(path), res())
		if failed {
			return eff, nil
		}
		if _, ok = d.ns[path]; ok {
			d.dirOp(dirOp{kind: "unlink", path: path})
			eff.Touched = true
		}
		return eff, nil

	case "fchmod":
		_, of := fdOf(0)
		if of == nil {
			return eff, nil
		}
		eff.Desc = fmt.Sprintf("fchmod %s %s %s", norm(of.path), arg(1), res())
		return eff, nil

	case "fchmodat":
		path, ok := d.resolve(arg(0), arg(1))
		if !ok || !d.Watched(path) {
			return eff, nil
		}
		eff.Desc = fmt.Sprintf("chmod %s %s %s", norm(path), arg(2), res())
		return eff, nil

	case "mkdir", "mkdirat", "rmdir":
		var path string
		var ok bool
		if ev.Name == "mkdirat" {
			path, ok = d.resolve(arg(0), arg(1))
		} else {
			path, ok = d.resolve("AT_FDCWD", arg(0))
		}
		if !ok || !d.Watched(path) {
			return eff, nil
		}
		eff.Desc = fmt.Sprintf("%s %s %s", ev.Name, norm(path), res())
		if !failed {
			// Directories are created by the parent before the trace starts;
			// the model does not follow directory creation or removal.
			return unsupported("directory created or removed during the trace")
		}
		return eff, nil

	case "sync", "syncfs":
		if failed {
			return eff, nil
		}
		for _, ino := range d.inodes {
			if len(ino.pend) > 0 {
				ino.sync()
			}
		}
		d.durableDirOps = len(d.journal)
		d.NsGen++
		eff.Touched = true
		eff.Desc = ev.Name + " ok"
		return eff, nil

	case "dup", "dup2", "dup3":
		if _, of := fdOf(0); of != nil && !failed {
			return unsupported("dup of a watched descriptor")
		}
		return eff, nil

	case "truncate", "link", "symlink":
		for _, i := range []int{0, 1} {
			if p, ok := d.resolve("AT_FDCWD", arg(i)); ok && d.Watched(p) && !failed {
				return unsupported(ev.Name)
			}
		}
		return eff, nil

	case "linkat", "symlinkat":
		for _, a := range ev.Args {
			if p, ok := unquote(a); ok && d.Watched(filepath.Clean(p)) && !failed {
				return unsupported(ev.Name)
			}
		}
		return eff, nil

	case "writev", "pwritev", "pwritev2", "fallocate", "sync_file_range":
		if _, of := fdOf(0); of != nil && !failed {
			return unsupported(ev.Name)
		}
		return eff, nil

	case "sendfile", "copy_file_range", "splice":
		for _, i := range []int{0, 2} {
			if _, of := fdOf(i); of != nil && of.wr && !failed {
				return unsupported(ev.Name)
			}
		}
		return eff, nil
	}
	return eff, nil
}

// Equal reports whether the two contents are the same bytes.
func Equal(a, b []byte) bool { return len(a) == len(b) && bytes.Equal(a, b) }
