package crashfs

import "sort"

// CandidateTuples is Candidates for several paths at once: for a power loss
// now, every combination of inodes the paths may resolve to TOGETHER - one
// tuple per durable prefix of the directory-operation journal (-1 stands for
// "no such file").  The result is sorted and free of duplicates.  It is what
// a store that lives in more than one file (a legacy file and its successor)
// needs: the files are judged as a set, not one by one.
func (d *Disk) CandidateTuples(paths ...string) [][]int {
	ns := map[string]int{}
	for p, id := range d.initial {
		ns[p] = id
	}
	var out [][]int
	note := func() {
		tup := make([]int, len(paths))
		for i, p := range paths {
			if id, ok := ns[p]; ok {
				tup[i] = id
			} else {
				tup[i] = -1
			}
		}
		for _, o := range out {
			same := true
			for i := range o {
				if o[i] != tup[i] {
					same = false
					break
				}
			}
			if same {
				return
			}
		}
		out = append(out, tup)
	}
	for j := 0; j <= len(d.journal); j++ {
		if j > 0 {
			applyDirOp(ns, d.journal[j-1])
		}
		if j >= d.durableDirOps {
			note()
		}
	}
	sort.Slice(out, func(a, b int) bool {
		for i := range out[a] {
			if out[a][i] != out[b][i] {
				return out[a][i] < out[b][i]
			}
		}
		return false
	})
	return out
}
