package env

import (
	"fmt"
	"sync"
	"time"

	"github.com/miekg/dns"
)

// Exchange is one question the node sent to a simulated upstream.
type Exchange struct {
	Seq   uint64 // request sequence number current when it was sent
	Name  string
	Qtype uint16
	Fault string
}

// UpstreamFault is what the simulated upstream does to one exchange.
type UpstreamFault string

// Upstream fault kinds.
const (
	UpOK       UpstreamFault = ""
	UpError    UpstreamFault = "upstream_error"
	UpTimeout  UpstreamFault = "upstream_timeout"
	UpServfail UpstreamFault = "upstream_servfail"
	UpSlow     UpstreamFault = "upstream_slow"
)

// Upstream is a simulated upstream resolver (implements upstream.Upstream).
// Its answers come from Answer; its faults from NextFault; every exchange is
// logged with the sequence number of the client request being processed.
type Upstream struct {
	Addr string
	// Answer builds the reply for a request (never nil result unless it wants
	// the stub to return an error).
	Answer func(req *dns.Msg) *dns.Msg
	// NextFault, if not nil, is asked once per exchange.
	NextFault func(req *dns.Msg) UpstreamFault
	// Timeout is how long a timed-out exchange sleeps (simulated) before
	// failing; Slow is the latency of a slow one.
	Timeout time.Duration
	Slow    time.Duration
	// Latency is added to every exchange.
	Latency time.Duration
	// OnExchange, if set, is called at the start of every exchange (a
	// scheduling point for a cooperative scheduler).
	OnExchange func()

	mu  sync.Mutex
	seq uint64
	log []Exchange
	// OnFault is called when a fault fires.
	OnFault func(kind string)
}

// SetSeq sets the sequence number attached to subsequent exchanges.
func (u *Upstream) SetSeq(seq uint64) {
	u.mu.Lock()
	defer u.mu.Unlock()
	u.seq = seq
}

// Since returns the exchanges logged from index n on.
func (u *Upstream) Since(n int) []Exchange {
	u.mu.Lock()
	defer u.mu.Unlock()
	return append([]Exchange(nil), u.log[n:]...)
}

// Len returns the number of exchanges so far.
func (u *Upstream) Len() int {
	u.mu.Lock()
	defer u.mu.Unlock()
	return len(u.log)
}

// Exchange implements upstream.Upstream.
func (u *Upstream) Exchange(req *dns.Msg) (resp *dns.Msg, err error) {
	var fault UpstreamFault
	if u.NextFault != nil {
		fault = u.NextFault(req)
	}
	q := req.Question[0]
	u.mu.Lock()
	u.log = append(u.log, Exchange{Seq: u.seq, Name: q.Name, Qtype: q.Qtype, Fault: string(fault)})
	u.mu.Unlock()
	if fault != UpOK && u.OnFault != nil {
		u.OnFault(string(fault))
	}
	if u.OnExchange != nil {
		u.OnExchange()
	}
	if u.Latency > 0 {
		time.Sleep(u.Latency)
	}
	switch fault {
	case UpError:
		return nil, fmt.Errorf("simulated upstream %s: connection refused", u.Addr)
	case UpTimeout:
		time.Sleep(u.Timeout)
		return nil, fmt.Errorf("simulated upstream %s: i/o timeout", u.Addr)
	case UpServfail:
		m := new(dns.Msg)
		m.SetRcode(req, dns.RcodeServerFailure)
		return m, nil
	case UpSlow:
		time.Sleep(u.Slow)
	}
	resp = u.Answer(req)
	if resp == nil {
		return nil, fmt.Errorf("simulated upstream %s: no answer", u.Addr)
	}
	return resp, nil
}

// Address implements upstream.Upstream.
func (u *Upstream) Address() string { return u.Addr }

// Close implements upstream.Upstream.
func (u *Upstream) Close() error { return nil }

// MarkerTTL is the TTL of every record a simulated upstream produces, so that
// upstream data is recognisable in client replies.
const MarkerTTL = 4242

// DefaultAnswer answers A with 203.0.113.x, AAAA with 2001:db8::x, and other
// types with a marker TXT, where x derives from the name.
func DefaultAnswer(req *dns.Msg) *dns.Msg {
	m := new(dns.Msg)
	m.SetReply(req)
	q := req.Question[0]
	var x byte = 1
	for i := 0; i < len(q.Name); i++ {
		ch := q.Name[i]
		if ch >= 'A' && ch <= 'Z' {
			ch += 32 // the answer does not depend on the letter case of the question
		}
		x = x*31 + ch
	}
	hdr := dns.RR_Header{Name: q.Name, Rrtype: q.Qtype, Class: dns.ClassINET, Ttl: MarkerTTL}
	switch q.Qtype {
	case dns.TypeA:
		m.Answer = append(m.Answer, &dns.A{Hdr: hdr, A: []byte{203, 0, 113, x}})
	case dns.TypeAAAA:
		m.Answer = append(m.Answer, &dns.AAAA{Hdr: hdr, AAAA: []byte{0x20, 0x01, 0x0d, 0xb8, 0, 0, 0, 0, 0, 0, 0, 0, 0, 0, 0, x}})
	case dns.TypeTXT:
		m.Answer = append(m.Answer, &dns.TXT{Hdr: hdr, Txt: []string{"upstream-marker"}})
	case dns.TypeMX:
		m.Answer = append(m.Answer, &dns.MX{Hdr: hdr, Preference: 10, Mx: "mx.upstream-marker.invalid."})
	case dns.TypeCNAME:
		m.Answer = append(m.Answer, &dns.CNAME{Hdr: hdr, Target: "cname.upstream-marker.invalid."})
	case dns.TypePTR:
		m.Answer = append(m.Answer, &dns.PTR{Hdr: hdr, Ptr: "ptr.upstream-marker.invalid."})
	case dns.TypeHTTPS:
		m.Answer = append(m.Answer, &dns.HTTPS{SVCB: dns.SVCB{Hdr: hdr, Priority: 1, Target: "."}})
	}
	return m
}
