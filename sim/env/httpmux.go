// Package env holds the simulated peers of the node: admin client (HTTP mux),
// upstream resolvers, list server, DHCP clients, DNS clients.
package env

import (
	"bytes"
	"context"
	"fmt"
	"io"
	"net/http"
	"net/http/httptest"
	"sort"
	"strings"
)

// Route is one registration seen by the recording register function.
type Route struct {
	Method  string
	Path    string
	Handler http.HandlerFunc
}

// Mux is the admin API of a component as registered through its
// aghhttp.RegisterFunc, driven in-process with a ResponseRecorder.
type Mux struct {
	routes map[string]Route
	order  []string
}

// NewMux returns an empty mux.
func NewMux() *Mux { return &Mux{routes: map[string]Route{}} }

// Register is an aghhttp.RegisterFunc.
func (m *Mux) Register(method, path string, h http.HandlerFunc) {
	k := method + " " + path
	if _, ok := m.routes[k]; !ok {
		m.order = append(m.order, k)
	}
	m.routes[k] = Route{Method: method, Path: path, Handler: h}
}

// Routes lists the registered routes, sorted.
func (m *Mux) Routes() []Route {
	keys := append([]string(nil), m.order...)
	sort.Strings(keys)
	out := make([]Route, 0, len(keys))
	for _, k := range keys {
		out = append(out, m.routes[k])
	}
	return out
}

// Do sends one request to the handler registered for method and the path part
// of target (which may carry a query string) and returns status and body.  A
// panic in the handler is returned as an error so that the caller can report it.
func (m *Mux) Do(method, target string, body []byte) (status int, respBody []byte, err error) {
	path := target
	if i := strings.IndexByte(path, '?'); i >= 0 {
		path = path[:i]
	}
	rt, ok := m.routes[method+" "+path]
	if !ok {
		return 0, nil, fmt.Errorf("harness: no route %s %s", method, path)
	}
	var rd io.Reader
	if body != nil {
		rd = bytes.NewReader(body)
	}
	req := httptest.NewRequest(method, target, rd).WithContext(context.Background())
	if body != nil {
		req.Header.Set("Content-Type", "application/json")
	}
	rec := httptest.NewRecorder()
	defer func() {
		if r := recover(); r != nil {
			err = &HandlerPanic{Route: method + " " + path, Value: r}
		}
	}()
	rt.Handler(rec, req)
	return rec.Code, rec.Body.Bytes(), nil
}

// HandlerPanic is the error Do returns when the handler panicked.
type HandlerPanic struct {
	Route string
	Value any
}

func (p *HandlerPanic) Error() string {
	return fmt.Sprintf("handler %s panicked: %v", p.Route, p.Value)
}
