package env

import (
	"bytes"
	"fmt"
	"io"
	"net/http"
	"sync"
)

// ListServer is a simulated filter-list HTTP server (an http.RoundTripper):
// URL -> current body.  A URL that is not present answers 404.
type ListServer struct {
	mu       sync.Mutex
	Content  map[string]string
	Requests []string
	// Fail, if set, is consulted first; returning a non-nil error makes the
	// round trip fail like a refused connection.
	Fail func(url string) error
}

// NewListServer returns an empty list server.
func NewListServer() *ListServer { return &ListServer{Content: map[string]string{}} }

// Set publishes body under url.
func (s *ListServer) Set(url, body string) {
	s.mu.Lock()
	defer s.mu.Unlock()
	s.Content[url] = body
}

// RoundTrip implements http.RoundTripper.
func (s *ListServer) RoundTrip(r *http.Request) (*http.Response, error) {
	u := r.URL.String()
	s.mu.Lock()
	s.Requests = append(s.Requests, u)
	body, ok := s.Content[u]
	fail := s.Fail
	s.mu.Unlock()
	if r.URL.Scheme != "http" && r.URL.Scheme != "https" {
		return nil, fmt.Errorf("unsupported protocol scheme %q", r.URL.Scheme)
	}
	if fail != nil {
		if err := fail(u); err != nil {
			return nil, err
		}
	}
	resp := &http.Response{
		Proto: "HTTP/1.1", ProtoMajor: 1, ProtoMinor: 1, Request: r,
		Header: http.Header{"Content-Type": []string{"text/plain"}},
	}
	if !ok {
		resp.StatusCode, resp.Status = 404, "404 Not Found"
		resp.Body = io.NopCloser(bytes.NewReader(nil))
		return resp, nil
	}
	resp.StatusCode, resp.Status = 200, "200 OK"
	resp.ContentLength = int64(len(body))
	resp.Body = io.NopCloser(bytes.NewReader([]byte(body)))
	return resp, nil
}
