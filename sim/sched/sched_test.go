package sched

import (
	"sync"
	"testing"
	"testing/synctest"
	"time"

	"github.com/AdguardTeam/AdGuardHome/internal/verifyield"
)

func lock(m *sync.Mutex)    { verifyield.Acquire(m.TryLock, m.Lock, "t.m") }
func wlock(m *sync.RWMutex) { verifyield.Acquire(m.TryLock, m.Lock, "t.m") }
func rlock(m *sync.RWMutex) { verifyield.AcquireR(m.TryRLock, m.RLock, "t.m") }

func TestABBA(t *testing.T) {
	Init()
	found, clean := 0, 0
	for seed := uint64(0); seed < 40; seed++ {
		func() {
			defer func() { recover() }()
			synctest.Test(t, func(t *testing.T) {
				var a, b sync.Mutex
				res := Run(seed, 50, []string{"ab", "ba"}, []func(){
					func() { lock(&a); verifyield.Sleep(time.Millisecond); lock(&b); b.Unlock(); a.Unlock() },
					func() { lock(&b); lock(&a); a.Unlock(); b.Unlock() },
				})
				if res.Deadlock != "" {
					found++
					if seed < 3 {
						t.Logf("seed %d: %s\n%s switches=%d", seed, res.Deadlock, res.Detail, res.Switches)
					}
				} else {
					clean++
				}
			})
		}()
	}
	t.Logf("deadlocks %d clean %d", found, clean)
	if found == 0 || clean == 0 {
		t.Fatal("expected both outcomes")
	}
}

func TestRecursiveRLock(t *testing.T) {
	Init()
	found := 0
	for seed := uint64(0); seed < 40; seed++ {
		var m sync.RWMutex
		res := Run(seed, 50, []string{"reader", "writer"}, []func(){
			func() { rlock(&m); rlock(&m); m.RUnlock(); m.RUnlock() },
			func() { wlock(&m); m.Unlock() },
		})
		if res.Deadlock != "" {
			found++
		}
	}
	t.Logf("deadlocks %d/40", found)
	if found == 0 || found == 40 {
		t.Fatal("expected some")
	}
}

func TestDeterministic(t *testing.T) {
	Init()
	run := func(seed uint64) []int {
		var m sync.Mutex
		var order []int
		var fns []func()
		var names []string
		for i := 0; i < 5; i++ {
			names = append(names, "t")
			fns = append(fns, func() {
				for k := 0; k < 5; k++ {
					lock(&m)
					order = append(order, i)
					m.Unlock()
				}
			})
		}
		Run(seed, 40, names, fns)
		return order
	}
	distinct := map[string]bool{}
	for seed := uint64(1); seed < 30; seed++ {
		a, b := run(seed), run(seed)
		if len(a) != 25 {
			t.Fatalf("len %d", len(a))
		}
		for i := range a {
			if a[i] != b[i] {
				t.Fatalf("seed %d differs", seed)
			}
		}
		s := ""
		for _, x := range a {
			s += string(rune('0' + x))
		}
		distinct[s] = true
	}
	t.Logf("distinct orders %d/29", len(distinct))
}

// A token holder stuck on an uninstrumented mutex held by a parked task: the
// monitor must release the other task.
func TestEscape(t *testing.T) {
	Init()
	synctest.Test(t, func(t *testing.T) {
		var lib sync.Mutex // not instrumented
		var m sync.Mutex
		got := false
		for seed := uint64(0); seed < 20 && !got; seed++ {
			res := Run(seed, 100, []string{"a", "b"}, []func(){
				func() { lib.Lock(); lock(&m); m.Unlock(); lib.Unlock() },
				func() { lib.Lock(); lock(&m); m.Unlock(); lib.Unlock() },
			})
			if res.Deadlock != "" {
				t.Fatalf("false deadlock %s", res.Detail)
			}
			if res.Escapes > 0 {
				got = true
				t.Logf("seed %d escapes %d", seed, res.Escapes)
			}
		}
		if !got {
			t.Fatal("no escape exercised")
		}
	})
}
