// Package sched is the harness's seeded cooperative scheduler ("mode D").
//
// The system under test is built from a scratch copy of the repository in
// which every mutex acquisition goes through the verifyield seam (see
// tools/yieldify.py).  Tasks started through Run hold a single token: exactly
// one of them executes at a time, and at every acquisition the scheduler
// decides from its seeded PRNG whether the running task goes on or another
// one is resumed.  A task whose acquisition cannot succeed (TryLock fails) is
// parked and retried later, so that which task obtains a contended lock, and
// at which of its lock boundaries a task is preempted, are seeded decisions
// and one seed is one interleaving.
//
// sync.RWMutex semantics are kept: once a task waits for the exclusive lock,
// new shared acquisitions of that mutex by other tasks wait behind it (as in
// the real implementation), which is what makes recursive read locking
// deadlock.  A deadlock is a state in which every unfinished task is waiting
// for a lock and no attempt succeeds for a bounded number of retries; it is
// reported with the acquisition sites of the waiting tasks.
//
// Goroutines that are not tasks (spawned by the system itself) are not
// scheduled: their acquisitions block as usual.
package sched

import (
	"fmt"
	"math/rand/v2"
	"reflect"
	"runtime"
	"sort"
	"strings"
	"sync"
	"sync/atomic"
	"syscall"
	"time"
	"unsafe"

	"github.com/AdguardTeam/AdGuardHome/internal/verifyield"
)

const (
	stParked = iota
	stRunning
	stDone
)

type task struct {
	id       int
	name     string
	st       int
	wake     bool
	ch       chan int // created outside any bubble: a parked task can be woken from anywhere
	blocked  uintptr  // mutex the task is waiting for, or 0
	read     bool
	site     uintptr // pc of the acquisition the task is in
	lockName string  // source text of the lock expression
}

// Result describes one Run.
type Result struct {
	// Deadlock is non-empty if the run ended in a deadlock: the class of the
	// deadlock (the sorted names of the locks the tasks wait for).
	Deadlock string
	// Detail is a multi-line description of who waits where.
	Detail string
	// Steps is the number of acquisitions decided, Switches the number of
	// times the token moved, Blocked the number of failed attempts.
	Steps, Switches, Blocked int
	// Escapes counts the times the real-time monitor had to release a second
	// task because the token holder was stuck outside the seam; a run with
	// escapes is not exactly repeatable.
	Escapes int
	// Trace is the order in which tasks were given the token.
	Trace []int
	// Spawned counts the goroutines started by tasks that became tasks.
	Spawned int
	// Waits counts failed attempts by lock name.
	Waits map[string]int
}

// Sched is one run's scheduler.
type Sched struct {
	mu        sync.Mutex
	rng       *rand.Rand
	switchPct int
	tasks     []*task
	byG       map[uint64]*task
	wwait     map[uintptr]map[*task]bool
	streak    int
	dead      bool
	res       Result
	doneCh    chan int
	nReg      int
	progress  atomic.Int64
}

var (
	active   atomic.Pointer[Sched]
	initOnce sync.Once
	// Channels made outside any bubble (Init): operations on them are legal
	// from inside and outside a bubble and are not "durably blocking", so the
	// bubble's clock stands still while a task is parked.
	pool   [MaxTasks]chan int
	mainCh chan int
	// deadCond is where the tasks of a deadlocked run stay for ever: a durable
	// wait, so that the bubble can be torn down around them.
	deadMu   sync.Mutex
	deadCond = sync.NewCond(&deadMu)
)

// MaxTasks is the largest number of tasks of one Run.
const MaxTasks = 64

// Init installs the hook and starts the real-time monitor.  It must be called
// outside any synctest bubble.
func Init() {
	initOnce.Do(func() {
		for i := range pool {
			pool[i] = make(chan int, 1)
		}
		mainCh = make(chan int, 1)
		verifyield.Hook = func(try func() bool, _ func(), read bool, name string) bool {
			s := active.Load()
			if s == nil {
				return false
			}
			return s.acquire(try, read, name)
		}
		verifyield.SleepHook = func(time.Duration) bool {
			s := active.Load()
			if s == nil {
				return false
			}
			return s.yield()
		}
		verifyield.YieldHook = func() {
			if s := active.Load(); s != nil {
				s.yieldPct(s.switchPct)
			}
		}
		verifyield.GoHook = func(f func()) bool {
			s := active.Load()
			if s == nil {
				return false
			}
			return s.spawn(f)
		}
		go monitor()
	})
}

// Instrumented reports whether the binary was built from a copy with
// rewritten acquisitions (set by the first acquisition seen through the seam
// while a run is active).
var Instrumented atomic.Bool

func monitor() {
	var last *Sched
	var lastP int64
	same := 0
	for {
		nanosleep(100 * time.Millisecond)
		s := active.Load()
		if s == nil {
			last, same = nil, 0
			continue
		}
		p := s.progress.Load()
		if s == last && p == lastP {
			same++
		} else {
			last, lastP, same = s, p, 0
		}
		if same >= 30 {
			same = 0
			s.escape()
		}
	}
}

// nanosleep sleeps in real time, also inside a bubble.
func nanosleep(d time.Duration) {
	ts := syscall.NsecToTimespec(int64(d))
	_ = syscall.Nanosleep(&ts, nil)
}

func goid() uint64 {
	var buf [40]byte
	n := runtime.Stack(buf[:], false)
	var id uint64
	for _, c := range buf[len("goroutine "):n] {
		if c < '0' || c > '9' {
			break
		}
		id = id*10 + uint64(c-'0')
	}
	return id
}

// recvOf returns the receiver bound in a method value such as mu.TryLock:
// the address of the mutex.  (gc lays a method value out as a closure
// {code pointer, receiver}.)
func recvOf(f func() bool) uintptr {
	p := *(*unsafe.Pointer)(unsafe.Pointer(&f))
	return (*[2]uintptr)(p)[1]
}

// Run executes fns as tasks under a scheduler seeded with seed.  switchPct is
// the probability (in percent) that the token moves at an acquisition that
// could proceed.  It returns when all tasks have finished or a deadlock has
// been found; in the latter case the tasks stay parked for ever and the
// caller must abandon the system instance without touching its locks.
func Run(seed uint64, switchPct int, names []string, fns []func()) *Result {
	if len(fns) > MaxTasks {
		panic("sched: too many tasks")
	}
	s := &Sched{
		rng:       rand.New(rand.NewPCG(seed, 0x5eed)),
		switchPct: switchPct,
		byG:       map[uint64]*task{},
		wwait:     map[uintptr]map[*task]bool{},
		doneCh:    mainCh,
	}
	drain(mainCh)
	s.mu.Lock()
	for i, f := range fns {
		t := &task{id: i, name: names[i], st: stParked, ch: pool[i]}
		drain(t.ch)
		s.tasks = append(s.tasks, t)
		go func() {
			s.mu.Lock()
			s.byG[goid()] = t
			s.nReg++
			s.notifyMain()
			s.park(t)
			if s.dead {
				s.parkForever(t)
			}
			s.mu.Unlock()
			defer s.finish(t)
			f()
		}()
	}
	for s.nReg < len(fns) {
		s.waitMain()
	}
	active.Store(s)
	if len(s.tasks) > 0 {
		s.grant(s.tasks[s.rng.IntN(len(s.tasks))])
	}
	for !s.dead && !s.allDone() {
		s.waitMain()
	}
	active.Store(nil)
	res := s.res
	s.mu.Unlock()
	return &res
}

func drain(c chan int) {
	select {
	case <-c:
	default:
	}
}

func (s *Sched) notifyMain() {
	select {
	case s.doneCh <- 1:
	default:
	}
}

// waitMain is called and returns with s.mu held.
func (s *Sched) waitMain() {
	s.mu.Unlock()
	<-s.doneCh
	s.mu.Lock()
}

func (s *Sched) allDone() bool {
	for _, t := range s.tasks {
		if t.st != stDone {
			return false
		}
	}
	return true
}

func (s *Sched) parked(except *task) (out []*task) {
	for _, t := range s.tasks {
		if t != except && t.st == stParked {
			out = append(out, t)
		}
	}
	return out
}

func (s *Sched) running() (n int) {
	for _, t := range s.tasks {
		if t.st == stRunning {
			n++
		}
	}
	return n
}

func (s *Sched) grant(t *task) {
	if !t.wake {
		t.wake = true
		select {
		case t.ch <- 1:
		default:
		}
	}
	s.res.Switches++
	if len(s.res.Trace) < 4096 {
		s.res.Trace = append(s.res.Trace, t.id)
	}
}

// park blocks the calling task until it is granted the token again.  Called
// and returns with s.mu held.
func (s *Sched) park(t *task) {
	t.st = stParked
	for !t.wake {
		s.mu.Unlock()
		<-t.ch
		s.mu.Lock()
	}
	t.wake = false
	t.st = stRunning
}

// parkForever never returns.  Called with s.mu held.
func (s *Sched) parkForever(t *task) {
	t.st = stParked
	s.mu.Unlock()
	deadMu.Lock()
	for {
		deadCond.Wait()
	}
}

func (s *Sched) finish(t *task) {
	s.mu.Lock()
	defer s.mu.Unlock()
	t.st = stDone
	for g, x := range s.byG {
		if x == t {
			delete(s.byG, g)
		}
	}
	for _, w := range s.wwait {
		delete(w, t)
	}
	s.streak = 0
	s.progress.Add(1)
	if s.dead {
		return
	}
	if s.allDone() {
		s.notifyMain()
		return
	}
	if s.running() == 0 {
		if p := s.parked(nil); len(p) > 0 {
			s.grant(p[s.rng.IntN(len(p))])
		}
	}
}

// writerWaits reports whether a task other than t waits for m exclusively.
func (s *Sched) writerWaits(m uintptr, t *task) bool {
	for w := range s.wwait[m] {
		if w != t {
			return true
		}
	}
	return false
}

const (
	fastTriesPerTask = 64
	politeTries      = 2000
	politeSleep      = time.Millisecond
)

func (s *Sched) acquire(try func() bool, read bool, name string) bool {
	gid := goid()
	s.mu.Lock()
	t := s.byG[gid]
	if t == nil {
		s.mu.Unlock()
		return false
	}
	if s.dead {
		s.parkForever(t)
	}
	Instrumented.Store(true)
	var pcs [1]uintptr
	runtime.Callers(4, pcs[:]) // acquire <- Hook closure <- verifyield.Acquire <- site
	t.site = pcs[0]
	t.lockName = name
	m := recvOf(try)
	s.res.Steps++
	s.progress.Add(1)
	s.streak = 0
	// A preemption before the acquisition.
	if s.switchPct > 0 && s.rng.IntN(100) < s.switchPct {
		if p := s.parked(t); len(p) > 0 {
			s.grant(p[s.rng.IntN(len(p))])
			s.park(t)
			if s.dead {
				s.parkForever(t)
			}
		}
	}
	for {
		ok := false
		if !(read && s.writerWaits(m, t)) {
			ok = try()
		}
		if ok {
			if !read {
				delete(s.wwait[m], t)
			}
			t.blocked = 0
			s.streak = 0
			s.progress.Add(1)
			s.mu.Unlock()
			return true
		}
		if !read {
			if s.wwait[m] == nil {
				s.wwait[m] = map[*task]bool{}
			}
			s.wwait[m][t] = true
		}
		t.blocked, t.read = m, read
		s.res.Blocked++
		if s.res.Waits == nil {
			s.res.Waits = map[string]int{}
		}
		s.res.Waits[lockLabel(name)+"@"+siteName(t.site)]++
		s.streak++
		live := 0
		for _, x := range s.tasks {
			if x.st != stDone {
				live++
			}
		}
		fast := fastTriesPerTask * live
		if s.streak > fast+politeTries {
			s.deadlock()
			s.parkForever(t)
		}
		if s.streak > fast {
			// Somebody who is not a task may hold the lock: give real time.
			s.mu.Unlock()
			nanosleep(politeSleep)
			s.mu.Lock()
			if s.dead {
				s.parkForever(t)
			}
		}
		p := s.parked(t)
		if len(p) == 0 {
			if s.streak <= fast {
				s.mu.Unlock()
				runtime.Gosched()
				s.mu.Lock()
			}
			continue
		}
		s.grant(p[s.rng.IntN(len(p))])
		s.park(t)
		if s.dead {
			s.parkForever(t)
		}
	}
}

// SpawnAllow lists substrings of the names of functions that may become
// tasks when one of the tasks starts them with a go statement (short-lived
// helpers such as the query log's flush).  Everything else, the long-lived
// loops in particular, runs as an ordinary goroutine.
var SpawnAllow []string

// spawn makes f a new task of the run if the caller is a task and f is
// allowed.  The new task starts parked.
func (s *Sched) spawn(f func()) bool {
	name := runtime.FuncForPC(reflect.ValueOf(f).Pointer()).Name()
	allowed := false
	for _, a := range SpawnAllow {
		if strings.Contains(name, a) {
			allowed = true
		}
	}
	if !allowed {
		return false
	}
	gid := goid()
	s.mu.Lock()
	defer s.mu.Unlock()
	parent := s.byG[gid]
	if parent == nil || s.dead || len(s.tasks) >= MaxTasks {
		return false
	}
	t := &task{id: len(s.tasks), name: "go " + strings.TrimPrefix(name, "github.com/AdguardTeam/AdGuardHome/internal/"), st: stParked, ch: pool[len(s.tasks)]}
	drain(t.ch)
	s.tasks = append(s.tasks, t)
	s.res.Spawned++
	reg := make(chan struct{})
	go func() {
		s.mu.Lock()
		s.byG[goid()] = t
		close(reg)
		s.park(t)
		if s.dead {
			s.parkForever(t)
		}
		s.mu.Unlock()
		defer s.finish(t)
		f()
	}()
	// Wait until the child is registered, so that it cannot be overlooked by
	// the next scheduling decision.
	s.mu.Unlock()
	<-reg
	s.mu.Lock()
	return true
}

// Yield is a scheduling point for harness code running as a task (a peer's
// simulated latency, say).  It reports whether the caller is a task.
func Yield() bool {
	s := active.Load()
	if s == nil {
		return false
	}
	return s.yield()
}

// yield moves the token to a parked task, if there is one, with the
// probability of a preemption.
func (s *Sched) yield() bool { return s.yieldPct(50 + s.switchPct/2) }

// yieldPct is a scheduling point at which the token moves with probability
// pct percent.
func (s *Sched) yieldPct(pct int) bool {
	gid := goid()
	s.mu.Lock()
	t := s.byG[gid]
	if t == nil {
		s.mu.Unlock()
		return false
	}
	if s.dead {
		s.parkForever(t)
	}
	s.res.Steps++
	s.progress.Add(1)
	s.streak = 0
	if pct > 0 && s.rng.IntN(100) < pct {
		if p := s.parked(t); len(p) > 0 {
			s.grant(p[s.rng.IntN(len(p))])
			s.park(t)
			if s.dead {
				s.parkForever(t)
			}
		}
	}
	s.mu.Unlock()
	return true
}

// lockLabel names a lock by its field: the source expression without the
// leading variable ("s.serverLock" -> "serverLock").
func lockLabel(expr string) string {
	if i := strings.IndexByte(expr, '.'); i >= 0 && i+1 < len(expr) {
		return expr[i+1:]
	}
	return expr
}

func siteName(pc uintptr) string {
	if pc == 0 {
		return "?"
	}
	fn := runtime.FuncForPC(pc - 1)
	if fn == nil {
		return "?"
	}
	n := fn.Name()
	n = strings.TrimPrefix(n, "github.com/AdguardTeam/AdGuardHome/internal/")
	return n
}

func (s *Sched) deadlock() {
	s.dead = true
	var sites []string
	var b strings.Builder
	for _, t := range s.tasks {
		switch {
		case t.st == stDone:
			fmt.Fprintf(&b, "  task %d %s: finished\n", t.id, t.name)
		case t.blocked != 0:
			kind := "Lock"
			if t.read {
				kind = "RLock"
			}
			fn := runtime.FuncForPC(t.site - 1)
			file, line := "?", 0
			if fn != nil {
				file, line = fn.FileLine(t.site - 1)
				if i := strings.Index(file, "/internal/"); i >= 0 {
					file = file[i+1:]
				}
			}
			sites = append(sites, lockLabel(t.lockName))
			fmt.Fprintf(&b, "  task %d %s: waits for %s.%s() [mutex %#x] in %s (%s:%d)\n", t.id, t.name, t.lockName, kind, t.blocked, siteName(t.site), file, line)
		default:
			fmt.Fprintf(&b, "  task %d %s: preempted, not waiting\n", t.id, t.name)
		}
	}
	sort.Strings(sites)
	uniq := sites[:0]
	for i, x := range sites {
		if i == 0 || x != sites[i-1] {
			uniq = append(uniq, x)
		}
	}
	s.res.Deadlock = strings.Join(uniq, " <-> ")
	s.res.Detail = b.String()
	// Everybody moves to a durable wait.
	for _, t := range s.tasks {
		if t.st == stParked {
			s.grant(t)
		}
	}
	s.notifyMain()
}

// escape is called by the monitor when no scheduling decision has been made
// for three seconds of real time: the token holder is stuck outside the seam
// (in a lock of a library that a parked task holds, say).  Another task is
// released so that the run can go on, at the price of exact repeatability.
func (s *Sched) escape() {
	s.mu.Lock()
	defer s.mu.Unlock()
	if s.dead || s.allDone() {
		return
	}
	p := s.parked(nil)
	if len(p) == 0 {
		return
	}
	s.res.Escapes++
	s.grant(p[0])
}
