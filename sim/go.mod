module github.com/AdguardTeam/AdGuardHome/verifsim

go 1.26

require (
	github.com/AdguardTeam/AdGuardHome v0.0.0
	github.com/AdguardTeam/dnsproxy v0.75.3
	github.com/AdguardTeam/golibs v0.32.8
	github.com/AdguardTeam/urlfilter v0.20.0
	github.com/anishathalye/porcupine v1.3.0
	github.com/insomniacslk/dhcp v0.0.0-20250109001534-8abf58130905
	github.com/miekg/dns v1.1.65
	github.com/quic-go/quic-go v0.50.1
	golang.org/x/crypto v0.37.0
	golang.org/x/net v0.39.0
	golang.org/x/sys v0.32.0
	gopkg.in/yaml.v3 v3.0.1
	pgregory.net/rapid v1.3.0
)

require (
	github.com/NYTimes/gziphandler v1.1.1 // indirect
	github.com/ameshkov/dnscrypt/v2 v2.4.0 // indirect
	github.com/ameshkov/dnsstamps v1.0.3 // indirect
	github.com/beefsack/go-rate v0.0.0-20220214233405-116f4ca011a0 // indirect
	github.com/bluele/gcache v0.0.2 // indirect
	github.com/c2h5oh/datasize v0.0.0-20231215233829-aa82cc1e6500 // indirect
	github.com/digineo/go-ipset/v2 v2.2.1 // indirect
	github.com/fsnotify/fsnotify v1.9.0 // indirect
	github.com/go-ping/ping v1.2.0 // indirect
	github.com/google/go-cmp v0.7.0 // indirect
	github.com/google/gopacket v1.1.19 // indirect
	github.com/google/renameio/v2 v2.0.0 // indirect
	github.com/google/uuid v1.6.0 // indirect
	github.com/josharian/native v1.1.1-0.20230202152459-5c7d0dd6ab86 // indirect
	github.com/kardianos/service v1.2.2 // indirect
	github.com/mdlayher/ethernet v0.0.0-20220221185849-529eae5b6118 // indirect
	github.com/mdlayher/netlink v1.7.2 // indirect
	github.com/mdlayher/packet v1.1.2 // indirect
	github.com/mdlayher/socket v0.5.1 // indirect
	github.com/patrickmn/go-cache v2.1.0+incompatible // indirect
	github.com/pierrec/lz4/v4 v4.1.22 // indirect
	github.com/pkg/errors v0.9.1 // indirect
	github.com/quic-go/qpack v0.5.1 // indirect
	github.com/robfig/cron/v3 v3.0.1 // indirect
	github.com/ti-mo/netfilter v0.5.2 // indirect
	github.com/u-root/uio v0.0.0-20240224005618-d2acac8f3701 // indirect
	go.etcd.io/bbolt v1.4.0 // indirect
	golang.org/x/exp v0.0.0-20250408133849-7e4ce0ab07d0 // indirect
	golang.org/x/sync v0.13.0 // indirect
	golang.org/x/text v0.24.0 // indirect
	gonum.org/v1/gonum v0.16.0 // indirect
	gopkg.in/natefinch/lumberjack.v2 v2.2.1 // indirect
	howett.net/plist v1.0.1 // indirect
)

replace github.com/AdguardTeam/AdGuardHome => /repo
