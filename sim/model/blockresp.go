package model

import (
	"fmt"
	"net/netip"
	"strings"

	"github.com/miekg/dns"
)

// BlockConf is the blocking-mode configuration in force.
type BlockConf struct {
	Mode   string // default null_ip custom_ip nxdomain refused
	V4, V6 netip.Addr
	TTL    uint32
}

// HasMarker returns the first record of m that carries data of the simulated
// upstream (203.0.113.0/24, 2001:db8::/64 and "upstream-marker" names).
func HasMarker(m *dns.Msg) string {
	for _, sec := range [][]dns.RR{m.Answer, m.Ns, m.Extra} {
		for _, rr := range sec {
			s := rr.String()
			if strings.Contains(s, "203.0.113.") || strings.Contains(s, "2001:db8::") || strings.Contains(s, "upstream-marker") {
				return s
			}
		}
	}
	return ""
}

// CheckBlockedReply checks that m is the synthetic response the documented
// blocking modes prescribe for a blocked query (qname, qtype):
//
//   - non-address types: NOERROR with an empty answer;
//   - nxdomain / refused: that rcode, empty answer;
//   - null_ip: 0.0.0.0 / ::;
//   - custom_ip: the configured addresses;
//   - default: the address of the matching hosts-style line(s) of the same
//     family, else the zero address;
//   - HTTPS queries: empty answer;
//
// always with the original question, the blocked-response TTL and no upstream
// data.  It returns "" if m conforms, else a description.
func CheckBlockedReply(bc BlockConf, qname string, qtype uint16, hostIPs []netip.Addr, m *dns.Msg) string {
	if s := HasMarker(m); s != "" {
		return fmt.Sprintf("reply carries upstream data %q", s)
	}
	if len(m.Question) != 1 || m.Question[0].Name != dns.Fqdn(qname) || m.Question[0].Qtype != qtype {
		return fmt.Sprintf("reply question is %v", m.Question)
	}
	isAddr := qtype == dns.TypeA || qtype == dns.TypeAAAA
	if !isAddr && qtype != dns.TypeHTTPS {
		if m.Rcode != dns.RcodeSuccess || len(m.Answer) != 0 {
			return "want NOERROR with an empty answer section"
		}
		return ""
	}
	switch bc.Mode {
	case "nxdomain":
		if m.Rcode != dns.RcodeNameError || len(m.Answer) != 0 {
			return "want NXDOMAIN with an empty answer section"
		}
		return ""
	case "refused":
		if m.Rcode != dns.RcodeRefused || len(m.Answer) != 0 {
			return "want REFUSED with an empty answer section"
		}
		return ""
	}
	if m.Rcode != dns.RcodeSuccess {
		return "want NOERROR"
	}
	if !isAddr {
		if len(m.Answer) != 0 {
			return "HTTPS query: want an empty answer section"
		}
		return ""
	}
	is4 := qtype == dns.TypeA
	unspec := netip.IPv6Unspecified()
	if is4 {
		unspec = netip.IPv4Unspecified()
	}
	var allowed []netip.Addr
	switch bc.Mode {
	case "null_ip":
		allowed = []netip.Addr{unspec}
	case "custom_ip":
		if is4 {
			allowed = []netip.Addr{bc.V4}
		} else {
			allowed = []netip.Addr{bc.V6}
		}
	default:
		allowed = []netip.Addr{unspec}
		for _, ip := range hostIPs {
			if ip.Is4() == is4 {
				allowed = append(allowed, ip)
			}
		}
	}
	if len(m.Answer) == 0 {
		return "want at least one address record"
	}
	for _, rr := range m.Answer {
		var got netip.Addr
		switch rr := rr.(type) {
		case *dns.A:
			got, _ = netip.AddrFromSlice(rr.A.To4())
		case *dns.AAAA:
			got, _ = netip.AddrFromSlice(rr.AAAA)
		default:
			return fmt.Sprintf("unexpected record %s", rr)
		}
		if got.Is4() != is4 {
			return fmt.Sprintf("record of the wrong family %s", rr)
		}
		ok := false
		for _, a := range allowed {
			if a == got {
				ok = true
			}
		}
		if !ok {
			return fmt.Sprintf("address %s is not one of %v", got, allowed)
		}
		if rr.Header().Ttl != bc.TTL {
			return fmt.Sprintf("ttl %d, want blocked-response ttl %d", rr.Header().Ttl, bc.TTL)
		}
		if rr.Header().Name != dns.Fqdn(qname) {
			return fmt.Sprintf("owner name %q", rr.Header().Name)
		}
	}
	return ""
}

// RRKey renders rr without its TTL (cached answers age).
func RRKey(rr dns.RR) string {
	parts := strings.Fields(rr.String())
	if len(parts) > 1 {
		parts[1] = "-"
	}
	return strings.ToLower(strings.Join(parts, " "))
}

// RRKeys renders a section.
func RRKeys(rrs []dns.RR) []string {
	out := make([]string, 0, len(rrs))
	for _, rr := range rrs {
		out = append(out, RRKey(rr))
	}
	return out
}
