// Package model holds reference models shared by several properties.
package model

import (
	"fmt"
	"net/netip"
	"strings"

	"github.com/AdguardTeam/urlfilter"
	"github.com/AdguardTeam/urlfilter/filterlist"
	"github.com/AdguardTeam/urlfilter/rules"
)

// RuleLists is the rule text in force: what the administrator configured,
// independent of how AdGuard Home stores it.
type RuleLists struct {
	User  []string
	Block [][]string // enabled block lists
	Allow [][]string // enabled allow lists
}

// Engines is the reference matcher: its own urlfilter engines built from the
// rule *text* of the scenario.  urlfilter's matching of rules against one host
// name is the trusted base; the order in which AdGuard Home consults allow
// list, block list and services, and what it does with the verdict, is what
// the properties check.
type Engines struct {
	allow, block *urlfilter.DNSEngine
	stores       []*filterlist.RuleStorage
}

// NewEngines compiles l.
func NewEngines(l RuleLists) (*Engines, error) {
	e := &Engines{}
	mk := func(texts [][]string, firstID int) (*urlfilter.DNSEngine, error) {
		var lists []filterlist.RuleList
		for i, t := range texts {
			if len(t) == 0 {
				continue
			}
			lists = append(lists, &filterlist.StringRuleList{ID: firstID + i, RulesText: strings.Join(t, "\n"), IgnoreCosmetic: true})
		}
		st, err := filterlist.NewRuleStorage(lists)
		if err != nil {
			return nil, fmt.Errorf("reference rule storage: %w", err)
		}
		e.stores = append(e.stores, st)
		return urlfilter.NewDNSEngine(st), nil
	}
	var err error
	if e.block, err = mk(append([][]string{l.User}, l.Block...), 0); err != nil {
		return nil, err
	}
	if e.allow, err = mk(l.Allow, 1000); err != nil {
		return nil, err
	}
	return e, nil
}

// Close releases the storages.
func (e *Engines) Close() {
	for _, s := range e.stores {
		_ = s.Close()
	}
}

// Verdict is the reference decision for one host name.
type Verdict int

// Verdicts.
const (
	NoMatch Verdict = iota
	Allowed         // matched by the allow list, or by an exception rule that wins
	Blocked
)

func (v Verdict) String() string { return [...]string{"no-match", "allowed", "blocked"}[v] }

// Match is the outcome of consulting the rule lists.
type Match struct {
	Verdict Verdict
	// ByAllowList is set when the allow list decided.
	ByAllowList bool
	// HostIPs are the addresses of the hosts-style lines that matched (for the
	// default blocking mode).
	HostIPs []netip.Addr
	Rule    string
}

// Check consults allow list then block list for host (lower-cased, no
// trailing dot) and DNS type qtype on behalf of a client.
func (e *Engines) Check(host string, qtype uint16, clientIP netip.Addr, clientName string) Match {
	req := &urlfilter.DNSRequest{Hostname: host, DNSType: qtype, ClientIP: clientIP, ClientName: clientName}
	if res, ok := e.allow.MatchRequest(req); ok {
		return Match{Verdict: Allowed, ByAllowList: true, Rule: firstRule(res)}
	}
	res, ok := e.block.MatchRequest(req)
	if !ok {
		return Match{}
	}
	if res.NetworkRule != nil {
		if res.NetworkRule.Whitelist {
			return Match{Verdict: Allowed, Rule: res.NetworkRule.Text()}
		}
		return Match{Verdict: Blocked, Rule: res.NetworkRule.Text()}
	}
	if len(res.HostRulesV4)+len(res.HostRulesV6) == 0 {
		return Match{}
	}
	m := Match{Verdict: Blocked, Rule: firstRule(res)}
	for _, r := range res.HostRulesV4 {
		m.HostIPs = append(m.HostIPs, r.IP)
	}
	for _, r := range res.HostRulesV6 {
		m.HostIPs = append(m.HostIPs, r.IP)
	}
	return m
}

func firstRule(res *urlfilter.DNSResult) string {
	switch {
	case res.NetworkRule != nil:
		return res.NetworkRule.Text()
	case len(res.HostRulesV4) > 0:
		return res.HostRulesV4[0].Text()
	case len(res.HostRulesV6) > 0:
		return res.HostRulesV6[0].Text()
	}
	return ""
}

// ServiceRules compiles the rule texts of blocked services.
func ServiceRules(texts []string) (out []*rules.NetworkRule) {
	for _, t := range texts {
		r, err := rules.NewNetworkRule(t, -1)
		if err == nil {
			out = append(out, r)
		}
	}
	return out
}

// ServiceMatch reports whether host is covered by one of the service rules.
func ServiceMatch(rs []*rules.NetworkRule, host string) bool {
	req := rules.NewRequestForHostname(host)
	for _, r := range rs {
		if r.Match(req) {
			return true
		}
	}
	return false
}
