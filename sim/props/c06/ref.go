package c06

// Reference resolution of the custom-rewrite table, written from the property
// statement and AGHTechDoc.md §Rewrites (not from findRewrites /
// processRewrites):
//
//   - an entry is (pattern, answer); a pattern is a host name or "*.suffix",
//     which matches every name that ends in ".suffix"; the answer is an IPv4
//     address (A value), an IPv6 address (AAAA value), "A" / "AAAA" (pass that
//     family to the upstream), or a name (CNAME; the pattern itself = "pass the
//     request to the upstream");
//   - CNAME entries take precedence over address entries;
//   - within one kind an exact-name entry shadows wildcard entries, and among
//     wildcards the most specific (longest suffix) wins;
//   - a CNAME is followed through further rewrites; if the canonical name has
//     no entry it is resolved upstream and the original name is restored;
//   - a matched name without a value for the requested type gets an empty
//     successful answer.
//
// Shapes the documentation leaves open are reported as "unspecified"; for
// those only the safety clauses S1 (termination) and S2 (no address that is
// not in the table for the resolved name and family) are asserted.

import (
	"net/netip"
	"sort"
	"strings"

	"github.com/miekg/dns"
)

// Entry is one rewrite entry as the administrator writes it.
type Entry struct {
	D string `json:"d"`
	A string `json:"a"`
}

type valueKind int

const (
	vCNAME valueKind = iota
	vAddr4
	vAddr6
	vExcA
	vExcAAAA
)

func (e Entry) kind() (valueKind, netip.Addr) {
	switch e.A {
	case "A":
		return vExcA, netip.Addr{}
	case "AAAA":
		return vExcAAAA, netip.Addr{}
	}
	if ip, err := netip.ParseAddr(e.A); err == nil {
		if ip.Is4() {
			return vAddr4, ip
		}
		return vAddr6, ip
	}
	return vCNAME, netip.Addr{}
}

func isWild(p string) bool { return strings.HasPrefix(p, "*.") && len(p) > 2 }

// patMatches reports whether the pattern covers the (lower-case) name.
func patMatches(pat, name string) bool {
	pat = strings.ToLower(pat)
	if pat == name {
		return true
	}
	return isWild(pat) && strings.HasSuffix(name, pat[1:]) && len(name) > len(pat)-1
}

// level is the set of matching entries that share one pattern.
type level struct {
	pat     string
	exact   bool
	labels  int
	entries []Entry
}

// levelsFor groups the entries that match name by pattern, most specific
// first: the exact name, then wildcards by decreasing number of labels.
func levelsFor(table []Entry, name string) (out []*level) {
	byPat := map[string]*level{}
	for _, e := range table {
		p := strings.ToLower(e.D)
		if !patMatches(p, name) {
			continue
		}
		l := byPat[p]
		if l == nil {
			l = &level{pat: p, exact: p == name, labels: strings.Count(p, ".")}
			byPat[p] = l
			out = append(out, l)
		}
		l.entries = append(l.entries, e)
	}
	sort.SliceStable(out, func(i, j int) bool {
		if out[i].exact != out[j].exact {
			return out[i].exact
		}
		return out[i].labels > out[j].labels
	})
	return out
}

func (l *level) cnames() (targets []string) {
	seen := map[string]bool{}
	for _, e := range l.entries {
		if k, _ := e.kind(); k == vCNAME && !seen[e.A] {
			seen[e.A] = true
			targets = append(targets, e.A)
		}
	}
	return targets
}

func (l *level) hasAddrKind() bool {
	for _, e := range l.entries {
		if k, _ := e.kind(); k != vCNAME {
			return true
		}
	}
	return false
}

// forFamily returns the values of the asked family at this level and whether
// the level carries the pass-through exception of that family.
func (l *level) forFamily(qtype uint16) (vals []netip.Addr, exc bool) {
	seen := map[netip.Addr]bool{}
	for _, e := range l.entries {
		k, ip := e.kind()
		switch {
		case k == vAddr4 && qtype == dns.TypeA, k == vAddr6 && qtype == dns.TypeAAAA:
			if !seen[ip] {
				seen[ip] = true
				vals = append(vals, ip)
			}
		case k == vExcA && qtype == dns.TypeA, k == vExcAAAA && qtype == dns.TypeAAAA:
			exc = true
		}
	}
	return vals, exc
}

// Outcome kinds.
const (
	oNotMatched  = "not_matched" // no entry covers the name: forwarded intact
	oPassExc     = "pass_exc"    // S4: exception at the queried name: original name resolved upstream, intact
	oLocal       = "local"       // S2/S3: synthesised addresses
	oEmpty       = "empty"       // S6: matched, no value for the type
	oCnameUp     = "cname_up"    // S5: canonical name resolved upstream, original question + CNAME first
	oUnspecified = "unspecified" // only S1/S2
)

type expectation struct {
	kind  string
	final string   // the finally resolved name
	chain []string // CNAME targets followed, in order (empty: none)
	vals  []netip.Addr
	why   string
	// the deciding address level is a wildcard pattern that also carries the
	// pass-through exception of the other family.
	wildOtherExc bool
	tags         []string
}

func (e *expectation) tag(s string) { e.tags = append(e.tags, s) }

// resolve is the reference resolution of (qname, qtype) against the table.
func resolve(table []Entry, qname string, qtype uint16) (ex *expectation) {
	ex = &expectation{}
	cur := strings.ToLower(strings.TrimSuffix(qname, "."))
	visited := map[string]bool{cur: true}
	isAddrQ := qtype == dns.TypeA || qtype == dns.TypeAAAA
	for {
		ex.final = cur
		lv := levelsFor(table, cur)
		if len(lv) == 0 {
			if len(ex.chain) == 0 {
				ex.kind, ex.why = oNotMatched, "no entry matches "+cur
			} else {
				ex.kind, ex.why = oCnameUp, "canonical name "+cur+" has no entry"
			}
			return ex
		}
		// CNAME entries take precedence over address entries.
		var cl *level
		for _, l := range lv {
			if len(l.cnames()) > 0 {
				cl = l
				break
			}
		}
		if cl != nil {
			for _, l := range lv {
				if l.hasAddrKind() {
					ex.tag("cname_beats_address")
					break
				}
			}
			if cl.exact {
				for _, l := range lv[1:] {
					if len(l.cnames()) > 0 {
						ex.tag("exact_shadows_wildcard")
						break
					}
				}
			} else {
				ex.tag("wildcard_cname")
				if len(ex.chain) > 0 {
					ex.tag("chain_through_wildcard")
				}
				n := 0
				for _, l := range lv {
					if !l.exact && len(l.cnames()) > 0 {
						n++
					}
				}
				if n > 1 {
					ex.tag("specific_wildcard_wins")
				}
				if cl.hasAddrKind() {
					// DESIGN: one wildcard pattern with both kinds of values.
					ex.kind, ex.why = oUnspecified, "wildcard "+cl.pat+" has both CNAME and address values"
					ex.tag("unspecified_wildcard_mixed_kinds")
					return ex
				}
			}
			ts := cl.cnames()
			if len(ts) > 1 {
				ex.kind, ex.why = oUnspecified, "several CNAME targets at "+cl.pat
				ex.tag("unspecified_multi_target")
				return ex
			}
			t := strings.ToLower(ts[0])
			if t == cl.pat || t == cur {
				// "name to itself": pass-through exception.
				ex.tag("self_reference")
				if len(ex.chain) == 0 {
					ex.kind, ex.why = oPassExc, "entry "+cl.pat+" -> "+ts[0]+" maps the name to itself"
				} else {
					// What an exception met at a later hop of a chain does to
					// the whole request is not fixed by the documentation.
					ex.kind, ex.why = oUnspecified, "canonical name "+cur+" has a name-to-itself entry (exception at a later hop)"
					ex.tag("unspecified_exception_at_later_hop")
				}
				return ex
			}
			if visited[t] {
				ex.kind, ex.why = oUnspecified, "CNAME cycle back to "+t
				ex.tag("cycle")
				if t == strings.ToLower(strings.TrimSuffix(qname, ".")) {
					ex.tag("cycle_through_qname")
				} else {
					ex.tag("cycle_not_through_qname")
				}
				return ex
			}
			visited[t] = true
			ex.chain = append(ex.chain, t)
			cur = t
			continue
		}
		// Only address-kind entries cover cur: the most specific level decides.
		l0 := lv[0]
		if len(lv) > 1 {
			if l0.exact {
				ex.tag("exact_shadows_wildcard")
			} else {
				ex.tag("specific_wildcard_wins")
			}
		}
		if !l0.exact {
			ex.tag("wildcard_address")
		}
		if !isAddrQ {
			ex.kind, ex.why = oEmpty, cur+" is in the table, which has no value for this type"
			return ex
		}
		vals, exc := l0.forFamily(qtype)
		other := uint16(dns.TypeA)
		if qtype == dns.TypeA {
			other = dns.TypeAAAA
		}
		if _, oexc := l0.forFamily(other); oexc && !l0.exact && (exc || len(vals) > 0) {
			ex.wildOtherExc = true
			ex.tag("wildcard_with_other_family_exception")
		}
		switch {
		case exc && len(vals) > 0:
			ex.kind, ex.why = oUnspecified, "exception and value of the same family at "+l0.pat
			ex.tag("unspecified_exc_and_value")
		case exc:
			ex.tag("family_exception")
			if len(ex.chain) == 0 {
				ex.kind, ex.why = oPassExc, l0.pat+" has the "+dns.TypeToString[qtype]+" exception"
			} else {
				ex.kind, ex.why = oUnspecified, "canonical name "+cur+" has the "+dns.TypeToString[qtype]+" exception (exception at a later hop)"
				ex.tag("unspecified_exception_at_later_hop")
			}
		case len(vals) > 0:
			ex.kind, ex.vals, ex.why = oLocal, vals, "values of "+l0.pat
		default:
			for _, l := range lv[1:] {
				if v, e := l.forFamily(qtype); len(v) > 0 || e {
					// Whether an entry of the other family shadows a less
					// specific entry of the asked family is not documented.
					ex.kind, ex.why = oUnspecified, l0.pat+" has no "+dns.TypeToString[qtype]+" value but the less specific "+l.pat+" has"
					ex.tag("unspecified_cross_family")
					return ex
				}
			}
			ex.kind, ex.why = oEmpty, l0.pat+" has no "+dns.TypeToString[qtype]+" value"
		}
		return ex
	}
}

// reachable returns every name that following CNAME entries (any matching
// entry, whatever its precedence) can lead to from qname, qname included.
func reachable(table []Entry, qname string) map[string]bool {
	start := strings.ToLower(strings.TrimSuffix(qname, "."))
	out := map[string]bool{start: true}
	todo := []string{start}
	for len(todo) > 0 {
		cur := todo[0]
		todo = todo[1:]
		for _, e := range table {
			if k, _ := e.kind(); k != vCNAME || !patMatches(e.D, cur) {
				continue
			}
			t := strings.ToLower(e.A)
			if !out[t] {
				out[t] = true
				todo = append(todo, t)
			}
		}
	}
	return out
}

// tableValues returns the addresses of the given family in entries (of any
// precedence) whose pattern covers name.
func tableValues(table []Entry, name string, qtype uint16) map[netip.Addr]bool {
	out := map[netip.Addr]bool{}
	for _, e := range table {
		if !patMatches(e.D, name) {
			continue
		}
		k, ip := e.kind()
		if (k == vAddr4 && qtype == dns.TypeA) || (k == vAddr6 && qtype == dns.TypeAAAA) {
			out[ip] = true
		}
	}
	return out
}
