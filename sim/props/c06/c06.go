// Package c06 decides property C06 (custom DNS rewrites follow the documented
// precedence and always terminate) by deterministic simulation on engine E1:
// the real filtering.DNSFilter (rewrite table, processRewrites, the
// /control/rewrite/* handlers) + dnsforward request pipeline + dnsproxy front
// door inside a synctest bubble, a simulated upstream that logs every question
// it is sent, seeded rewrite tables over a tiny alphabet changed live through
// the real handlers, and a reference resolution written from the documentation
// (ref.go).  Every query runs in its own goroutine under a real-time + simulated
// watchdog: a query that does not return is the termination violation.
package c06

import (
	"encoding/json"
	"fmt"
	"net/http"
	"net/netip"
	"os"
	"runtime"
	"sort"
	"strings"
	"sync/atomic"
	"syscall"
	"testing"
	"time"
	"unsafe"

	"github.com/AdguardTeam/AdGuardHome/internal/dnsforward"
	"github.com/AdguardTeam/AdGuardHome/internal/filtering"
	"github.com/AdguardTeam/AdGuardHome/verifsim/dnsnode"
	"github.com/AdguardTeam/AdGuardHome/verifsim/env"
	"github.com/AdguardTeam/AdGuardHome/verifsim/kernel"
	"github.com/AdguardTeam/AdGuardHome/verifsim/sched"
	"github.com/miekg/dns"
	"pgregory.net/rapid"
)

// Op is one generated operation.
type Op struct {
	K string `json:"k"` // query add delete update list save par
	// query
	Name  string `json:"name,omitempty"`
	Qt    uint16 `json:"qt,omitempty"`
	Proto string `json:"proto,omitempty"`
	Fault string `json:"fault,omitempty"`
	// delete / update: the target is the Idx-th entry of the live table
	// (modulo its length) unless Missing, in which case E is sent as given.
	Idx     int    `json:"idx,omitempty"`
	Missing bool   `json:"missing,omitempty"`
	E       *Entry `json:"e,omitempty"` // add: the entry; delete/update with Missing: the target
	N       *Entry `json:"n,omitempty"` // update: the replacement
	// par: admin operations (add / delete / update), queries and, with Lst, a
	// listing run as concurrent tasks under the seeded cooperative scheduler;
	// Seed and Pct (preemption probability) determine the interleaving; with
	// LogY the process log is verbose and every line a task writes to it is a
	// scheduling point.
	Seed uint64 `json:"seed,omitempty"`
	Pct  int    `json:"pct,omitempty"`
	LogY bool   `json:"logy,omitempty"`
	Lst  bool   `json:"lst,omitempty"`
	// Sav (par): the configuration is also saved (as after a change of any
	// other setting) by a task of its own, which arrives after Sav-1 scheduling
	// points.
	Sav int `json:"sav,omitempty"`
	// Dly (sub-operation of par): the task arrives late, after this many
	// scheduling points of its own.
	Dly int `json:"dly,omitempty"`
	// Ref (admin sub-operation of par): the query of the phase against whose
	// progress the arrival is timed.
	Ref int  `json:"ref,omitempty"`
	Adm []Op `json:"adm,omitempty"`
	Qs  []Op `json:"qs,omitempty"`
}

// Scenario is one case.
type Scenario struct {
	Cache uint32  `json:"cache_size"`
	Table []Entry `json:"table"`
	Ops   []Op    `json:"ops"`
}

var (
	exactNames = []string{"a.test", "b.test", "c.test", "d.test", "x.a.test", "y.x.a.test", "z.y.x.a.test", "w.a.test", "x.b.test"}
	wildPats   = []string{"*.test", "*.a.test", "*.x.a.test", "*.b.test", "*.y.x.a.test"}
	// "xa.test", "qb.test" and "wx.a.test"-like names end with the characters of a
	// wildcard's domain without the label boundary in front of them.
	extraNames = []string{"q.a.test", "p.q.a.test", "q.x.a.test", "q.b.test", "q.test", "test", "other.example", "up.example", "xa.test", "qb.test", "zx.a.test", "ya.test.example"}
	addrs4     = []string{"10.0.0.1", "10.0.0.2", "10.0.0.3"}
	addrs6     = []string{"fd00::1", "fd00::2", "fd00::1", "fd00::2", "::ffff:10.0.0.1"}
	qtypes     = []uint16{dns.TypeA, dns.TypeA, dns.TypeA, dns.TypeAAAA, dns.TypeAAAA, dns.TypeTXT, dns.TypeHTTPS}
	protos     = []string{"udp", "udp", "udp", "tcp", "tls", "https", "quic", "dnscrypt"}
	faultKinds = []string{"upstream_error", "upstream_timeout", "upstream_servfail", "upstream_slow"}
)

// wildWeighted repeats the patterns by weight: "*.test" covers nearly every
// name of the alphabet and would otherwise decide most queries.
var wildWeighted = []string{"*.test", "*.a.test", "*.a.test", "*.a.test", "*.x.a.test", "*.x.a.test", "*.x.a.test", "*.b.test", "*.b.test", "*.y.x.a.test"}

func genPattern(t *rapid.T) string {
	if rapid.IntRange(0, 9).Draw(t, "pat_wild") < 3 {
		return rapid.SampledFrom(wildWeighted).Draw(t, "wild")
	}
	return rapid.SampledFrom(exactNames).Draw(t, "exact")
}

func genAnswer(t *rapid.T, pat string) string {
	k := rapid.IntRange(0, 99).Draw(t, "ans_kind")
	if isWild(pat) && k >= 36 && k < 79 && rapid.Bool().Draw(t, "wild_addr") {
		// Wildcards mostly carry addresses.
		k = k % 36
	}
	switch {
	case k < 22:
		return rapid.SampledFrom(addrs4).Draw(t, "v4")
	case k < 36:
		return rapid.SampledFrom(addrs6).Draw(t, "v6")
	case k < 72:
		return rapid.SampledFrom(exactNames).Draw(t, "cname")
	case k < 79:
		return rapid.SampledFrom(extraNames).Draw(t, "cname_extra")
	case k < 86:
		return pat
	case k < 93:
		return "A"
	default:
		return "AAAA"
	}
}

func genEntry(t *rapid.T) Entry {
	p := genPattern(t)
	return Entry{D: p, A: genAnswer(t, p)}
}

// parentWild returns a wildcard pattern of wildPats covering name, if any.
func parentWild(name string) []string {
	var out []string
	for _, w := range wildPats {
		if patMatches(w, name) {
			out = append(out, w)
		}
	}
	return out
}

// genChain emits a chain n0 -> n1 -> ... of 1..5 CNAME hops with a chosen
// ending: a cycle back to any member, a self reference, addresses, an
// exception, a name outside the table, or nothing.
func genChain(t *rapid.T) (out []Entry) {
	out, _ = genChainNames(t)
	return out
}

// genChainNames is genChain that also returns the names n0 ... nk; out[i] is
// the hop from ns[i] for i < k, the rest is the ending.
func genChainNames(t *rapid.T) (out []Entry, ns []string) {
	k := rapid.IntRange(1, 5).Draw(t, "chain_len")
	ns = rapid.SliceOfNDistinct(rapid.SampledFrom(exactNames), k+1, k+1, rapid.ID[string]).Draw(t, "chain_names")
	pat := func(i int) string {
		// Sometimes the hop is made through a wildcard that covers the name.
		if ws := parentWild(ns[i]); len(ws) > 0 && rapid.IntRange(0, 3).Draw(t, "hop_wild") == 0 {
			return rapid.SampledFrom(ws).Draw(t, "hop_wild_pat")
		}
		return ns[i]
	}
	for i := 0; i < k; i++ {
		out = append(out, Entry{D: pat(i), A: ns[i+1]})
	}
	last := ns[k]
	switch rapid.IntRange(0, 9).Draw(t, "chain_end") {
	case 0, 1, 2: // cycle back to a member (j == k: name to itself)
		j := rapid.IntRange(0, k).Draw(t, "cycle_to")
		out = append(out, Entry{D: pat(k), A: ns[j]})
	case 3, 4:
		out = append(out, Entry{D: pat(k), A: rapid.SampledFrom(addrs4).Draw(t, "end_v4")})
		if rapid.Bool().Draw(t, "end_both") {
			out = append(out, Entry{D: last, A: rapid.SampledFrom(addrs6).Draw(t, "end_v6")})
		}
	case 5:
		out = append(out, Entry{D: pat(k), A: rapid.SampledFrom(addrs6).Draw(t, "end_v6only")})
	case 6:
		out = append(out, Entry{D: pat(k), A: rapid.SampledFrom([]string{"A", "AAAA"}).Draw(t, "end_exc")})
	case 7:
		out = append(out, Entry{D: pat(k), A: rapid.SampledFrom(extraNames).Draw(t, "end_extra")})
	default: // the last name has no entry of its own
	}
	return out, ns
}

func genTable(t *rapid.T) []Entry {
	var tab []Entry
	if rapid.IntRange(0, 9).Draw(t, "has_chain") < 6 {
		tab = append(tab, genChain(t)...)
	}
	for i, n := 0, rapid.IntRange(0, 6).Draw(t, "n_random"); i < n; i++ {
		tab = append(tab, genEntry(t))
	}
	if len(tab) == 0 {
		tab = append(tab, genEntry(t))
	}
	// Duplicates.
	for i, n := 0, rapid.IntRange(0, 2).Draw(t, "n_dup"); i < n; i++ {
		tab = append(tab, tab[rapid.IntRange(0, len(tab)-1).Draw(t, "dup_of")])
	}
	if len(tab) > 10 {
		tab = tab[:10]
	}
	// Random order.
	perm := rapid.Permutation(tab).Draw(t, "order")
	return perm
}

func flipCase(t *rapid.T, s string) string {
	if rapid.IntRange(0, 7).Draw(t, "flip") != 0 {
		return s
	}
	b := []byte(s)
	for i := range b {
		if b[i] >= 'a' && b[i] <= 'z' && rapid.Bool().Draw(t, "up") {
			b[i] -= 32
		}
	}
	return string(b)
}

func genQName(t *rapid.T, all []string) string {
	if rapid.IntRange(0, 9).Draw(t, "q_exact") < 4 {
		return rapid.SampledFrom(exactNames).Draw(t, "qname_exact")
	}
	return rapid.SampledFrom(all).Draw(t, "qname")
}

// Gen draws a scenario.
func Gen(t *rapid.T, tier string) any {
	sc := &Scenario{}
	sc.Cache = uint32(rapid.SampledFrom([]int{0, 0, 4096}).Draw(t, "cache"))
	sc.Table = genTable(t)
	maxOps := 30
	if tier == "thorough" {
		maxOps = 60
	}
	allNames := append(append([]string{}, exactNames...), extraNames...)
	// tab is the generator's picture of the live table (see trackOp).
	tab := append([]Entry{}, sc.Table...)
	for i, n := 0, rapid.IntRange(1, maxOps).Draw(t, "n_ops"); i < n; i++ {
		var op Op
		switch k := rapid.IntRange(0, 99).Draw(t, "kind"); {
		case k >= 64 && k < 67:
			// The configuration file is written (a setting of another component
			// was changed, say).
			op = Op{K: "save"}
		case k < 64:
			op = Op{K: "query",
				Name:  flipCase(t, genQName(t, allNames)),
				Qt:    rapid.SampledFrom(qtypes).Draw(t, "qtype"),
				Proto: rapid.SampledFrom(protos).Draw(t, "proto"),
			}
			if rapid.IntRange(0, 6).Draw(t, "fault") == 0 {
				op.Fault = rapid.SampledFrom(faultKinds).Draw(t, "fault_kind")
			}
		case k < 76:
			e := genEntry(t)
			op = Op{K: "add", E: &e}
		case k < 78:
			// Add a whole chain at once (three to six add calls).
			ch := genChain(t)
			for _, e := range ch[:len(ch)-1] {
				e := e
				sc.Ops = append(sc.Ops, Op{K: "add", E: &e})
				tab = trackOp(tab, Op{K: "add", E: &e})
			}
			e := ch[len(ch)-1]
			op = Op{K: "add", E: &e}
		case k < 84:
			op = Op{K: "delete", Idx: rapid.IntRange(0, 9).Draw(t, "del_idx")}
			if rapid.IntRange(0, 7).Draw(t, "del_missing") == 0 {
				e := genEntry(t)
				op.Missing, op.E = true, &e
			}
		case k < 91:
			n := genEntry(t)
			op = Op{K: "update", Idx: rapid.IntRange(0, 9).Draw(t, "upd_idx"), N: &n}
			if rapid.IntRange(0, 7).Draw(t, "upd_missing") == 0 {
				e := genEntry(t)
				op.Missing, op.E = true, &e
			}
		case k < 98:
			// (An aimed phase is preceded by the add calls of its chain.)
			ps := genPar(t, allNames, tab)
			for _, p := range ps[:len(ps)-1] {
				tab = trackOp(tab, p)
			}
			sc.Ops = append(sc.Ops, ps[:len(ps)-1]...)
			op = ps[len(ps)-1]
		default:
			op = Op{K: "list"}
		}
		sc.Ops = append(sc.Ops, op)
		tab = trackOp(tab, op)
	}
	return sc
}

// ---- real time inside the bubble ----------------------------------------------

// realNanos reads the kernel's monotonic clock directly: inside a synctest
// bubble package time is fake, and a goroutine that spins in the code under
// test stops the fake clock for good, so only a real clock can see it.
func realNanos() int64 {
	var ts syscall.Timespec
	_, _, _ = syscall.Syscall(syscall.SYS_CLOCK_GETTIME, 1 /* CLOCK_MONOTONIC */, uintptr(unsafe.Pointer(&ts)), 0)
	return ts.Nano()
}

func cpuNanos() int64 {
	var ru syscall.Rusage
	if err := syscall.Getrusage(syscall.RUSAGE_SELF, &ru); err != nil {
		return 1 << 62
	}
	return ru.Utime.Nano() + ru.Stime.Nano()
}

const (
	realBudget = 2 * time.Second  // wall and CPU time a single query may take
	simBudget  = 60 * time.Second // simulated time a single query may take
)

// doomed ends the process: the query goroutine cannot be stopped, and neither
// the bubble nor the worker can finish while it lives.  In replay mode the
// result line of the kernel's replay protocol is printed; in exploration the
// driver finds the worker dead, replays the scenario that was running, and
// takes the class from that replay.
func doomed(c *kernel.Ctx, class, msg string) {
	if os.Getenv("VERIF_REPLAY") != "" {
		if os.Getenv("VERIF_REPLAY_LOG") != "" {
			for _, l := range c.Log() {
				fmt.Println("  | " + l)
			}
		}
		fmt.Printf("REPLAY-RESULT property=C06 outcome=violation class=%s digest=%s\n", class, c.Digest())
		fmt.Printf("REPLAY-MSG %s\n", strings.ReplaceAll(msg, "\n", "\n  "))
		os.Exit(1)
	}
	// The driver quotes the first "panic: " line of a dead worker's log.
	fmt.Printf("panic: C06 watchdog: %s: %s\n", class, msg)
	os.Exit(3)
}

// ---- run ---------------------------------------------------------------------

type runner struct {
	sc    *Scenario
	c     *kernel.Ctx
	n     *dnsnode.Node
	up    *env.Upstream
	table []Entry // the reference copy of the live table, in order
	next  env.UpstreamFault
	// wakeAt is the simulated instant (unix nanos) until which the goroutine of
	// the running query sleeps inside the simulated upstream.
	wakeAt atomic.Int64
	cached map[string]map[string]bool
	cache  bool
	// abandon: a concurrent phase ended in a deadlock; the parked tasks hold the
	// node's locks for ever, so the node is not closed.
	abandon bool
	// saves counts the configuration saves not yet moved to the evidence; saved
	// says that the configuration has been saved at least once.
	saves atomic.Int64
	saved bool
}

func (r *runner) api(method, path string, body any) (code int, resp []byte, err error) {
	var b []byte
	if body != nil {
		b, _ = json.Marshal(body)
	}
	code, resp, err = r.n.Mux.Do(method, path, b)
	if err != nil {
		if hp, ok := err.(*env.HandlerPanic); ok {
			return 0, nil, kernel.Violationf("api-panic", "%v", hp)
		}
		return 0, nil, err
	}
	r.c.Eventf("api %s %s %s -> %d", method, path, b, code)
	return code, resp, nil
}

// save is what package home does whenever a component reports a modified
// configuration (and whenever any other setting is changed): the configuration
// is collected from the components again and written to the file.  The
// filtering module is asked to fill in the very object it was created with,
// as home's config.write does with config.Filtering.
func (r *runner) save() {
	n := r.n
	if n == nil || n.Filter == nil || n.Server == nil {
		// (A component under construction.)
		return
	}
	n.Filter.WriteDiskConfig(n.FilterConf)
	n.Server.WriteDiskConfig(&dnsforward.Config{})
	r.saves.Add(1)
}

// countSaves moves the number of saves since the last call to the evidence.
func (r *runner) countSaves() {
	if k := int(r.saves.Swap(0)); k > 0 {
		r.c.Faults["config_save"] += k
		r.saved = true
	}
}

func entJSON(e Entry) map[string]string { return map[string]string{"domain": e.D, "answer": e.A} }

// watchedDo runs the query in its own goroutine and waits for it under the
// step budget (S1).
func (r *runner) watchedDo(q *dnsnode.Query, desc string) *dnsnode.Reply {
	done := make(chan *dnsnode.Reply, 1)
	go func() { done <- r.n.Do(q) }()
	startReal, startCPU, startSim := realNanos(), cpuNanos(), time.Now()
	for {
		select {
		case rep := <-done:
			return rep
		default:
		}
		now := time.Now()
		if now.Sub(startSim) > simBudget {
			doomed(r.c, "rewrite-nontermination", fmt.Sprintf("%s did not return within %s of simulated time; table %s", desc, simBudget, tableString(r.table)))
		}
		if w := time.Unix(0, r.wakeAt.Load()); w.After(now) {
			// The query sleeps in the simulated upstream: block durably so that
			// the simulated clock can advance to its wake-up.
			select {
			case rep := <-done:
				return rep
			case <-time.After(w.Sub(now)):
			}
			continue
		}
		if realNanos()-startReal > int64(realBudget) && cpuNanos()-startCPU > int64(realBudget) {
			doomed(r.c, "rewrite-nontermination", fmt.Sprintf("%s did not return within %s of real (wall and CPU) time: evaluation does not terminate; table %s", desc, realBudget, tableString(r.table)))
		}
		runtime.Gosched()
	}
}

func tableString(t []Entry) string {
	parts := make([]string, 0, len(t))
	for _, e := range t {
		parts = append(parts, e.D+" -> "+e.A)
	}
	return "[" + strings.Join(parts, "; ") + "]"
}

func answerKey(rr dns.RR) string {
	parts := strings.Fields(rr.String())
	if len(parts) > 1 {
		parts[1] = "-" // TTL
	}
	return strings.ToLower(strings.Join(parts, " "))
}

func rrKeys(rrs []dns.RR) []string {
	out := make([]string, 0, len(rrs))
	for _, rr := range rrs {
		out = append(out, answerKey(rr))
	}
	return out
}

func upstreamAnswer(name string, qtype uint16) *dns.Msg {
	return env.DefaultAnswer((&dnsnode.Query{Name: name, Qtype: qtype}).NewReq())
}

// sameRecords reports whether got is, TTLs aside, the non-empty record list want.
func sameRecords(got, want []dns.RR) bool {
	return len(got) > 0 && strings.Join(rrKeys(got), "\n") == strings.Join(rrKeys(want), "\n")
}

func rrAddr(rr dns.RR) (ip netip.Addr, ok bool) {
	switch rr := rr.(type) {
	case *dns.A:
		ip, ok = netip.AddrFromSlice(rr.A.To4())
	case *dns.AAAA:
		ip, ok = netip.AddrFromSlice(rr.AAAA)
	}
	return ip, ok
}

func isUpstreamData(rr dns.RR) bool {
	s := rr.String()
	return strings.Contains(s, "203.0.113.") || strings.Contains(s, "2001:db8::") || strings.Contains(s, "upstream-marker") || rr.Header().Ttl == env.MarkerTTL
}

func lower(s string) string { return strings.ToLower(strings.TrimSuffix(s, ".")) }

// split separates the leading CNAME records of the answer section from the rest.
func split(ans []dns.RR) (cn []*dns.CNAME, rest []dns.RR) {
	i := 0
	for ; i < len(ans); i++ {
		c, ok := ans[i].(*dns.CNAME)
		if !ok {
			break
		}
		cn = append(cn, c)
	}
	return cn, ans[i:]
}

type qctx struct {
	op    Op
	rep   *dnsnode.Reply
	ex    *expectation
	fault env.UpstreamFault
	desc  string
}

func (q *qctx) bad(class, format string, args ...any) error {
	m := "<no reply>"
	if q.rep.Msg != nil {
		m = "\n" + q.rep.Msg.String()
	}
	return kernel.Violationf(class, "%s: %s\n  reference: %s (%s), chain %v, final name %s\n  upstream questions: %v\n  reply: %s", q.desc, fmt.Sprintf(format, args...), q.ex.kind, q.ex.why, q.ex.chain, q.ex.final, q.rep.Exchanges, m)
}

// exchangeFailed says whether an exchange of this request was hit by a fault
// that makes the upstream fail outright.
func (q *qctx) exchangeFailed() bool {
	return len(q.rep.Exchanges) > 0 && (q.fault == env.UpError || q.fault == env.UpTimeout)
}

// checkGeneral asserts what holds for every query whatever the shape of the
// table: the reply is well-formed, answers the question that was asked, and
// (S2) every address in it is either what the upstream said in this request
// or a value of the table for a name the table leads to and the family asked.
func (r *runner) checkGeneral(q *qctx) error {
	rep, op := q.rep, q.op
	if rep.WireErr != nil {
		return q.bad("malformed-reply", "%v", rep.WireErr)
	}
	m := rep.Msg
	if m == nil {
		if q.exchangeFailed() {
			return nil
		}
		return q.bad("no-reply", "the client got no reply (err=%v)", rep.Err)
	}
	if len(m.Question) != 1 || !strings.EqualFold(m.Question[0].Name, dns.Fqdn(op.Name)) || m.Question[0].Qtype != op.Qt {
		if q.exchangeFailed() {
			return q.bad("question-not-restored-on-upstream-failure", "the reply's question is %v, the client asked %s %s", m.Question, op.Name, dns.Type(op.Qt))
		}
		return q.bad("question-not-restored", "the reply's question is %v, the client asked %s %s", m.Question, op.Name, dns.Type(op.Qt))
	}
	// The name the reply says it resolved.
	cn, rest := split(m.Answer)
	resolved := lower(op.Name)
	if len(cn) > 0 {
		resolved = lower(cn[len(cn)-1].Target)
	}
	// Upstream records legitimately present: what the upstream was asked in
	// this request (or, with the cache on, could have been asked before).
	upOK := map[string]bool{}
	for _, e := range rep.Exchanges {
		for _, k := range rrKeys(upstreamAnswer(e.Name, e.Qtype).Answer) {
			upOK[k] = true
		}
	}
	if len(rep.Exchanges) == 0 && r.cache {
		for _, n := range []string{lower(op.Name), resolved} {
			if r.cached[n+"|"+dns.Type(op.Qt).String()]["ok"] {
				for _, k := range rrKeys(upstreamAnswer(n, op.Qt).Answer) {
					upOK[k] = true
				}
			}
		}
	}
	var local, foreign []dns.RR
	for _, rr := range rest {
		if upOK[answerKey(rr)] {
			foreign = append(foreign, rr)
			continue
		}
		if _, isAddr := rrAddr(rr); isAddr {
			local = append(local, rr)
			continue
		}
		return q.bad("unexpected-record", "record %q is neither an address, nor a leading CNAME, nor what the upstream answered in this request", rr)
	}
	if len(local) == 0 {
		return nil
	}
	// S2.
	if len(foreign) > 0 {
		return q.bad("address-not-in-table", "the answer mixes upstream records %v with synthesised ones %v", rrKeys(foreign), rrKeys(local))
	}
	reach := reachable(r.table, op.Name)
	if !reach[resolved] {
		return q.bad("address-not-in-table", "the reply resolves to %s, which the table does not lead to from %s", resolved, op.Name)
	}
	vals := tableValues(r.table, resolved, op.Qt)
	for _, rr := range local {
		ip, _ := rrAddr(rr)
		wantA := op.Qt == dns.TypeA
		if _, isA := rr.(*dns.A); isA != wantA || (op.Qt != dns.TypeA && op.Qt != dns.TypeAAAA) {
			return q.bad("address-wrong-family", "record %q does not have the type that was asked", rr)
		}
		if isUpstreamData(rr) && !vals[ip] {
			return q.bad("address-not-in-table", "record %q is upstream data that the upstream did not give in this request", rr)
		}
		if !vals[ip] {
			return q.bad("address-not-in-table", "address %s is not a %s value of any entry covering the resolved name %s", ip, dns.Type(op.Qt), resolved)
		}
	}
	return nil
}

// checkCNAMEFirst asserts that the answer starts with CNAME record(s) leading
// from the queried name to final.
func (q *qctx) checkCNAMEFirst(class string) (rest []dns.RR, err error) {
	m := q.rep.Msg
	cn, rest := split(m.Answer)
	if len(cn) == 0 {
		return nil, q.bad(class, "the answer does not start with the CNAME record for %s", q.ex.final)
	}
	if !strings.EqualFold(lower(cn[0].Hdr.Name), lower(q.op.Name)) {
		return nil, q.bad(class, "the first CNAME record is owned by %s, not by the queried name", cn[0].Hdr.Name)
	}
	for i := 1; i < len(cn); i++ {
		if lower(cn[i].Hdr.Name) != lower(cn[i-1].Target) {
			return nil, q.bad(class, "the CNAME records do not form a chain")
		}
	}
	if lower(cn[len(cn)-1].Target) != q.ex.final {
		return nil, q.bad(class, "the CNAME records lead to %s, the table leads to %s", cn[len(cn)-1].Target, q.ex.final)
	}
	return rest, nil
}

// checkUpstreamLeg asserts that the request was resolved upstream for name
// (and only for it) and that the upstream's records reached the client intact;
// prefix is the number of leading CNAME records already accounted for.
func (r *runner) checkUpstreamLeg(q *qctx, name, class string, rest []dns.RR) error {
	rep, op, m := q.rep, q.op, q.rep.Msg
	key := name + "|" + dns.Type(op.Qt).String()
	seen := r.cached[key]
	if seen == nil {
		seen = map[string]bool{}
		r.cached[key] = seen
	}
	served := len(rep.Exchanges) > 0
	for _, e := range rep.Exchanges {
		if lower(e.Name) != name || e.Qtype != op.Qt {
			return q.bad(class, "the upstream was asked %s %s; it is %s %s that has to be resolved upstream", e.Name, dns.Type(e.Qtype), name, dns.Type(op.Qt))
		}
	}
	if !served && !(r.cache && len(seen) > 0) {
		return q.bad(class, "%s %s has to be resolved upstream but no question was sent", name, dns.Type(op.Qt))
	}
	if q.exchangeFailed() {
		r.c.Probe("upstream_failed_leg")
		if m != nil {
			for _, rr := range m.Answer {
				if _, isCN := rr.(*dns.CNAME); !isCN {
					return q.bad("answer-after-upstream-failure", "the upstream failed (%s) but the client got %q", q.fault, rr)
				}
			}
		}
		return nil
	}
	if served && q.fault == env.UpServfail {
		if m.Rcode != dns.RcodeServerFailure {
			return q.bad(class, "the upstream said SERVFAIL, the client got %s", dns.RcodeToString[m.Rcode])
		}
		seen["servfail"] = true
		return nil
	}
	if !served {
		r.c.Probe("served_from_cache")
		if seen["servfail"] && m.Rcode == dns.RcodeServerFailure && len(rest) == 0 {
			return nil
		}
		if !seen["ok"] {
			return q.bad(class, "nothing was sent upstream and the only earlier upstream reply for %s was SERVFAIL", name)
		}
	}
	want := upstreamAnswer(name, op.Qt)
	if m.Rcode != want.Rcode || strings.Join(rrKeys(rest), "\n") != strings.Join(rrKeys(want.Answer), "\n") {
		return q.bad(class, "the upstream's answer for %s did not reach the client intact: want %v", name, rrKeys(want.Answer))
	}
	seen["ok"] = true
	return nil
}

func (r *runner) checkSpecified(q *qctx) error {
	rep, op, ex, m := q.rep, q.op, q.ex, q.rep.Msg
	if ex.wildOtherExc && m != nil {
		_, after := split(m.Answer)
		emptyLocal := len(rep.Exchanges) == 0 && m.Rcode == dns.RcodeSuccess && len(after) == 0
		fwdFinal := ex.kind == oLocal && len(ex.chain) > 0 &&
			((len(rep.Exchanges) > 0 && lower(rep.Exchanges[0].Name) == ex.final) || sameRecords(after, upstreamAnswer(ex.final, op.Qt).Answer))
		if emptyLocal || fwdFinal {
			return q.bad("wildcard-entry-lost-behind-exception", "the deciding wildcard pattern has a %s value or exception (%s) and, separately, the pass-through exception of the other family; the request is treated as if the pattern had nothing for %s", dns.Type(op.Qt), ex.why, dns.Type(op.Qt))
		}
	}
	switch ex.kind {
	case oNotMatched:
		if m != nil && !q.exchangeFailed() {
			if cn, _ := split(m.Answer); len(cn) > 0 && !(len(rep.Exchanges) > 0) {
				return q.bad("unmatched-rewritten", "no entry covers the name, yet the answer carries a CNAME")
			}
		}
		var rest []dns.RR
		if m != nil {
			rest = m.Answer
		}
		return r.checkUpstreamLeg(q, lower(op.Name), "unmatched-not-forwarded-intact", rest)
	case oPassExc:
		// S4.
		var rest []dns.RR
		if m != nil {
			rest = m.Answer
		}
		return r.checkUpstreamLeg(q, lower(op.Name), "exception-not-passed-through", rest)
	case oCnameUp:
		// S5.
		var rest []dns.RR
		if m != nil && !(q.exchangeFailed() && len(m.Answer) == 0) {
			var err error
			if rest, err = q.checkCNAMEFirst("cname-record-missing"); err != nil {
				return err
			}
		}
		return r.checkUpstreamLeg(q, ex.final, "cname-target-not-resolved-upstream", rest)
	case oLocal:
		// S2/S3.
		if len(rep.Exchanges) != 0 {
			return q.bad("local-answer-forwarded", "the table has %s values for %s, yet the upstream was asked", dns.Type(op.Qt), ex.final)
		}
		if m == nil {
			return q.bad("no-reply", "no reply")
		}
		if m.Rcode != dns.RcodeSuccess {
			return q.bad("local-answer-rcode", "rcode %s", dns.RcodeToString[m.Rcode])
		}
		rest := m.Answer
		if len(ex.chain) > 0 {
			var err error
			if rest, err = q.checkCNAMEFirst("cname-record-missing"); err != nil {
				return err
			}
		} else if cn, _ := split(m.Answer); len(cn) > 0 {
			return q.bad("precedence", "the answer carries CNAME %s although no CNAME entry applies", cn[0].Target)
		}
		if len(rest) == 0 {
			return q.bad("local-answer-missing", "want %s records with %v", dns.Type(op.Qt), ex.vals)
		}
		for _, rr := range rest {
			ip, ok := rrAddr(rr)
			if !ok {
				return q.bad("unexpected-record", "record %q in a synthesised answer", rr)
			}
			found := false
			for _, v := range ex.vals {
				found = found || v == ip
			}
			if !found {
				// checkGeneral has established that ip is in the table for the
				// final name: it belongs to a shadowed entry.
				return q.bad("precedence", "address %s belongs to an entry that is shadowed: only %v (%s) may appear", ip, ex.vals, ex.why)
			}
			owner := ex.final
			if !strings.EqualFold(lower(rr.Header().Name), owner) {
				return q.bad("address-owner", "record %q is not owned by the resolved name %s", rr, owner)
			}
		}
		return nil
	case oEmpty:
		// S6.
		if len(ex.chain) > 0 {
			forwarded := len(rep.Exchanges) != 0
			if !forwarded && m != nil {
				_, after := split(m.Answer)
				forwarded = sameRecords(after, upstreamAnswer(ex.final, op.Qt).Answer) ||
					(r.cache && r.cached[ex.final+"|"+dns.Type(op.Qt).String()]["servfail"] && m.Rcode == dns.RcodeServerFailure && len(after) == 0)
			}
			if forwarded {
				return q.bad("cname-final-no-value-forwarded", "the CNAME chain %v ends at %s, which the table covers without a %s value: the answer has to be the CNAME alone, but the canonical name was resolved upstream", ex.chain, ex.final, dns.Type(op.Qt))
			}
		}
		if len(rep.Exchanges) != 0 {
			return q.bad("matched-no-value-forwarded", "%s is covered by the table without a %s value: the answer has to be empty, but the upstream was asked", ex.final, dns.Type(op.Qt))
		}
		if m == nil {
			return q.bad("no-reply", "no reply")
		}
		if m.Rcode != dns.RcodeSuccess {
			return q.bad("matched-no-value-rcode", "rcode %s, want NOERROR", dns.RcodeToString[m.Rcode])
		}
		rest := m.Answer
		if len(ex.chain) > 0 {
			var err error
			if rest, err = q.checkCNAMEFirst("cname-record-missing"); err != nil {
				return err
			}
		}
		if len(rest) != 0 {
			if cn, _ := split(rest); len(cn) > 0 {
				return q.bad("precedence", "the answer carries CNAME %s although no CNAME entry applies", cn[0].Target)
			}
			return q.bad("matched-no-value-not-empty", "want an empty answer, got %v", rrKeys(rest))
		}
		return nil
	}
	return fmt.Errorf("harness: unknown expectation kind %q", ex.kind)
}

func (r *runner) query(op Op) error {
	q := &dnsnode.Query{Proto: op.Proto, Addr: netip.MustParseAddrPort("192.0.2.1:40000"), Name: op.Name, Qtype: op.Qt}
	ex := resolve(r.table, op.Name, op.Qt)
	desc := fmt.Sprintf("%s %s over %s", op.Name, dns.Type(op.Qt), op.Proto)
	r.next = env.UpstreamFault(op.Fault)
	rep := r.watchedDo(q, desc)
	kernel.Wait()
	r.next = env.UpOK
	rc := "none"
	if rep.Msg != nil {
		rc = dns.RcodeToString[rep.Msg.Rcode]
	}
	var ans []string
	if rep.Msg != nil {
		ans = rrKeys(rep.Msg.Answer)
	}
	r.c.Eventf("query %s fault=%q -> rcode=%s ans=%v up=%d | ref %s final=%s chain=%v", desc, op.Fault, rc, ans, len(rep.Exchanges), ex.kind, ex.final, ex.chain)
	r.c.Probe(ex.kind)
	for _, t := range ex.tags {
		r.c.Probe(t)
	}
	if ex.kind != oNotMatched {
		r.c.Probe("matched_query")
		if r.saved {
			r.c.Probe("matched_query_after_save")
		}
	}
	if len(ex.chain) >= 2 {
		r.c.Probe("chain_2plus")
	}
	if len(ex.chain) >= 4 {
		r.c.Probe("chain_4plus")
	}
	if len(ex.chain) > 0 && ex.kind == oLocal {
		r.c.Probe("local_via_chain")
	}
	if len(ex.chain) > 0 && ex.kind == oEmpty {
		r.c.Probe("empty_via_chain")
	}
	if len(rep.Exchanges) > 0 && op.Fault != "" && (ex.kind == oCnameUp || len(ex.chain) > 0) {
		r.c.Probe("fault_on_cname_leg")
	}
	qc := &qctx{op: op, rep: rep, ex: ex, fault: env.UpstreamFault(op.Fault), desc: desc}
	if err := r.checkGeneral(qc); err != nil {
		if v, ok := err.(*kernel.Violation); ok && r.c.Tolerate(v) {
			return nil
		}
		return err
	}
	if ex.kind == oUnspecified {
		// Remember what the upstream may have put into the cache.
		for _, e := range rep.Exchanges {
			if op.Fault == "" || op.Fault == string(env.UpSlow) {
				r.markSeen(lower(e.Name), e.Qtype, "ok")
			} else if op.Fault == string(env.UpServfail) {
				r.markSeen(lower(e.Name), e.Qtype, "servfail")
			}
		}
		return nil
	}
	err := r.checkSpecified(qc)
	if v, ok := err.(*kernel.Violation); ok {
		// Whatever was exchanged may sit in the cache now.
		for _, e := range rep.Exchanges {
			if op.Fault == "" || op.Fault == string(env.UpSlow) {
				r.markSeen(lower(e.Name), e.Qtype, "ok")
			} else if op.Fault == string(env.UpServfail) {
				r.markSeen(lower(e.Name), e.Qtype, "servfail")
			}
		}
		if r.c.Tolerate(v) {
			return nil
		}
	}
	return err
}

func (r *runner) markSeen(name string, qt uint16, what string) {
	key := name + "|" + dns.Type(qt).String()
	if r.cached[key] == nil {
		r.cached[key] = map[string]bool{}
	}
	r.cached[key][what] = true
}

func eq(a, b Entry) bool { return strings.ToLower(a.D) == strings.ToLower(b.D) && a.A == b.A }

func (r *runner) target(op Op) (Entry, bool) {
	if op.Missing || len(r.table) == 0 {
		if op.E != nil {
			return *op.E, true
		}
		return Entry{D: "none.test", A: "10.9.9.9"}, true
	}
	return r.table[op.Idx%len(r.table)], true
}

func (r *runner) checkList() error {
	code, body, err := r.api("GET", "/control/rewrite/list", nil)
	if err != nil {
		return err
	}
	if code != http.StatusOK {
		return fmt.Errorf("harness: rewrite/list -> %d", code)
	}
	var got []struct {
		Domain string `json:"domain"`
		Answer string `json:"answer"`
	}
	if err = json.Unmarshal(body, &got); err != nil {
		return fmt.Errorf("harness: rewrite/list: %w", err)
	}
	gs := make([]string, 0, len(got))
	for _, g := range got {
		gs = append(gs, g.Domain+" -> "+g.Answer)
	}
	ws := make([]string, 0, len(r.table))
	for _, e := range r.table {
		ws = append(ws, strings.ToLower(e.D)+" -> "+e.A)
	}
	if strings.Join(gs, "; ") != strings.Join(ws, "; ") {
		return kernel.Violationf("table-api-mismatch", "after the add/update/delete history the table is\n  [%s]\nbut add = append, delete = remove every equal entry, update = replace the first equal entry give\n  [%s]", strings.Join(gs, "; "), strings.Join(ws, "; "))
	}
	return nil
}

func (r *runner) apply(op Op) error {
	switch op.K {
	case "query":
		return r.query(op)
	case "add":
		code, _, err := r.api("POST", "/control/rewrite/add", entJSON(*op.E))
		if err != nil {
			return err
		}
		if code != http.StatusOK {
			return fmt.Errorf("harness: rewrite/add -> %d", code)
		}
		r.table = append(r.table, *op.E)
		r.c.Probe("table_add")
	case "delete":
		tg, _ := r.target(op)
		code, _, err := r.api("POST", "/control/rewrite/delete", entJSON(tg))
		if err != nil {
			return err
		}
		if code != http.StatusOK {
			return fmt.Errorf("harness: rewrite/delete -> %d", code)
		}
		var out []Entry
		for _, e := range r.table {
			if !eq(e, tg) {
				out = append(out, e)
			}
		}
		if len(out) == len(r.table) {
			r.c.Probe("delete_missing")
		} else {
			r.c.Probe("table_delete")
		}
		if len(r.table)-len(out) > 1 {
			r.c.Probe("delete_removed_duplicates")
		}
		r.table = out
	case "update":
		tg, _ := r.target(op)
		code, _, err := r.api("PUT", "/control/rewrite/update", map[string]any{"target": entJSON(tg), "update": entJSON(*op.N)})
		if err != nil {
			return err
		}
		idx := -1
		for i, e := range r.table {
			if eq(e, tg) {
				idx = i
				break
			}
		}
		switch {
		case idx < 0 && code == http.StatusOK:
			return kernel.Violationf("table-api-mismatch", "update of the absent entry %v answered 200", tg)
		case idx >= 0 && code != http.StatusOK:
			return fmt.Errorf("harness: rewrite/update -> %d", code)
		case idx < 0:
			r.c.Probe("update_missing")
		default:
			r.table = append(append(append([]Entry{}, r.table[:idx]...), *op.N), r.table[idx+1:]...)
			r.c.Probe("table_update")
		}
	case "list":
		// Checked below.
	case "save":
		r.save()
	case "par":
		return r.par(op)
	default:
		return fmt.Errorf("harness: unknown op %q", op.K)
	}
	kernel.Wait()
	r.countSaves()
	if op.K != "query" {
		if op.K != "list" && op.K != "save" {
			r.c.Fault("live_table_change")
		}
		return r.checkList()
	}
	return nil
}

func hasDuplicates(t []Entry) bool {
	seen := map[string]bool{}
	for _, e := range t {
		k := strings.ToLower(e.D) + ">" + e.A
		if seen[k] {
			return true
		}
		seen[k] = true
	}
	return false
}

// Run executes one scenario.
func Run(t *testing.T, scAny any, c *kernel.Ctx) error {
	sc := scAny.(*Scenario)
	dnsnode.InitProcess()
	sched.Init()
	startWatcher()
	dir, err := kernel.TempDir("c06")
	if err != nil {
		return err
	}
	defer os.RemoveAll(dir)
	return kernel.Bubble(t, func() error {
		r := &runner{sc: sc, c: c, cached: map[string]map[string]bool{}, cache: sc.Cache > 0}
		r.table = append(r.table, sc.Table...)
		r.up = &env.Upstream{Addr: "sim-upstream:53", Answer: env.DefaultAnswer, Timeout: 3 * time.Second, Slow: 300 * time.Millisecond, Latency: 5 * time.Millisecond,
			OnFault: func(k string) { c.Fault(k) }}
		r.up.NextFault = func(*dns.Msg) env.UpstreamFault {
			d := r.up.Latency
			switch r.next {
			case env.UpTimeout:
				d += r.up.Timeout
			case env.UpSlow:
				d += r.up.Slow
			}
			r.wakeAt.Store(time.Now().Add(d).UnixNano())
			return r.next
		}
		cfg := &dnsnode.Config{Dir: dir, Upstream: r.up, UpTimeout: 2 * time.Second, ListServer: env.NewListServer(), OnModified: r.save}
		cfg.Filtering = filtering.Config{
			BlockingMode: filtering.BlockingModeDefault, BlockedResponseTTL: 10,
			ProtectionEnabled: true, FilteringEnabled: true,
			FiltersUpdateIntervalHours: 24, CacheTime: 30,
		}
		for _, e := range sc.Table {
			cfg.Filtering.Rewrites = append(cfg.Filtering.Rewrites, &filtering.LegacyRewrite{Domain: e.D, Answer: e.A})
		}
		cfg.DNS = dnsforward.Config{CacheSize: sc.Cache, UpstreamMode: dnsforward.UpstreamModeLoadBalance}
		n, err := dnsnode.New(cfg)
		if err != nil {
			return err
		}
		defer func() {
			if !r.abandon {
				n.Close()
			}
		}()
		r.n = n
		kernel.Wait()
		if hasDuplicates(r.table) {
			c.Probe("duplicate_entries")
		}
		if err := r.checkList(); err != nil {
			return err
		}
		for i, op := range sc.Ops {
			c.Eventf("op %d %s", i, op.K)
			if err := r.apply(op); err != nil {
				if v, ok := err.(*kernel.Violation); ok {
					v.Msg = fmt.Sprintf("op %d, table %s: %s", i, tableString(r.table), v.Msg)
				}
				return err
			}
			c.SimTime = kernel.SimNow()
			c.Step()
		}
		return nil
	})
}

var _ = sort.Strings

// Prop is the registration.
var Prop = &kernel.Property{
	ID:    "C06",
	Level: "exploration",
	Rule: "seeded histories (rapid): a rewrite table of 1-10 entries over a tiny alphabet (9 exact names up to 4 labels, 5 wildcard patterns with 1-4 labels after '*.', answers: 3 IPv4 / 2 IPv6 values, the 'A' / 'AAAA' exceptions, the pattern itself, CNAMEs to table names and to names outside the table; explicit CNAME chains of 1-5 hops, some hops through wildcards, ending in a cycle to any member / a self reference / addresses / an exception / an outside name / nothing; duplicates; random order) loaded as configuration and then changed live through the real /control/rewrite/add, /update, /delete handlers; ops = queries A/AAAA/TXT/HTTPS over 6 transports for table names, wildcard-covered names and outside names (some in mixed case), some with an upstream fault on the resolution leg, interleaved with the table changes; every accepted table change is followed by a save of the configuration the way package home does it (the components' ConfigModified callback has the filtering module fill in the very configuration object it was created with), and op 'save' (~3 %) does the same at any other point; DNS cache on in a third of the cases; op 'par' (mode D, ~7 % of the ops): 1-3 admin operations (add / delete / update through the real handlers), 1-4 queries and sometimes a listing and / or a configuration save run as concurrent tasks under the seeded cooperative scheduler (interleaved at lock boundaries, at the simulated upstream and, with the verbose log on, at every line a task writes to the process log), the admin operations arriving at a drawn point of a query's progress; in two thirds of these phases the queries ask names that resolve through CNAME entries and the admin operations hit entries on such a path with replacements further along it; " +
		"non-trivial = at least one executed query hit the table (reference outcome other than not_matched) AND at least one live table change or upstream fault happened; distinct = distinct scenario digests",
	Gen: Gen,
	New: func() any { return &Scenario{} },
	Run: Run,
	NonTrivial: func(_ any, c *kernel.Ctx) bool {
		f := c.Faults
		return c.Probes["matched_query"] > 0 && f["live_table_change"]+f["upstream_error"]+f["upstream_timeout"]+f["upstream_servfail"]+f["upstream_slow"] > 0
	},
	Real: []string{"internal/filtering (DNSFilter.CheckHost, processRewrites, findRewrites, rewrite table, /control/rewrite/{list,add,update,delete} handlers)", "internal/dnsforward (request pipeline: filterDNSRequest, CNAME leg with question restoration, getCNAMEWithIPs)", "dnsproxy request path (handleDNSRequest, Resolve, cache, respond*)", "internal/client.Storage"},
	Stub: []string{"upstream resolver (logs every question; answers derive from the name asked; seeded faults)", "client sockets (fake conns / response writers)", "query log and statistics (recorders)", "configuration file (the save collects the configuration from the filtering module and the DNS server the way home's config.write does, into the same filtering.Config object; nothing is encoded or written)", "wall clock (synctest); the termination watchdog reads the kernel's monotonic clock and process CPU time", "process log sink (concurrent phases: verbose level, every line written by a task is a scheduling point; at most one task at a time is held up there)", "goroutine scheduling in concurrent phases (seeded cooperative scheduler on a copy of the tree whose lock operations go through the verifyield seam)"},
	Assumptions: []string{
		"the reference resolution (ref.go) is the reading of AGHTechDoc.md §Rewrites + the statement: CNAME over address entries, exact over wildcard, longest wildcard first, pass-through exceptions, matched-without-value => empty NOERROR",
		"shapes the documentation leaves open are only held to S1 (termination) and S2 (no address outside the table for the resolved name and family): several CNAME targets at one pattern, one wildcard pattern with CNAME and address values, an exception and a value of the same family at one pattern, an entry of the other family shadowing a less specific entry of the asked family, a pass-through exception met at a later hop of a CNAME chain, CNAME cycles",
		"a wildcard '*.s' covers every name ending in '.s' (any depth), not 's' itself",
		"a synthesised answer need not list every value of the deciding pattern (any non-empty subset is accepted)",
		"with the DNS cache on, a name resolved upstream earlier may be served without a new exchange",
		"concurrent phase: the rewrite admin operations are atomic (the table listed afterwards is the result of one of their serial orders, with the status codes of that order), and a query or listing that overlaps them sees one of the table versions those orders pass through: its reply must satisfy the whole sequential oracle under at least one version; a reply that is a listed finding under one version counts as that finding",
		"concurrent phase: with the cache on, an overlapped query may be served what another query of the same phase fetched; upstream faults there are limited to error and SERVFAIL (the clock stands still); non-termination of a phase = 10 s wall + 5 s CPU",
		"non-termination is detected by a 2 s wall+CPU budget per query (60 s simulated); the worker process then ends and the driver takes the class from the replay of the running scenario (no shrinking for that class)",
	},
	FaultKinds: []string{"upstream_error", "upstream_timeout", "upstream_servfail", "upstream_slow", "live_table_change", "concurrent_table_change", "config_save"},
	ProbeNames: []string{oNotMatched, oPassExc, oLocal, oEmpty, oCnameUp, oUnspecified, "matched_query",
		"cname_beats_address", "exact_shadows_wildcard", "specific_wildcard_wins", "wildcard_cname", "wildcard_address", "self_reference", "family_exception",
		"wildcard_with_other_family_exception", "cycle", "cycle_through_qname", "cycle_not_through_qname", "chain_2plus", "chain_4plus", "chain_through_wildcard", "local_via_chain", "empty_via_chain", "unspecified_exception_at_later_hop",
		"unspecified_multi_target", "unspecified_wildcard_mixed_kinds", "unspecified_exc_and_value", "unspecified_cross_family",
		"fault_on_cname_leg", "upstream_failed_leg", "served_from_cache", "duplicate_entries",
		"table_add", "table_delete", "table_update", "delete_missing", "update_missing", "delete_removed_duplicates",
		"sched_steps", "sched_switches", "par_log_yields", "par_table_changed", "par_three_or_more_versions", "par_chain_query",
		"matched_query_after_save", "par_save_task", "par_query_discriminates", "par_query_saw_old", "par_query_saw_new", "par_query_saw_intermediate"},
}
