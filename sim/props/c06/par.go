package c06

// Op "par" (mode D): rewrite admin operations (add / delete / update through
// the real handlers), queries and table listings run as concurrent tasks under
// the seeded cooperative scheduler, interleaved at lock boundaries, at the
// simulated upstream and — with LogY — at every line the tasks write to the
// process log (verbose logging with a slow log sink: a log statement is a
// place where a request can be held up for any length of time).
//
// Oracle: the admin operations are atomic, so the table listed afterwards has
// to be the result of one of their serial orders (with the status codes that
// order gives); the table versions are the tables that the orders consistent
// with that observation pass through.  Every overlapped query (and listing) is
// judged by the complete sequential oracle against each version and has to be
// acceptable under at least one of them: it may have seen the table before or
// after any of the overlapped changes, but not a mixture.

import (
	"encoding/json"
	"fmt"
	"io"
	"net/http"
	"net/netip"
	"runtime"
	"strings"
	"sync"
	"sync/atomic"
	"syscall"
	"time"

	"github.com/AdguardTeam/AdGuardHome/verifsim/dnsnode"
	"github.com/AdguardTeam/AdGuardHome/verifsim/env"
	"github.com/AdguardTeam/AdGuardHome/verifsim/kernel"
	"github.com/AdguardTeam/AdGuardHome/verifsim/sched"
	aghlog "github.com/AdguardTeam/golibs/log"
	"github.com/miekg/dns"
	"pgregory.net/rapid"
)

var parFaults = []string{string(env.UpError), string(env.UpServfail)}

// arrive makes a task arrive late: after dly scheduling points of its own.
func arrive(dly int) {
	for i := 0; i < dly; i++ {
		sched.Yield()
	}
}

// arriveAtLine makes a task arrive when query ref of the phase has written
// line lines to the process log (or is through): the request comes in while
// the other one is held up at that log statement.
func arriveAtLine(w *logSink, ref, lines int) {
	for w.qlines[ref].Load() < int64(lines) && !w.qdone[ref].Load() {
		sched.Yield()
	}
}

// hopEntry returns the entry of tab that takes a resolution from name to the
// CNAME target next.
func hopEntry(tab []Entry, name, next string) (Entry, bool) {
	for _, e := range tab {
		if k, _ := e.kind(); k == vCNAME && patMatches(e.D, name) && strings.ToLower(e.A) == next {
			return e, true
		}
	}
	return Entry{}, false
}

// chainStarts lists the names whose resolution against tab follows at least
// one CNAME hop, with the names it passes; if some of them have an outcome the
// documentation fixes, only those.
func chainStarts(tab []Entry, allNames []string) (starts []string, paths map[string][]string) {
	paths = map[string][]string{}
	var open []string
	for _, n := range allNames {
		ex := resolve(tab, n, dns.TypeA)
		if len(ex.chain) == 0 {
			continue
		}
		paths[n] = append([]string{n}, ex.chain...)
		if ex.kind == oUnspecified {
			open = append(open, n)
		} else {
			starts = append(starts, n)
		}
	}
	if len(starts) == 0 {
		starts = open
	}
	return starts, paths
}

// trackOp applies a generated operation to the generator's picture of the
// table (the admin operations of a concurrent phase in index order: the real
// order may differ, the picture only serves to aim operations).
func trackOp(tab []Entry, op Op) []Entry {
	r := &runner{table: tab}
	switch op.K {
	case "add", "delete", "update":
		if a, err := r.resolveAdm(op); err == nil {
			tab, _ = admApply(tab, a)
		}
	case "par":
		for _, ao := range op.Adm {
			r.table = tab
			if a, err := r.resolveAdm(ao); err == nil {
				tab, _ = admApply(tab, a)
			}
		}
	}
	return tab
}

// genPar draws one concurrent phase; tab is the generator's picture of the
// table.  In two thirds of the phases the operations are aimed at each other:
// the overlapped queries ask for names that the table resolves through CNAME
// entries (a chain is added first, sequentially, if there is none), and the
// overlapped admin operations mostly hit an entry that such a query passes,
// with a replacement that lands on a name further along its path, arriving
// while that query is under way — a change of the table matters to a request
// in flight only if it touches what the request resolves through.
func genPar(t *rapid.T, allNames []string, tab []Entry) (ops []Op) {
	op := Op{K: "par",
		Seed: rapid.Uint64().Draw(t, "par_seed"),
		Pct:  rapid.SampledFrom([]int{20, 50, 80}).Draw(t, "par_pct"),
		Lst:  rapid.IntRange(0, 3).Draw(t, "par_list") == 0,
	}
	if rapid.IntRange(0, 3).Draw(t, "par_save") == 0 {
		op.Sav = 1 + rapid.SampledFrom([]int{0, 0, 2, 8, 20}).Draw(t, "par_save_delay")
	}
	var (
		starts []string
		paths  map[string][]string
	)
	if rapid.IntRange(0, 2).Draw(t, "par_aimed") != 0 {
		starts, paths = chainStarts(tab, allNames)
		if len(starts) == 0 || rapid.IntRange(0, 3).Draw(t, "par_new_chain") == 0 {
			for _, e := range genChain(t) {
				e := e
				a := Op{K: "add", E: &e}
				ops = append(ops, a)
				tab = trackOp(tab, a)
			}
			starts, paths = chainStarts(tab, allNames)
		}
		op.LogY = true
	} else {
		op.LogY = rapid.IntRange(0, 3).Draw(t, "par_logy") != 0
	}
	aimed := func(label string) bool {
		return len(starts) > 0 && rapid.IntRange(0, 3).Draw(t, label) != 0
	}
	nq := rapid.IntRange(1, 4).Draw(t, "par_n_q")
	if len(starts) > 0 {
		nq = rapid.IntRange(1, 2).Draw(t, "par_n_q_aimed")
	}
	for i := 0; i < nq; i++ {
		var name string
		if aimed("par_q_aimed") {
			name = rapid.SampledFrom(starts).Draw(t, "par_q_start")
		} else {
			name = genQName(t, allNames)
		}
		q := Op{K: "query",
			Name:  flipCase(t, name),
			Qt:    rapid.SampledFrom(qtypes).Draw(t, "qtype"),
			Proto: rapid.SampledFrom(protos).Draw(t, "proto"),
		}
		if rapid.IntRange(0, 7).Draw(t, "fault") == 0 {
			q.Fault = rapid.SampledFrom(parFaults).Draw(t, "par_fault_kind")
		}
		q.Dly = rapid.SampledFrom([]int{0, 0, 0, 0, 2, 8}).Draw(t, "par_q_delay")
		op.Qs = append(op.Qs, q)
	}
	for i, n := 0, rapid.SampledFrom([]int{1, 1, 1, 2, 2, 3}).Draw(t, "par_n_adm"); i < n; i++ {
		// The query this operation is timed against, and what it passes.
		ref := rapid.IntRange(0, nq-1).Draw(t, "par_adm_ref")
		path := paths[strings.ToLower(op.Qs[ref].Name)]
		// hit: the hop of that path whose entry the operation targets.
		hit := 0
		if len(path) > 1 {
			hit = rapid.IntRange(0, len(path)-2).Draw(t, "par_adm_hit")
		}
		replacement := func() Entry {
			if len(path) > 1 && rapid.IntRange(0, 3).Draw(t, "par_n_aimed") != 0 {
				// A name further along the path than the entry hit.
				d := path[rapid.IntRange(hit+1, len(path)-1).Draw(t, "par_n_name")]
				return Entry{D: d, A: genAnswer(t, d)}
			}
			return genEntry(t)
		}
		// target sets the target of a delete / update: the entry of that hop
		// (sent as given), an index into the live table, or an entry that may be
		// absent.
		target := func(a *Op) {
			if len(path) > 1 && rapid.IntRange(0, 3).Draw(t, "par_tg_aimed") != 0 {
				if e, ok := hopEntry(tab, path[hit], path[hit+1]); ok {
					a.Missing, a.E = true, &e
					return
				}
			}
			if rapid.IntRange(0, 7).Draw(t, "par_tg_missing") == 0 {
				e := genEntry(t)
				a.Missing, a.E = true, &e
				return
			}
			a.Idx = rapid.IntRange(0, 9).Draw(t, "par_tg_idx")
		}
		var a Op
		switch rapid.SampledFrom([]string{"update", "update", "update", "add", "delete"}).Draw(t, "par_adm_kind") {
		case "add":
			e := replacement()
			a = Op{K: "add", E: &e}
		case "delete":
			a = Op{K: "delete"}
			target(&a)
		default:
			n := replacement()
			a = Op{K: "update", N: &n}
			target(&a)
		}
		// With the verbose log, the operation arrives when query Ref has written
		// Dly/3 lines; otherwise after Dly scheduling points of its own (a query
		// passes some dozens of them on its way through the server).
		a.Ref = ref
		a.Dly = rapid.IntRange(0, 44).Draw(t, "par_adm_delay")
		op.Adm = append(op.Adm, a)
	}
	return append(ops, op)
}

// ---- the reference semantics of the admin operations (pure) --------------------

// admReq is one admin request with its target resolved.
type admReq struct {
	k      string
	tg, n  Entry
	method string
	path   string
	body   []byte
	dly    int
	ref    int
	// outcome
	code int
	err  error
}

// admApply is what the request does to a table: add = append, delete = remove
// every equal entry, update = replace the first equal entry (not found: no
// change and a client-error status).
func admApply(t []Entry, a *admReq) (out []Entry, ok bool) {
	switch a.k {
	case "add":
		return append(append([]Entry{}, t...), a.n), true
	case "delete":
		out = []Entry{}
		for _, e := range t {
			if !eq(e, a.tg) {
				out = append(out, e)
			}
		}
		return out, true
	default:
		for i, e := range t {
			if eq(e, a.tg) {
				out = append(append(append([]Entry{}, t[:i]...), a.n), t[i+1:]...)
				return out, true
			}
		}
		return append([]Entry{}, t...), false
	}
}

func tableKey(t []Entry) string {
	parts := make([]string, 0, len(t))
	for _, e := range t {
		parts = append(parts, strings.ToLower(e.D)+" -> "+e.A)
	}
	return strings.Join(parts, "; ")
}

func permutations(n int) (out [][]int) {
	var rec func(cur []int, used []bool)
	rec = func(cur []int, used []bool) {
		if len(cur) == n {
			out = append(out, append([]int{}, cur...))
			return
		}
		for i := 0; i < n; i++ {
			if !used[i] {
				used[i] = true
				rec(append(cur, i), used)
				used[i] = false
			}
		}
	}
	rec(nil, make([]bool, n))
	return out
}

// ---- the log sink as a scheduling point ----------------------------------------

func goid() uint64 {
	var buf [40]byte
	n := runtime.Stack(buf[:], false)
	var id uint64
	for _, c := range buf[len("goroutine "):n] {
		if c < '0' || c > '9' {
			break
		}
		id = id*10 + uint64(c-'0')
	}
	return id
}

// logSink is where the process log goes during a concurrent phase.  A line
// written by a task is a scheduling point.  The standard logger holds its
// output lock around Write, so while a task is held up here the log level is
// OFF: nobody else reaches that lock (at most one task at a time is held up
// in the log).
type logSink struct {
	mu     sync.Mutex
	tasks  map[uint64]int // goroutine of a task -> its query number, or -1
	in     atomic.Int32
	yields atomic.Int64
	// per query of the phase: lines it has written, and whether it is through
	qlines []atomic.Int64
	qdone  []atomic.Bool
}

// register makes the calling goroutine known as a task: query number q of
// the phase, or -1.
func (w *logSink) register(q int) {
	g := goid()
	w.mu.Lock()
	w.tasks[g] = q
	w.mu.Unlock()
}

func (w *logSink) Write(p []byte) (int, error) {
	g := goid()
	w.mu.Lock()
	q, isTask := w.tasks[g]
	w.mu.Unlock()
	if !isTask {
		return len(p), nil
	}
	w.in.Add(1)
	if q >= 0 {
		w.qlines[q].Add(1)
	}
	aghlog.SetLevel(aghlog.OFF)
	if sched.Yield() {
		w.yields.Add(1)
	}
	aghlog.SetLevel(aghlog.DEBUG)
	w.in.Add(-1)
	return len(p), nil
}

// logPoisoned: a deadlocked run left a task parked inside the log sink (with
// the standard logger's lock held); logging stays off in this process.
var logPoisoned bool

// ---- termination watchdog of a concurrent phase --------------------------------

type parWatch struct {
	c                   *kernel.Ctx
	startReal, startCPU int64
	desc                string
}

var (
	watching  atomic.Pointer[parWatch]
	watchOnce sync.Once
)

const (
	parWallBudget = 10 * time.Second
	parCPUBudget  = 5 * time.Second
)

// startWatcher starts the process-wide watchdog goroutine (outside any bubble:
// it sleeps in real time).
func startWatcher() {
	watchOnce.Do(func() {
		go func() {
			for {
				ts := syscall.NsecToTimespec(int64(100 * time.Millisecond))
				_ = syscall.Nanosleep(&ts, nil)
				w := watching.Load()
				if w == nil {
					continue
				}
				if realNanos()-w.startReal > int64(parWallBudget) && cpuNanos()-w.startCPU > int64(parCPUBudget) {
					doomed(w.c, "rewrite-nontermination", fmt.Sprintf("%s did not finish within %s of real time and %s of CPU time: evaluation does not terminate", w.desc, parWallBudget, parCPUBudget))
				}
			}
		}()
	})
}

// ---- the operation --------------------------------------------------------------

type parQuery struct {
	op    Op
	id    uint16
	fault env.UpstreamFault
	rep   *dnsnode.Reply
	exch  []env.Exchange
}

func (r *runner) resolveAdm(a Op) (*admReq, error) {
	q := &admReq{k: a.K, dly: a.Dly, ref: a.Ref}
	switch a.K {
	case "add":
		q.n = *a.E
		q.method, q.path = "POST", "/control/rewrite/add"
		q.body, _ = json.Marshal(entJSON(q.n))
	case "delete":
		q.tg, _ = r.target(a)
		q.method, q.path = "POST", "/control/rewrite/delete"
		q.body, _ = json.Marshal(entJSON(q.tg))
	case "update":
		q.tg, _ = r.target(a)
		q.n = *a.N
		q.method, q.path = "PUT", "/control/rewrite/update"
		q.body, _ = json.Marshal(map[string]any{"target": entJSON(q.tg), "update": entJSON(q.n)})
	default:
		return nil, fmt.Errorf("harness: unknown admin op %q in par", a.K)
	}
	return q, nil
}

func parseList(body []byte) ([]Entry, error) {
	var got []struct {
		Domain string `json:"domain"`
		Answer string `json:"answer"`
	}
	if err := json.Unmarshal(body, &got); err != nil {
		return nil, fmt.Errorf("harness: rewrite/list: %w", err)
	}
	out := make([]Entry, 0, len(got))
	for _, g := range got {
		out = append(out, Entry{D: g.Domain, A: g.Answer})
	}
	return out, nil
}

// judgeUnder runs the sequential oracle on the reply as if the table were tab.
func (r *runner) judgeUnder(tab []Entry, qc *qctx) error {
	saved := r.table
	r.table = tab
	defer func() { r.table = saved }()
	qc.ex = resolve(tab, qc.op.Name, qc.op.Qt)
	if err := r.checkGeneral(qc); err != nil {
		return err
	}
	if qc.ex.kind == oUnspecified {
		return nil
	}
	return r.checkSpecified(qc)
}

func firstLine(s string) string {
	if i := strings.IndexByte(s, '\n'); i >= 0 {
		return s[:i]
	}
	return s
}

func (r *runner) par(op Op) error {
	c := r.c
	pre := append([]Entry{}, r.table...)
	adm := make([]*admReq, 0, len(op.Adm))
	for _, a := range op.Adm {
		q, err := r.resolveAdm(a)
		if err != nil {
			return err
		}
		adm = append(adm, q)
	}
	qs := make([]*parQuery, 0, len(op.Qs))
	byID := map[uint16]*parQuery{}
	for j, q := range op.Qs {
		pq := &parQuery{op: q, id: uint16(0x4000 + j), fault: env.UpstreamFault(q.Fault)}
		qs = append(qs, pq)
		byID[pq.id] = pq
	}
	sink := &logSink{tasks: map[uint64]int{}, qlines: make([]atomic.Int64, len(qs)), qdone: make([]atomic.Bool, len(qs))}
	useLog := op.LogY && !logPoisoned
	var names []string
	var fns []func()
	for _, a := range adm {
		names = append(names, "rewrite/"+a.k)
		fns = append(fns, func() {
			sink.register(-1)
			if useLog && a.ref < len(qs) {
				arriveAtLine(sink, a.ref, a.dly/3)
			} else {
				arrive(a.dly)
			}
			a.code, _, a.err = r.n.Mux.Do(a.method, a.path, a.body)
		})
	}
	for j, pq := range qs {
		names = append(names, "query")
		fns = append(fns, func() {
			sink.register(j)
			arrive(pq.op.Dly)
			pq.rep = r.n.Do(&dnsnode.Query{Proto: pq.op.Proto, Addr: netip.MustParseAddrPort("192.0.2.1:40000"), Name: pq.op.Name, Qtype: pq.op.Qt, MsgID: pq.id})
			sink.qdone[j].Store(true)
		})
	}
	var (
		listCode int
		listBody []byte
		listErr  error
	)
	if op.Lst {
		names = append(names, "rewrite/list")
		fns = append(fns, func() {
			sink.register(-1)
			listCode, listBody, listErr = r.n.Mux.Do("GET", "/control/rewrite/list", nil)
		})
	}
	if op.Sav > 0 {
		names = append(names, "config/save")
		fns = append(fns, func() {
			sink.register(-1)
			arrive(op.Sav - 1)
			r.save()
		})
		c.Probe("par_save_task")
	}

	// Exchanges are attributed to the overlapped queries by message id.
	var strayExchange string
	savedNF := r.up.NextFault
	r.up.NextFault = func(req *dns.Msg) env.UpstreamFault {
		pq := byID[req.Id]
		if pq == nil {
			strayExchange = fmt.Sprintf("%s %s id %#x", req.Question[0].Name, dns.Type(req.Question[0].Qtype), req.Id)
			return env.UpOK
		}
		pq.exch = append(pq.exch, env.Exchange{Name: req.Question[0].Name, Qtype: req.Question[0].Qtype, Fault: string(pq.fault)})
		return pq.fault
	}
	lat := r.up.Latency
	r.up.Latency, r.up.OnExchange = 0, func() { sched.Yield() }
	if useLog {
		aghlog.SetOutput(sink)
		aghlog.SetLevel(aghlog.DEBUG)
	}
	desc := fmt.Sprintf("concurrent phase (schedule seed %d, %d admin operations, %d queries) on table %s", op.Seed, len(adm), len(qs), tableString(pre))
	watching.Store(&parWatch{c: c, startReal: realNanos(), startCPU: cpuNanos(), desc: desc})
	res := sched.Run(op.Seed, op.Pct, names, fns)
	watching.Store(nil)
	if useLog {
		if res.Deadlock != "" && sink.in.Load() > 0 {
			logPoisoned = true
		} else {
			aghlog.SetLevel(aghlog.INFO)
			aghlog.SetOutput(io.Discard)
		}
	}
	r.up.Latency, r.up.OnExchange = lat, nil
	r.up.NextFault = savedNF
	c.Probes["sched_steps"] += res.Steps
	c.Probes["sched_switches"] += res.Switches
	c.Probes["par_log_yields"] += int(sink.yields.Load())
	if res.Deadlock != "" {
		r.abandon = true
		return kernel.Violationf("deadlock: "+res.Deadlock, "%s: every task waits for a lock:\n%s", desc, res.Detail)
	}
	kernel.Wait()
	r.countSaves()
	c.Fault("concurrent_table_change")
	c.Fault("live_table_change")
	if strayExchange != "" {
		return fmt.Errorf("harness: upstream exchange %s belongs to none of the overlapped queries", strayExchange)
	}

	// What happened, in a fixed order.
	for k, a := range adm {
		if a.err != nil {
			if hp, ok := a.err.(*env.HandlerPanic); ok {
				return kernel.Violationf("api-panic", "%v", hp)
			}
			return a.err
		}
		c.Eventf("par adm[%d] %s %s %s -> %d", k, a.method, a.path, a.body, a.code)
		if a.k != "update" && a.code != http.StatusOK {
			return fmt.Errorf("harness: %s -> %d", a.path, a.code)
		}
	}
	for j, pq := range qs {
		pq.rep.Exchanges = pq.exch
		rc := "none"
		var ans []string
		if pq.rep.Msg != nil {
			rc = dns.RcodeToString[pq.rep.Msg.Rcode]
			ans = rrKeys(pq.rep.Msg.Answer)
		}
		c.Eventf("par q[%d] %s %s over %s fault=%q -> rcode=%s ans=%v up=%d", j, pq.op.Name, dns.Type(pq.op.Qt), pq.op.Proto, pq.op.Fault, rc, ans, len(pq.exch))
	}
	c.Eventf("par seed=%d pct=%d logy=%v steps=%d", op.Seed, op.Pct, useLog, res.Steps)

	// The table afterwards, as an observation.
	code, body, err := r.api("GET", "/control/rewrite/list", nil)
	if err != nil {
		return err
	}
	if code != http.StatusOK {
		return fmt.Errorf("harness: rewrite/list -> %d", code)
	}
	after, err := parseList(body)
	if err != nil {
		return err
	}
	// Serial orders consistent with it.
	var (
		versions [][]Entry
		seenVer  = map[string]bool{}
		final    []Entry
		tried    []string
	)
	addVersion := func(t []Entry) {
		if k := tableKey(t); !seenVer[k] {
			seenVer[k] = true
			versions = append(versions, t)
		}
	}
	for _, perm := range permutations(len(adm)) {
		cur := pre
		steps := [][]Entry{pre}
		consistent := true
		for _, k := range perm {
			next, ok := admApply(cur, adm[k])
			if adm[k].k == "update" && ok != (adm[k].code == http.StatusOK) {
				consistent = false
			}
			cur = next
			steps = append(steps, cur)
		}
		tried = append(tried, fmt.Sprintf("order %v -> [%s]", perm, tableKey(cur)))
		if !consistent || tableKey(cur) != tableKey(after) {
			continue
		}
		if final == nil {
			final = cur
		}
		for _, s := range steps {
			addVersion(s)
		}
	}
	if final == nil {
		var codes []string
		for _, a := range adm {
			codes = append(codes, fmt.Sprintf("%s %s => %s: %d", a.k, a.tg, a.n, a.code))
		}
		r.table = after
		return kernel.Violationf("concurrent-table-change-lost", "%s: after the concurrent admin operations [%s] the table is\n  [%s]\nwhich no serial order of them produces (with those status codes):\n  %s", desc, strings.Join(codes, "; "), tableKey(after), strings.Join(tried, "\n  "))
	}
	r.table = final
	if len(versions) > 1 {
		c.Probe("par_table_changed")
	}
	if len(versions) > 2 {
		c.Probe("par_three_or_more_versions")
	}

	// A concurrent listing shows one of the versions.
	if op.Lst {
		if listErr != nil {
			if hp, ok := listErr.(*env.HandlerPanic); ok {
				return kernel.Violationf("api-panic", "%v", hp)
			}
			return listErr
		}
		if listCode != http.StatusOK {
			return fmt.Errorf("harness: concurrent rewrite/list -> %d", listCode)
		}
		got, err := parseList(listBody)
		if err != nil {
			return err
		}
		c.Eventf("par list -> [%s]", tableKey(got))
		if !seenVer[tableKey(got)] {
			return kernel.Violationf("concurrent-list-fits-no-table-version", "%s: a listing concurrent with the admin operations shows\n  [%s]\nwhich is none of the table versions %s", desc, tableKey(got), versionsString(versions))
		}
	}

	// With the cache on, an overlapped query may have been served what another
	// one of this phase fetched.
	for _, pq := range qs {
		for _, e := range pq.exch {
			switch pq.fault {
			case env.UpOK:
				r.markSeen(lower(e.Name), e.Qtype, "ok")
			case env.UpServfail:
				r.markSeen(lower(e.Name), e.Qtype, "servfail")
			}
		}
	}

	// Every overlapped query fits one version.
	for j, pq := range qs {
		qdesc := fmt.Sprintf("%s %s over %s (concurrent with %d admin operations, schedule seed %d)", pq.op.Name, dns.Type(pq.op.Qt), pq.op.Proto, len(adm), op.Seed)
		qc := &qctx{op: pq.op, rep: pq.rep, fault: pq.fault, desc: qdesc}
		errs := make([]error, len(versions))
		nOK, firstOK := 0, -1
		chain := false
		for k, v := range versions {
			errs[k] = r.judgeUnder(v, qc)
			if errs[k] == nil {
				nOK++
				if firstOK < 0 {
					firstOK = k
				}
			} else if _, isV := errs[k].(*kernel.Violation); !isV {
				return errs[k]
			}
			if len(qc.ex.chain) > 0 {
				chain = true
			}
			if qc.ex.kind != oNotMatched {
				c.Probe("matched_query")
			}
		}
		if chain {
			c.Probe("par_chain_query")
		}
		if nOK > 0 {
			c.Eventf("par q[%d] fits version %d of %d", j, firstOK, len(versions))
			if nOK < len(versions) {
				c.Probe("par_query_discriminates")
				switch {
				case errs[0] == nil:
					c.Probe("par_query_saw_old")
				case errs[len(versions)-1] == nil:
					c.Probe("par_query_saw_new")
				default:
					c.Probe("par_query_saw_intermediate")
				}
			}
			continue
		}
		// A listed finding under one of the versions is that finding.
		tolerated := false
		for k := range versions {
			if v := errs[k].(*kernel.Violation); c.IsKnown(v.Class) {
				c.Tolerate(v)
				c.Eventf("par q[%d] known finding %s under version %d", j, v.Class, k)
				tolerated = true
				break
			}
		}
		if tolerated {
			continue
		}
		var why []string
		for k, v := range versions {
			viol := errs[k].(*kernel.Violation)
			why = append(why, fmt.Sprintf("version %d [%s]: %s: %s", k, tableKey(v), viol.Class, firstLine(viol.Msg)))
		}
		m := "<no reply>"
		if pq.rep.Msg != nil {
			m = "\n" + pq.rep.Msg.String()
		}
		return kernel.Violationf("answer-fits-no-table-version", "%s: the answer is acceptable under none of the %d table versions that the overlapped admin operations [%s] produce: a request that overlaps a change of the table may be judged by the table before or after it, not by a mixture\n  %s\n  upstream questions: %v\n  reply: %s", qdesc, len(versions), admString(adm), strings.Join(why, "\n  "), pq.exch, m)
	}
	return nil
}

func versionsString(vs [][]Entry) string {
	parts := make([]string, 0, len(vs))
	for _, v := range vs {
		parts = append(parts, "["+tableKey(v)+"]")
	}
	return strings.Join(parts, " | ")
}

func admString(adm []*admReq) string {
	parts := make([]string, 0, len(adm))
	for _, a := range adm {
		switch a.k {
		case "add":
			parts = append(parts, fmt.Sprintf("add %s -> %s", a.n.D, a.n.A))
		case "delete":
			parts = append(parts, fmt.Sprintf("delete %s -> %s", a.tg.D, a.tg.A))
		default:
			parts = append(parts, fmt.Sprintf("update %s -> %s into %s -> %s (%d)", a.tg.D, a.tg.A, a.n.D, a.n.A, a.code))
		}
	}
	return strings.Join(parts, "; ")
}
