// Package c17 decides property C17 (a local file is read as a filter-list
// source only if its cleaned absolute path matches a configured safe pattern —
// at add, at set-url and at every refresh) by deterministic simulation on
// engine E7 (listsim): the real filtering.DNSFilter on a tmpfs data directory
// next to a small directory tree whose files each carry a unique marker rule
// that is renewed before every operation, so that a marker found anywhere
// (list files, API answers, rules in force, rule counts) proves that this file
// was read during that operation.
package c17

import (
	"fmt"
	"os"
	"path/filepath"
	"regexp"
	"sort"
	"strconv"
	"strings"
	"testing"
	"time"

	"github.com/AdguardTeam/AdGuardHome/verifsim/kernel"
	ls "github.com/AdguardTeam/AdGuardHome/verifsim/listsim"
	"pgregory.net/rapid"
)

// tree is the directory tree under $R; every entry is a file with a marker.
var tree = []string{
	"ok/a.txt",
	"ok/b.lst",
	"ok/sub/c.txt",
	"secret/d.txt",
	"e.txt",
	"ok2/f.txt",
	"ok/.hidden.txt",
	"ok/we ird[1].txt",
}

// targets are what a location may point at: the files, then some directories
// and a name that does not exist.
var targets = append(append([]string{}, tree...), "ok", "secret", "", "ok/nope.txt")

// patternAlphabet: $R is replaced by the root of the tree.
var patternAlphabet = []string{
	"$R/ok/*",
	"$R/ok/*.txt",
	"$R/ok/?.txt",
	"$R/ok/[ab].*",
	"$R/ok/sub/c.txt",
	"$R/*/*.txt",
	"$R/*",
	"*",
	"*.txt",
	"/*",
	"$R/ok/**",
	"$R/ok",
	"$R/ok/",
	"$R/secret/[!d].txt",
	"$R/ok/../secret/*",
	"ok/*",
	"$R/*/*/*",
	"$R//ok/*",
	"$R/o*/[a-f].txt",
	"$R/ok/\\*",
	"/",
	"$R/secret/d.txt",
	"$R/ok/we*",
	"$R/e.txt",
}

// forms of spelling a location for target path P (absolute, clean) under root R.
var forms = []string{
	"abs",         // P
	"dot",         // R/./rel
	"via_ok",      // R/ok/../rel
	"via_secret",  // R/secret/../rel
	"climb",       // R/ok/sub/../../rel
	"dslash",      // R//rel
	"lead_dslash", // //P
	"trail_slash", // P/
	"trail_dot",   // P/.
	"root_climb",  // /../..P
	"rel",         // relative to the working directory
	"dot_rel",     // ./ + relative
	"file_url",    // file://P
	"file_colon",  // file:P
	"file_upper",  // FILE://P
	"file_host",   // file://localhost P
	"ftp_url",     // ftp://lists.test P
	"no_scheme",   // lists.test P
	"query",       // P?x=1
	"pct_dotdot",  // R/ok/%2e%2e/rel
	"space_abs",   // " " + P
	"http",        // http://lists.test/rel
	"https",       // https://lists.test/rel
	"http_dotdot", // http://lists.test/../..P
	"via_missing", // R/nope/../rel
	"long_climb",  // R/ok/../ok/../ok/../rel
}

// Loc is a generated location: a target and a spelling.
type Loc struct {
	T int `json:"t"`
	F int `json:"f"`
}

// CfgList is a list written into the configuration by hand.
type CfgList struct {
	Loc Loc  `json:"loc"`
	W   bool `json:"w,omitempty"`
	En  bool `json:"en"`
}

// Op is one generated operation.
type Op struct {
	// K: add seturl remove refresh advance restart.
	K   string `json:"k"`
	Loc Loc    `json:"loc,omitempty"`
	W   bool   `json:"w,omitempty"`
	En  bool   `json:"en,omitempty"`
	// N selects the list a seturl / remove is aimed at (position in status).
	N int   `json:"n,omitempty"`
	S int64 `json:"s,omitempty"`
	// Alt (add, seturl): if the request is refused, it is repeated after the
	// bytes of the file it points at have been replaced by content of this
	// kind (index into altKinds).
	Alt int `json:"alt,omitempty"`
	// restart: Pat != nil replaces the pattern list; Inject adds lists.
	Pat    *[]int    `json:"pat,omitempty"`
	Inject []CfgList `json:"inject,omitempty"`
}

// Scenario is one case.
type Scenario struct {
	Patterns []int     `json:"patterns"`
	Init     []CfgList `json:"init,omitempty"`
	Ops      []Op      `json:"ops"`
}

func genLoc(t *rapid.T) Loc {
	l := Loc{T: rapid.IntRange(0, len(targets)-1).Draw(t, "target"), F: rapid.IntRange(0, len(forms)-1).Draw(t, "form")}
	if rapid.IntRange(0, 2).Draw(t, "a_file") != 0 {
		l.T = rapid.IntRange(0, len(tree)-1).Draw(t, "file")
	}
	return l
}

func genPatterns(t *rapid.T) []int {
	n := rapid.SampledFrom([]int{1, 0, 2, 1, 3, 2}).Draw(t, "n_patterns")
	out := make([]int, 0, n)
	for i := 0; i < n; i++ {
		out = append(out, rapid.IntRange(0, len(patternAlphabet)-1).Draw(t, "pattern"))
	}
	return out
}

func genCfg(t *rapid.T) CfgList {
	return CfgList{Loc: genLoc(t), W: rapid.IntRange(0, 3).Draw(t, "allow") == 0, En: rapid.IntRange(0, 5).Draw(t, "enabled") != 0}
}

var opKinds = []string{"add", "refresh", "seturl", "advance", "add", "restart", "refresh", "seturl", "advance", "add", "remove", "restart"}

// Gen draws a scenario.
func Gen(t *rapid.T, tier string) any {
	sc := &Scenario{Patterns: genPatterns(t)}
	for i, n := 0, rapid.IntRange(0, 3).Draw(t, "n_init"); i < n; i++ {
		sc.Init = append(sc.Init, genCfg(t))
	}
	maxOps := 12
	if tier == "thorough" {
		maxOps = 30
	}
	for i, n := 0, rapid.IntRange(2, maxOps).Draw(t, "n_ops"); i < n; i++ {
		var op Op
		switch rapid.SampledFrom(opKinds).Draw(t, "kind") {
		case "add":
			op = Op{K: "add", Loc: genLoc(t), W: rapid.IntRange(0, 3).Draw(t, "allow") == 0, Alt: rapid.IntRange(0, len(altKinds)-1).Draw(t, "alt")}
		case "seturl":
			op = Op{K: "seturl", Loc: genLoc(t), N: rapid.IntRange(0, 5).Draw(t, "which"), En: rapid.IntRange(0, 4).Draw(t, "enabled") != 0, Alt: rapid.IntRange(0, len(altKinds)-1).Draw(t, "alt")}
		case "remove":
			op = Op{K: "remove", N: rapid.IntRange(0, 5).Draw(t, "which")}
		case "refresh":
			op = Op{K: "refresh", W: rapid.IntRange(0, 3).Draw(t, "allow") == 0}
		case "advance":
			op = Op{K: "advance", S: rapid.SampledFrom([]int64{3700, 6, 7300, 1, 60}).Draw(t, "secs")}
		default:
			op = Op{K: "restart"}
			if rapid.IntRange(0, 3).Draw(t, "new_patterns") != 0 {
				p := genPatterns(t)
				op.Pat = &p
			}
			for j, m := 0, rapid.IntRange(0, 2).Draw(t, "n_inject"); j < m; j++ {
				op.Inject = append(op.Inject, genCfg(t))
			}
		}
		sc.Ops = append(sc.Ops, op)
	}
	return sc
}

// ---- the run ----------------------------------------------------------------

var markerRe = regexp.MustCompile(`m(\d+)g(\d+)\.marker\.test`)

func markerName(file, gen int) string { return fmt.Sprintf("m%dg%d.marker.test", file, gen) }

// fileContent is the rule list file i of the tree holds during generation gen.
func fileContent(i, gen int) []byte {
	var b strings.Builder
	fmt.Fprintf(&b, "! Title: file %d\n||%s^\n", i, markerName(i, gen))
	for k := 0; k <= i; k++ {
		fmt.Fprintf(&b, "||filler%d-%d.example^\n", i, k)
	}
	return []byte(b.String())
}

// altKinds are other things a file may hold; each still carries the file's
// marker of the generation, so that quoted content is recognised.
var altKinds = []string{"html", "binary", "empty", "other_list", "control_first", "long_line", "hosts"}

func altContent(kind string, i, gen int) []byte {
	m := markerName(i, gen)
	switch kind {
	case "html":
		return []byte("<!DOCTYPE html>\n<html><head><title>" + m + "</title></head><body>||" + m + "^</body></html>\n")
	case "binary":
		return []byte("\x7fELF\x01\x02\x00\x00||" + m + "^\x00\x00\n\xff\xfe\x00")
	case "empty":
		return nil
	case "other_list":
		return []byte("! Title: something else\n@@||" + m + "^\n||another.example^$important\n")
	case "control_first":
		return []byte("||" + m + "^\n\x01\x02\x03\n")
	case "long_line":
		return []byte("||" + m + "^\n" + strings.Repeat("x", 70000) + "\n")
	case "hosts":
		return []byte("# hosts\n0.0.0.0 " + m + "\n127.0.0.1 localhost\n")
	}
	return []byte(m)
}

type run struct {
	sc   *Scenario
	c    *kernel.Ctx
	dir  string // case directory
	root string // $R
	cwd  string
	n    *ls.Node
	srv  *ls.Server
	gen  int
	// patterns in force (rendered), and those that may have been in force
	// at some instant of the current generation.
	patterns    []string
	genPatterns [][]string
	// allowedAt[gen][file]
	allowedAt []map[int]bool
	// everAllowed[clean path]: some generation allowed reading it.
	everAllowed map[string]bool
	nextID      int64
}

func (r *run) renderPatterns(idx []int) []string {
	out := make([]string, 0, len(idx))
	for _, i := range idx {
		out = append(out, strings.ReplaceAll(patternAlphabet[i%len(patternAlphabet)], "$R", r.root))
	}
	return out
}

// render spells a location.
func (r *run) render(l Loc) string {
	rel := targets[l.T%len(targets)]
	p := filepath.Join(r.root, rel)
	R := r.root
	relCwd, err := filepath.Rel(r.cwd, p)
	if err != nil {
		relCwd = "fs/" + rel
	}
	switch forms[l.F%len(forms)] {
	case "abs":
		return p
	case "dot":
		return R + "/./" + rel
	case "via_ok":
		return R + "/ok/../" + rel
	case "via_secret":
		return R + "/secret/../" + rel
	case "climb":
		return R + "/ok/sub/../../" + rel
	case "dslash":
		return R + "//" + rel
	case "lead_dslash":
		return "//" + p
	case "trail_slash":
		return p + "/"
	case "trail_dot":
		return p + "/."
	case "root_climb":
		return "/../.." + p
	case "rel":
		return relCwd
	case "dot_rel":
		return "./" + relCwd
	case "file_url":
		return "file://" + p
	case "file_colon":
		return "file:" + p
	case "file_upper":
		return "FILE://" + p
	case "file_host":
		return "file://localhost" + p
	case "ftp_url":
		return "ftp://lists.test" + p
	case "no_scheme":
		return "lists.test" + p
	case "query":
		return p + "?x=1"
	case "pct_dotdot":
		return R + "/ok/%2e%2e/" + rel
	case "space_abs":
		return " " + p
	case "http":
		return "http://lists.test/" + rel
	case "https":
		return "https://lists.test/" + rel
	case "http_dotdot":
		return "http://lists.test/../.." + p
	case "via_missing":
		return R + "/nope/../" + rel
	case "long_climb":
		return R + "/ok/../ok/../ok/../" + rel
	}
	return p
}

// The statement's rule: a location is a readable local file only if it is an
// absolute path whose cleaned form matches one of the patterns (filepath.Match
// is the trusted matcher).
func matchAny(patterns []string, clean string) bool {
	for _, p := range patterns {
		if ok, err := filepath.Match(p, clean); err == nil && ok {
			return true
		}
	}
	return false
}

func isNetwork(loc string) bool {
	return strings.HasPrefix(loc, "http://") || strings.HasPrefix(loc, "https://")
}

func (r *run) mayRead(loc string) bool {
	return filepath.IsAbs(loc) && matchAny(r.patterns, filepath.Clean(loc))
}

// writeTree renews every file's marker for generation r.gen and records which
// files may be read during it.
func (r *run) writeTree() error {
	allowed := map[int]bool{}
	for i, rel := range tree {
		p := filepath.Join(r.root, rel)
		if err := os.MkdirAll(filepath.Dir(p), 0o755); err != nil {
			return err
		}
		if err := os.WriteFile(p, fileContent(i, r.gen), 0o644); err != nil {
			return err
		}
		for _, pats := range r.genPatterns {
			if matchAny(pats, p) {
				allowed[i] = true
				r.everAllowed[p] = true
			}
		}
	}
	for len(r.allowedAt) <= r.gen {
		r.allowedAt = append(r.allowedAt, nil)
	}
	r.allowedAt[r.gen] = allowed
	return nil
}

func (r *run) clean(s string) string { return kernel.CleanPath(r.dir, s) }

// scan looks for markers in b; every marker must belong to a file that was
// allowed to be read in the marker's generation.
func (r *run) scan(class, where string, b []byte) error {
	for _, m := range markerRe.FindAllSubmatch(b, -1) {
		file, _ := strconv.Atoi(string(m[1]))
		gen, _ := strconv.Atoi(string(m[2]))
		if gen < len(r.allowedAt) && r.allowedAt[gen][file] {
			r.c.Probe("marker_of_allowed_file_seen")
			continue
		}
		return kernel.Violationf(class, "%s contains %s: file $R/%s was read during operation %d, when the safe patterns were %s", where, m[0], tree[file%len(tree)], gen-1, r.clean(fmt.Sprint(r.genPatternsAt(gen))))
	}
	return nil
}

func (r *run) genPatternsAt(gen int) any {
	if gen == r.gen {
		return r.genPatterns
	}
	return "(those of that operation)"
}

func (r *run) options(block, allow []ls.ListConf, patterns []string) ls.Options {
	return ls.Options{DataDir: filepath.Join(r.dir, "data"), Block: block, Allow: allow, SafeFSPatterns: patterns, IntervalH: 1, ClientTimeout: 30 * time.Second}
}

func (r *run) cfgToConf(cl CfgList, k int) ls.ListConf {
	r.nextID++
	return ls.ListConf{ID: r.nextID, URL: r.render(cl.Loc), Name: fmt.Sprintf("cfg %d", k), Enabled: cl.En}
}

func (r *run) allLists(st *ls.Status) []struct {
	ls.FilterJSON
	White bool
} {
	var out []struct {
		ls.FilterJSON
		White bool
	}
	for _, f := range st.Filters {
		out = append(out, struct {
			ls.FilterJSON
			White bool
		}{f, false})
	}
	for _, f := range st.WhitelistFilters {
		out = append(out, struct {
			ls.FilterJSON
			White bool
		}{f, true})
	}
	return out
}

func (r *run) apply(i int, op Op) (bodies [][]byte, err error) {
	n, c := r.n, r.c
	switch op.K {
	case "add", "seturl":
		loc := r.render(op.Loc)
		var code int
		var body []byte
		var request func() (int, []byte, error)
		if op.K == "add" {
			request = func() (int, []byte, error) { return n.AddURL("", loc, op.W) }
		} else {
			st, _, err2 := n.Status()
			if err2 != nil {
				return nil, err2
			}
			all := r.allLists(st)
			target, white := "http://lists.test/none", false
			if len(all) > 0 {
				l := all[op.N%len(all)]
				target, white = l.URL, l.White
			}
			request = func() (int, []byte, error) { return n.SetURL(target, white, "", loc, op.En) }
		}
		if code, body, err = request(); err != nil {
			return nil, err
		}
		c.Eventf("  %s target#%d form=%s -> %d", op.K, op.Loc.T%len(targets), forms[op.Loc.F%len(forms)], code)
		bodies = append(bodies, body)
		switch {
		case isNetwork(loc):
			c.Probe("network_location")
		case r.mayRead(loc):
			c.Probe("location_matching_patterns")
			if code == 200 {
				c.Probe("local_file_accepted")
			}
		default:
			if filepath.IsAbs(loc) {
				c.Probe("local_location_outside_patterns")
			} else {
				c.Probe("non_http_non_absolute_location")
			}
			if code != 400 {
				return nil, kernel.Violationf("unsafe-location-accepted", "%s with location %q (target $R/%s spelled %s) answered %d, want 400; safe patterns %s", op.K, r.clean(loc), targets[op.Loc.T%len(targets)], forms[op.Loc.F%len(forms)], code, r.clean(fmt.Sprint(r.patterns)))
			}
			c.Probe("unsafe_location_rejected_400")
			// The file the location points at must not have been opened, so
			// what it holds cannot have influenced the answer: the same
			// request with other bytes at the same path gets the same answer.
			if ti := op.Loc.T % len(targets); ti < len(tree) {
				kind := altKinds[op.Alt%len(altKinds)]
				p := filepath.Join(r.root, tree[ti])
				if err = os.WriteFile(p, altContent(kind, ti, r.gen), 0o644); err != nil {
					return nil, err
				}
				code2, body2, err2 := request()
				if err2 != nil {
					return nil, err2
				}
				if err = os.WriteFile(p, fileContent(ti, r.gen), 0o644); err != nil {
					return nil, err
				}
				bodies = append(bodies, body2)
				c.Eventf("  again with %s content -> %d same=%v", kind, code2, code2 == code && string(body2) == string(body))
				c.Probe("refused_request_repeated_with_other_content")
				if code2 != code || string(body2) != string(body) {
					return nil, kernel.Violationf("refused-answer-depends-on-file-content", "%s with location %q (target $R/%s spelled %s, outside the safe patterns %s) answered %d %q while the file held a rule list and %d %q while it held %s content: the file was opened and read", op.K, r.clean(loc), targets[ti], forms[op.Loc.F%len(forms)], r.clean(fmt.Sprint(r.patterns)), code, r.clean(strings.TrimSpace(string(body))), code2, r.clean(strings.TrimSpace(string(body2))), kind)
				}
			}
		}
	case "remove":
		st, _, err2 := n.Status()
		if err2 != nil {
			return nil, err2
		}
		if all := r.allLists(st); len(all) > 0 {
			l := all[op.N%len(all)]
			if _, _, err = n.RemoveURL(l.URL, l.White); err != nil {
				return nil, err
			}
		}
	case "refresh":
		code, _, body, err2 := n.Refresh(op.W)
		if err2 != nil {
			return nil, err2
		}
		if code != 200 {
			return nil, kernel.Violationf("api-status", "POST filtering/refresh -> %d %s", code, body)
		}
		bodies = append(bodies, body)
		c.Probe("refresh_forced")
	case "advance":
		time.Sleep(time.Duration(op.S) * time.Second)
		c.SimTime += time.Duration(op.S) * time.Second
	case "restart":
		block, allow, _, _, _ := n.DiskConfig()
		n.Close()
		if err = ls.FixMtimes(n.Opt.DataDir); err != nil {
			return nil, err
		}
		pats := r.patterns
		if op.Pat != nil {
			pats = r.renderPatterns(*op.Pat)
			r.genPatterns = append(r.genPatterns, pats)
			c.Fault("patterns_changed")
		}
		for k, cl := range op.Inject {
			lc := r.cfgToConf(cl, k)
			if cl.W {
				allow = append(allow, lc)
			} else {
				block = append(block, lc)
			}
			c.Fault("location_edited_into_config")
		}
		time.Sleep(2 * time.Second)
		r.n, err = ls.Open(r.options(block, allow, pats), r.srv)
		if err != nil {
			return nil, fmt.Errorf("harness: reopening: %w", err)
		}
		r.patterns = pats
		// Files readable under either pattern list may show up in this generation.
		if err = r.writeTree(); err != nil {
			return nil, err
		}
		c.Fault("clean_restart")
	default:
		return nil, fmt.Errorf("harness: unknown op %q", op.K)
	}
	return bodies, nil
}

func (r *run) check(bodies [][]byte, recs []*ls.Record) error {
	n, c := r.n, r.c
	for _, rec := range recs {
		if rec.Refused {
			c.Probe("non_http_scheme_reached_transport")
		} else {
			c.Probe("network_download")
		}
	}
	st, stBody, err := n.Status()
	if err != nil {
		return err
	}
	for _, b := range append(bodies, stBody) {
		if err = r.scan("unsafe-file-content-in-response", "an API answer", b); err != nil {
			return err
		}
	}
	// every file under the data directory
	var names []string
	err = filepath.Walk(n.Opt.DataDir, func(p string, fi os.FileInfo, err error) error {
		if err == nil && !fi.IsDir() {
			names = append(names, p)
		}
		return err
	})
	if err != nil {
		return err
	}
	sort.Strings(names)
	for _, p := range names {
		b, err := os.ReadFile(p)
		if err != nil {
			return err
		}
		if err = r.scan("unsafe-file-content-stored", r.clean(p), b); err != nil {
			return err
		}
	}
	// rules in force: the current markers of all files
	inForce := 0
	for i := range tree {
		name := markerName(i, r.gen)
		v, err := n.CheckHost(name)
		if err != nil {
			return err
		}
		if v.Reason != "NotFilteredNotFound" {
			inForce++
			if !r.allowedAt[r.gen][i] {
				return kernel.Violationf("unsafe-file-rules-in-force", "check_host %s -> %s: the rules of $R/%s, read during this operation, are in force; safe patterns %s", name, v.Reason, tree[i], r.clean(fmt.Sprint(r.genPatterns)))
			}
			c.Probe("allowed_file_rules_in_force")
		}
	}
	// rule counts of lists whose location never was readable
	all := r.allLists(st)
	for _, l := range all {
		if !filepath.IsAbs(l.URL) {
			if !isNetwork(l.URL) && l.RulesCount != 0 {
				return kernel.Violationf("unsafe-file-counted", "list %q (neither http(s) nor an absolute path) reports %d rules", r.clean(l.URL), l.RulesCount)
			}
			continue
		}
		if cl := filepath.Clean(l.URL); !r.everAllowed[cl] && l.RulesCount != 0 {
			return kernel.Violationf("unsafe-file-counted", "list %q reports %d rules although %s never matched the safe patterns", r.clean(l.URL), l.RulesCount, r.clean(cl))
		}
		if !r.mayRead(l.URL) {
			c.Probe("configured_list_outside_patterns")
		}
	}
	if len(r.patterns) == 0 {
		c.Probe("checked_with_no_patterns")
	}
	c.Eventf("  lists=%d in_force=%d requests=%d", len(all), inForce, len(recs))
	return nil
}

// Run executes one scenario.
func Run(t *testing.T, scAny any, c *kernel.Ctx) error {
	sc := scAny.(*Scenario)
	dir, err := kernel.TempDir("c17")
	if err != nil {
		return err
	}
	defer os.RemoveAll(dir)
	cwd, err := os.Getwd()
	if err != nil {
		return err
	}
	return kernel.Bubble(t, func() error {
		r := &run{sc: sc, c: c, dir: dir, root: filepath.Join(dir, "fs"), cwd: cwd, everAllowed: map[string]bool{}, nextID: 100}
		r.patterns = r.renderPatterns(sc.Patterns)
		r.genPatterns = [][]string{r.patterns}
		if err := r.writeTree(); err != nil {
			return err
		}
		k := 0
		r.srv = &ls.Server{Plan: func(u string) ls.Reply {
			k++
			return ls.Reply{Kind: ls.KindOK, Body: []byte(fmt.Sprintf("! Title: net\n||net%d.example^\n", k%3))}
		}}
		var block, allow []ls.ListConf
		for k, cl := range sc.Init {
			lc := r.cfgToConf(cl, k)
			if cl.W {
				allow = append(allow, lc)
			} else {
				block = append(block, lc)
			}
			c.Fault("location_edited_into_config")
		}
		if r.n, err = ls.Open(r.options(block, allow, r.patterns), r.srv); err != nil {
			return fmt.Errorf("harness: filtering.New: %w", err)
		}
		defer func() { r.n.Close(); r.n.Drain() }()
		for i, op := range sc.Ops {
			r.gen = i + 1
			r.genPatterns = [][]string{r.patterns}
			if err = r.writeTree(); err != nil {
				return err
			}
			c.Eventf("op %d %s t=%s", i, op.K, time.Since(kernel.Epoch))
			bodies, err := r.apply(i, op)
			if err == nil {
				c.SimTime += r.n.Settle()
				err = ls.FixMtimes(r.n.Opt.DataDir)
			}
			if err == nil {
				err = r.check(bodies, r.srv.Take())
			}
			if err != nil {
				if v, ok := err.(*kernel.Violation); ok {
					v.Msg = fmt.Sprintf("after op %d (%s): %s", i, op.K, v.Msg)
				}
				return err
			}
			c.Step()
		}
		return nil
	})
}

// Prop is the registration.
var Prop = &kernel.Property{
	ID:    "C17",
	Level: "exploration",
	Rule: "seeded histories (rapid) of add_url / set_url / forced refresh / clock advance past the update interval (timer-driven refresh) / remove / restart with a changed safe-pattern list and with locations written into the configuration by hand, " +
		"over pattern lists drawn from 24 patterns (empty list, exact paths, * ? [..] [!..] globs, relative, unclean and escaped patterns) and locations = 12 targets x 26 spellings (absolute, ./, ../ through allowed, forbidden and missing directories, doubled / leading / trailing separators, relative, file: ftp: scheme-less, query, percent-encoded, http(s)); " +
		"every file's marker rule is renewed before each operation; refused add_url / set_url requests are repeated with other content in the file they point at; a case is non-trivial when >=1 location outside the patterns (or non-http, non-absolute) was presented and >=1 file matching the patterns was actually read; distinct = distinct scenario digests",
	Gen: Gen,
	New: func() any { return &Scenario{} },
	Run: Run,
	NonTrivial: func(_ any, c *kernel.Ctx) bool {
		bad := c.Probes["local_location_outside_patterns"] + c.Probes["non_http_non_absolute_location"] + c.Probes["configured_list_outside_patterns"]
		return bad > 0 && c.Probes["marker_of_allowed_file_seen"] > 0
	},
	Real: []string{"internal/filtering (validateFilterURL, reader, pathMatchesAny, add_url / set_url / refresh / status / check_host handlers, updates loop, load at start)", "net/http client in front of the stub transport", "the local files: a real directory tree on tmpfs"},
	Stub: []string{"list server / http.Transport (RoundTripper that refuses every scheme but http and https exactly like http.Transport without registered protocols, and records the attempt)", "admin HTTP client (handlers called in-process)", "configuration file (the harness carries WriteDiskConfig's lists over a restart and edits locations and safe_fs_patterns into it)", "wall clock (synctest fake clock)"},
	Assumptions: []string{
		"filepath.Match and filepath.Clean (stdlib) are the trusted matcher and cleaner",
		"reading is observed through content: a file counts as read when its per-operation marker shows up in a file under the data directory, an API answer, the rules in force or a rule count; a read whose content is thrown away entirely is not observable, except at add_url / set_url: a refused request for a location outside the patterns is repeated after the bytes of the file it points at have been replaced (HTML, binary, empty, another list, control characters, an over-long line, hosts syntax; same path, same type), and the two answers must be identical",
		"the tree contains no symbolic links (the statement excludes them)",
		"during a restart operation files matching either the old or the new pattern list may be read",
	},
	FaultKinds: []string{"clean_restart", "patterns_changed", "location_edited_into_config"},
	ProbeNames: []string{"network_location", "location_matching_patterns", "local_file_accepted", "local_location_outside_patterns", "non_http_non_absolute_location", "unsafe_location_rejected_400",
		"marker_of_allowed_file_seen", "allowed_file_rules_in_force", "configured_list_outside_patterns", "non_http_scheme_reached_transport", "network_download", "refresh_forced", "checked_with_no_patterns", "refused_request_repeated_with_other_content"},
}
