package c17

import (
	"testing"

	"github.com/AdguardTeam/AdGuardHome/verifsim/kernel"
)

func TestProp(t *testing.T) {
	kernel.Main(t, map[string]*kernel.Property{"C17": Prop})
}
