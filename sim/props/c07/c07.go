// Package c07 decides property C07 (the query log returns every recorded query
// exactly once, newest first, with paging) by deterministic simulation on
// engine E2 (qlogsim): seeded histories of record / clock advance (hourly
// rotation check driven through the real loop body) / explicit flush / clear /
// configuration change / clean restart / crash / searches, against the real
// querylog package on tmpfs under a fake clock.
//
// The reference model is three ordered lists (rotated file, current file,
// memory).  It does not predict flushes: it observes them (size and inode of
// querylog.json and querylog.json.1 after every step), checks that what it saw
// was legal, and moves its entries accordingly.
package c07

import (
	"encoding/json"
	"fmt"
	"log/slog"
	"math"
	"net/http"
	"net/url"
	"os"
	"path/filepath"
	"sort"
	"strconv"
	"strings"
	"testing"
	"time"

	"github.com/AdguardTeam/AdGuardHome/internal/filtering"
	"github.com/AdguardTeam/AdGuardHome/verifsim/env"
	"github.com/AdguardTeam/AdGuardHome/verifsim/kernel"
	"github.com/AdguardTeam/AdGuardHome/verifsim/qlogsim"
	"github.com/AdguardTeam/AdGuardHome/verifsim/sched"
	"github.com/miekg/dns"
	"golang.org/x/net/idna"
	"pgregory.net/rapid"
)

// ---- scenario ------------------------------------------------------------------

// Query is one filtered search with paging.
type Query struct {
	Search string `json:"s,omitempty"`
	Status string `json:"st,omitempty"`
	Page   int    `json:"pg"`
}

// Op is one generated operation.
type Op struct {
	K string `json:"k"`

	Rec *qlogsim.Rec `json:"rec,omitempty"` // rec
	Ns  int64        `json:"ns,omitempty"`  // adv

	// conf (new API) / legacy (old API)
	En   bool     `json:"en,omitempty"`
	IvlH int      `json:"ivl_h,omitempty"`
	Anon bool     `json:"anon,omitempty"`
	Ign  []string `json:"ign,omitempty"`
	Days float64  `json:"days,omitempty"`

	Mem int `json:"mem,omitempty"` // restart / crash: MemSize of the next run
	Cli int `json:"cli,omitempty"` // cli_ign: row whose ignore flag is toggled

	Q *Query `json:"q,omitempty"` // search

	Mode string `json:"mode,omitempty"` // fs_break: which storage fault

	// hostile: raw parameter values.  If OlderRel is set, older_than is the
	// timestamp of the OlderIdx-th known entry plus OlderDelta nanoseconds.
	H          map[string]string `json:"h,omitempty"`
	OlderRel   bool              `json:"older_rel,omitempty"`
	OlderIdx   int               `json:"older_idx,omitempty"`
	OlderDelta int64             `json:"older_delta,omitempty"`

	// par (mode D, see par.go): the tasks of a concurrent phase, the seed and
	// the preemption probability of its schedule, and what is done after it.
	Seed  uint64    `json:"seed,omitempty"`
	Pct   int       `json:"pct,omitempty"`
	Par   []ParTask `json:"par,omitempty"`
	After string    `json:"after,omitempty"`
}

// Scenario is one case.
type Scenario struct {
	MemSize int  `json:"mem_size"`
	IvlH    int  `json:"ivl_h"`
	Enabled bool `json:"enabled"`
	Anon    bool `json:"anon"`
	Ops     []Op `json:"ops"`

	// IOFaults marks the fault-injecting configuration: only such a scenario
	// holds fs_break / fs_heal operations (a storage fault that makes the
	// memory-to-file flush fail until it is healed).  All other scenarios are
	// judged without any allowance for lost batches.
	IOFaults bool `json:"io_faults,omitempty"`

	// Bulk > 0 selects the big-log profile: BulkOld entries for ads.example,
	// then Bulk entries for b.test, all flushed; a search for the old ones must
	// be continued through pages that come back empty but with a cursor.
	Bulk     int `json:"bulk,omitempty"`
	BulkOld  int `json:"bulk_old,omitempty"`
	BulkPage int `json:"bulk_page,omitempty"`
}

var (
	hosts = []string{"a.test", "b.test", "ads.example", "Sub.ADS.example.", "xn--e1afmkfd.xn--p1ai", "a&b.example", "kid.b.test", "a.test"}
	ips   = []string{"192.0.2.1", "192.0.2.77", "10.1.2.3", "2001:db8::1", "2001:db8:1:2:3:4:5:6", "::ffff:192.0.2.9"}
	cids  = []string{"", "", "", "cid-bob", "kid"}
	// clientTable is the seeded client table behind FindClient.
	clientTable = []qlogsim.ClientRow{
		{ID: "192.0.2.1", Name: "alice-laptop"},
		{ID: "cid-bob", Name: "Bob Phone"},
		{ID: "2001:db8::1", Name: "srv.test"},
		{ID: "192.0.0.0", Name: "anon-net"},
	}
	protos    = []string{"", "", "doh", "doq", "dot", "dnscrypt"}
	upstreams = []string{"", "198.51.100.1:53", "tls://dns.example:853", "https://doh.example/dns-query"}
	ecss      = []string{"", "", "", "192.0.2.0/24", "2001:db8::/56"}
	terms     = []string{
		"a.test", "test", "ADS", `"ads.example"`, `"a.test"`, "пример.рф", `"пример.рф"`, "xn--e1afmkfd",
		"192.0.2", `"192.0.2.1"`, "2001:db8", "cid-bob", `"kid"`, "kid", "alice", `"Bob Phone"`, "bob", "a&b",
		"nomatch-zzz", "192.0.0.0", `"sub.ads.example"`, "SRV.TEST",
	}
	statuses = []string{"all", "filtered", "blocked", "blocked_services", "blocked_safebrowsing", "blocked_parental", "whitelisted", "rewritten", "safe_search", "processed"}
	ruleTexts = []string{"||ads.example^", "@@||a.test^", "|b.test^$dnsrewrite=NOERROR;A;198.51.100.8", "1.2.3.4 a.test", "", `||x.test^$client="Bob Phone"`}
	ignorable = []string{"|a.test^", "|ads.example^", "|b.test^"}
	intervals = []int{1, 1, 2, 6, 24, 168}
	answers   = [][]qlogsim.RR{
		nil,
		{{T: "A", V: "198.51.100.1", TTL: 300}},
		{{T: "AAAA", V: "2001:db8::5", TTL: 60}, {T: "AAAA", V: "2001:db8::6", TTL: 60}},
		{{T: "CNAME", V: "cdn.example.", TTL: 30}, {T: "A", V: "198.51.100.2", TTL: 30}},
		{{T: "TXT", V: `"v=spf1 -all" "second \"quoted\" string"`, TTL: 5}},
		{{T: "MX", V: "10 mail.example.", TTL: 3600}},
		{{T: "A", V: "0.0.0.0", TTL: 10}},
	}
	hostileLimits = []string{"-1", "0", "1", "-9223372036854775808", "9223372036854775807", "9223372036854775808", "abc", "1e3", " 5", "0x10", "2147483648", "-2"}
	hostileOlder  = []string{"garbage", "0000-00-00T00:00:00Z", "9999-12-31T23:59:59.999999999Z", "2262-04-12T00:00:00Z", "1970-01-01T00:00:00Z",
		"0001-01-01T00:00:00Z", "1999-12-31T23:59:59.999999999Z", "2000-01-01T00:00:00+14:00", "2000-01-01", "2000-01-01T00:00:00.0000000001Z", "1677-09-21T00:12:43Z"}
	hostileSearch = []string{`"`, `""`, `"""`, `\`, "\x00", "\xff\xfe", strings.Repeat("A", 1024), `"` + strings.Repeat("é", 512) + `"`, ".*", "%", `"T":"`, `"IP":"`, "\n", "xn--", "xn--a.xn--"}
	hostileStatus = []string{"nope", "", "ALL", "blocked ", "processed\x00"}
)

func genRec(t *rapid.T) *qlogsim.Rec {
	r := &qlogsim.Rec{
		Host:  rapid.SampledFrom(hosts).Draw(t, "host"),
		QType: rapid.SampledFrom([]uint16{dns.TypeA, dns.TypeA, dns.TypeAAAA, dns.TypeHTTPS, dns.TypeTXT, dns.TypePTR, dns.TypeANY}).Draw(t, "qtype"),
		IP:    rapid.SampledFrom(ips).Draw(t, "ip"),
		CID:   rapid.SampledFrom(cids).Draw(t, "cid"),
		Proto: rapid.SampledFrom(protos).Draw(t, "proto"),
		Ups:   rapid.SampledFrom(upstreams).Draw(t, "ups"),
		ECS:   rapid.SampledFrom(ecss).Draw(t, "ecs"),
	}
	switch rapid.IntRange(0, 9).Draw(t, "gap_kind") {
	case 0:
		r.GapNs = int64(rapid.IntRange(2, 2_000_000).Draw(t, "gap_ns"))
	case 1:
		r.GapNs = int64(rapid.IntRange(1, 5000).Draw(t, "gap_ms")) * 1_000_000
	default:
		r.GapNs = 1
	}
	r.Cached = rapid.IntRange(0, 4).Draw(t, "cached") == 0
	r.AD = rapid.IntRange(0, 4).Draw(t, "ad") == 0
	r.ElapsedUs = int64(rapid.SampledFrom([]int{0, 1, 37, 1500, 123456, 30_000_000}).Draw(t, "elapsed"))
	r.Reason = rapid.SampledFrom([]int{0, 0, 0, 1, 2, 3, 3, 4, 5, 6, 7, 8, 9, 10, 11}).Draw(t, "reason")
	for i, n := 0, rapid.SampledFrom([]int{0, 0, 1, 1, 2, 3}).Draw(t, "n_rules"); i < n; i++ {
		rule := qlogsim.Rule{
			Text: rapid.SampledFrom(ruleTexts).Draw(t, "rule_text"),
			List: int64(rapid.SampledFrom([]int{0, 1, 2, -2, -3, 1700000000}).Draw(t, "rule_list")),
		}
		if rapid.IntRange(0, 3).Draw(t, "rule_ip") == 0 {
			rule.IP = rapid.SampledFrom([]string{"1.2.3.4", "2001:db8::53"}).Draw(t, "rule_ip_v")
		}
		r.Rules = append(r.Rules, rule)
	}
	if filtering.Reason(r.Reason) == filtering.FilteredBlockedService || rapid.IntRange(0, 19).Draw(t, "svc") == 0 {
		r.Svc = rapid.SampledFrom([]string{"youtube", "9gag"}).Draw(t, "svc_name")
	}
	if r.Reason >= 9 || rapid.IntRange(0, 9).Draw(t, "rw") == 0 {
		r.Rewrite = rapid.IntRange(0, 6).Draw(t, "rewrite")
	}
	r.NoAns = rapid.IntRange(0, 14).Draw(t, "noans") == 0
	r.Rcode = rapid.SampledFrom([]int{0, 0, 0, 2, 3, 5}).Draw(t, "rcode")
	r.Ans = rapid.SampledFrom(answers).Draw(t, "ans")
	if rapid.IntRange(0, 4).Draw(t, "orig") == 0 {
		r.Orig = rapid.SampledFrom(answers[1:]).Draw(t, "orig_v")
	}
	if rapid.IntRange(0, 19).Draw(t, "pad") == 0 {
		r.TxtPad = rapid.IntRange(1, 3000).Draw(t, "txtpad")
	}
	return r
}

func genIgn(t *rapid.T) []string {
	var out []string
	for _, r := range ignorable {
		if rapid.IntRange(0, 3).Draw(t, "ign_"+r) == 0 {
			out = append(out, r)
		}
	}
	return out
}

// Gen draws a scenario.  It tracks the simulated time and the grid of the
// hourly rotation check so that advances can be aimed at the ticks.
func Gen(t *rapid.T, tier string) any {
	sc := &Scenario{
		MemSize: rapid.SampledFrom([]int{1, 2, 2, 3, 3, 4, 5, 8, 13, 50}).Draw(t, "mem_size"),
		IvlH:    rapid.SampledFrom(intervals).Draw(t, "ivl_h"),
		Enabled: rapid.IntRange(0, 19).Draw(t, "enabled") != 0,
		Anon:    rapid.IntRange(0, 9).Draw(t, "anon") == 0,
	}
	if rapid.IntRange(0, 199).Draw(t, "bulk") == 97 {
		sc.MemSize = rapid.SampledFrom([]int{5000, 700, 60000}).Draw(t, "bulk_mem")
		sc.Enabled, sc.Anon = true, false
		sc.Bulk = 50_000 + rapid.IntRange(-2, 30).Draw(t, "bulk_n")
		sc.BulkOld = rapid.IntRange(1, 4).Draw(t, "bulk_old")
		sc.BulkPage = rapid.IntRange(1, 3).Draw(t, "bulk_page")
		return sc
	}
	maxOps := 60
	if tier == "thorough" {
		maxOps = 150
	}
	sc.IOFaults = rapid.IntRange(0, 3).Draw(t, "io_faults") == 0
	fsDown := false
	n := rapid.IntRange(5, maxOps).Draw(t, "n_ops")
	var now, tickBase int64
	const hour = int64(time.Hour)
	budget := 40 * 24 * hour
	for i := 0; i < n; i++ {
		var op Op
		k := rapid.IntRange(0, 99).Draw(t, "kind")
		if sc.IOFaults {
			switch f := rapid.IntRange(0, 11).Draw(t, "fs_kind"); {
			case f == 0:
				// The storage fails, or comes back, at any point of the run.
				if fsDown {
					sc.Ops = append(sc.Ops, Op{K: "fs_heal"})
				} else {
					sc.Ops = append(sc.Ops, Op{K: "fs_break", Mode: rapid.SampledFrom(qlogsim.FSFaultModes).Draw(t, "fs_mode")})
				}
				fsDown = !fsDown
				continue
			case f < 4:
				// Keep recording through the fault and after it.
				k = 0
			}
			if fsDown && k >= 62 && k < 64 {
				// A clear cannot reach the files of a broken store, and what
				// becomes of them is not stated: the store is repaired first.
				sc.Ops = append(sc.Ops, Op{K: "fs_heal"})
				fsDown = false
			}
		}
		switch {
		case k < 46:
			op = Op{K: "rec", Rec: genRec(t)}
			now += op.Rec.GapNs
		case k < 58:
			op = Op{K: "adv"}
			nextTick := tickBase + ((now-tickBase)/hour+1)*hour
			switch rapid.IntRange(0, 9).Draw(t, "adv_kind") {
			case 0:
				op.Ns = int64(rapid.IntRange(1, 1000).Draw(t, "adv_ns"))
			case 1:
				op.Ns = int64(rapid.IntRange(1, 120).Draw(t, "adv_s")) * int64(time.Second)
			case 2, 3, 4:
				// land 2 ns before .. 1 ns after the next rotation check
				op.Ns = nextTick - now + int64(rapid.IntRange(-2, 1).Draw(t, "adv_edge"))
			case 5, 6:
				op.Ns = int64(rapid.IntRange(1, 7).Draw(t, "adv_h"))*hour + int64(rapid.IntRange(-1, 1).Draw(t, "adv_h_ns"))
			case 7, 8:
				// whole multiples of the interval seen from the tick grid
				op.Ns = nextTick - now + int64(sc.IvlH)*hour*int64(rapid.IntRange(0, 2).Draw(t, "adv_ivls")) + int64(rapid.IntRange(-1, 1).Draw(t, "adv_i_ns"))
			default:
				op.Ns = int64(rapid.IntRange(8, 400).Draw(t, "adv_gap_h")) * hour
			}
			if op.Ns <= 0 {
				op.Ns = 1
			}
			if op.Ns > budget {
				op.Ns = int64(rapid.IntRange(1, 1000).Draw(t, "adv_ns2"))
			}
			budget -= op.Ns
			now += op.Ns
		case k < 62:
			op = Op{K: "flush"}
		case k < 64:
			op = Op{K: "clear"}
			if rapid.IntRange(0, 2).Draw(t, "clear_overlaps_add") == 0 {
				op = Op{K: "rec_clear", Rec: genRec(t)}
			}
		case k < 69:
			op = Op{K: "conf", En: rapid.IntRange(0, 24).Draw(t, "c_en") != 0, IvlH: rapid.SampledFrom(intervals).Draw(t, "c_ivl"),
				Anon: rapid.IntRange(0, 4).Draw(t, "c_anon") == 0, Ign: genIgn(t)}
		case k < 71:
			op = Op{K: "legacy", En: rapid.IntRange(0, 24).Draw(t, "l_en") != 0, Days: rapid.SampledFrom([]float64{0.25, 1, 7, 30, 90, 2, 0}).Draw(t, "l_days"),
				Anon: rapid.IntRange(0, 4).Draw(t, "l_anon") == 0}
		case k < 76:
			op = Op{K: "restart", Mem: rapid.SampledFrom([]int{0, 0, 1, 2, 3, 5, 8, 50}).Draw(t, "r_mem")}
			tickBase = now
		case k < 79:
			op = Op{K: "crash", Mem: rapid.SampledFrom([]int{0, 0, 1, 2, 3, 5, 8}).Draw(t, "cr_mem")}
			tickBase = now
		case k < 80:
			op = Op{K: "cli_ign", Cli: rapid.IntRange(0, len(clientTable)-1).Draw(t, "cli")}
		case k >= 89 && k < 94 && !fsDown:
			// A concurrent phase (mode D).
			op = genPar(t, now, tickBase+((now-tickBase)/hour+1)*hour)
			if op.Ns > budget {
				op.Ns = int64(rapid.IntRange(1, 1000).Draw(t, "par_ns2"))
			}
			budget -= op.Ns
			now += op.Ns
			for i := range op.Par {
				if op.Par[i].K == "tick" {
					tickBase = now
				}
			}
			if op.After == "restart" {
				tickBase = now
			}
		case k < 94:
			q := &Query{Page: rapid.SampledFrom([]int{1, 1, 2, 2, 3, 4, 5, 7, 10, 500}).Draw(t, "page")}
			switch rapid.IntRange(0, 5).Draw(t, "q_kind") {
			case 0:
			case 1, 2:
				q.Search = rapid.SampledFrom(terms).Draw(t, "term")
			case 3:
				q.Status = rapid.SampledFrom(statuses).Draw(t, "status")
			default:
				q.Search = rapid.SampledFrom(terms).Draw(t, "term")
				q.Status = rapid.SampledFrom(statuses).Draw(t, "status")
			}
			op = Op{K: "search", Q: q}
		default:
			op = Op{K: "hostile", H: map[string]string{}}
			if rapid.IntRange(0, 2).Draw(t, "h_lim") != 0 {
				op.H["limit"] = rapid.SampledFrom(hostileLimits).Draw(t, "h_limit")
			}
			if rapid.IntRange(0, 2).Draw(t, "h_off") == 0 {
				op.H["offset"] = rapid.SampledFrom(hostileLimits).Draw(t, "h_offset")
			}
			switch rapid.IntRange(0, 4).Draw(t, "h_old") {
			case 0:
				op.H["older_than"] = rapid.SampledFrom(hostileOlder).Draw(t, "h_older")
			case 1, 2:
				op.OlderRel = true
				op.OlderIdx = rapid.IntRange(0, 60).Draw(t, "h_older_idx")
				op.OlderDelta = int64(rapid.SampledFrom([]int{-1, 0, 1, 1_000_000_000_000_000}).Draw(t, "h_older_delta"))
			}
			if rapid.IntRange(0, 3).Draw(t, "h_s") == 0 {
				op.H["search"] = rapid.SampledFrom(hostileSearch).Draw(t, "h_search")
			}
			if rapid.IntRange(0, 5).Draw(t, "h_st") == 0 {
				op.H["response_status"] = rapid.SampledFrom(hostileStatus).Draw(t, "h_status")
			}
		}
		sc.Ops = append(sc.Ops, op)
	}
	return sc
}

// ---- reference model -------------------------------------------------------------

type ent struct {
	id   int
	ts   int64
	rec  *qlogsim.Rec
	host string // name as recorded, lower case, no trailing dot
	ip   string // address as recorded (anonymised at record time if that was on)
	qt   string
	ans  []qlogsim.Ans
	orig []qlogsim.Ans
}

type model struct {
	rot, cur, mem []*ent
	conf          qlogsim.Conf
	ignored       map[string]bool // host -> ignored, from the |host^ rules in force
	curObs        qlogsim.FileObs
	rotObs        qlogsim.FileObs
	nextID        int

	// fault is the storage fault in force ("" = none).  While it is set the
	// log files cannot be observed and a flush cannot write; see settle.
	fault string
	// lostBatch: a flush of this process failed with an I/O error.
	lostBatch bool
}

func (m *model) inMem(e *ent) bool {
	for _, x := range m.mem {
		if x == e {
			return true
		}
	}
	return false
}

// all returns the entries newest first.
func (m *model) all() []*ent {
	out := make([]*ent, 0, len(m.rot)+len(m.cur)+len(m.mem))
	for _, l := range [][]*ent{m.mem, m.cur, m.rot} {
		for i := len(l) - 1; i >= 0; i-- {
			out = append(out, l[i])
		}
	}
	return out
}

func (m *model) where(e *ent) string {
	for name, l := range map[string][]*ent{"memory": m.mem, "current-file": m.cur, "rotated-file": m.rot} {
		for _, x := range l {
			if x == e {
				return name
			}
		}
	}
	return "nowhere"
}

func (m *model) setIgnored(rules []string) {
	m.conf.Ignored = rules
	m.ignored = map[string]bool{}
	for _, r := range rules {
		m.ignored[strings.TrimSuffix(strings.TrimPrefix(r, "|"), "^")] = true
	}
}

type tri int

const (
	no tri = iota
	yes
	open
)

// ---- the run -----------------------------------------------------------------------

type run struct {
	n  *qlogsim.Node
	m  *model
	c  *kernel.Ctx
	op int
	// plog is the process log of the query log (see par.go).
	plog *parLog
}

func fmtT(ns int64) string { return time.Duration(ns - kernel.Epoch.UnixNano()).String() }

func (r *run) ignoredNow(e *ent) bool {
	if r.m.ignored[e.host] {
		return true
	}
	if row := r.n.LookupClient(e.rec.CID, e.ip); row != nil && row.Ignore {
		return true
	}
	return false
}

func (r *run) displayed(e *ent) string {
	if r.m.conf.Anonymize {
		return qlogsim.Anonymise(e.ip)
	}
	return e.ip
}

// observe reconciles the model with the files.  what says which changes the
// step that just ran may legally have caused: "add" / "flush" (a flush),
// "tick" (a rotation), "clear", "none".
func (r *run) observe(what string) error {
	m := r.m
	if m.fault != "" {
		// The files are out of reach; see settle.
		return nil
	}
	cur, rot := r.n.Observe(false), r.n.Observe(true)
	defer func() { m.curObs, m.rotObs = cur, rot }()
	pc, pr := m.curObs, m.rotObs
	switch {
	case cur == pc && rot == pr:
		return nil
	case rot == pr && cur.Exists && (!pc.Exists || (cur.Ino == pc.Ino && cur.Size > pc.Size)):
		// The current file grew (or appeared): a flush.
		if what != "add" && what != "flush" && what != "shutdown" {
			return kernel.Violationf("file-unexpected-change", "querylog.json grew from %d to %d bytes during a %q step", pc.Size, cur.Size, what)
		}
		if len(m.mem) == 0 {
			return kernel.Violationf("flush-without-entries", "querylog.json grew from %d to %d bytes while the model holds no entry in memory", pc.Size, cur.Size)
		}
		from := int64(0)
		if pc.Exists {
			from = pc.Size
		}
		if err := r.checkTail(from, cur.Size); err != nil {
			return err
		}
		r.c.Eventf("  flush observed: %d entries, file %d -> %d bytes", len(m.mem), from, cur.Size)
		m.cur = append(m.cur, m.mem...)
		m.mem = nil
		r.c.Probe("flush_observed")
		if m.lostBatch && what == "add" {
			m.lostBatch = false
			r.c.Probe("flush_resumed_after_io_error")
		}
		return nil
	case pc.Exists && !cur.Exists && rot.Exists && rot.Ino == pc.Ino && rot.Size == pc.Size:
		// The current file became the rotated file.
		if what != "tick" {
			return kernel.Violationf("rotation-outside-check", "querylog.json was renamed to querylog.json.1 during a %q step", what)
		}
		if pr.Exists {
			r.c.Probe("rotation_dropped_old_file")
		}
		r.c.Eventf("  rotation observed: %d entries moved, %d entries of the previous rotated file dropped", len(m.cur), len(m.rot))
		m.rot, m.cur = m.cur, nil
		r.c.Probe("rotation_observed")
		return nil
	case what == "clear" && !cur.Exists && !rot.Exists:
		return nil
	}
	return kernel.Violationf("file-unexpected-change", "during a %q step the files went from current=%+v rotated=%+v to current=%+v rotated=%+v", what, pc, pr, cur, rot)
}

// settle reconciles the model after a step that may have flushed.  Without a
// storage fault that is observe.  While a storage fault is in force the files
// cannot be looked at and a flush cannot write: the only thing accepted then is
// what the statement cannot forbid, namely that a flush which was attempted
// (the memory buffer is empty afterwards) lost exactly the batch it had taken
// out of memory.  Everything else — entries missing from memory without a
// flush, entries recorded after the fault was healed — is judged as always.
func (r *run) settle(what string) error {
	m := r.m
	if m.fault == "" {
		return r.observe(what)
	}
	if len(m.mem) > 0 && r.n.MemLen() == 0 {
		r.c.Eventf("  flush failed (storage fault %s): batch of %d entries lost", m.fault, len(m.mem))
		m.mem = nil
		m.lostBatch = true
		r.c.Fault("flush_io_error")
		r.c.Probe("failed_flush_by_" + what)
	}
	return nil
}

// checkTail checks that bytes [from,to) of the current file are exactly the
// memory entries, oldest first, one line each.
func (r *run) checkTail(from, to int64) error {
	f, err := os.Open(r.n.LogFile(false))
	if err != nil {
		return fmt.Errorf("harness: %w", err)
	}
	defer f.Close()
	buf := make([]byte, to-from)
	if _, err = f.ReadAt(buf, from); err != nil {
		return fmt.Errorf("harness: reading flushed tail: %w", err)
	}
	lines, complete := qlogsim.SplitLines(buf)
	if !complete {
		return kernel.Violationf("flush-torn-line", "the flushed data does not end with a newline")
	}
	if len(lines) != len(r.m.mem) {
		return kernel.Violationf("flush-wrong-entries", "a flush appended %d lines, the model holds %d entries in memory", len(lines), len(r.m.mem))
	}
	for i, l := range lines {
		ts, terr := qlogsim.LineTS(l)
		if terr != nil {
			return kernel.Violationf("flush-bad-line", "flushed line %d is not valid JSON with a timestamp: %v", i, terr)
		}
		if ts != r.m.mem[i].ts {
			return kernel.Violationf("flush-wrong-entries", "flushed line %d carries t=%s, the model's memory entry %d has t=%s", i, fmtT(ts), i, fmtT(r.m.mem[i].ts))
		}
	}
	return nil
}

// tick runs the real rotation check at the current instant and judges it.
func (r *run) tick() error {
	m := r.m
	now := time.Now().UnixNano()
	age := int64(-1)
	if len(m.cur) > 0 {
		age = now - m.cur[0].ts
	}
	ivl := int64(m.conf.Interval)
	r.n.Tick()
	if m.fault != "" {
		// The files are out of reach: nothing can be rotated, nothing is judged.
		r.c.Probe("tick_during_storage_fault")
		return nil
	}
	hadRot := len(m.rot)
	before := len(m.cur)
	if err := r.observe("tick"); err != nil {
		return err
	}
	rotated := before > 0 && len(m.cur) == 0
	switch {
	case rotated && age < ivl:
		return kernel.Violationf("rotation-too-early", "the current file was rotated when its oldest entry was %s old, interval %s", time.Duration(age), time.Duration(ivl))
	case !rotated && age > ivl:
		return kernel.Violationf("rotation-overdue", "the rotation check at %s left the current file in place although its oldest entry is %s old, interval %s", fmtT(now), time.Duration(age), time.Duration(ivl))
	}
	if rotated {
		r.c.Eventf("  tick at %s: rotated (age %s, interval %s, dropped %d)", fmtT(now), time.Duration(age), time.Duration(ivl), hadRot)
		if age == ivl {
			r.c.Probe("rotation_at_exact_age")
		}
	}
	return nil
}

// advance moves the simulated clock by d, running the rotation check of the
// (stubbed) hourly loop on the way.
func (r *run) advance(d time.Duration) error {
	target := time.Now().Add(d)
	for !r.n.NextTick.After(target) {
		if w := time.Until(r.n.NextTick); w > 0 {
			time.Sleep(w)
		}
		if err := r.tick(); err != nil {
			return err
		}
	}
	if w := time.Until(target); w > 0 {
		time.Sleep(w)
	}
	r.c.SimTime += d
	return nil
}

func (r *run) open(conf qlogsim.Conf) error {
	if err := r.n.Open(conf); err != nil {
		return err
	}
	r.m.conf.MemSize = conf.MemSize
	// The real loop checks once as soon as it starts.
	return r.advance(0)
}

func toAns(name string, rrs []qlogsim.RR, txtPad int) ([]qlogsim.Ans, error) {
	var out []qlogsim.Ans
	for _, x := range rrs {
		rr, err := qlogsim.MakeRR(name, x)
		if err != nil {
			return nil, err
		}
		out = append(out, qlogsim.Ans{Type: dns.TypeToString[rr.Header().Rrtype], Value: qlogsim.RRValue(rr), TTL: rr.Header().Ttl})
	}
	if txtPad > 0 {
		m, err := qlogsim.BuildMsg(&dns.Msg{Question: []dns.Question{{Name: "x.", Qtype: dns.TypeA, Qclass: dns.ClassINET}}}, 0, nil, txtPad, false)
		if err != nil {
			return nil, err
		}
		rr := m.Answer[0]
		out = append(out, qlogsim.Ans{Type: "TXT", Value: qlogsim.RRValue(rr), TTL: rr.Header().Ttl})
	}
	return out, nil
}

func (r *run) record(rec *qlogsim.Rec) error {
	if err := r.advance(time.Duration(rec.GapNs)); err != nil {
		return err
	}
	ts, ip, logged, err := r.n.Record(rec)
	if err != nil {
		return err
	}
	m := r.m
	host := strings.ToLower(strings.TrimSuffix(rec.Host, "."))
	wantIgnored := m.ignored[host]
	if row := r.n.LookupClient(rec.CID, ip); row != nil && row.Ignore {
		wantIgnored = true
	}
	if logged == wantIgnored {
		return kernel.Violationf("should-log-mismatch", "ShouldLog(%q, ids of %s/%q) = %v, but the name/client is ignored = %v", host, ip, rec.CID, logged, wantIgnored)
	}
	switch {
	case !logged:
		r.c.Probe("not_logged_ignored")
		r.c.Eventf("  not logged (ignored)")
	case !m.conf.Enabled:
		r.c.Probe("not_logged_disabled")
		r.c.Eventf("  not logged (disabled)")
	default:
		e := &ent{id: m.nextID, ts: ts.UnixNano(), rec: rec, host: host, ip: ip, qt: dns.Type(rec.QType).String()}
		m.nextID++
		if !rec.NoAns {
			if e.ans, err = toAns(dns.Fqdn(rec.Host), rec.Ans, rec.TxtPad); err != nil {
				return err
			}
		}
		if e.orig, err = toAns(dns.Fqdn(rec.Host), rec.Orig, 0); err != nil {
			return err
		}
		if n := len(m.mem); n > 0 && m.mem[n-1].ts >= e.ts {
			return fmt.Errorf("harness: entry timestamps not strictly increasing")
		}
		m.mem = append(m.mem, e)
		r.c.Probe("recorded")
		r.c.Eventf("  recorded #%d t=%s host=%s ip=%s", e.id, fmtT(e.ts), host, ip)
	}
	return r.settle("add")
}

func apiErr(err error, class string) error {
	if hp, ok := err.(*env.HandlerPanic); ok {
		return kernel.Violationf(class, "%v", hp)
	}
	return err
}

// get sends one query-log request that must succeed.
func (r *run) get(p url.Values) (*qlogsim.Resp, error) {
	code, resp, body, err := r.n.Get(p)
	if err != nil {
		return nil, apiErr(err, "api-panic")
	}
	if code != http.StatusOK {
		return nil, kernel.Violationf("api-status", "GET /control/querylog?%s -> %d %s", p.Encode(), code, body)
	}
	if resp == nil {
		return nil, kernel.Violationf("api-bad-response", "GET /control/querylog?%s -> unparsable body %.300s", p.Encode(), body)
	}
	return resp, nil
}

const hugeLimit = "1000000"

// sequence checks that data is a strictly newest-first sequence of known
// entries and returns them.
func (r *run) sequence(what string, data []*qlogsim.Entry, byTS map[int64]*ent) ([]*ent, error) {
	out := make([]*ent, 0, len(data))
	seen := map[int64]bool{}
	for i, g := range data {
		e := byTS[g.TS]
		if e == nil {
			return nil, kernel.Violationf("entry-unknown", "%s: item %d carries time %s (%s), which no recorded, still existing entry has", what, i, g.Time, fmtT(g.TS))
		}
		if seen[g.TS] {
			return nil, kernel.Violationf("entry-duplicate", "%s: entry #%d (t=%s, %s) is returned twice", what, e.id, fmtT(e.ts), r.m.where(e))
		}
		seen[g.TS] = true
		if i > 0 && data[i-1].TS < g.TS {
			return nil, kernel.Violationf("order-not-newest-first", "%s: item %d (t=%s) is newer than item %d (t=%s)", what, i, fmtT(g.TS), i-1, fmtT(data[i-1].TS))
		}
		out = append(out, e)
	}
	return out, nil
}

// fullCheck is the main oracle: an unfiltered scan returns the model's
// entries, newest first, once each, field by field.
func (r *run) fullCheck() error {
	m := r.m
	resp, err := r.get(url.Values{"limit": {hugeLimit}})
	if err != nil {
		return err
	}
	all := m.all()
	byTS := map[int64]*ent{}
	for _, e := range all {
		byTS[e.ts] = e
	}
	got, err := r.sequence("full scan", resp.Data, byTS)
	if err != nil {
		return err
	}
	returned := map[*ent]*qlogsim.Entry{}
	for i, e := range got {
		returned[e] = resp.Data[i]
	}
	var ignoredVisible *ent
	for _, e := range all {
		g := returned[e]
		ign := r.ignoredNow(e)
		switch {
		case g == nil && ign:
			r.c.Probe("ignored_hidden")
		case g == nil && m.fault != "" && !m.inMem(e):
			// On a store that cannot be read at the moment.
			r.c.Probe("file_entry_unreachable")
		case g == nil:
			return kernel.Violationf("entry-missing-"+m.where(e), "full scan: entry #%d (t=%s, host %s, in %s) is not returned; %d of %d entries returned", e.id, fmtT(e.ts), e.host, m.where(e), len(got), len(all))
		case ign:
			ignoredVisible = e
		}
		if g != nil {
			if err = r.fields(e, g); err != nil {
				return err
			}
		}
	}
	if len(m.mem) > 0 && len(m.cur) > 0 && len(m.rot) > 0 {
		r.c.Probe("entries_in_all_three_places")
	}
	r.c.Eventf("  scan ok: %d returned (mem %d, cur %d, rot %d)", len(got), len(m.mem), len(m.cur), len(m.rot))
	if e := ignoredVisible; e != nil {
		v := kernel.Violationf("ignored-entry-visible-in-"+m.where(e), "entry #%d (host %s, client %s/%q) is on the ignore list in force but is returned while it sits in %s (entries in the files are hidden in the same situation)", e.id, e.host, e.ip, e.rec.CID, m.where(e))
		if !r.c.Tolerate(v) {
			return v
		}
	}
	return nil
}

func mismatch(e *ent, field string, got, want any) error {
	return kernel.Violationf("field-"+field, "entry #%d (t=%s): %s = %v, recorded %v", e.id, fmtT(e.ts), field, got, want)
}

func eqAns(a, b []qlogsim.Ans) bool {
	if len(a) != len(b) {
		return false
	}
	for i := range a {
		if a[i] != b[i] {
			return false
		}
	}
	return true
}

// fields compares one returned item with what was recorded.
func (r *run) fields(e *ent, g *qlogsim.Entry) error {
	rec := e.rec
	if strings.ToLower(g.Question.Name) != e.host {
		return mismatch(e, "question-name", g.Question.Name, e.host)
	}
	if g.Question.Type != e.qt || g.Question.Class != "IN" {
		return mismatch(e, "question-type", g.Question.Type+"/"+g.Question.Class, e.qt+"/IN")
	}
	if u, uerr := idna.ToUnicode(e.host); uerr == nil && u != e.host {
		if g.Question.Unicode != u {
			return mismatch(e, "question-unicode-name", g.Question.Unicode, u)
		}
	}
	if want := r.displayed(e); g.Client != want {
		return mismatch(e, "client", g.Client, want)
	}
	if g.ClientID != rec.CID {
		return mismatch(e, "client-id", g.ClientID, rec.CID)
	}
	if g.ClientProto != rec.Proto {
		return mismatch(e, "client-proto", g.ClientProto, rec.Proto)
	}
	if want := rec.Ups + strings.Repeat("u", rec.UpsPad); g.Upstream != want {
		return mismatch(e, "upstream", g.Upstream, want)
	}
	if g.Cached != rec.Cached {
		return mismatch(e, "cached", g.Cached, rec.Cached)
	}
	if g.ECS != rec.ECS {
		return mismatch(e, "ecs", g.ECS, rec.ECS)
	}
	if ms, perr := strconv.ParseFloat(g.ElapsedMs, 64); perr != nil || math.Abs(ms-float64(rec.ElapsedUs)/1000) > 1e-6 {
		return mismatch(e, "elapsed", g.ElapsedMs, float64(rec.ElapsedUs)/1000)
	}
	// filtering result
	if want := filtering.Reason(rec.Reason).String(); g.Reason != want {
		return mismatch(e, "reason", g.Reason, want)
	}
	if len(g.Rules) != len(rec.Rules) {
		return mismatch(e, "rules", fmt.Sprint(g.Rules), fmt.Sprint(rec.Rules))
	}
	for i, ru := range rec.Rules {
		if g.Rules[i].Text != ru.Text || g.Rules[i].ListID != ru.List {
			return mismatch(e, "rules", fmt.Sprint(g.Rules), fmt.Sprint(rec.Rules))
		}
	}
	if len(rec.Rules) > 0 && rec.Rules[0].Text != "" {
		if g.Rule == nil || *g.Rule != rec.Rules[0].Text || g.FilterID == nil || *g.FilterID != rec.Rules[0].List {
			return mismatch(e, "rule", fmt.Sprint(g.Rule, g.FilterID), fmt.Sprint(rec.Rules[0]))
		}
	}
	if g.ServiceName != rec.Svc {
		return mismatch(e, "service-name", g.ServiceName, rec.Svc)
	}
	// answer
	if rec.NoAns {
		if g.Status != nil || len(g.Answer) > 0 {
			return mismatch(e, "answer", fmt.Sprint(g.Status, g.Answer), "no answer")
		}
	} else {
		if want := dns.RcodeToString[rec.Rcode]; g.Status == nil || *g.Status != want {
			return mismatch(e, "status", g.Status, want)
		}
		if g.DNSSEC == nil || *g.DNSSEC != rec.AD {
			return mismatch(e, "answer-dnssec", g.DNSSEC, rec.AD)
		}
		if !eqAns(g.Answer, e.ans) {
			return mismatch(e, "answer", fmt.Sprint(g.Answer), fmt.Sprint(e.ans))
		}
	}
	if !eqAns(g.OrigAnswer, e.orig) {
		return mismatch(e, "original-answer", fmt.Sprint(g.OrigAnswer), fmt.Sprint(e.orig))
	}
	// client information: shown only for an address that is displayed as
	// recorded; never another client's.
	row := r.n.LookupClient(rec.CID, e.ip)
	if r.displayed(e) == e.ip {
		switch {
		case g.ClientInfo == nil:
			return mismatch(e, "client-info", "absent", "present")
		case row == nil && string(g.ClientInfo) != "null":
			return mismatch(e, "client-info", string(g.ClientInfo), "null")
		case row != nil:
			var ci struct {
				Name string `json:"name"`
			}
			if jerr := json.Unmarshal(g.ClientInfo, &ci); jerr != nil || ci.Name != row.Name {
				return mismatch(e, "client-info", string(g.ClientInfo), row.Name)
			}
		}
	} else if g.ClientInfo != nil {
		return mismatch(e, "client-info", string(g.ClientInfo), "absent (address anonymised)")
	}
	return nil
}

// ---- search semantics (from the API description and the statement) --------------------

func containsFold(s, sub string) bool {
	return strings.Contains(strings.ToLower(s), strings.ToLower(sub))
}

// matchTerm: an unquoted term selects entries whose domain name (also given in
// its Unicode form), client address, ClientID or client name contains it, case
// ignored; a quoted term must equal one of them.
func (r *run) matchTerm(e *ent, term string) tri {
	strict := len(term) >= 2 && term[0] == '"' && term[len(term)-1] == '"'
	if strict {
		term = term[1 : len(term)-1]
	}
	cmp := func(field, t string) bool {
		if t == "" {
			return false
		}
		if strict {
			return strings.EqualFold(field, t)
		}
		return containsFold(field, t)
	}
	ascii := ""
	if a, err := idna.ToASCII(strings.ToLower(term)); err == nil && a != strings.ToLower(term) {
		ascii = a
	}
	name := ""
	if row := r.n.LookupClient(e.rec.CID, e.ip); row != nil {
		name = row.Name
	}
	base := cmp(e.host, term) || cmp(e.host, ascii) || cmp(e.rec.CID, term) || cmp(name, term)
	byStored := cmp(e.ip, term)
	byShown := cmp(r.displayed(e), term)
	switch {
	case base || (byStored && byShown):
		return yes
	case byStored != byShown:
		// Whether an anonymised display address or the recorded one is what
		// the term is matched against is not stated.
		return open
	}
	return no
}

// matchStatus follows the documented meaning of the response_status values.
func matchStatus(e *ent, status string) bool {
	rs := filtering.Reason(e.rec.Reason)
	in := func(l ...filtering.Reason) bool {
		for _, x := range l {
			if x == rs {
				return true
			}
		}
		return false
	}
	switch status {
	case "all":
		return true
	case "filtered": // all kinds of filtering
		return !in(filtering.NotFilteredNotFound, filtering.NotFilteredError)
	case "blocked": // blocked or blocked services
		return in(filtering.FilteredBlockList, filtering.FilteredBlockedService)
	case "blocked_services":
		return in(filtering.FilteredBlockedService)
	case "blocked_safebrowsing":
		return in(filtering.FilteredSafeBrowsing)
	case "blocked_parental":
		return in(filtering.FilteredParental)
	case "whitelisted":
		return in(filtering.NotFilteredAllowList)
	case "rewritten": // all kinds of rewrites
		return in(filtering.Rewritten, filtering.RewrittenAutoHosts, filtering.RewrittenRule)
	case "safe_search":
		return in(filtering.FilteredSafeSearch)
	case "processed": // not blocked, not white-listed
		return !in(filtering.FilteredBlockList, filtering.FilteredBlockedService, filtering.NotFilteredAllowList)
	}
	return false
}

func (r *run) matches(e *ent, q *Query) tri {
	res := yes
	if q.Search != "" {
		res = r.matchTerm(e, q.Search)
	}
	if res != no && q.Status != "" && !matchStatus(e, q.Status) {
		res = no
	}
	if res != no && r.ignoredNow(e) {
		res = open
	}
	if res != no && r.m.fault != "" && !r.m.inMem(e) {
		res = open
	}
	return res
}

func ids(l []*ent) string {
	var b strings.Builder
	for i, e := range l {
		if i > 0 {
			b.WriteByte(' ')
		}
		fmt.Fprintf(&b, "#%d", e.id)
	}
	return b.String()
}

func sameSeq(a, b []*ent) bool {
	if len(a) != len(b) {
		return false
	}
	for i := range a {
		if a[i] != b[i] {
			return false
		}
	}
	return true
}

func without(l []*ent, x *ent) []*ent {
	out := make([]*ent, 0, len(l))
	for _, e := range l {
		if e != x {
			out = append(out, e)
		}
	}
	return out
}

// search runs one filtered search: the complete filtered scan against the
// model, then cursor paging and offset paging against that scan.
func (r *run) search(q *Query) error {
	m := r.m
	base := url.Values{}
	if q.Search != "" {
		base.Set("search", q.Search)
		if strings.ContainsAny(q.Search, "пр") || strings.Contains(q.Search, "xn--") {
			r.c.Probe("idn_search")
		}
	}
	if q.Status != "" {
		base.Set("response_status", q.Status)
	}
	all := m.all()
	byTS := map[int64]*ent{}
	for _, e := range all {
		byTS[e.ts] = e
	}
	what := fmt.Sprintf("search=%q status=%q", q.Search, q.Status)

	p := url.Values{"limit": {hugeLimit}}
	for k, v := range base {
		p[k] = v
	}
	resp, err := r.get(p)
	if err != nil {
		return err
	}
	scan, err := r.sequence(what, resp.Data, byTS)
	if err != nil {
		return err
	}
	inScan := map[*ent]bool{}
	for _, e := range scan {
		inScan[e] = true
	}
	nOpen := 0
	for _, e := range all {
		switch t := r.matches(e, q); {
		case t == yes && !inScan[e]:
			cls := "search-misses-entry"
			if strings.ContainsAny(e.host, "&<>") && m.where(e) != "memory" {
				cls = "search-misses-html-escaped-name-on-disk"
			}
			v := kernel.Violationf(cls, "%s: entry #%d (host %s, client %s/%q, reason %s, in %s) satisfies the filter but is not returned (returned: %s)", what, e.id, e.host, e.ip, e.rec.CID, filtering.Reason(e.rec.Reason), m.where(e), ids(scan))
			if !r.c.Tolerate(v) {
				return v
			}
		case t == no && inScan[e]:
			return kernel.Violationf("search-returns-nonmatching", "%s: entry #%d (host %s, client %s/%q, reason %s, in %s) does not satisfy the filter but is returned", what, e.id, e.host, e.ip, e.rec.CID, filtering.Reason(e.rec.Reason), m.where(e))
		case t == open:
			nOpen++
		}
	}
	if nOpen > 0 {
		r.c.Probe("search_open_entries")
	}
	r.c.Probe("search_checked")
	if len(scan) > 0 {
		r.c.Probe("search_nonempty")
	}

	// Paging with the returned cursor.
	var fileNewest *ent
	if n := len(m.cur); n > 0 {
		fileNewest = m.cur[n-1]
	} else if n = len(m.rot); n > 0 {
		fileNewest = m.rot[n-1]
	}
	var paged []*ent
	cursor := ""
	cursorFromMemory := false
	for page := 0; ; page++ {
		if page > len(all)+3 {
			return kernel.Violationf("cursor-paging-no-end", "%s page=%d: still getting a cursor after %d pages for %d entries", what, q.Page, page, len(all))
		}
		p = url.Values{"limit": {strconv.Itoa(q.Page)}}
		for k, v := range base {
			p[k] = v
		}
		if cursor != "" {
			p.Set("older_than", cursor)
		}
		if resp, err = r.get(p); err != nil {
			return err
		}
		if len(resp.Data) > q.Page {
			return kernel.Violationf("limit-exceeded", "%s: a page of limit %d holds %d items", what, q.Page, len(resp.Data))
		}
		items, serr := r.sequence(what+" cursor page", resp.Data, byTS)
		if serr != nil {
			return serr
		}
		paged = append(paged, items...)
		if n := len(items); n > 0 {
			last := items[n-1]
			switch {
			case len(m.mem) > 0 && last == m.mem[0] && (len(m.cur) > 0 || len(m.rot) > 0):
				r.c.Probe("page_ends_at_memory_boundary")
			case len(m.cur) > 0 && last == m.cur[0] && len(m.rot) > 0:
				r.c.Probe("page_ends_at_file_boundary")
			}
		}
		if resp.Oldest == "" {
			break
		}
		t, perr := time.Parse(time.RFC3339Nano, resp.Oldest)
		if perr != nil {
			return kernel.Violationf("api-bad-response", "%s: oldest=%q is not a timestamp", what, resp.Oldest)
		}
		if cursor == resp.Oldest && len(items) == 0 {
			return kernel.Violationf("cursor-paging-no-end", "%s page=%d: the cursor %s is returned again with an empty page", what, q.Page, cursor)
		}
		cursor = resp.Oldest
		if ce := byTS[t.UnixNano()]; ce != nil {
			switch m.where(ce) {
			case "memory":
				if fileNewest != nil {
					cursorFromMemory = true
					r.c.Probe("cursor_memory_to_file")
				}
			case "current-file":
				if len(m.rot) > 0 && ce == m.cur[0] {
					r.c.Probe("cursor_file_to_rotated")
				}
			}
		}
	}
	if m.fault != "" {
		// What a broken store still yields is not asserted, page by page
		// either: the partition is checked on the entries in memory.
		paged, scan = r.onlyMem(paged), r.onlyMem(scan)
	}
	if !sameSeq(paged, scan) {
		what2 := fmt.Sprintf("%s: paging with limit=%d and the returned older_than cursor yields [%s], the complete scan [%s]", what, q.Page, ids(paged), ids(scan))
		if cursorFromMemory && fileNewest != nil && sameSeq(paged, without(scan, fileNewest)) {
			v := kernel.Violationf("cursor-from-memory-skips-newest-file-entry", "%s; the only entry lost is #%d, the newest entry on disk, and a cursor was the timestamp of an entry still in memory", what2, fileNewest.id)
			if !r.c.Tolerate(v) {
				return v
			}
		} else {
			return seqDiff("cursor-paging", what2, paged, scan)
		}
	}

	// Paging with offset/limit.
	paged = nil
	for off := 0; ; off += q.Page {
		if off > len(all)+q.Page {
			return kernel.Violationf("offset-paging-no-end", "%s page=%d: still getting items at offset %d for %d entries", what, q.Page, off, len(all))
		}
		p = url.Values{"limit": {strconv.Itoa(q.Page)}, "offset": {strconv.Itoa(off)}}
		for k, v := range base {
			p[k] = v
		}
		if resp, err = r.get(p); err != nil {
			return err
		}
		if len(resp.Data) > q.Page {
			return kernel.Violationf("limit-exceeded", "%s: a page of limit %d holds %d items", what, q.Page, len(resp.Data))
		}
		items, serr := r.sequence(what+" offset page", resp.Data, byTS)
		if serr != nil {
			return serr
		}
		if len(items) == 0 {
			break
		}
		paged = append(paged, items...)
	}
	if m.fault != "" {
		paged = r.onlyMem(paged)
	}
	if !sameSeq(paged, scan) {
		return seqDiff("offset-paging", fmt.Sprintf("%s: paging with limit=%d and offset yields [%s], the complete scan [%s]", what, q.Page, ids(paged), ids(scan)), paged, scan)
	}
	r.c.Eventf("  search %s page=%d: %d match, %d open", what, q.Page, len(scan), nOpen)
	return nil
}

func (r *run) onlyMem(l []*ent) []*ent {
	out := make([]*ent, 0, len(l))
	for _, e := range l {
		if r.m.inMem(e) {
			out = append(out, e)
		}
	}
	return out
}

func seqDiff(prefix, msg string, paged, scan []*ent) error {
	cnt := map[*ent]int{}
	for _, e := range paged {
		cnt[e]++
	}
	for _, e := range paged {
		if cnt[e] > 1 {
			return kernel.Violationf(prefix+"-duplicate", "%s (entry #%d twice)", msg, e.id)
		}
	}
	for _, e := range scan {
		if cnt[e] == 0 {
			return kernel.Violationf(prefix+"-gap", "%s (entry #%d lost)", msg, e.id)
		}
	}
	return kernel.Violationf(prefix+"-mismatch", "%s", msg)
}

// hostile sends parameter values nobody asked for.  Only what the statement
// says about them is asserted: the request does not crash; what it returns is
// still a newest-first sequence of existing entries, older than a valid cursor.
func (r *run) hostile(op *Op) error {
	m := r.m
	p := url.Values{}
	keys := make([]string, 0, len(op.H))
	for k := range op.H {
		keys = append(keys, k)
	}
	sort.Strings(keys)
	for _, k := range keys {
		p.Set(k, op.H[k])
	}
	all := m.all()
	if op.OlderRel && len(all) > 0 {
		e := all[op.OlderIdx%len(all)]
		p.Set("older_than", time.Unix(0, e.ts+op.OlderDelta).UTC().Format(time.RFC3339Nano))
	}
	r.c.Fault("hostile_request")
	code, resp, body, err := r.n.Get(p)
	if err != nil {
		hp, ok := err.(*env.HandlerPanic)
		if !ok {
			return err
		}
		cls := "api-panic"
		lim, lerr := strconv.ParseInt(p.Get("limit"), 10, 64)
		off, oerr := strconv.ParseInt(p.Get("offset"), 10, 64)
		if lerr != nil {
			lim = 500
		}
		if oerr != nil {
			off = 0
		}
		if strings.Contains(fmt.Sprint(hp.Value), "slice bounds out of range") && (lim < 0 || off < 0 || lim+off < 0) {
			cls = "api-panic-negative-limit-offset"
		}
		v := kernel.Violationf(cls, "GET /control/querylog?%s: %v", p.Encode(), hp)
		r.c.Eventf("  hostile %s -> panic", p.Encode())
		if r.c.Tolerate(v) {
			return nil
		}
		return v
	}
	r.c.Eventf("  hostile %s -> %d", p.Encode(), code)
	switch {
	case code >= 400 && code < 500:
		r.c.Probe("hostile_rejected_4xx")
		return nil
	case code != http.StatusOK:
		return kernel.Violationf("api-status", "GET /control/querylog?%s -> %d %.300s", p.Encode(), code, body)
	case resp == nil:
		return kernel.Violationf("api-bad-response", "GET /control/querylog?%s -> unparsable body %.300s", p.Encode(), body)
	}
	r.c.Probe("hostile_answered_200")
	byTS := map[int64]*ent{}
	for _, e := range all {
		byTS[e.ts] = e
	}
	items, err := r.sequence("hostile "+p.Encode(), resp.Data, byTS)
	if err != nil {
		return err
	}
	if s := p.Get("older_than"); s != "" {
		if t, perr := time.Parse(time.RFC3339Nano, s); perr == nil && !t.IsZero() {
			older := 0
			for _, e := range all {
				if time.Unix(0, e.ts).Before(t) {
					older++
				}
			}
			for _, e := range items {
				if !time.Unix(0, e.ts).Before(t) {
					return kernel.Violationf("older-than-returns-newer", "GET /control/querylog?%s returns entry #%d (t=%s), which is not older than the cursor", p.Encode(), e.id, fmtT(e.ts))
				}
			}
			if _, isEntry := byTS[t.UnixNano()]; !isEntry && len(p) == 1 && older > len(items) && len(items) < 500 {
				// Unspecified: a cursor that is not a timestamp of any entry.
				r.c.Probe("older_than_absent_incomplete")
			}
		}
	}
	return nil
}

func (r *run) apply(op *Op) error {
	m, n := r.m, r.n
	switch op.K {
	case "rec":
		return r.record(op.Rec)
	case "adv":
		if op.Ns >= int64(time.Hour) {
			r.c.Fault("clock_jump")
		}
		return r.advance(time.Duration(op.Ns))
	case "flush":
		err := n.Flush()
		kernel.Wait()
		if err != nil && len(m.mem) > 0 && m.fault == "" {
			return kernel.Violationf("flush-error", "flush of %d entries: %v", len(m.mem), err)
		}
		r.c.Probe("explicit_flush")
		return r.settle("flush")
	case "fs_break":
		if m.fault != "" {
			return fmt.Errorf("harness: storage fault %q injected while %q is in force", op.Mode, m.fault)
		}
		if err := n.BreakFS(op.Mode); err != nil {
			return err
		}
		m.fault = op.Mode
		if op.Mode == qlogsim.FSWiped {
			// The files were deleted with their directory.
			r.c.Eventf("  storage wiped: %d + %d entries in the files deleted", len(m.cur), len(m.rot))
			m.cur, m.rot = nil, nil
			m.curObs, m.rotObs = qlogsim.FileObs{}, qlogsim.FileObs{}
		}
		r.c.Fault("storage_" + op.Mode)
		return nil
	case "fs_heal":
		if m.fault == "" {
			return fmt.Errorf("harness: fs_heal without a storage fault")
		}
		if err := n.HealFS(m.fault); err != nil {
			return err
		}
		m.fault = ""
		r.c.Probe("storage_healed")
		// The store is back as it was left.
		return r.observe("none")
	case "rec_clear", "clear":
		if m.fault != "" {
			return fmt.Errorf("harness: clear generated while a storage fault is in force")
		}
		if op.K == "clear" {
			return r.clear()
		}
		// A record whose Add may have started the memory-to-disk flush,
		// followed at once — without waiting for that goroutine — by a clear.
		// Whatever the order of the two, the log is empty afterwards and later
		// records are flushed as usual.
		if err := r.advance(time.Duration(op.Rec.GapNs)); err != nil {
			return err
		}
		n.NoWait = true
		_, _, _, err := n.Record(op.Rec)
		n.NoWait = false
		if err != nil {
			return err
		}
		code, body, err := n.Mux.Do(http.MethodPost, "/control/querylog_clear", nil)
		if err != nil {
			return apiErr(err, "api-panic")
		}
		if code != http.StatusOK {
			return kernel.Violationf("api-status", "POST querylog_clear -> %d %s", code, body)
		}
		kernel.Wait()
		m.nextID++
		m.mem, m.cur, m.rot = nil, nil, nil
		r.c.Fault("clear")
		r.c.Probe("clear_overlapping_pending_flush")
		return r.observe("clear")
	case "conf":
		ign := op.Ign
		if ign == nil {
			ign = []string{}
		}
		body, _ := json.Marshal(map[string]any{"enabled": op.En, "interval": float64(int64(op.IvlH) * 3600_000), "anonymize_client_ip": op.Anon, "ignored": ign})
		code, resp, err := n.Mux.Do(http.MethodPut, "/control/querylog/config/update", body)
		if err != nil {
			return apiErr(err, "api-panic")
		}
		if code != http.StatusOK {
			return kernel.Violationf("api-status", "PUT querylog/config/update %s -> %d %s", body, code, resp)
		}
		m.conf.Enabled, m.conf.Interval, m.conf.Anonymize = op.En, time.Duration(op.IvlH)*time.Hour, op.Anon
		m.setIgnored(ign)
		r.c.Fault("config_change")
		return r.observe("none")
	case "legacy":
		body, _ := json.Marshal(map[string]any{"enabled": op.En, "interval": op.Days, "anonymize_client_ip": op.Anon})
		code, resp, err := n.Mux.Do(http.MethodPost, "/control/querylog_config", body)
		if err != nil {
			return apiErr(err, "api-panic")
		}
		valid := op.Days == 0.25 || op.Days == 1 || op.Days == 7 || op.Days == 30 || op.Days == 90
		if !valid {
			if code != http.StatusBadRequest {
				return kernel.Violationf("api-status", "POST querylog_config %s -> %d %s, want 400", body, code, resp)
			}
			r.c.Probe("legacy_conf_rejected")
			return r.observe("none")
		}
		if code != http.StatusOK {
			return kernel.Violationf("api-status", "POST querylog_config %s -> %d %s", body, code, resp)
		}
		m.conf.Enabled, m.conf.Interval, m.conf.Anonymize = op.En, time.Duration(op.Days*24*float64(time.Hour)), op.Anon
		r.c.Fault("config_change")
		return r.observe("none")
	case "restart":
		err := n.Shutdown()
		kernel.Wait()
		if m.fault != "" {
			// The final flush had nowhere to write to.
			if err = r.settle("shutdown"); err != nil {
				return err
			}
			// The process ends: what was not written is gone.
			m.mem = nil
			r.c.Probe("shutdown_during_storage_fault")
			r.c.Fault("clean_restart")
			return r.reopen(op.Mem)
		}
		if err != nil && len(m.mem) > 0 {
			return kernel.Violationf("shutdown-error", "Shutdown with %d entries in memory: %v", len(m.mem), err)
		}
		if err = r.observe("shutdown"); err != nil {
			return err
		}
		if len(m.mem) > 0 {
			return kernel.Violationf("shutdown-lost-entries", "Shutdown left %d entries unflushed", len(m.mem))
		}
		r.c.Fault("clean_restart")
		return r.reopen(op.Mem)
	case "crash":
		// The process dies: what was only in memory is gone.
		if len(m.mem) > 0 {
			r.c.Probe("crash_lost_memory_entries")
		}
		m.mem = nil
		r.c.Fault("process_crash")
		return r.reopen(op.Mem)
	case "cli_ign":
		row := n.Clients[op.Cli%len(n.Clients)]
		row.Ignore = !row.Ignore
		r.c.Fault("client_ignore_toggle")
		return nil
	case "search":
		return r.search(op.Q)
	case "par":
		return r.par(op)
	case "hostile":
		return r.hostile(op)
	}
	return fmt.Errorf("harness: unknown op %q", op.K)
}

func (r *run) clear() error {
	m := r.m
	code, body, err := r.n.Mux.Do(http.MethodPost, "/control/querylog_clear", nil)
	if err != nil {
		return apiErr(err, "api-panic")
	}
	if code != http.StatusOK {
		return kernel.Violationf("api-status", "POST querylog_clear -> %d %s", code, body)
	}
	m.mem, m.cur, m.rot = nil, nil, nil
	r.c.Fault("clear")
	return r.observe("clear")
}

// bulk is the big-log profile: the matching entries lie behind more
// non-matching file entries than one request scans, so the client has to follow
// cursors of empty pages.
func (r *run) bulk(sc *Scenario) error {
	m := r.m
	rec := func(host string) error {
		return r.record(&qlogsim.Rec{GapNs: 1, Host: host, QType: dns.TypeA, IP: "10.1.2.3", NoAns: true})
	}
	for i := 0; i < sc.BulkOld; i++ {
		if err := rec("ads.example"); err != nil {
			return err
		}
	}
	for i := 0; i < sc.Bulk; i++ {
		if err := rec("b.test"); err != nil {
			return err
		}
	}
	if len(m.mem) > 0 {
		if err := r.n.Flush(); err != nil {
			return kernel.Violationf("flush-error", "flush of %d entries: %v", len(m.mem), err)
		}
		if err := r.observe("flush"); err != nil {
			return err
		}
	}
	r.c.Step()
	want := m.all()[sc.Bulk:]
	byTS := map[int64]*ent{}
	for _, e := range want {
		byTS[e.ts] = e
	}
	for _, mode := range []string{"cursor", "offset"} {
		var paged []*ent
		cursor := ""
		for page := 0; ; page++ {
			if page > 20 {
				return kernel.Violationf(mode+"-paging-no-end", "big log, search=ads limit=%d: no end after %d pages", sc.BulkPage, page)
			}
			p := url.Values{"limit": {strconv.Itoa(sc.BulkPage)}, "search": {"ads"}}
			if mode == "offset" {
				p.Set("offset", strconv.Itoa(page*sc.BulkPage))
			} else if cursor != "" {
				p.Set("older_than", cursor)
			}
			resp, err := r.get(p)
			if err != nil {
				return err
			}
			items, err := r.sequence("big log search=ads "+mode+" page", resp.Data, byTS)
			if err != nil {
				return err
			}
			paged = append(paged, items...)
			r.c.Eventf("  big log %s page %d: %d items, cursor %v", mode, page, len(items), resp.Oldest != "")
			if mode == "offset" {
				if len(items) == 0 {
					break
				}
				continue
			}
			if resp.Oldest == "" {
				break
			}
			if len(items) == 0 {
				r.c.Probe("scan_limit_continuation")
			}
			cursor = resp.Oldest
		}
		if !sameSeq(paged, want) {
			return seqDiff(mode+"-paging", fmt.Sprintf("big log (%d entries for b.test newer than %d for ads.example), search=ads limit=%d by %s: got [%s], recorded [%s]", sc.Bulk, sc.BulkOld, sc.BulkPage, mode, ids(paged), ids(want)), paged, want)
		}
	}
	r.c.Step()
	return nil
}

// reopen starts a new query log on the same directory from the persisted
// configuration, as home does after a restart.
func (r *run) reopen(mem int) error {
	conf := r.n.PersistedConf()
	if mem > 0 && uint(mem) != conf.MemSize {
		conf.MemSize = uint(mem)
		r.c.Fault("memsize_change")
	}
	m := r.m
	m.lostBatch = false
	if conf.Enabled != m.conf.Enabled || conf.Interval != m.conf.Interval || conf.Anonymize != m.conf.Anonymize || strings.Join(conf.Ignored, ",") != strings.Join(m.conf.Ignored, ",") {
		return kernel.Violationf("config-not-persisted", "configuration handed to WriteDiskConfig %+v differs from the one set through the API %+v", conf, m.conf)
	}
	return r.open(conf)
}

// Run executes one scenario.
func Run(t *testing.T, scAny any, c *kernel.Ctx) error {
	sc := scAny.(*Scenario)
	dir, err := kernel.TempDir("c07")
	if err != nil {
		return err
	}
	defer os.RemoveAll(dir)
	sched.Init()
	// The goroutine that Add starts for the flush-after-add is a task of a
	// concurrent phase.
	sched.SpawnAllow = []string{"querylog.(*queryLog).Add"}
	return kernel.Bubble(t, func() error {
		plog := &parLog{}
		n := &qlogsim.Node{Dir: filepath.Join(dir, "data"), Logger: slog.New(plog)}
		if err := os.Mkdir(n.Dir, 0o755); err != nil {
			return fmt.Errorf("harness: %w", err)
		}
		for i := range clientTable {
			row := clientTable[i]
			n.Clients = append(n.Clients, &row)
		}
		m := &model{}
		m.conf = qlogsim.Conf{MemSize: uint(sc.MemSize), Interval: time.Duration(sc.IvlH) * time.Hour, Enabled: sc.Enabled, Anonymize: sc.Anon}
		m.setIgnored(nil)
		r := &run{n: n, m: m, c: c, plog: plog}
		if err := r.open(m.conf); err != nil {
			return err
		}
		if sc.Bulk > 0 {
			return r.bulk(sc)
		}
		for i := range sc.Ops {
			op := &sc.Ops[i]
			r.op = i
			c.Eventf("op %d %s t=%s", i, op.K, time.Since(kernel.Epoch))
			err := r.apply(op)
			if err == nil {
				err = r.fullCheck()
			}
			if err != nil {
				if v, ok := err.(*kernel.Violation); ok {
					v.Msg = fmt.Sprintf("after op %d (%s) at t=%s, MemSize %d: %s", i, op.K, time.Since(kernel.Epoch), m.conf.MemSize, v.Msg)
				}
				return err
			}
			c.Step()
		}
		// Final sweep: page through everything with three page sizes.
		for _, pg := range []int{1, 2, 3} {
			if err := r.search(&Query{Page: pg}); err != nil {
				if v, ok := err.(*kernel.Violation); ok {
					v.Msg = "final sweep: " + v.Msg
				}
				return err
			}
		}
		return nil
	})
}

// Prop is the registration.
var Prop = &kernel.Property{
	ID:    "C07",
	Level: "exploration",
	Rule: "seeded histories (rapid) of record / clock advance (1 ns .. 400 h, aimed at the hourly rotation check and at whole multiples of the interval) / explicit flush / clear / configuration change (new and legacy API, ignore list, anonymisation) / clean restart / crash (with MemSize change) / in one scenario out of four: storage faults that make the memory-to-file flush fail until healed (data directory unreachable and back, data directory wiped and recreated, name of the log file taken by a directory, writes failing with ENOSPC), injected and healed at any point / filtered searches with cursor and offset paging / hostile parameter values / concurrent phases (op par, mode D: the request path Add incl. the flush goroutine it starts, the flush body, the rotation check body, listings, a configuration update and a clear as tasks under the seeded cooperative scheduler, interleaved at every lock operation and log line), against the real querylog package on tmpfs under a fake clock; " +
		"a case is non-trivial when >=1 entry reached a file through an observed flush and >=1 rotation, restart, crash, clear, configuration change or clock jump >= 1 h happened; distinct = distinct scenario digests",
	Gen: Gen,
	New: func() any { return &Scenario{} },
	Run: Run,
	NonTrivial: func(_ any, c *kernel.Ctx) bool {
		f := c.Faults
		return c.Probes["flush_observed"] > 0 && (c.Probes["rotation_observed"] > 0 || f["clean_restart"] > 0 || f["process_crash"] > 0 || f["clear"] > 0 || f["config_change"] > 0 || f["clock_jump"] > 0)
	},
	Real: []string{"internal/querylog (ring buffer, Add, ShouldLog, flush, rotation check body, reverse file reader, search, hand-written decoder, HTTP handlers, configuration handlers)", "aghnet.IgnoreEngine + urlfilter", "log files on tmpfs"},
	Stub: []string{"the hourly periodicRotate loop driver (body real, via VerifCheckAndRotate, same 1 h period, first check at start)", "FindClient (seeded client table)", "dnsforward's logging step (anonymise, ShouldLog, Add) re-enacted by the harness", "admin HTTP client (handlers called in-process)", "wall clock (synctest fake clock)", "configuration file (WriteDiskConfig snapshot taken at ConfigModified)"},
	Assumptions: []string{
		"entries are recorded at distinct instants, at least 1 ns apart: the older_than cursor is a timestamp printed with nanosecond resolution (RFC 3339 Nano) and means strictly older, so entries sharing a timestamp cannot be separated by it",
		"outside the concurrent phases (mode A) the driver waits for quiescence after every Add, so no record is submitted while a flush is pending (excluded by the statement)",
		"concurrent phase (mode D): the clock stands still, so the entries of one phase share an instant and are told apart by their elapsed time; the phase ends with a clear because the older_than cursor cannot separate such entries. Two overlapping operations may take effect in either order. Records submitted while a flush is pending are excluded by the statement: the ring buffer holds MemSize entries, so at most (entries in memory before the phase + entries recorded in it - MemSize) entries that were in memory may be missing, none if that number is <= 0. Preemption happens at lock operations and log lines only (not between two system calls)",
		"file logging is always enabled; MemSize 1..50",
		"IsFiltered is true exactly for the Filtered* reasons, as the filtering module sets it",
		"an entry whose name or client is on the ignore list in force is not required to be returned (C08 says it must not be); a term that matches only the recorded or only the displayed (anonymised) address is not asserted either way",
		"a rotation at an age exactly equal to the interval is accepted either way",
		"after a crash the entries that were only in memory are gone; everything flushed before must still be there",
		"older_than values that are not the timestamp of an existing entry are only checked for no crash / no wrong entry",
		"storage faults exist only in scenarios marked io_faults; while one is in force the entries of a batch that a flush took out of memory and could not write are gone, and entries in the files are not required to be returned (the files cannot be read); everything else, in particular every entry recorded after the fault was healed, is judged as in a fault-free run; no clear is issued while the store is broken (what becomes of the files is not stated)",
	},
	FaultKinds: []string{"clean_restart", "process_crash", "clock_jump", "clear", "config_change", "memsize_change", "client_ignore_toggle", "hostile_request",
		"storage_away", "storage_wiped", "storage_isdir", "storage_full", "flush_io_error", "concurrent_phase"},
	ProbeNames: []string{"clear_overlapping_pending_flush", "recorded", "flush_observed", "explicit_flush", "rotation_observed", "rotation_dropped_old_file", "rotation_at_exact_age", "entries_in_all_three_places",
		"cursor_memory_to_file", "cursor_file_to_rotated", "page_ends_at_memory_boundary", "page_ends_at_file_boundary", "search_checked", "search_nonempty", "search_open_entries", "idn_search",
		"ignored_hidden", "not_logged_ignored", "not_logged_disabled", "crash_lost_memory_entries", "legacy_conf_rejected", "hostile_rejected_4xx", "hostile_answered_200", "older_than_absent_incomplete", "scan_limit_continuation",
		"storage_healed", "failed_flush_by_add", "failed_flush_by_flush", "failed_flush_by_shutdown", "flush_resumed_after_io_error", "file_entry_unreachable", "tick_during_storage_fault", "shutdown_during_storage_fault",
		"sched_steps", "sched_switches", "sched_spawned_flush_tasks", "par_recorded", "par_listing_checked", "par_flushes_in_phase", "par_last_add_fills_buffer", "par_add_while_flush_pending", "par_ring_overwrote_entries",
		"par_rotation", "par_flush_then_rotation", "par_tick_on_the_hour", "par_log_works_after_phase"},
}
