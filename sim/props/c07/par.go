package c07

// Op "par" (mode D): several entry points of the query log run as concurrent
// tasks under the seeded cooperative scheduler, interleaved at every lock
// operation and at every line the tasks write to the process log (a log
// statement is a place where a request can be held up for any length of time):
//
//	add    the request path (anonymise, ShouldLog, Add) for one or more entries;
//	       the goroutine Add starts for the flush-after-add is a task as well
//	flush  the memory-to-file flush body (what Shutdown runs)
//	tick   the body of the hourly rotation check
//	list   GET /control/querylog (everything, or one page by limit / offset)
//	conf   PUT /control/querylog/config/update
//	clear  POST /control/querylog_clear
//
// The bubble's clock stands still during the phase, so all entries recorded
// in it carry the same instant; they are told apart by their (unique) elapsed
// time.  Entries that share an instant are outside the assumption of the
// sequential oracles (the older_than cursor cannot separate them), so the
// operation ends with an explicit clear and the sequential history goes on
// from an empty log.
//
// Oracle (the statement's invariants across the phase; the order of two
// overlapping operations is not fixed, so everything either order allows is
// accepted and nothing else):
//
//   - a listing, during or after the phase, is a newest-first sequence of
//     entries whose Add had started before the listing returned, without
//     duplicates;
//   - it holds every entry that existed before the phase or whose Add had
//     returned before the listing started, unless that entry may have been
//     removed by then: by a clear that began before the listing returned, or
//     by a rotation check that began before the listing returned and found the
//     current file old enough (that drops the previous rotated file);
//   - an entry whose Add returned before a clear began is not returned once
//     that clear has returned; an entry whose Add began after the clear
//     returned is kept;
//   - an Add that overlaps a configuration change is judged by the old or by
//     the new configuration;
//   - the statement excludes records submitted while a memory-to-disk flush
//     is pending (the ring buffer may then overwrite its oldest entries).  The
//     ring holds MemSize entries, so no more than (entries in memory before the
//     phase + entries recorded in the phase - MemSize) entries that were in
//     memory can be lost that way; with that number <= 0 nothing may be lost;
//   - afterwards the log files hold known entries only, oldest first, none
//     twice; without a clear the previous content of the files is still there
//     (the rotated file, if no rotation happened; the current file as a prefix of
//     the current or of the rotated file); a rotation needs a rotation check and
//     a current file as old as the interval (old or new);
//   - after the phase the log works as before: MemSize+1 more entries recorded
//     one by one (waiting for quiescence each time) are all returned together
//     with everything listed before, also after one more flush or a restart.

import (
	"context"
	"encoding/json"
	"fmt"
	"log/slog"
	"math"
	"net/http"
	"net/url"
	"os"
	"sort"
	"strconv"
	"strings"
	"time"

	"github.com/AdguardTeam/AdGuardHome/verifsim/kernel"
	"github.com/AdguardTeam/AdGuardHome/verifsim/qlogsim"
	"github.com/AdguardTeam/AdGuardHome/verifsim/sched"
	"github.com/miekg/dns"
	"pgregory.net/rapid"
)

// ParTask is one task of a concurrent phase.
type ParTask struct {
	K string `json:"k"`
	// Dly is the number of scheduling points the task lets pass before it
	// arrives.
	Dly int `json:"dly,omitempty"`

	Recs []*qlogsim.Rec `json:"recs,omitempty"` // add

	// list: Limit 0 means everything.
	Limit  int `json:"limit,omitempty"`
	Offset int `json:"offset,omitempty"`

	// conf
	En   bool     `json:"en,omitempty"`
	IvlH int      `json:"ivl_h,omitempty"`
	Anon bool     `json:"anon,omitempty"`
	Ign  []string `json:"ign,omitempty"`
}

// genPar draws a concurrent phase.  now and nextTick are the generator's idea
// of the simulated time and of the next rotation check.
func genPar(t *rapid.T, now, nextTick int64) Op {
	const hour = int64(time.Hour)
	op := Op{K: "par", Seed: rapid.Uint64().Draw(t, "par_seed"), Pct: rapid.SampledFrom([]int{20, 50, 80}).Draw(t, "par_pct")}
	dly := func() int { return rapid.SampledFrom([]int{0, 0, 0, 1, 2, 3, 5, 8, 13}).Draw(t, "par_dly") }
	seq := 0
	for i, n := 0, rapid.SampledFrom([]int{1, 1, 2, 2, 3}).Draw(t, "par_add_tasks"); i < n; i++ {
		task := ParTask{K: "add", Dly: dly()}
		for j, k := 0, rapid.SampledFrom([]int{1, 1, 1, 2, 3}).Draw(t, "par_recs"); j < k; j++ {
			rec := genRec(t)
			rec.GapNs = 0
			// The clock stands still during the phase: the elapsed time tells
			// the entries of one phase apart.
			rec.ElapsedUs = 5_000_000 + int64(seq)
			seq++
			task.Recs = append(task.Recs, rec)
		}
		op.Par = append(op.Par, task)
	}
	if rapid.IntRange(0, 9).Draw(t, "par_flush") < 6 {
		op.Par = append(op.Par, ParTask{K: "flush", Dly: dly()})
	}
	hasTick := rapid.IntRange(0, 9).Draw(t, "par_tick") < 4
	if hasTick {
		op.Par = append(op.Par, ParTask{K: "tick", Dly: dly()})
	}
	for i, n := 0, rapid.SampledFrom([]int{1, 1, 2, 2, 3}).Draw(t, "par_lists"); i < n; i++ {
		task := ParTask{K: "list", Dly: dly()}
		if rapid.IntRange(0, 3).Draw(t, "par_paged") == 0 {
			task.Limit = rapid.IntRange(1, 5).Draw(t, "par_limit")
			task.Offset = rapid.IntRange(0, 3).Draw(t, "par_offset")
		}
		op.Par = append(op.Par, task)
	}
	if rapid.IntRange(0, 3).Draw(t, "par_conf") == 0 {
		op.Par = append(op.Par, ParTask{K: "conf", Dly: dly(), En: rapid.IntRange(0, 5).Draw(t, "par_en") != 0, IvlH: rapid.SampledFrom(intervals).Draw(t, "par_ivl"),
			Anon: rapid.IntRange(0, 4).Draw(t, "par_anon") == 0, Ign: genIgn(t)})
	}
	if rapid.IntRange(0, 4).Draw(t, "par_clear") == 0 {
		op.Par = append(op.Par, ParTask{K: "clear", Dly: dly()})
	}
	// The order of the tasks in the list is the order of their names only; who
	// runs when is the scheduler's decision.
	switch {
	case hasTick && rapid.IntRange(0, 4).Draw(t, "par_on_grid") != 0:
		// The rotation check runs when its hour strikes.
		op.Ns = nextTick - now + hour*int64(rapid.IntRange(0, 2).Draw(t, "par_ticks"))
	case rapid.IntRange(0, 1).Draw(t, "par_gap_kind") == 0:
		op.Ns = int64(rapid.IntRange(1, 1000).Draw(t, "par_gap_ns"))
	default:
		op.Ns = int64(rapid.IntRange(1, 7200).Draw(t, "par_gap_s")) * int64(time.Second)
	}
	if op.Ns <= 0 {
		op.Ns = 1
	}
	op.After = rapid.SampledFrom([]string{"", "flush", "flush", "restart"}).Draw(t, "par_after")
	return op
}

// ---- the log sink ------------------------------------------------------------------

type logLine struct {
	at  int
	msg string
}

// parLog is the process log of the query log.  Outside a concurrent phase it
// discards everything (as the engine's default does); during one, every line is
// a scheduling point and is noted with the phase's logical time.
type parLog struct {
	ph *phase
}

func (l *parLog) Enabled(context.Context, slog.Level) bool { return l.ph != nil }
func (l *parLog) WithAttrs([]slog.Attr) slog.Handler      { return l }
func (l *parLog) WithGroup(string) slog.Handler           { return l }
func (l *parLog) Handle(_ context.Context, rec slog.Record) error {
	if ph := l.ph; ph != nil {
		ph.logs = append(ph.logs, logLine{at: ph.mark(), msg: rec.Message})
		sched.Yield()
	}
	return nil
}

// ---- the phase -----------------------------------------------------------------------

// span is the stretch of the phase's logical time (a counter that every task
// start, task end and log line advances) during which something ran.
type span struct{ s, e int }

func (a span) before(b span) bool { return a.e < b.s }

// pent is one entry of the phase's universe.
type pent struct {
	e *ent
	// pre is where the entry was before the phase ("rot", "cur", "mem"), ""
	// for an entry recorded in the phase or after it.
	pre string
	add span
	// may / sure: logging was switched on under some / every configuration
	// that can have been in force when the Add ran.
	may, sure bool
	us        int64
	what      string
}

const (
	stReq = iota
	stOpt
	stForb
)

type taskRes struct {
	span
	panicked any
	err      error
	code     int
	body     []byte
	resp     *qlogsim.Resp
	recs     []recRes
}

type recRes struct {
	span
	ts     time.Time
	ip     string
	logged bool
}

type phase struct {
	r     *run
	op    *Op
	clock int
	logs  []logLine

	ents []*pent
	byTS map[int64][]*pent

	oldConf, newConf qlogsim.Conf
	oldIgn, newIgn   map[string]bool
	conf, clear      *span
	tick             *span
	rotPossible      bool

	// over is the number of entries the ring buffer can have overwritten
	// (records submitted while a flush was pending: excluded by the statement).
	over int

	inFile  map[*pent]string
	flushes []span
}

func (ph *phase) mark() int { ph.clock++; return ph.clock }

func (ph *phase) addEnt(p *pent) {
	ph.ents = append(ph.ents, p)
	ph.byTS[p.e.ts] = append(ph.byTS[p.e.ts], p)
}

// identify finds the entry with the given instant and elapsed time.
func (ph *phase) identify(ts, us int64) *pent {
	c := ph.byTS[ts]
	if len(c) == 1 && (c[0].pre != "" || c[0].us == us) {
		return c[0]
	}
	for _, p := range c {
		if p.us == us {
			return p
		}
	}
	return nil
}

// confs says which configurations can have been in force during x.
func (ph *phase) confs(x span) (old, new bool) {
	if ph.conf == nil {
		return true, false
	}
	return !ph.conf.before(x), !x.before(*ph.conf)
}

func (ph *phase) ignoredUnder(ign map[string]bool, e *ent) bool {
	if ign[e.host] {
		return true
	}
	row := ph.r.n.LookupClient(e.rec.CID, e.ip)
	return row != nil && row.Ignore
}

// status says whether a listing that ran during x must, may or must not
// return p.
func (ph *phase) status(p *pent, x span) (st int, why string) {
	st = stReq
	addS, addE := -1, -1
	if p.pre == "" {
		addS, addE = p.add.s, p.add.e
		switch {
		case !p.may:
			return stForb, "it was submitted while logging was switched off"
		case addS > x.e:
			return stForb, "its Add had not begun when the listing returned"
		case addE > x.s || !p.sure:
			st = stOpt
		}
	}
	if c := ph.clear; c != nil {
		switch {
		case addS > c.e:
			// Recorded after the clear had returned.
		case c.before(x) && addE < c.s:
			return stForb, "it was recorded before the clear began and the clear had returned before the listing began"
		case c.s < x.e:
			st = stOpt
		}
	}
	if p.pre == "rot" && ph.tick != nil && ph.rotPossible && ph.tick.s < x.e {
		st = stOpt
	}
	if st == stReq {
		old, new := ph.confs(x)
		if (old && ph.ignoredUnder(ph.oldIgn, p.e)) || (new && ph.ignoredUnder(ph.newIgn, p.e)) {
			st = stOpt
		}
	}
	return st, ""
}

// flushInFlight reports whether p went from memory to a file during the phase
// (or may have, if a clear removed the files afterwards) and a flush was
// between taking its batch out of memory and having written it at some time
// during x.
func (ph *phase) flushInFlight(p *pent, x span) bool {
	if p.pre != "" && p.pre != "mem" {
		return false
	}
	if _, ok := ph.inFile[p]; !ok && ph.clear == nil {
		// Still in memory (or, with a clear in the phase, possibly flushed and
		// removed afterwards).
		return false
	}
	for _, f := range ph.flushes {
		if !f.before(x) && !x.before(f) {
			return true
		}
	}
	return false
}

func entryUs(g *qlogsim.Entry) int64 {
	ms, err := strconv.ParseFloat(g.ElapsedMs, 64)
	if err != nil {
		return -1
	}
	return int64(math.Round(ms * 1000))
}

func (p *pent) String() string {
	where := p.pre
	if where == "" {
		where = p.what
	}
	return fmt.Sprintf("#%d (t=%s, elapsed %dus, host %s, %s)", p.e.id, fmtT(p.e.ts), p.us, p.e.host, where)
}

// listing judges one answer of GET /control/querylog.  full: the request asked
// for everything.  It returns the entries in the order returned.
func (ph *phase) listing(prefix, what string, x span, data []*qlogsim.Entry, full bool, limit int) ([]*pent, error) {
	c := ph.r.c
	inPhase := prefix == "par-listing-"
	if limit > 0 && len(data) > limit {
		return nil, kernel.Violationf("limit-exceeded", "%s: a page of limit %d holds %d items", what, limit, len(data))
	}
	got := make([]*pent, 0, len(data))
	seen := map[*pent]bool{}
	for i, g := range data {
		p := ph.identify(g.TS, entryUs(g))
		if p == nil {
			return nil, kernel.Violationf(prefix+"unknown-entry", "%s: item %d carries time %s and elapsed time %s ms, which no recorded entry has", what, i, g.Time, g.ElapsedMs)
		}
		if i > 0 && data[i-1].TS < g.TS {
			return nil, kernel.Violationf(prefix+"order", "%s: item %d (t=%s) is newer than item %d (t=%s)", what, i, fmtT(g.TS), i-1, fmtT(data[i-1].TS))
		}
		if seen[p] {
			if inPhase && ph.flushInFlight(p, x) {
				v := kernel.Violationf("par-listing-duplicates-entry-being-flushed", "%s: entry %s is returned twice; it went from memory to the file while the listing ran (the listing reads the memory buffer under its lock and the files afterwards)", what, p)
				if c.Tolerate(v) {
					continue
				}
				return nil, v
			}
			return nil, kernel.Violationf(prefix+"duplicate", "%s: entry %s is returned twice", what, p)
		}
		seen[p] = true
		if st, why := ph.status(p, x); st == stForb {
			return nil, kernel.Violationf(prefix+"returns-removed-entry", "%s: entry %s is returned although %s", what, p, why)
		}
		got = append(got, p)
	}
	if !full {
		return got, nil
	}
	// Entries that must be there and are not.  The statement excludes records
	// submitted while a flush is pending: up to ph.over entries that were in
	// memory may have been overwritten (see the package comment).  That
	// allowance goes first to the missing entries that nothing else explains.
	var unexplained, inFlight []*pent
	for _, p := range ph.ents {
		if seen[p] {
			continue
		}
		if st, _ := ph.status(p, x); st != stReq {
			continue
		}
		if inPhase && ph.flushInFlight(p, x) {
			inFlight = append(inFlight, p)
		} else {
			unexplained = append(unexplained, p)
		}
	}
	lostMem := 0
	for _, p := range unexplained {
		if (p.pre == "mem" || p.pre == "") && lostMem < ph.over {
			lostMem++
			continue
		}
		return nil, kernel.Violationf(prefix+"misses-entry", "%s: entry %s is not returned (%d of %d known entries returned; at most %d entries in memory can have been overwritten by records submitted while a flush was pending)", what, p, len(got), len(ph.ents), ph.over)
	}
	for _, p := range inFlight {
		if lostMem < ph.over {
			lostMem++
			continue
		}
		v := kernel.Violationf("par-listing-misses-entry-being-flushed", "%s: entry %s, recorded before the listing began, is not returned; it went from memory to the file while the listing ran (a flush takes its batch out of the memory buffer before it has written it)", what, p)
		if !c.Tolerate(v) {
			return nil, v
		}
	}
	if lostMem > 0 {
		c.Probe("par_ring_overwrote_entries")
		c.Eventf("  %s: %d entries that were in memory are missing (records were submitted while a flush was pending: excluded)", what, lostMem)
	}
	return got, nil
}

// fileLine is what the oracle reads from one stored line.
type fileLine struct {
	T       time.Time `json:"T"`
	Elapsed int64     `json:"Elapsed"`
}

// readFile returns the entries of one log file, oldest first.
func (ph *phase) readFile(rot bool) ([]*pent, error) {
	name := "querylog.json"
	if rot {
		name += ".1"
	}
	b, err := os.ReadFile(ph.r.n.LogFile(rot))
	if err != nil {
		if os.IsNotExist(err) {
			return nil, nil
		}
		return nil, fmt.Errorf("harness: %w", err)
	}
	lines, complete := qlogsim.SplitLines(b)
	if !complete {
		return nil, kernel.Violationf("flush-torn-line", "after the concurrent phase %s does not end with a newline", name)
	}
	var out []*pent
	for i, l := range lines {
		var fl fileLine
		if jerr := json.Unmarshal([]byte(l), &fl); jerr != nil {
			return nil, kernel.Violationf("flush-bad-line", "after the concurrent phase line %d of %s is not valid JSON: %v", i, name, jerr)
		}
		p := ph.identify(fl.T.UnixNano(), fl.Elapsed/1000)
		if p == nil {
			return nil, kernel.Violationf("par-file-unknown-entry", "after the concurrent phase line %d of %s carries t=%s, elapsed %d ns, which no recorded entry has", i, name, fmtT(fl.T.UnixNano()), fl.Elapsed)
		}
		out = append(out, p)
	}
	return out, nil
}

func pents(l []*pent) string {
	var b strings.Builder
	for i, p := range l {
		if i > 0 {
			b.WriteByte(' ')
		}
		fmt.Fprintf(&b, "#%d", p.e.id)
	}
	return b.String()
}

func isPrefix(pre []*ent, l []*pent) bool {
	if len(pre) > len(l) {
		return false
	}
	for i, e := range pre {
		if l[i].e != e {
			return false
		}
	}
	return true
}

// arrive makes a task arrive late: after dly scheduling points of its own.
func arrive(dly int) {
	for i := 0; i < dly; i++ {
		sched.Yield()
	}
}

// newEnt builds the model entry of a recorded query.
func (r *run) newEnt(rec *qlogsim.Rec, ts time.Time, ip string) (*ent, error) {
	m := r.m
	e := &ent{id: m.nextID, ts: ts.UnixNano(), rec: rec, host: strings.ToLower(strings.TrimSuffix(rec.Host, ".")), ip: ip, qt: dns.Type(rec.QType).String()}
	m.nextID++
	var err error
	if !rec.NoAns {
		if e.ans, err = toAns(dns.Fqdn(rec.Host), rec.Ans, rec.TxtPad); err != nil {
			return nil, err
		}
	}
	if e.orig, err = toAns(dns.Fqdn(rec.Host), rec.Orig, 0); err != nil {
		return nil, err
	}
	return e, nil
}

// advanceBefore moves the clock by d.  If the phase holds a rotation check,
// a check that falls due exactly at the target instant is left to the phase.
func (r *run) advanceBefore(d time.Duration, hasTick bool) error {
	if !hasTick {
		return r.advance(d)
	}
	target := time.Now().Add(d)
	for r.n.NextTick.Before(target) {
		if w := time.Until(r.n.NextTick); w > 0 {
			time.Sleep(w)
		}
		if err := r.tick(); err != nil {
			return err
		}
	}
	if w := time.Until(target); w > 0 {
		time.Sleep(w)
	}
	if r.n.NextTick.Equal(target) {
		r.c.Probe("par_tick_on_the_hour")
	}
	r.c.SimTime += d
	return nil
}

func (r *run) listAll() (*qlogsim.Resp, error) {
	return r.get(url.Values{"limit": {hugeLimit}})
}

func (r *run) par(op *Op) error {
	m, n, c := r.m, r.n, r.c
	if m.fault != "" {
		// The files are out of reach; what a flush, a rotation or a clear make of
		// that is judged by the sequential operations.
		c.Probe("par_skipped_storage_fault")
		return nil
	}
	hasTick := false
	for i := range op.Par {
		if op.Par[i].K == "tick" {
			hasTick = true
		}
	}
	if err := r.advanceBefore(time.Duration(op.Ns), hasTick); err != nil {
		return err
	}

	ph := &phase{r: r, op: op, byTS: map[int64][]*pent{}, oldConf: m.conf, newConf: m.conf, oldIgn: m.ignored, newIgn: m.ignored, inFile: map[*pent]string{}}
	for _, l := range []struct {
		name string
		l    []*ent
	}{{"rot", m.rot}, {"cur", m.cur}, {"mem", m.mem}} {
		for _, e := range l.l {
			ph.addEnt(&pent{e: e, pre: l.name, may: true, sure: true, us: e.rec.ElapsedUs})
		}
	}
	rotObs0 := n.Observe(true)
	m0 := len(m.mem)
	memSize := int(m.conf.MemSize)
	var confTask *ParTask
	for i := range op.Par {
		if t := &op.Par[i]; t.K == "conf" {
			confTask = t
			ph.newConf.Enabled, ph.newConf.Interval, ph.newConf.Anonymize = t.En, time.Duration(t.IvlH)*time.Hour, t.Anon
			ph.newIgn = map[string]bool{}
			for _, rule := range t.Ign {
				ph.newIgn[strings.TrimSuffix(strings.TrimPrefix(rule, "|"), "^")] = true
			}
		}
	}
	minIvl, maxIvl := ph.oldConf.Interval, ph.oldConf.Interval
	if confTask != nil {
		minIvl, maxIvl = min(minIvl, ph.newConf.Interval), max(maxIvl, ph.newConf.Interval)
	}
	// The rotation check goes by the first line of the current file: the
	// oldest entry of the file as it is, or, if there is none yet, the oldest
	// entry in memory that a flush of the phase writes.
	phaseStart := time.Now().UnixNano()
	age := time.Duration(-1)
	if len(m.cur) > 0 {
		age = time.Duration(phaseStart - m.cur[0].ts)
	}
	headAge := age
	if len(m.cur) == 0 && len(m.mem) > 0 {
		headAge = time.Duration(phaseStart - m.mem[0].ts)
	}
	ph.rotPossible = hasTick && headAge >= minIvl

	// ---- run the tasks
	res := make([]taskRes, len(op.Par))
	names := make([]string, len(op.Par))
	fns := make([]func(), len(op.Par))
	for i := range op.Par {
		t, tr := &op.Par[i], &res[i]
		names[i] = t.K
		fns[i] = func() {
			defer func() {
				if p := recover(); p != nil {
					tr.panicked = p
				}
			}()
			arrive(t.Dly)
			tr.s = ph.mark()
			switch t.K {
			case "add":
				for _, rec := range t.Recs {
					rr := recRes{}
					rr.s = ph.mark()
					rr.ts, rr.ip, rr.logged, tr.err = n.Record(rec)
					rr.e = ph.mark()
					tr.recs = append(tr.recs, rr)
					if tr.err != nil {
						break
					}
				}
			case "flush":
				_ = n.Flush()
			case "tick":
				n.Tick()
			case "list":
				p := url.Values{"limit": {hugeLimit}}
				if t.Limit > 0 {
					p = url.Values{"limit": {strconv.Itoa(t.Limit)}, "offset": {strconv.Itoa(t.Offset)}}
				}
				tr.code, tr.resp, tr.body, tr.err = n.Get(p)
			case "conf":
				ign := t.Ign
				if ign == nil {
					ign = []string{}
				}
				body, _ := json.Marshal(map[string]any{"enabled": t.En, "interval": float64(int64(t.IvlH) * 3600_000), "anonymize_client_ip": t.Anon, "ignored": ign})
				tr.code, tr.body, tr.err = n.Mux.Do(http.MethodPut, "/control/querylog/config/update", body)
			case "clear":
				tr.code, tr.body, tr.err = n.Mux.Do(http.MethodPost, "/control/querylog_clear", nil)
			}
			tr.e = ph.mark()
		}
	}
	n.NoWait = true
	r.plog.ph = ph
	sr := sched.Run(op.Seed, op.Pct, names, fns)
	r.plog.ph = nil
	n.NoWait = false
	c.Fault("concurrent_phase")
	c.Probes["sched_steps"] += sr.Steps
	c.Probes["sched_switches"] += sr.Switches
	c.Probes["sched_spawned_flush_tasks"] += sr.Spawned
	if sr.Deadlock != "" {
		return kernel.Violationf("deadlock: "+sr.Deadlock, "concurrent phase (%s), schedule seed %d: every task waits for a lock:\n%s", strings.Join(names, ", "), op.Seed, sr.Detail)
	}
	if sr.Escapes > 0 {
		c.Eventf("  scheduler escapes: %d", sr.Escapes)
	}
	kernel.Wait()

	// ---- what the tasks did
	for i := range op.Par {
		t, tr := &op.Par[i], &res[i]
		if tr.panicked != nil {
			return kernel.Violationf("panic", "concurrent phase, task %d (%s): %v", i, t.K, tr.panicked)
		}
		if tr.err != nil {
			return apiErr(tr.err, "api-panic")
		}
		sp := tr.span
		switch t.K {
		case "conf":
			if tr.code != http.StatusOK {
				return kernel.Violationf("api-status", "PUT querylog/config/update (concurrent) -> %d %s", tr.code, tr.body)
			}
			ph.conf = &sp
			c.Fault("config_change")
		case "clear":
			if tr.code != http.StatusOK {
				return kernel.Violationf("api-status", "POST querylog_clear (concurrent) -> %d %s", tr.code, tr.body)
			}
			ph.clear = &sp
			c.Fault("clear")
		case "tick":
			ph.tick = &sp
		case "list":
			if tr.code != http.StatusOK {
				return kernel.Violationf("api-status", "GET /control/querylog (concurrent) -> %d %s", tr.code, tr.body)
			}
			if tr.resp == nil {
				return kernel.Violationf("api-bad-response", "GET /control/querylog (concurrent) -> unparsable body %.300s", tr.body)
			}
		}
	}
	logged := 0
	for i := range op.Par {
		t, tr := &op.Par[i], &res[i]
		if t.K != "add" {
			continue
		}
		for j, rr := range tr.recs {
			rec := t.Recs[j]
			host := strings.ToLower(strings.TrimSuffix(rec.Host, "."))
			row := n.LookupClient(rec.CID, rr.ip)
			rowIgn := row != nil && row.Ignore
			old, new := ph.confs(rr.span)
			if !(old && rr.logged == !(ph.oldIgn[host] || rowIgn)) && !(new && rr.logged == !(ph.newIgn[host] || rowIgn)) {
				return kernel.Violationf("should-log-mismatch", "concurrent phase: ShouldLog(%q, ids of %s/%q) = %v, which no configuration in force at that time gives", host, rr.ip, rec.CID, rr.logged)
			}
			if !rr.logged {
				c.Probe("not_logged_ignored")
				c.Eventf("  task %d add %d: not logged (ignored)", i, j)
				continue
			}
			e, err := r.newEnt(rec, rr.ts, rr.ip)
			if err != nil {
				return err
			}
			p := &pent{e: e, add: rr.span, us: rec.ElapsedUs, what: "recorded in the phase",
				may:  (old && ph.oldConf.Enabled) || (new && ph.newConf.Enabled),
				sure: (!old || ph.oldConf.Enabled) && (!new || ph.newConf.Enabled)}
			ph.addEnt(p)
			if p.may {
				logged++
			}
			c.Probe("par_recorded")
			c.Eventf("  task %d add %d: #%d t=%s host=%s ip=%s", i, j, e.id, fmtT(e.ts), host, rr.ip)
		}
	}
	if ph.over = m0 + logged - memSize; ph.over < 0 {
		ph.over = 0
	}
	if ph.over > 0 {
		c.Probe("par_add_while_flush_pending")
	} else if m0+logged == memSize {
		c.Probe("par_last_add_fills_buffer")
	}
	if confTask != nil {
		m.conf.Enabled, m.conf.Interval, m.conf.Anonymize = ph.newConf.Enabled, ph.newConf.Interval, ph.newConf.Anonymize
		ign := confTask.Ign
		if ign == nil {
			ign = []string{}
		}
		m.setIgnored(ign)
	}
	// The stretches during which a flush had taken its batch out of memory and
	// not yet written it, from the process log.
	open := -1
	for _, l := range ph.logs {
		switch l.msg {
		case "serialized elements via json":
			open = l.at
		case "flushed to file":
			if open >= 0 {
				ph.flushes = append(ph.flushes, span{open, l.at})
				open = -1
			}
		}
	}
	if open >= 0 {
		ph.flushes = append(ph.flushes, span{open, ph.clock})
	}
	c.Probes["par_flushes_in_phase"] += len(ph.flushes)

	// ---- the files
	rotF, err := ph.readFile(true)
	if err != nil {
		return err
	}
	curF, err := ph.readFile(false)
	if err != nil {
		return err
	}
	final := span{ph.mark(), ph.mark()}
	var prev *pent
	for _, f := range []struct {
		name string
		l    []*pent
	}{{"querylog.json.1", rotF}, {"querylog.json", curF}} {
		for _, p := range f.l {
			if w, dup := ph.inFile[p]; dup {
				return kernel.Violationf("par-file-duplicate-entry", "after the concurrent phase entry %s is stored twice (%s and %s)", p, w, f.name)
			}
			ph.inFile[p] = f.name
			if prev != nil && prev.e.ts > p.e.ts {
				return kernel.Violationf("par-file-order", "after the concurrent phase entry %s is stored after the newer entry %s", p, prev)
			}
			prev = p
			if st, why := ph.status(p, final); st == stForb {
				return kernel.Violationf("par-file-holds-removed-entry", "after the concurrent phase entry %s is stored in %s although %s", p, f.name, why)
			}
		}
	}
	rotObs1 := n.Observe(true)
	if ph.clear == nil {
		rotated := rotObs1.Exists && (!rotObs0.Exists || rotObs1.Ino != rotObs0.Ino)
		if rotated && len(rotF) > 0 {
			headAge = time.Duration(phaseStart - rotF[0].e.ts)
		}
		switch {
		case rotated && !hasTick:
			return kernel.Violationf("rotation-outside-check", "querylog.json was renamed to querylog.json.1 during a concurrent phase without a rotation check")
		case rotated && (!ph.rotPossible || headAge < minIvl):
			return kernel.Violationf("rotation-too-early", "concurrent phase: the current file was rotated when its oldest entry was %s old, interval %s", headAge, minIvl)
		case !rotated && hasTick && len(m.cur) > 0 && age > maxIvl:
			return kernel.Violationf("rotation-overdue", "concurrent phase: the rotation check left the current file in place although its oldest entry is %s old, interval %s", age, maxIvl)
		case rotated:
			if !isPrefix(m.cur, rotF) {
				return kernel.Violationf("par-file-rewritten", "concurrent phase with a rotation: querylog.json.1 holds [%s], the current file held [%s] before", pents(rotF), ids(m.cur))
			}
			c.Probe("par_rotation")
			if len(rotF) > len(m.cur) {
				c.Probe("par_flush_then_rotation")
			}
			c.Eventf("  rotation in the phase (age %s)", headAge)
		default:
			if len(rotF) != len(m.rot) || !isPrefix(m.rot, rotF) {
				return kernel.Violationf("par-file-rewritten", "concurrent phase without rotation or clear: querylog.json.1 holds [%s], before the phase [%s]", pents(rotF), ids(m.rot))
			}
			if !isPrefix(m.cur, curF) {
				return kernel.Violationf("par-file-rewritten", "concurrent phase without rotation or clear: querylog.json holds [%s], before the phase [%s]", pents(curF), ids(m.cur))
			}
		}
	}

	// ---- the listings of the phase
	for i := range op.Par {
		t, tr := &op.Par[i], &res[i]
		if t.K != "list" {
			continue
		}
		what := fmt.Sprintf("listing of task %d (limit=%d offset=%d) concurrent with %s", i, t.Limit, t.Offset, strings.Join(names, ", "))
		got, lerr := ph.listing("par-listing-", what, tr.span, tr.resp.Data, t.Limit == 0, t.Limit)
		if lerr != nil {
			return lerr
		}
		c.Probe("par_listing_checked")
		c.Eventf("  task %d list: %d items", i, len(got))
	}

	// ---- the log after the phase
	resp, err := r.listAll()
	if err != nil {
		return err
	}
	l1, err := ph.listing("par-final-", "listing after the concurrent phase ("+strings.Join(names, ", ")+")", final, resp.Data, true, 0)
	if err != nil {
		return err
	}
	listed := map[*pent]bool{}
	for i, p := range l1 {
		listed[p] = true
		if err = r.fields(p.e, resp.Data[i]); err != nil {
			return err
		}
	}
	for _, f := range [][]*pent{rotF, curF} {
		for _, p := range f {
			if !listed[p] && !ph.ignoredUnder(m.ignored, p.e) {
				return kernel.Violationf("par-final-misses-entry", "after the concurrent phase entry %s is stored in %s but not returned", p, ph.inFile[p])
			}
		}
	}
	c.Eventf("  after the phase: %d listed, rotated file %d, current file %d, flushes %d, overwritable %d", len(l1), len(rotF), len(curF), len(ph.flushes), ph.over)

	// The log must work as before: MemSize+1 more entries, one by one.
	want := l1
	if m.conf.Enabled {
		var fill []*pent
		for i := 0; i <= memSize; i++ {
			time.Sleep(time.Nanosecond)
			c.SimTime += time.Nanosecond
			rec := &qlogsim.Rec{GapNs: 1, Host: "kid.b.test", QType: dns.TypeA, IP: "10.1.2.3", NoAns: true, ElapsedUs: 9_000_000 + int64(i)}
			s := ph.mark()
			ts, ip, ok, rerr := n.Record(rec)
			if rerr != nil {
				return rerr
			}
			if !ok {
				return kernel.Violationf("should-log-mismatch", "after the concurrent phase: ShouldLog(kid.b.test, %s) = false, but neither the name nor the client is ignored", ip)
			}
			e, eerr := r.newEnt(rec, ts, ip)
			if eerr != nil {
				return eerr
			}
			p := &pent{e: e, add: span{s, ph.mark()}, us: rec.ElapsedUs, may: true, sure: true, what: "recorded after the phase"}
			ph.addEnt(p)
			fill = append(fill, p)
		}
		for i := len(fill) - 1; i >= 0; i-- {
			want = append([]*pent{fill[i]}, want...)
		}
		if resp, err = r.listAll(); err != nil {
			return err
		}
		if err = ph.same("par-after-", fmt.Sprintf("listing after %d more entries were recorded one by one after the concurrent phase", len(fill)), resp.Data, want); err != nil {
			return err
		}
		c.Probe("par_log_works_after_phase")
	}
	switch op.After {
	case "flush":
		_ = n.Flush()
		kernel.Wait()
		if n.MemLen() != 0 {
			return kernel.Violationf("par-after-flush-left-entries", "a flush after the concurrent phase left %d entries in memory", n.MemLen())
		}
	case "restart":
		if serr := n.Shutdown(); serr != nil && n.MemLen() > 0 {
			return kernel.Violationf("shutdown-error", "Shutdown after the concurrent phase: %v", serr)
		}
		kernel.Wait()
		conf := n.PersistedConf()
		if conf.Enabled != m.conf.Enabled || conf.Interval != m.conf.Interval || conf.Anonymize != m.conf.Anonymize || strings.Join(conf.Ignored, ",") != strings.Join(m.conf.Ignored, ",") {
			return kernel.Violationf("config-not-persisted", "configuration handed to WriteDiskConfig %+v differs from the one set through the API %+v", conf, m.conf)
		}
		if oerr := n.Open(conf); oerr != nil {
			return oerr
		}
		c.Fault("clean_restart")
	}
	if op.After != "" {
		if resp, err = r.listAll(); err != nil {
			return err
		}
		if err = ph.same("par-after-", "listing after the concurrent phase and a "+op.After, resp.Data, want); err != nil {
			return err
		}
	}

	// Entries that share an instant are outside the assumption of the
	// sequential oracles: the history goes on from an empty log.
	code, body, derr := n.Mux.Do(http.MethodPost, "/control/querylog_clear", nil)
	if derr != nil {
		return apiErr(derr, "api-panic")
	}
	if code != http.StatusOK {
		return kernel.Violationf("api-status", "POST querylog_clear -> %d %s", code, body)
	}
	kernel.Wait()
	m.mem, m.cur, m.rot = nil, nil, nil
	m.curObs, m.rotObs = qlogsim.FileObs{}, qlogsim.FileObs{}
	m.lostBatch = false
	return r.observe("clear")
}

// same checks that data is exactly want (newest first; entries that share an
// instant in any order), except for entries that are ignored now.
func (ph *phase) same(prefix, what string, data []*qlogsim.Entry, want []*pent) error {
	seen := map[*pent]bool{}
	for i, g := range data {
		p := ph.identify(g.TS, entryUs(g))
		if p == nil {
			return kernel.Violationf(prefix+"unknown-entry", "%s: item %d carries time %s and elapsed time %s ms, which no recorded entry has", what, i, g.Time, g.ElapsedMs)
		}
		if i > 0 && data[i-1].TS < g.TS {
			return kernel.Violationf(prefix+"order", "%s: item %d (t=%s) is newer than item %d (t=%s)", what, i, fmtT(g.TS), i-1, fmtT(data[i-1].TS))
		}
		if seen[p] {
			return kernel.Violationf(prefix+"duplicate", "%s: entry %s is returned twice", what, p)
		}
		seen[p] = true
	}
	wanted := map[*pent]bool{}
	for _, p := range want {
		wanted[p] = true
		if !seen[p] && !ph.ignoredUnder(ph.r.m.ignored, p.e) {
			return kernel.Violationf(prefix+"misses-entry", "%s: entry %s is not returned (%d items, %d expected)", what, p, len(data), len(want))
		}
	}
	extra := make([]*pent, 0)
	for p := range seen {
		if !wanted[p] {
			extra = append(extra, p)
		}
	}
	if len(extra) > 0 {
		sort.Slice(extra, func(i, j int) bool { return extra[i].e.id < extra[j].e.id })
		return kernel.Violationf(prefix+"returns-removed-entry", "%s: entry %s is returned, which the listing right after the phase did not hold", what, extra[0])
	}
	return nil
}
