package c01

// Widened exploration: restarts on the configuration and data directory the
// system wrote itself, storage faults on list files, and rule changes
// concurrent with queries (seeded cooperative scheduler).
//
// The oracle for the states these operations create is phrased with
// *candidate configurations*.  Normally exactly one rule configuration is in
// force: the one the API accepted last (and the updates loop has handled).
// While the file of a list cannot be read it is open which configuration the
// system enforces — the statement says "rules in force", and an attempt to
// apply a configuration may fail as a whole, or succeed without the rules of
// the unreadable list — so the candidates are: the configuration in force
// when the fault was injected, every configuration accepted since, and each of
// these without the rules of the faulted list.  A query is judged only by what
// ALL candidates agree on (a name blocked under every candidate must be
// blocked: nothing about its rules is in doubt; a name blocked under none must
// be forwarded intact); where they disagree only coherence is asserted.  The
// doubt ends when a configuration that differs from the previous one has been
// applied with every file intact again (or the process restarted on intact
// files).  The same rule judges the queries of a concurrent phase: candidates
// are the configuration before and after the overlapped admin call.

import (
	"encoding/json"
	"fmt"
	"net/netip"
	"os"
	"path/filepath"
	"strings"
	"time"

	"github.com/AdguardTeam/AdGuardHome/internal/dnsforward"
	"github.com/AdguardTeam/AdGuardHome/internal/filtering"
	"github.com/AdguardTeam/AdGuardHome/verifsim/dnsnode"
	"github.com/AdguardTeam/AdGuardHome/verifsim/env"
	"github.com/AdguardTeam/AdGuardHome/verifsim/kernel"
	"github.com/AdguardTeam/AdGuardHome/verifsim/model"
	"github.com/AdguardTeam/AdGuardHome/verifsim/sched"
	"github.com/miekg/dns"
)

// conf is one rule configuration: the rule text of the enabled lists and the
// global filtering flag.
type conf struct {
	lists     model.RuleLists
	filtering bool
}

// key is a canonical text of the configuration's rule text (lists without
// rules do not count).
func (c conf) key() string {
	var b strings.Builder
	part := func(tag string, ls [][]string) {
		for _, l := range ls {
			if len(l) == 0 {
				continue
			}
			b.WriteString(tag)
			b.WriteString(strings.Join(l, "\n"))
			b.WriteString("\x00")
		}
	}
	part("U:", [][]string{c.lists.User})
	part("B:", c.lists.Block)
	part("A:", c.lists.Allow)
	return b.String()
}

type cand struct {
	conf
	eng *model.Engines
}

// conf returns the configuration the API accepted last.
func (s *state) conf() conf { return s.confWithout(nil) }

// confWithout is conf() without the rules of list x.
func (s *state) confWithout(x *mlist) conf {
	l := model.RuleLists{User: s.user}
	for _, b := range s.block {
		if b.enabled && b != x {
			l.Block = append(l.Block, b.rules)
		}
	}
	for _, a := range s.allow {
		if a.enabled && a != x {
			l.Allow = append(l.Allow, a.rules)
		}
	}
	return conf{lists: l, filtering: s.filtering}
}

func (s *state) closeCands() {
	for _, c := range s.cands {
		c.eng.Close()
	}
	s.cands = nil
}

// setCands makes cs the only candidates.
func (s *state) setCands(cs ...conf) error {
	s.closeCands()
	for _, c := range cs {
		if err := s.addCand(c); err != nil {
			return err
		}
	}
	return nil
}

// addCand adds c unless a candidate with the same rule text and flag exists.
func (s *state) addCand(c conf) error {
	k := c.key()
	for _, o := range s.cands {
		if o.filtering == c.filtering && o.key() == k {
			return nil
		}
	}
	eng, err := model.NewEngines(c.lists)
	if err != nil {
		return err
	}
	s.cands = append(s.cands, &cand{conf: c, eng: eng})
	return nil
}

// expect is what all candidates agree on.
func (s *state) expect(name string, qtype uint16, addr netip.Addr, now time.Time) expectation {
	var out expectation
	for i, c := range s.cands {
		e := s.expectOne(c, name, qtype, addr, now)
		switch {
		case i == 0:
			out = e
		case out.unspecified:
		case e.unspecified:
			out = e
		case e.blocked != out.blocked:
			out = expectation{unspecified: true, why: "configurations in doubt disagree: " + out.why + " / " + e.why}
		case e.blocked:
			// Blocked under both: in the default mode the address of either
			// hosts-style rule is acceptable.
			out.hostIPs = append(append([]netip.Addr(nil), out.hostIPs...), e.hostIPs...)
		}
	}
	return out
}

// addCurrent adds the accepted configuration (and, while the file of a list
// is unreadable, the same without that list's rules) to the candidates.
func (r *runner) addCurrent() error {
	if err := r.st.addCand(r.st.conf()); err != nil {
		return err
	}
	if r.fault != nil {
		return r.st.addCand(r.st.confWithout(r.fault.list))
	}
	return nil
}

// install is called when the updates loop has handled what the API accepted.
func (r *runner) install() error {
	cur := r.st.conf()
	changed := cur.key() != r.acceptedKey
	r.acceptedKey = cur.key()
	if r.window {
		if r.fault == nil && changed && r.lastChangeIntact {
			// A configuration different from the previous one has been applied
			// and every file was intact: it is in force.
			r.window = false
			r.c.Probe("doubt_window_closed")
			r.c.Eventf("storage doubt ends")
			return r.st.setCands(cur)
		}
		if err := r.addCurrent(); err != nil {
			return err
		}
		// The global flag is not subject to the fault: it is in force as
		// accepted.
		for _, c := range r.st.cands {
			c.filtering = r.st.filtering
		}
		return nil
	}
	return r.st.setCands(cur)
}

func addrPort(s string) netip.AddrPort { return netip.AddrPortFrom(netip.MustParseAddr(s), 40000) }

// ---- restart -------------------------------------------------------------------

// onModified is the node's ConfigModified callback: what home does there is
// collect the configuration from the components and write it to the file.
func (r *runner) onModified() {
	if r.n == nil || r.n.Filter == nil || r.n.Server == nil {
		return
	}
	r.snapshot()
}

func (r *runner) snapshot() {
	fc := &filtering.Config{}
	r.n.Filter.WriteDiskConfig(fc)
	dc := &dnsforward.Config{}
	r.n.Server.WriteDiskConfig(dc)
	r.snapF, r.snapD = fc, dc
}

// restart stops the node and starts a new one on the configuration file and
// the data directory of the old one.
func (r *runner) restart() error {
	if r.snapF == nil {
		// Nothing was modified since the start: the file holds the
		// configuration of the start, which is what the components report.
		r.snapshot()
	}
	fc, dc := *r.snapF, *r.snapD
	added := 0
	for _, ls := range [][]*mlist{r.st.block, r.st.allow} {
		for _, l := range ls {
			if l.id >= 30 {
				added++
			}
		}
	}
	r.n.Close()
	kernel.Wait()
	cfg := r.base()
	cfg.Filtering = fc
	cfg.PersistedBlock, cfg.PersistedAllow = fc.Filters, fc.WhitelistFilters
	cfg.DNS = dc
	r.n = nil
	n, err := dnsnode.New(cfg)
	if err != nil {
		return fmt.Errorf("harness: restart: %w", err)
	}
	r.n = n
	kernel.Wait()
	r.held = 0
	r.acceptedKey = r.st.conf().key()
	// The DNS cache is gone.
	r.st.cached = map[string]map[string]bool{}
	r.c.Fault("restart")
	if added > 0 {
		r.c.Probe("restart_with_added_lists")
	}
	r.c.Eventf("restart: %d block, %d allow lists persisted", len(fc.Filters), len(fc.WhitelistFilters))
	if r.fault != nil {
		// The new process has applied the persisted configuration, the same
		// without the unreadable list, or nothing at all.
		r.c.Probe("restart_under_fault")
		if err = r.st.setCands(conf{filtering: r.st.filtering}); err != nil {
			return err
		}
		return r.addCurrent()
	}
	if r.window {
		r.window = false
		r.c.Probe("doubt_window_closed")
		r.c.Eventf("storage doubt ends")
	}
	return r.st.setCands(r.st.conf())
}

// ---- storage faults on list files ---------------------------------------------

type listFault struct {
	list   *mlist
	how    string
	path   string
	backup string
}

// listPath asks the API for the id of the list and returns its file.
func (r *runner) listPath(l *mlist, allow bool) (string, error) {
	code, body, err := r.n.Mux.Do("GET", "/control/filtering/status", nil)
	if err != nil || code != 200 {
		return "", fmt.Errorf("harness: filtering/status: %d %v", code, err)
	}
	type entry struct {
		URL string `json:"url"`
		ID  int64  `json:"id"`
	}
	var st struct {
		Filters          []entry `json:"filters"`
		WhitelistFilters []entry `json:"whitelist_filters"`
	}
	if err = json.Unmarshal(body, &st); err != nil {
		return "", err
	}
	fs := st.Filters
	if allow {
		fs = st.WhitelistFilters
	}
	for _, f := range fs {
		if f.URL == l.url {
			return filepath.Join(r.dir, "filters", fmt.Sprintf("%d.txt", f.ID)), nil
		}
	}
	return "", fmt.Errorf("harness: list %s is not reported by filtering/status: %s", l.url, body)
}

// injectFault replaces the file of one list by something that cannot be read
// as a file; the file itself is kept aside (a transient fault: heal puts it
// back).
func (r *runner) injectFault(op Op) error {
	if r.fault != nil {
		r.c.Probe("op_skipped_fault_active")
		return nil
	}
	ls := r.lists(op.Allow)
	if int(op.ID) >= len(*ls) {
		r.c.Probe("op_skipped_no_list")
		return nil
	}
	l := (*ls)[op.ID]
	p, err := r.listPath(l, op.Allow)
	if err != nil {
		return err
	}
	fi, err := os.Lstat(p)
	if err != nil || !fi.Mode().IsRegular() {
		// (A list that was never downloaded has no file.)
		r.c.Probe("op_skipped_no_file")
		return nil
	}
	f := &listFault{list: l, how: op.How, path: p, backup: filepath.Join(r.dir, "list-file-kept-aside")}
	if err = os.Rename(p, f.backup); err != nil {
		return err
	}
	switch op.How {
	case "loop":
		err = os.Symlink(p, p)
	case "dir":
		err = os.Mkdir(p, 0o755)
	case "dangling":
		err = os.Symlink(filepath.Join(r.dir, "no-such-file"), p)
	default:
		err = fmt.Errorf("harness: unknown fault %q", op.How)
	}
	if err != nil {
		return err
	}
	r.fault, r.window = f, true
	r.c.Fault("list_file_fault")
	if l.enabled {
		r.c.Probe("fault_on_enabled_list")
	}
	r.c.Eventf("list file fault %s on allow=%v #%d enabled=%v", op.How, op.Allow, op.ID, l.enabled)
	return nil
}

// faultOverwritten reports whether a regular file has taken the place of the
// faulty object (a fresh download was renamed over it).
func (r *runner) faultOverwritten() bool {
	fi, err := os.Lstat(r.fault.path)
	return err == nil && fi.Mode().IsRegular()
}

// observeFault notices that the system has replaced the faulty object itself.
func (r *runner) observeFault() {
	if r.fault != nil && r.faultOverwritten() {
		r.c.Probe("fault_overwritten")
		r.dropFault("file replaced by a download")
	}
}

func (r *runner) dropFault(why string) {
	_ = os.RemoveAll(r.fault.backup)
	_ = os.RemoveAll(r.fault.path + ".old")
	if !r.faultOverwritten() {
		_ = os.RemoveAll(r.fault.path)
	}
	r.c.Eventf("list file fault gone: %s", why)
	r.fault = nil
}

// heal ends the fault: the file is back as it was.
func (r *runner) heal() error {
	if r.fault == nil {
		r.c.Probe("op_skipped_no_fault")
		return nil
	}
	if r.faultOverwritten() {
		r.observeFault()
		return nil
	}
	if err := os.RemoveAll(r.fault.path); err != nil {
		return err
	}
	if err := os.Rename(r.fault.backup, r.fault.path); err != nil {
		return err
	}
	r.c.Probe("fault_healed")
	r.c.Eventf("list file fault healed")
	r.fault = nil
	return nil
}

// ---- concurrent phase ------------------------------------------------------------

// par runs a rule-changing admin call, the body of the updates loop and some
// queries as concurrent tasks.
func (r *runner) par(op Op) error {
	if !r.sc.DelayedLoop || len(op.Sub) < 2 {
		r.c.Probe("op_skipped_no_scheduler")
		return nil
	}
	adminOp, qs := op.Sub[0], op.Sub[1:]
	type flight struct {
		op  Op
		p   *dnsnode.Prepared
		rep *dnsnode.Reply
	}
	fl := make([]*flight, len(qs))
	for i, q := range qs {
		p, err := r.n.Prepare(&dnsnode.Query{Proto: q.Proto, Addr: addrPort(q.Addr), Name: q.Name, Qtype: q.Qtype})
		if err != nil {
			return err
		}
		fl[i] = &flight{op: q, p: p}
	}
	names := []string{"admin:" + adminOp.Kind}
	var adminErr error
	var skipped bool
	fns := []func(){func() { skipped, adminErr = r.admin(adminOp) }}
	// The updates loop: it handles requests as they arrive, as long as the
	// admin call runs (its own goroutine blocks on the request channel; as a
	// cooperative task it polls between scheduling points).
	adminDone := false
	fns[0] = func() {
		defer func() { adminDone = true }()
		skipped, adminErr = r.admin(adminOp)
	}
	names = append(names, "updates_loop")
	fns = append(fns, func() {
		for {
			done := adminDone
			r.n.Filter.VerifDrainInitializer()
			if done {
				return
			}
			sched.Yield()
		}
	})
	for _, f := range fl {
		names = append(names, "query")
		fns = append(fns, func() { f.rep = r.n.Handle(f.p) })
	}
	r.next = env.UpOK
	upStart := r.up.Len()
	now := time.Now()
	lat := r.up.Latency
	r.up.Latency, r.up.OnExchange = 0, func() { sched.Yield() }
	res := sched.Run(op.Seed, op.Pct, names, fns)
	r.up.Latency, r.up.OnExchange = lat, nil
	r.c.Probes["sched_steps"] += res.Steps
	r.c.Probes["sched_switches"] += res.Switches
	if res.Deadlock != "" {
		r.abandon = true
		return kernel.Violationf("deadlock: "+res.Deadlock, "%s concurrent with %d queries, schedule seed %d: every task waits for a lock:\n%s", adminOp.Kind, len(fl), op.Seed, res.Detail)
	}
	if adminErr != nil {
		return adminErr
	}
	r.n.Filter.VerifDrainInitializer()
	kernel.Wait()
	r.observeFault()
	r.c.Fault("concurrent_rule_change")
	r.c.Eventf("par %s skipped=%v with %d queries (steps %d)", adminOp.Kind, skipped, len(fl), res.Steps)
	// Each query is judged by what the configuration before and the one after
	// the admin call (and whatever else is in doubt) agree on.
	if err := r.addCurrent(); err != nil {
		return err
	}
	// The global flag takes effect at once, also on rule sets whose
	// replacement could not be applied (a list file is unreadable): every
	// candidate rule set may be in force with the flag as it is now.
	for _, c := range append([]*cand(nil), r.st.cands...) {
		if err := r.st.addCand(conf{lists: c.lists, filtering: r.st.filtering}); err != nil {
			return err
		}
	}
	exch := r.up.Since(upStart)
	used := make([]bool, len(exch))
	for _, f := range fl {
		for j, e := range exch {
			if strings.EqualFold(e.Name, dns.Fqdn(f.op.Name)) {
				f.rep.Exchanges = append(f.rep.Exchanges, e)
				used[j] = true
			}
		}
	}
	for j, e := range exch {
		if !used[j] {
			return kernel.Violationf("forwarded-other-question", "concurrent phase: upstream was asked %s %s, which no client asked", e.Name, dns.Type(e.Qtype))
		}
	}
	for _, f := range fl {
		ex := r.st.expect(f.op.Name, f.op.Qtype, addrPort(f.op.Addr).Addr(), now)
		r.c.Probe("par_query")
		if ex.blocked {
			r.c.Probe("par_query_must_be_blocked")
		}
		if err := r.judge(f.op, f.rep, ex); err != nil {
			if v, ok := err.(*kernel.Violation); ok {
				v.Msg = fmt.Sprintf("query concurrent with %s (schedule seed %d pct %d): %s", adminOp.Kind, op.Seed, op.Pct, v.Msg)
			}
			return err
		}
	}
	if skipped || !ruleChanging(adminOp.Kind) {
		return nil
	}
	if err := r.install(); err != nil {
		return err
	}
	r.c.Fault("live_rule_change")
	return nil
}
