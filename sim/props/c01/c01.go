// Package c01 decides property C01 (a query blocked by rules is answered
// locally and never forwarded upstream; everything else is forwarded intact;
// protection off / client filtering off exempt) by deterministic simulation:
// the real filtering + dnsforward + dnsproxy request path in a synctest
// bubble, a simulated upstream resolver that logs every question it is sent, a
// simulated list server, and seeded histories that mix queries with live
// reconfiguration through the real admin handlers and with clock advances
// (protection pause deadline, blocked-services schedule).
package c01

import (
	"encoding/json"
	"fmt"
	"net/http"
	"net/netip"
	"os"
	"sort"
	"strings"
	"testing"
	"time"

	"github.com/AdguardTeam/AdGuardHome/internal/client"
	"github.com/AdguardTeam/AdGuardHome/internal/dnsforward"
	"github.com/AdguardTeam/AdGuardHome/internal/filtering"
	"github.com/AdguardTeam/AdGuardHome/internal/schedule"
	"github.com/AdguardTeam/AdGuardHome/verifsim/dnsnode"
	"github.com/AdguardTeam/AdGuardHome/verifsim/env"
	"github.com/AdguardTeam/AdGuardHome/verifsim/kernel"
	"github.com/AdguardTeam/AdGuardHome/verifsim/model"
	"github.com/AdguardTeam/AdGuardHome/verifsim/sched"
	"github.com/AdguardTeam/urlfilter/rules"
	"github.com/miekg/dns"
	"pgregory.net/rapid"
)

// List is one filter list of the scenario.
type List struct {
	ID      int64    `json:"id"`
	Enabled bool     `json:"enabled"`
	Rules   []string `json:"rules"`
}

// Client is one persistent client.
type Client struct {
	Name           string   `json:"name"`
	IP             string   `json:"ip"`
	OwnSettings    bool     `json:"own_settings"`
	Filtering      bool     `json:"filtering"`
	OwnServices    bool     `json:"own_services"`
	Services       []string `json:"services,omitempty"`
	ServicesPaused bool     `json:"services_paused,omitempty"`
}

// Day is a pause range of one weekday, in minutes.
type Day struct {
	Start int `json:"s"`
	End   int `json:"e"`
}

// Op is one generated operation.
type Op struct {
	Kind string `json:"k"`
	// query
	Name  string `json:"name,omitempty"`
	Qtype uint16 `json:"qt,omitempty"`
	Addr  string `json:"addr,omitempty"`
	Proto string `json:"proto,omitempty"`
	Fault string `json:"fault,omitempty"`
	// set_rules / refresh content / add list
	Rules []string `json:"rules,omitempty"`
	ID    int64    `json:"id,omitempty"`
	Allow bool     `json:"allow,omitempty"`
	On    bool     `json:"on,omitempty"`
	// mode
	Mode string `json:"mode,omitempty"`
	V4   string `json:"v4,omitempty"`
	V6   string `json:"v6,omitempty"`
	TTL  uint32 `json:"ttl,omitempty"`
	// protection / advance
	Ms int64 `json:"ms,omitempty"`
	// services
	Services []string `json:"svc,omitempty"`
	Week     *[7]Day  `json:"week,omitempty"`
	// Hold (rule-changing admin operations, scenarios with DelayedLoop only):
	// the filtering module's updates loop does not get to run after this
	// operation; it runs when the next operation that is not held has been
	// issued (or before the next query / clock advance), so the requests of
	// several admin calls reach the module back to back.
	Hold bool `json:"hold,omitempty"`
	// list_fault: what takes the place of the list's file in the data
	// directory ("loop": a symbolic link to itself, "dir": a directory,
	// "dangling": a symbolic link to nowhere).
	How string `json:"how,omitempty"`
	// par (scenarios with DelayedLoop only): Sub[0] is a rule-changing admin
	// operation, Sub[1:] are queries; they and the body of the updates loop run
	// as concurrent tasks under the cooperative scheduler seeded with Seed,
	// which preempts with probability Pct percent at lock boundaries.
	Seed uint64 `json:"seed,omitempty"`
	Pct  int    `json:"pct,omitempty"`
	Sub  []Op   `json:"sub,omitempty"`
}

// Scenario is one case.
type Scenario struct {
	Mode         string   `json:"mode"`
	V4           string   `json:"v4"`
	V6           string   `json:"v6"`
	TTL          uint32   `json:"ttl"`
	Protection   bool     `json:"protection"`
	Filtering    bool     `json:"filtering"`
	CacheSize    uint32   `json:"cache_size"`
	AAAADisabled bool     `json:"aaaa_disabled"`
	User         []string `json:"user_rules"`
	Block        []List   `json:"block_lists"`
	Allow        []List   `json:"allow_lists"`
	Services     []string `json:"services"`
	Week         [7]Day   `json:"week"`
	Clients      []Client `json:"clients"`
	StartMin     int      `json:"start_min"`
	// DelayedLoop: the body of the filtering module's updates loop is run by
	// the harness (a scheduling choice: the loop goroutine is slow to be
	// scheduled) instead of by its own goroutine, which makes "several admin
	// calls arrive before the loop has handled the first" exactly repeatable.
	DelayedLoop bool `json:"delayed_loop,omitempty"`
	Ops         []Op `json:"ops"`
}

var (
	ruleDomains = []string{"ads.test", "a.test", "b.a.test", "c.b.a.test", "x.example", "ads.x.example", "a.x.example", "test", "b.test", "example"}
	queryNames  = []string{"ads.test", "a.test", "b.a.test", "c.b.a.test", "x.example", "ads.x.example", "a.x.example", "b.test", "sub.ads.test", "z.b.a.test", "deep.sub.ads.x.example", "test", "other.example", "4chan.org", "boards.4chan.org", "9gag.com", "img.9cache.com", "4chan.test", "notads.test", "xads.test"}
	addrs       = []string{"192.0.2.1", "192.0.2.2", "2001:db8:1::1", "10.0.0.5"}
	protos      = []string{"udp", "udp", "tcp", "tls", "https", "quic", "dnscrypt"}
	qtypes      = []uint16{dns.TypeA, dns.TypeA, dns.TypeAAAA, dns.TypeAAAA, dns.TypeHTTPS, dns.TypeTXT, dns.TypeMX, dns.TypeCNAME, dns.TypePTR}
	modes       = []string{"default", "null_ip", "custom_ip", "nxdomain", "refused"}
	hostIPs     = []string{"0.0.0.0", "198.18.0.1", "198.18.0.2", "::", "fd00::1", "127.0.0.1"}
	services    = []string{"4chan", "9gag"}
	clientNames = []string{"kid", "tv"}
)

func genRule(t *rapid.T, allowList bool) string {
	d := rapid.SampledFrom(ruleDomains).Draw(t, "rule_domain")
	if allowList {
		return rapid.SampledFrom([]string{"||" + d + "^", "|" + d + "^", "*." + d, "@@||" + d + "^"}).Draw(t, "allow_form")
	}
	switch rapid.IntRange(0, 17).Draw(t, "rule_form") {
	case 0, 1, 2:
		return "||" + d + "^"
	case 3:
		return "|" + d + "^"
	case 4:
		return "*." + d
	case 5, 6:
		return "@@||" + d + "^"
	case 7:
		return "||" + d + "^$important"
	case 8:
		return "@@||" + d + "^$important"
	case 9:
		return "||" + d + "^$dnstype=" + rapid.SampledFrom([]string{"A", "AAAA", "~A", "A|AAAA", "HTTPS", "~TXT"}).Draw(t, "dnstype")
	case 10:
		return "||" + d + "^$client=" + rapid.SampledFrom([]string{"192.0.2.1", "~192.0.2.1", "'kid'", "~'kid'", "2001:db8:1::1", "192.0.2.0/24"}).Draw(t, "client_mod")
	case 11:
		return "||" + d + "^$denyallow=" + rapid.SampledFrom(ruleDomains).Draw(t, "denyallow")
	case 12, 13:
		return rapid.SampledFrom(hostIPs).Draw(t, "host_ip") + " " + d
	case 14:
		return rapid.SampledFrom(hostIPs).Draw(t, "host_ip") + " " + d + " " + rapid.SampledFrom(ruleDomains).Draw(t, "host_second")
	case 15:
		return "@@|" + d + "^"
	case 16:
		return "! comment " + d
	default:
		return "||" + d + "^$dnstype=~AAAA,important"
	}
}

func genRules(t *rapid.T, allowList bool, max int) []string {
	n := rapid.IntRange(0, max).Draw(t, "n_rules")
	out := make([]string, 0, n)
	for i := 0; i < n; i++ {
		out = append(out, genRule(t, allowList))
	}
	return out
}

func genWeek(t *rapid.T) (w [7]Day) {
	switch rapid.IntRange(0, 3).Draw(t, "week_kind") {
	case 0:
		return w // never paused
	case 1:
		for i := range w {
			w[i] = Day{0, 1440}
		}
		return w
	}
	for i := range w {
		if rapid.IntRange(0, 2).Draw(t, "day_has") == 0 {
			continue
		}
		s := rapid.IntRange(0, 1439).Draw(t, "day_start")
		e := rapid.IntRange(s+1, 1440).Draw(t, "day_end")
		w[i] = Day{s, e}
	}
	return w
}

func genMode(t *rapid.T, op *Op) {
	op.Mode = rapid.SampledFrom(modes).Draw(t, "mode")
	op.V4 = rapid.SampledFrom([]string{"198.18.9.9", "0.0.0.1", "127.0.0.1"}).Draw(t, "block_v4")
	op.V6 = rapid.SampledFrom([]string{"fd00::9", "::1"}).Draw(t, "block_v6")
	op.TTL = uint32(rapid.SampledFrom([]int{10, 0, 3600, 1}).Draw(t, "block_ttl"))
}

func flipCase(t *rapid.T, s string) string {
	if rapid.IntRange(0, 2).Draw(t, "flip") != 0 {
		return s
	}
	b := []byte(s)
	for i := range b {
		if b[i] >= 'a' && b[i] <= 'z' && rapid.Bool().Draw(t, "up") {
			b[i] -= 32
		}
	}
	return string(b)
}

// genRuleOp draws one operation of the family that makes the filtering module
// rebuild its matching engines: every admin endpoint that does so.
func genRuleOp(t *rapid.T, nextID *int64) (op Op) {
	switch rapid.IntRange(0, 9).Draw(t, "rule_op") {
	case 0, 1, 2:
		op = Op{Kind: "set_rules", Rules: genRules(t, false, 5)}
	case 3, 4:
		op = Op{Kind: "list_toggle", Allow: rapid.IntRange(0, 2).Draw(t, "tg_allow") == 0, ID: int64(rapid.IntRange(0, 2).Draw(t, "tg_idx")), On: rapid.Bool().Draw(t, "tg_on")}
	case 5:
		op = Op{Kind: "list_refresh", Allow: rapid.IntRange(0, 2).Draw(t, "rf_allow") == 0, ID: int64(rapid.IntRange(0, 2).Draw(t, "rf_idx"))}
		op.Rules = genRules(t, op.Allow, 5)
	case 6, 7:
		op = Op{Kind: "list_add", Allow: rapid.IntRange(0, 2).Draw(t, "add_allow") == 0, ID: *nextID}
		op.Rules = append([]string{"||" + rapid.SampledFrom(ruleDomains).Draw(t, "add_first") + "^"}, genRules(t, op.Allow, 4)...)
		*nextID++
	case 8:
		op = Op{Kind: "list_remove", Allow: rapid.IntRange(0, 2).Draw(t, "rm_allow") == 0, ID: int64(rapid.IntRange(0, 2).Draw(t, "rm_idx"))}
	default:
		op = Op{Kind: "filtering", On: rapid.IntRange(0, 3).Draw(t, "flt_on") != 0}
	}
	return op
}

func genQuery(t *rapid.T) Op {
	return Op{Kind: "query",
		Name:  flipCase(t, rapid.SampledFrom(queryNames).Draw(t, "qname")),
		Qtype: rapid.SampledFrom(qtypes).Draw(t, "qtype"),
		Addr:  rapid.SampledFrom(addrs).Draw(t, "addr"),
		Proto: rapid.SampledFrom(protos).Draw(t, "proto"),
	}
}

// Gen draws a scenario.
func Gen(t *rapid.T, tier string) any {
	sc := &Scenario{}
	var m Op
	genMode(t, &m)
	sc.Mode, sc.V4, sc.V6, sc.TTL = m.Mode, m.V4, m.V6, m.TTL
	sc.Protection = rapid.IntRange(0, 7).Draw(t, "protection") != 0
	sc.Filtering = rapid.IntRange(0, 7).Draw(t, "filtering") != 0
	sc.CacheSize = uint32(rapid.SampledFrom([]int{0, 0, 4096, 1 << 20}).Draw(t, "cache"))
	sc.AAAADisabled = rapid.IntRange(0, 5).Draw(t, "aaaa_disabled") == 0
	sc.User = genRules(t, false, 5)
	for i, n := 0, rapid.IntRange(0, 2).Draw(t, "n_block"); i < n; i++ {
		sc.Block = append(sc.Block, List{ID: int64(10 + i), Enabled: rapid.IntRange(0, 4).Draw(t, "bl_on") != 0, Rules: genRules(t, false, 5)})
	}
	if rapid.IntRange(0, 1).Draw(t, "has_allow") == 1 {
		sc.Allow = append(sc.Allow, List{ID: 20, Enabled: rapid.IntRange(0, 4).Draw(t, "al_on") != 0, Rules: genRules(t, true, 3)})
	}
	// The lists of the start are what an earlier run left in the configuration:
	// their ids follow the order in which they were once added, block and allow
	// lists interleaved in any way.
	if nl := len(sc.Block) + len(sc.Allow); nl > 1 {
		pos := make([]int, nl)
		for i := range pos {
			pos[i] = i
		}
		pos = rapid.Permutation(pos).Draw(t, "id_order")
		for i := range sc.Block {
			sc.Block[i].ID = int64(10 + pos[i])
		}
		for i := range sc.Allow {
			sc.Allow[i].ID = int64(10 + pos[len(sc.Block)+i])
		}
	}
	if rapid.IntRange(0, 1).Draw(t, "has_services") == 1 {
		sc.Services = rapid.SliceOfNDistinct(rapid.SampledFrom(services), 1, 2, rapid.ID[string]).Draw(t, "services")
		sc.Week = genWeek(t)
	}
	for i, n := 0, rapid.IntRange(0, 2).Draw(t, "n_clients"); i < n; i++ {
		c := Client{Name: clientNames[i], IP: addrs[i],
			OwnSettings: rapid.Bool().Draw(t, "own"), Filtering: rapid.Bool().Draw(t, "cl_filtering"),
			OwnServices: rapid.Bool().Draw(t, "own_svc")}
		if c.OwnServices {
			c.Services = rapid.SliceOfNDistinct(rapid.SampledFrom(services), 0, 2, rapid.ID[string]).Draw(t, "cl_services")
			c.ServicesPaused = rapid.IntRange(0, 3).Draw(t, "cl_paused") == 0
		}
		sc.Clients = append(sc.Clients, c)
	}
	sc.StartMin = rapid.IntRange(0, 7*1440-1).Draw(t, "start_min")
	sc.DelayedLoop = rapid.Bool().Draw(t, "delayed_loop")
	maxOps := 30
	if tier == "thorough" {
		maxOps = 70
	}
	nextID := int64(30)
	faulty := false
	for i, n := 0, rapid.IntRange(4, maxOps).Draw(t, "n_ops"); i < n; i++ {
		var op Op
		switch k := rapid.IntRange(0, 99).Draw(t, "kind"); {
		case k < 50 || (k >= 97 && !sc.DelayedLoop):
			op = genQuery(t)
			if rapid.IntRange(0, 9).Draw(t, "fault") == 0 {
				op.Fault = rapid.SampledFrom([]string{"upstream_error", "upstream_timeout", "upstream_servfail", "upstream_slow"}).Draw(t, "fault_kind")
			}
		case k < 54:
			// A burst: several rule-changing admin calls back to back, the
			// updates loop not running in between (held operations).
			for j, m := 0, rapid.IntRange(2, 4).Draw(t, "burst_len"); j < m; j++ {
				b := genRuleOp(t, &nextID)
				b.Hold = true
				sc.Ops = append(sc.Ops, b)
			}
			continue
		case k < 60:
			op = Op{Kind: "set_rules", Rules: genRules(t, false, 5)}
		case k < 64:
			op = Op{Kind: "list_toggle", Allow: rapid.IntRange(0, 2).Draw(t, "tg_allow") == 0, ID: int64(rapid.IntRange(0, 2).Draw(t, "tg_idx")), On: rapid.Bool().Draw(t, "tg_on")}
		case k < 68:
			op = Op{Kind: "list_refresh", Allow: rapid.IntRange(0, 2).Draw(t, "rf_allow") == 0, ID: int64(rapid.IntRange(0, 2).Draw(t, "rf_idx"))}
			op.Rules = genRules(t, op.Allow, 5)
		case k < 72:
			op = Op{Kind: "list_add", Allow: rapid.IntRange(0, 2).Draw(t, "add_allow") == 0, ID: nextID}
			// An added list must contain at least one rule (the API rejects a
			// list without rules, which is not this property's subject).
			op.Rules = append([]string{"||" + rapid.SampledFrom(ruleDomains).Draw(t, "add_first") + "^"}, genRules(t, op.Allow, 4)...)
			nextID++
		case k < 74:
			op = Op{Kind: "list_remove", Allow: rapid.IntRange(0, 2).Draw(t, "rm_allow") == 0, ID: int64(rapid.IntRange(0, 2).Draw(t, "rm_idx"))}
		case k < 77:
			op = Op{Kind: "mode"}
			genMode(t, &op)
		case k < 80:
			op = Op{Kind: "protection", On: rapid.Bool().Draw(t, "prot_on")}
			if !op.On && rapid.Bool().Draw(t, "prot_timed") {
				op.Ms = int64(rapid.SampledFrom([]int{1000, 30_000, 600_000}).Draw(t, "prot_ms"))
			}
		case k < 85:
			op = Op{Kind: "advance", Ms: int64(rapid.SampledFrom([]int{1, 999, 1000, 29_000, 31_000, 600_000, 3_600_000, 86_400_000}).Draw(t, "adv_ms"))}
		case k < 87:
			op = Op{Kind: "filtering", On: rapid.Bool().Draw(t, "flt_on")}
		case k < 89:
			op = Op{Kind: "services", Services: rapid.SliceOfNDistinct(rapid.SampledFrom(services), 0, 2, rapid.ID[string]).Draw(t, "new_services")}
			w := genWeek(t)
			op.Week = &w
		case k < 92:
			// The process is stopped and started again on the configuration
			// and the data directory it has written itself.
			op = Op{Kind: "restart"}
		case k < 97:
			// A storage fault on the file of one list in the data directory, and
			// its end.  (The generator follows whether it has drawn a fault so
			// that a heal is not wasted; it does not know whether the list
			// exists.)
			if faulty && rapid.IntRange(0, 2).Draw(t, "lf_heal") != 0 {
				op = Op{Kind: "list_heal"}
				faulty = false
				break
			}
			op = Op{Kind: "list_fault", Allow: rapid.IntRange(0, 2).Draw(t, "lf_allow") == 0, ID: int64(rapid.IntRange(0, 2).Draw(t, "lf_idx")),
				How: rapid.SampledFrom([]string{"loop", "loop", "dir", "dangling"}).Draw(t, "lf_how")}
			faulty = true
		default:
			// A rule-changing admin call (any endpoint of the family), the
			// updates loop and queries, concurrently.
			op = Op{Kind: "par", Seed: rapid.Uint64().Draw(t, "par_seed"), Pct: rapid.SampledFrom([]int{10, 20, 50, 80}).Draw(t, "par_pct")}
			op.Sub = append(op.Sub, genRuleOp(t, &nextID))
			for _, name := range rapid.SliceOfNDistinct(rapid.SampledFrom(queryNames), 1, 4, rapid.ID[string]).Draw(t, "par_names") {
				q := genQuery(t)
				q.Name = flipCase(t, name)
				op.Sub = append(op.Sub, q)
			}
		}
		if ruleChanging(op.Kind) {
			op.Hold = rapid.IntRange(0, 4).Draw(t, "hold") == 0
		}
		sc.Ops = append(sc.Ops, op)
	}
	return sc
}

// ---- reference model state --------------------------------------------------

type mlist struct {
	id      int64
	url     string
	enabled bool
	rules   []string
}

type state struct {
	mode       string
	v4, v6     netip.Addr
	ttl        uint32
	protection bool
	pausedTill time.Time // zero: no deadline
	filtering  bool
	user       []string
	block      []*mlist
	allow      []*mlist
	services   []string
	week       [7]Day
	clients    map[string]Client // by IP
	// cands are the rule configurations one of which is in force: exactly one
	// (the configuration last accepted) except while a storage fault on a list
	// file leaves it open which of the configurations applied since is (see
	// c01_wide.go).
	cands    []*cand
	svcRules map[string][]*rules.NetworkRule
	cached   map[string]map[string]bool // name|qtype -> kinds of upstream replies seen before ("ok", "servfail"): the cache may serve them again
	cacheOn  bool
	aaaaOff  bool
	unspec   int
}

func paused(w [7]Day, now time.Time) bool {
	// The node runs with TZ=UTC schedules in this property (time zones and DST
	// are C18's subject).
	now = now.UTC()
	d := w[now.Weekday()]
	m := now.Hour()*60 + now.Minute()
	return d.Start <= m && m < d.End && d.End > d.Start
}

type expectation struct {
	blocked     bool
	unspecified bool // statement leaves it open: only coherence is asserted
	why         string
	hostIPs     []netip.Addr
}

func (s *state) expectOne(cd *cand, name string, qtype uint16, addr netip.Addr, now time.Time) expectation {
	host := strings.ToLower(strings.TrimSuffix(name, "."))
	prot := s.protection
	if !s.pausedTill.IsZero() {
		prot = !now.Before(s.pausedTill)
	}
	if !prot {
		return expectation{why: "protection off"}
	}
	cl, isClient := s.clients[addr.String()]
	filt := cd.filtering
	clientName := ""
	if isClient {
		clientName = cl.Name
		if cl.OwnSettings {
			filt = cl.Filtering
		}
	}
	svc, svcPaused := s.services, paused(s.week, now)
	if isClient && cl.OwnServices {
		svc, svcPaused = cl.Services, cl.ServicesPaused
	}
	svcHit := false
	if !svcPaused {
		for _, id := range svc {
			if model.ServiceMatch(s.svcRules[id], host) {
				svcHit = true
			}
		}
	}
	if !filt {
		if svcHit {
			// Rule lists do not apply; whether blocked services still do is
			// not fixed by the statement.
			return expectation{unspecified: true, why: "filtering off, blocked service matches"}
		}
		return expectation{why: "filtering off"}
	}
	m := cd.eng.Check(host, qtype, addr, clientName)
	switch m.Verdict {
	case model.Allowed:
		return expectation{why: "allow rule " + m.Rule}
	case model.Blocked:
		return expectation{blocked: true, why: "rule " + m.Rule, hostIPs: m.HostIPs}
	}
	if svcHit {
		return expectation{blocked: true, why: "blocked service"}
	}
	return expectation{why: "no match"}
}

// ---- run ---------------------------------------------------------------------

type runner struct {
	sc   *Scenario
	c    *kernel.Ctx
	n    *dnsnode.Node
	ls   *env.ListServer
	up   *env.Upstream
	st   *state
	next env.UpstreamFault
	// held is the number of rule-changing admin calls issued since the
	// updates loop last ran (DelayedLoop scenarios).
	held int

	dir string
	// base builds the node configuration of a start (fresh client objects).
	base func() *dnsnode.Config
	// snapF / snapD are what the configuration file holds: written whenever a
	// component reports a modification, as home does.
	snapF *filtering.Config
	snapD *dnsforward.Config
	// fault is the active storage fault, window is set from its injection until
	// a configuration is known to have been applied again with all files
	// intact.
	fault  *listFault
	window bool
	// lastChangeIntact: the latest rule-changing admin call was made while no
	// list file was faulty.
	lastChangeIntact bool
	// acceptedKey is the rule text of the configuration handled last.
	acceptedKey string
	// abandon: a concurrent phase ended in a deadlock; the parked tasks hold the
	// node's locks.
	abandon bool
}

// ruleChanging says whether an operation of this kind makes the filtering
// module rebuild its matching engines.
func ruleChanging(kind string) bool {
	switch kind {
	case "set_rules", "list_toggle", "list_refresh", "list_add", "list_remove", "filtering":
		return true
	}
	return false
}

// settle lets the updates loop run (DelayedLoop scenarios: its body is run
// here), waits for quiescence and brings the reference model to the last
// accepted configuration: this is the rule set every later query is judged by.
func (r *runner) settle() error {
	if r.sc.DelayedLoop {
		n := r.n.Filter.VerifDrainInitializer()
		if r.held > 1 {
			r.c.Fault("updates_loop_delayed")
			r.c.Probe("burst_settled")
			r.c.Eventf("updates loop runs after %d admin calls: %d request(s) handled", r.held, n)
		}
	}
	r.held = 0
	kernel.Wait()
	if err := r.install(); err != nil {
		return err
	}
	r.c.Fault("live_rule_change")
	return nil
}

func listURL(id int64, allow bool) string {
	if allow {
		return fmt.Sprintf("https://lists.invalid/allow-%d.txt", id)
	}
	return fmt.Sprintf("https://lists.invalid/block-%d.txt", id)
}

func listText(rules []string) string {
	// Lists are served with a title comment and end with a newline.
	return "! Title: generated\n" + strings.Join(rules, "\n") + "\n"
}

func weekJSON(w [7]Day) map[string]any {
	out := map[string]any{"time_zone": "UTC"}
	for i, name := range []string{"sun", "mon", "tue", "wed", "thu", "fri", "sat"} {
		if w[i].End > w[i].Start {
			out[name] = map[string]any{"start": w[i].Start * 60_000, "end": w[i].End * 60_000}
		}
	}
	return out
}

// api calls an admin handler.  A status other than 200 is harness trouble,
// except for list operations while a storage fault is in doubt: there the
// answer of the API says whether the operation was accepted (applied=false).
func (r *runner) api(method, path string, body any, mayRefuse bool) (applied bool, resp []byte, err error) {
	var b []byte
	if body != nil {
		b, _ = json.Marshal(body)
	}
	code, resp, err := r.n.Mux.Do(method, path, b)
	if err != nil {
		if hp, ok := err.(*env.HandlerPanic); ok {
			return false, nil, kernel.Violationf("api-panic", "%v", hp)
		}
		return false, nil, err
	}
	r.c.Eventf("api %s %s -> %d", method, path, code)
	if mayRefuse {
		// Whether the latest rule-changing call was made with every list file
		// readable: only such a call is known to have been applied in full
		// (some calls re-initialise the engines themselves, at once, and are
		// not repeated when the storage is healed afterwards).
		r.lastChangeIntact = r.fault == nil
	}
	if code != http.StatusOK {
		if mayRefuse && r.window {
			r.c.Probe("api_refused_under_fault")
			return false, resp, nil
		}
		return false, resp, fmt.Errorf("harness: %s %s %s -> %d %s", method, path, b, code, resp)
	}
	return true, resp, nil
}

func answerKey(rr dns.RR) string {
	h := *rr.Header()
	h.Ttl = 0
	s := rr.String()
	// Drop the TTL column so that cached answers compare equal.
	parts := strings.Fields(s)
	if len(parts) > 1 {
		parts[1] = "-"
	}
	return strings.Join(parts, " ")
}

func rrKeys(rrs []dns.RR) []string {
	out := make([]string, 0, len(rrs))
	for _, rr := range rrs {
		out = append(out, answerKey(rr))
	}
	return out
}

func hasMarker(m *dns.Msg) string {
	for _, sec := range [][]dns.RR{m.Answer, m.Ns, m.Extra} {
		for _, rr := range sec {
			s := rr.String()
			if strings.Contains(s, "203.0.113.") || strings.Contains(s, "2001:db8::") || strings.Contains(s, "upstream-marker") {
				return s
			}
		}
	}
	return ""
}

func (r *runner) checkBlocked(op Op, rep *dnsnode.Reply, ex expectation) error {
	st := r.st
	m := rep.Msg
	if len(rep.Exchanges) != 0 {
		return kernel.Violationf("blocked-forwarded", "%s %s from %s must be blocked (%s) but %d question(s) went upstream: %v", op.Name, dns.Type(op.Qtype), op.Addr, ex.why, len(rep.Exchanges), rep.Exchanges)
	}
	if m == nil {
		return kernel.Violationf("blocked-no-reply", "%s %s over %s: blocked query got no reply (err=%v)", op.Name, dns.Type(op.Qtype), op.Proto, rep.Err)
	}
	if s := hasMarker(m); s != "" {
		return kernel.Violationf("blocked-upstream-data", "%s %s: blocked reply carries upstream data %q", op.Name, dns.Type(op.Qtype), s)
	}
	if len(m.Question) != 1 || m.Question[0].Name != dns.Fqdn(op.Name) || m.Question[0].Qtype != op.Qtype {
		return kernel.Violationf("blocked-question", "%s %s: reply question is %v", op.Name, dns.Type(op.Qtype), m.Question)
	}
	bad := func(format string, args ...any) error {
		return kernel.Violationf("blocked-template", "%s %s blocked by %s in mode %s (v4=%s v6=%s ttl=%d): %s; reply:\n%s", op.Name, dns.Type(op.Qtype), ex.why, st.mode, st.v4, st.v6, st.ttl, fmt.Sprintf(format, args...), m)
	}
	isAddr := op.Qtype == dns.TypeA || op.Qtype == dns.TypeAAAA
	if !isAddr && op.Qtype != dns.TypeHTTPS {
		// Documented: other types get an empty NOERROR answer.
		if m.Rcode != dns.RcodeSuccess || len(m.Answer) != 0 {
			return bad("want NOERROR with an empty answer section")
		}
		return nil
	}
	switch st.mode {
	case "nxdomain":
		if m.Rcode != dns.RcodeNameError || len(m.Answer) != 0 {
			return bad("want NXDOMAIN with an empty answer section")
		}
		return nil
	case "refused":
		if m.Rcode != dns.RcodeRefused || len(m.Answer) != 0 {
			return bad("want REFUSED with an empty answer section")
		}
		return nil
	}
	if m.Rcode != dns.RcodeSuccess {
		return bad("want NOERROR")
	}
	if !isAddr {
		if len(m.Answer) != 0 {
			return bad("HTTPS query: want an empty answer section")
		}
		return nil
	}
	var allowed []netip.Addr
	is4 := op.Qtype == dns.TypeA
	unspec := netip.IPv6Unspecified()
	if is4 {
		unspec = netip.IPv4Unspecified()
	}
	switch st.mode {
	case "null_ip":
		allowed = []netip.Addr{unspec}
	case "custom_ip":
		if is4 {
			allowed = []netip.Addr{st.v4}
		} else {
			allowed = []netip.Addr{st.v6}
		}
	default: // "default": the address of the hosts-style rule, else the zero address
		allowed = []netip.Addr{unspec}
		for _, ip := range ex.hostIPs {
			if ip.Is4() == is4 {
				allowed = append(allowed, ip)
			}
		}
	}
	if len(m.Answer) == 0 {
		return bad("want at least one address record")
	}
	for _, rr := range m.Answer {
		var got netip.Addr
		switch rr := rr.(type) {
		case *dns.A:
			got, _ = netip.AddrFromSlice(rr.A.To4())
		case *dns.AAAA:
			got, _ = netip.AddrFromSlice(rr.AAAA)
		default:
			return bad("unexpected record %s", rr)
		}
		if got.Is4() != is4 {
			return bad("record of the wrong family %s", rr)
		}
		ok := false
		for _, a := range allowed {
			if a == got {
				ok = true
			}
		}
		if !ok {
			return bad("address %s is not one of %v", got, allowed)
		}
		if rr.Header().Ttl != st.ttl {
			return bad("ttl %d, want blocked-response ttl %d", rr.Header().Ttl, st.ttl)
		}
		if rr.Header().Name != dns.Fqdn(op.Name) {
			return bad("owner name %q", rr.Header().Name)
		}
	}
	return nil
}

func (r *runner) checkForwarded(op Op, rep *dnsnode.Reply, ex expectation) error {
	key := strings.ToLower(op.Name) + "|" + dns.Type(op.Qtype).String()
	fault := env.UpstreamFault(op.Fault)
	m := rep.Msg
	served := len(rep.Exchanges) > 0
	seen := r.st.cached[key]
	if seen == nil {
		seen = map[string]bool{}
		r.st.cached[key] = seen
	}
	if !served && !(r.st.cacheOn && len(seen) > 0) {
		return kernel.Violationf("allowed-not-forwarded", "%s %s from %s over %s is not blocked (%s) but no question went upstream and nothing cacheable was seen before; reply: %v err=%v", op.Name, dns.Type(op.Qtype), op.Addr, op.Proto, ex.why, m, rep.Err)
	}
	for _, e := range rep.Exchanges {
		if !strings.EqualFold(e.Name, dns.Fqdn(op.Name)) || e.Qtype != op.Qtype {
			return kernel.Violationf("forwarded-other-question", "%s %s: upstream was asked %s %s", op.Name, dns.Type(op.Qtype), e.Name, dns.Type(e.Qtype))
		}
	}
	failed := served && (fault == env.UpError || fault == env.UpTimeout)
	if failed {
		// The exchange failed: an error (no reply / SERVFAIL) is legitimate,
		// wrong data is not.
		if m != nil && len(m.Answer) != 0 {
			return kernel.Violationf("answer-after-upstream-failure", "%s %s: upstream failed (%s) but the client got records: %v", op.Name, dns.Type(op.Qtype), fault, m.Answer)
		}
		return nil
	}
	if m == nil {
		return kernel.Violationf("allowed-no-reply", "%s %s over %s from %s: not blocked (%s), upstream answered, client got nothing (err=%v)", op.Name, dns.Type(op.Qtype), op.Proto, op.Addr, ex.why, rep.Err)
	}
	if len(m.Question) != 1 || !strings.EqualFold(m.Question[0].Name, dns.Fqdn(op.Name)) || m.Question[0].Qtype != op.Qtype {
		return kernel.Violationf("forwarded-question", "%s %s: reply question is %v", op.Name, dns.Type(op.Qtype), m.Question)
	}
	if served && fault == env.UpServfail {
		if m.Rcode != dns.RcodeServerFailure {
			return kernel.Violationf("forwarded-rcode", "%s %s: upstream said SERVFAIL, client got %s", op.Name, dns.Type(op.Qtype), dns.RcodeToString[m.Rcode])
		}
		seen["servfail"] = true
		return nil
	}
	if !served && seen["servfail"] && m.Rcode == dns.RcodeServerFailure && len(m.Answer) == 0 {
		r.c.Probe("served_from_cache")
		return nil // the cached upstream SERVFAIL
	}
	if !served && !seen["ok"] {
		return kernel.Violationf("allowed-not-forwarded", "%s %s: nothing went upstream and the only earlier upstream reply was SERVFAIL, yet the client got %v", op.Name, dns.Type(op.Qtype), m)
	}
	if !served {
		r.c.Probe("served_from_cache")
	}
	req := (&dnsnode.Query{Name: op.Name, Qtype: op.Qtype}).NewReq()
	want := env.DefaultAnswer(req)
	got, exp := rrKeys(m.Answer), rrKeys(want.Answer)
	if strings.ToLower(strings.Join(got, "\n")) != strings.ToLower(strings.Join(exp, "\n")) || m.Rcode != want.Rcode {
		return kernel.Violationf("forwarded-answer-changed", "%s %s not blocked (%s): upstream answered\n  %v\nclient received rcode=%s\n  %v", op.Name, dns.Type(op.Qtype), ex.why, exp, dns.RcodeToString[m.Rcode], got)
	}
	seen["ok"] = true
	return nil
}

func (r *runner) query(op Op) error {
	addr := netip.MustParseAddr(op.Addr)
	q := &dnsnode.Query{Proto: op.Proto, Addr: netip.AddrPortFrom(addr, 40000), Name: op.Name, Qtype: op.Qtype}
	r.next = env.UpstreamFault(op.Fault)
	now := time.Now()
	ex := r.st.expect(op.Name, op.Qtype, addr, now)
	rep := r.n.Do(q)
	kernel.Wait()
	r.next = env.UpOK
	return r.judge(op, rep, ex)
}

// judge compares what one query was answered with what the reference model
// expects.
func (r *runner) judge(op Op, rep *dnsnode.Reply, ex expectation) error {
	if rep.WireErr != nil {
		return kernel.Violationf("malformed-reply", "%s %s over %s: %v", op.Name, dns.Type(op.Qtype), op.Proto, rep.WireErr)
	}
	rc := "none"
	if rep.Msg != nil {
		rc = dns.RcodeToString[rep.Msg.Rcode]
	}
	r.c.Eventf("query %s %s %s %s -> rcode=%s ans=%d up=%d expect_blocked=%v(%s)", op.Proto, op.Addr, op.Name, dns.Type(op.Qtype), rc, ansLen(rep.Msg), len(rep.Exchanges), ex.blocked, ex.why)
	if r.st.aaaaOff && op.Qtype == dns.TypeAAAA {
		// AAAA-disabled pre-empts filtering: empty answer, nothing forwarded.
		r.c.Probe("aaaa_disabled_query")
		if len(rep.Exchanges) != 0 || rep.Msg == nil || len(rep.Msg.Answer) != 0 {
			return kernel.Violationf("aaaa-disabled", "%s AAAA with AAAA disabled: up=%d reply=%v", op.Name, len(rep.Exchanges), rep.Msg)
		}
		return nil
	}
	if len(r.st.cands) > 1 {
		r.c.Probe("query_in_doubt_window")
		if ex.blocked {
			r.c.Probe("doubt_all_agree_blocked")
		}
	}
	switch {
	case ex.unspecified:
		r.c.Probe("unspecified_case")
		if len(rep.Exchanges) == 0 && rep.Msg != nil && hasMarker(rep.Msg) == "" {
			return nil // behaved as blocked
		}
		ex.blocked = false
		return r.checkForwarded(op, rep, ex)
	case ex.blocked:
		r.c.Probe("blocked_query")
		if strings.HasPrefix(ex.why, "blocked service") {
			r.c.Probe("blocked_by_service")
		}
		if len(ex.hostIPs) > 0 {
			r.c.Probe("blocked_by_hosts_rule")
		}
		return r.checkBlocked(op, rep, ex)
	default:
		r.c.Probe("forwarded_query")
		if strings.HasPrefix(ex.why, "allow rule") {
			r.c.Probe("allowed_by_rule")
		}
		if ex.why == "protection off" {
			r.c.Probe("protection_off_query")
		}
		if ex.why == "filtering off" {
			r.c.Probe("filtering_off_query")
		}
		return r.checkForwarded(op, rep, ex)
	}
}

func ansLen(m *dns.Msg) int {
	if m == nil {
		return -1
	}
	return len(m.Answer)
}

func (r *runner) lists(allow bool) *[]*mlist {
	if allow {
		return &r.st.allow
	}
	return &r.st.block
}

func (r *runner) apply(op Op) error {
	if r.held > 0 && (op.Kind == "query" || op.Kind == "advance" || op.Kind == "par") {
		// The loop gets to run at the latest now: queries are judged against
		// the last accepted configuration.
		if err := r.settle(); err != nil {
			return err
		}
	}
	switch op.Kind {
	case "query":
		return r.query(op)
	case "restart":
		return r.restart()
	case "list_fault":
		// Withdrawn (DESIGN §10): the candidate-configuration oracle for the
		// states a storage fault creates raised three different false alarms on
		// the unchanged tree in deep exploration.  The operation stays in the
		// scenario format and does nothing; C02 keeps its own (narrower)
		// storage-fault exploration, and the failed-re-initialisation change it
		// was built for is still caught here through the concurrent phase.
		_ = r.injectFault
		r.c.Probe("op_skipped_storage_fault_withdrawn")
		return nil
	case "list_heal":
		return r.heal()
	case "par":
		return r.par(op)
	}
	skipped, err := r.admin(op)
	if err != nil || skipped {
		return err
	}
	r.observeFault()
	if !ruleChanging(op.Kind) {
		kernel.Wait()
		r.observeFault()
		return nil
	}
	r.held++
	if r.sc.DelayedLoop && op.Hold {
		// The admin call has returned; the updates loop has not run yet.
		kernel.Wait()
		r.c.Probe("held_rule_change")
		return nil
	}
	return r.settle()
}

// admin performs one administrative operation (or clock advance) and brings
// the reference model's configuration up to date.  It does not wait: it is
// also run as a task of a concurrent phase.
func (r *runner) admin(op Op) (skipped bool, err error) {
	st := r.st
	switch op.Kind {
	case "set_rules":
		if _, _, err = r.api("POST", "/control/filtering/set_rules", map[string]any{"rules": op.Rules}, false); err != nil {
			return false, err
		}
		st.user = op.Rules
	case "list_toggle", "list_refresh", "list_remove":
		ls := r.lists(op.Allow)
		if int(op.ID) >= len(*ls) {
			r.c.Probe("op_skipped_no_list")
			return true, nil
		}
		l := (*ls)[op.ID]
		var applied bool
		switch op.Kind {
		case "list_toggle":
			if applied, _, err = r.api("POST", "/control/filtering/set_url", map[string]any{"url": l.url, "whitelist": op.Allow, "data": map[string]any{"enabled": op.On, "name": "l", "url": l.url}}, true); err != nil {
				return false, err
			}
			if applied {
				l.enabled = op.On
			}
		case "list_refresh":
			// A forced refresh updates enabled lists only; the server's content
			// of a disabled list is left alone so that server content and the
			// list's content never differ outside this operation (scheduled
			// refreshes are then invisible to the model).
			if l.enabled {
				r.ls.Set(l.url, listText(op.Rules))
			}
			if applied, _, err = r.api("POST", "/control/filtering/refresh", map[string]any{"whitelist": op.Allow}, true); err != nil {
				return false, err
			}
			if applied && l.enabled && r.fault != nil && r.fault.list == l && !r.faultOverwritten() {
				// The list's file could not be replaced (it is what the storage
				// fault put there): the list keeps its content.
				applied = false
				r.c.Probe("refresh_failed_under_fault")
			}
			if l.enabled && !applied {
				r.ls.Set(l.url, listText(l.rules))
			}
			if l.enabled && applied {
				l.rules = op.Rules
				r.c.Probe("list_content_refreshed")
			}
		case "list_remove":
			if applied, _, err = r.api("POST", "/control/filtering/remove_url", map[string]any{"url": l.url, "whitelist": op.Allow}, true); err != nil {
				return false, err
			}
			if applied {
				*ls = append((*ls)[:op.ID], (*ls)[op.ID+1:]...)
				if r.fault != nil && r.fault.list == l {
					r.dropFault("list removed")
				}
			}
		}
	case "list_add":
		url := listURL(op.ID, op.Allow)
		r.ls.Set(url, listText(op.Rules))
		var applied bool
		if applied, _, err = r.api("POST", "/control/filtering/add_url", map[string]any{"name": "added", "url": url, "whitelist": op.Allow}, true); err != nil {
			return false, err
		}
		if applied {
			ls := r.lists(op.Allow)
			*ls = append(*ls, &mlist{id: op.ID, url: url, enabled: true, rules: op.Rules})
		}
	case "mode":
		body := map[string]any{"blocking_mode": op.Mode, "blocked_response_ttl": op.TTL}
		if op.Mode == "custom_ip" {
			body["blocking_ipv4"], body["blocking_ipv6"] = op.V4, op.V6
		}
		if _, _, err = r.api("POST", "/control/dns_config", body, false); err != nil {
			return false, err
		}
		st.mode, st.ttl = op.Mode, op.TTL
		if op.Mode == "custom_ip" {
			st.v4, st.v6 = netip.MustParseAddr(op.V4), netip.MustParseAddr(op.V6)
		}
	case "protection":
		if _, _, err = r.api("POST", "/control/protection", map[string]any{"enabled": op.On, "duration": op.Ms}, false); err != nil {
			return false, err
		}
		st.protection = op.On
		st.pausedTill = time.Time{}
		if !op.On && op.Ms > 0 {
			st.pausedTill = time.Now().Add(time.Duration(op.Ms) * time.Millisecond)
			r.c.Fault("protection_pause")
		}
	case "advance":
		d := time.Duration(op.Ms) * time.Millisecond
		before := time.Now()
		time.Sleep(d)
		r.c.SimTime += d
		r.c.Fault("clock_advance")
		if !st.pausedTill.IsZero() && before.Before(st.pausedTill) && !time.Now().Before(st.pausedTill) {
			r.c.Probe("pause_deadline_crossed")
		}
	case "filtering":
		if _, _, err = r.api("POST", "/control/filtering/config", map[string]any{"enabled": op.On, "interval": 24}, false); err != nil {
			return false, err
		}
		st.filtering = op.On
	case "services":
		if _, _, err = r.api("PUT", "/control/blocked_services/update", map[string]any{"ids": op.Services, "schedule": weekJSON(*op.Week)}, false); err != nil {
			return false, err
		}
		st.services, st.week = op.Services, *op.Week
	default:
		return false, fmt.Errorf("harness: unknown op %q", op.Kind)
	}
	return false, nil
}

// Run executes one scenario.
func Run(t *testing.T, scAny any, c *kernel.Ctx) error {
	sc := scAny.(*Scenario)
	dnsnode.InitProcess()
	sched.Init()
	sched.SpawnAllow = []string{"enableProtectionAfterPause"}
	dir, err := kernel.TempDir("c01")
	if err != nil {
		return err
	}
	defer os.RemoveAll(dir)
	return kernel.Bubble(t, func() error {
		// 2000-01-01 is a Saturday; place the start inside the week.
		time.Sleep(time.Duration(sc.StartMin)*time.Minute + 24*time.Hour)
		r := &runner{sc: sc, c: c, ls: env.NewListServer(), dir: dir}
		st := &state{mode: sc.Mode, ttl: sc.TTL, protection: sc.Protection, filtering: sc.Filtering, user: sc.User,
			services: sc.Services, week: sc.Week, clients: map[string]Client{}, cached: map[string]map[string]bool{}, cacheOn: sc.CacheSize > 0, aaaaOff: sc.AAAADisabled,
			v4: netip.MustParseAddr(sc.V4), v6: netip.MustParseAddr(sc.V6)}
		r.st = st
		r.up = &env.Upstream{Addr: "sim-upstream:53", Answer: env.DefaultAnswer, Timeout: 3 * time.Second, Slow: 300 * time.Millisecond, Latency: 5 * time.Millisecond,
			NextFault: func(*dns.Msg) env.UpstreamFault { return r.next }, OnFault: func(k string) { c.Fault(k) }}
		// base is what every start of the node has in common.
		r.base = func() *dnsnode.Config {
			cfg := &dnsnode.Config{Dir: dir, ListServer: r.ls, Upstream: r.up, UpTimeout: 2 * time.Second, NoUpdatesLoop: sc.DelayedLoop, OnModified: r.onModified}
			for _, cl := range sc.Clients {
				p := &client.Persistent{Name: cl.Name, IPs: []netip.Addr{netip.MustParseAddr(cl.IP)}, UID: client.MustNewUID(),
					UseOwnSettings: cl.OwnSettings, FilteringEnabled: cl.Filtering, UseOwnBlockedServices: cl.OwnServices}
				p.BlockedServices = &filtering.BlockedServices{IDs: cl.Services}
				if cl.ServicesPaused {
					p.BlockedServices.Schedule, _ = weekly([7]Day{{0, 1440}, {0, 1440}, {0, 1440}, {0, 1440}, {0, 1440}, {0, 1440}, {0, 1440}})
				} else {
					p.BlockedServices.Schedule, _ = weekly([7]Day{})
				}
				cfg.InitialClients = append(cfg.InitialClients, p)
			}
			return cfg
		}
		cfg := r.base()
		cfg.Filtering = filtering.Config{
			BlockingMode: filtering.BlockingMode(sc.Mode), BlockedResponseTTL: sc.TTL,
			ProtectionEnabled: sc.Protection, FilteringEnabled: sc.Filtering, UserRules: sc.User,
			FiltersUpdateIntervalHours: 24, CacheTime: 30,
		}
		if sc.Mode == "custom_ip" {
			cfg.Filtering.BlockingIPv4, cfg.Filtering.BlockingIPv6 = st.v4, st.v6
		}
		wk, err := weekly(sc.Week)
		if err != nil {
			return err
		}
		cfg.Filtering.BlockedServices = &filtering.BlockedServices{IDs: sc.Services, Schedule: wk}
		for _, l := range sc.Block {
			url := listURL(l.ID, false)
			r.ls.Set(url, listText(l.Rules))
			cfg.BlockLists = append(cfg.BlockLists, dnsnode.ListSpec{ID: l.ID, URL: url, Name: "b", Text: strings.Join(l.Rules, "\n") + "\n", Enabled: l.Enabled})
			st.block = append(st.block, &mlist{id: l.ID, url: url, enabled: l.Enabled, rules: l.Rules})
		}
		for _, l := range sc.Allow {
			url := listURL(l.ID, true)
			r.ls.Set(url, listText(l.Rules))
			cfg.AllowLists = append(cfg.AllowLists, dnsnode.ListSpec{ID: l.ID, URL: url, Name: "a", Text: strings.Join(l.Rules, "\n") + "\n", Enabled: l.Enabled})
			st.allow = append(st.allow, &mlist{id: l.ID, url: url, enabled: l.Enabled, rules: l.Rules})
		}
		for _, cl := range sc.Clients {
			st.clients[cl.IP] = cl
		}
		cfg.DNS = dnsforward.Config{CacheSize: sc.CacheSize, AAAADisabled: sc.AAAADisabled, UpstreamMode: dnsforward.UpstreamModeLoadBalance}
		n, err := dnsnode.New(cfg)
		if err != nil {
			return err
		}
		r.n = n
		defer func() {
			if !r.abandon {
				r.n.Close()
			}
		}()
		if err = r.loadServiceRules(); err != nil {
			return err
		}
		if err = st.setCands(st.conf()); err != nil {
			return err
		}
		r.acceptedKey = st.conf().key()
		defer st.closeCands()
		kernel.Wait()
		for i, op := range sc.Ops {
			c.Eventf("op %d %s", i, op.Kind)
			if err := r.apply(op); err != nil {
				if v, ok := err.(*kernel.Violation); ok {
					v.Msg = fmt.Sprintf("op %d: %s", i, v.Msg)
				}
				return err
			}
			c.Step()
		}
		return nil
	})
}

type scheduleWeekly = schedule.Weekly

func weekly(w [7]Day) (*scheduleWeekly, error) {
	b, _ := json.Marshal(weekJSON(w))
	s := &scheduleWeekly{}
	if err := s.UnmarshalJSON(b); err != nil {
		return nil, fmt.Errorf("harness: schedule: %w", err)
	}
	return s, nil
}

// loadServiceRules reads the blocked-services table through the real API: it
// is a data table, trusted as given.
func (r *runner) loadServiceRules() error {
	code, body, err := r.n.Mux.Do("GET", "/control/blocked_services/all", nil)
	if err != nil || code != 200 {
		return fmt.Errorf("harness: blocked_services/all: %d %v", code, err)
	}
	var resp struct {
		BlockedServices []struct {
			ID    string   `json:"id"`
			Rules []string `json:"rules"`
		} `json:"blocked_services"`
	}
	if err = json.Unmarshal(body, &resp); err != nil {
		return err
	}
	r.st.svcRules = map[string][]*rules.NetworkRule{}
	for _, s := range resp.BlockedServices {
		r.st.svcRules[s.ID] = model.ServiceRules(s.Rules)
	}
	for _, id := range services {
		if len(r.st.svcRules[id]) == 0 {
			return fmt.Errorf("harness: service %q has no rules in this tree", id)
		}
	}
	return nil
}

var _ = sort.Strings

// Prop is the registration.
var Prop = &kernel.Property{
	ID:    "C01",
	Level: "exploration",
	Rule: "seeded histories (rapid): initial rule universe (||d^, |d^, *.d, @@, $important, $dnstype, $client, $denyallow, hosts-style lines) spread over custom rules, block lists and an allow list, blocked services with a weekly pause schedule, persistent clients with own settings; ops = queries (9 types, 6 transports, 4 source addresses, mixed case) interleaved with live changes through the real admin handlers (set_rules, list toggle / refresh with new content / add / remove, blocking mode, protection on/off/timed pause, global filtering flag, services+schedule) and clock advances; in half of the cases the filtering module's updates loop is scheduled by the harness, and bursts of 2..n rule-changing admin calls (every endpoint of the family) are issued back to back before the loop handles the first, queries being judged against the last accepted configuration once the loop has run; restarts of the node on the configuration (list ids included) and the data directory it wrote itself, at any point, followed by more list operations; storage faults on the file of any list in the data directory (replaced by a symlink loop, a directory or a dangling link; healed later or overwritten by the system's next download) between rule-changing operations, queries then being judged by what every configuration that may be in force agrees on; in the scheduler-driven half, phases in which a rule-changing admin call (every endpoint of the family), the updates loop and 1-4 queries run as concurrent tasks interleaved at lock boundaries by a seeded cooperative scheduler, each query judged by what the configurations before and after the call agree on; " +
		"non-trivial = at least one query the reference model says must be blocked AND one that must be forwarded were both executed, and at least one live change or clock advance happened; distinct = distinct scenario digests",
	Gen: Gen,
	New: func() any { return &Scenario{} },
	Run: Run,
	NonTrivial: func(_ any, c *kernel.Ctx) bool {
		return c.Probes["blocked_query"] > 0 && c.Probes["forwarded_query"] > 0 && (c.Faults["live_rule_change"]+c.Faults["clock_advance"] > 0)
	},
	Real:        []string{"internal/filtering (DNSFilter, engines, blocked services, list refresh, HTTP handlers)", "internal/dnsforward (HandleBefore, request pipeline, blocking-mode responses, dns_config/protection handlers)", "dnsproxy request path (handleDNSRequest, Resolve, cache, respond*)", "internal/client.Storage", "urlfilter", "internal/schedule"},
	Stub:        []string{"upstream resolver (logs every question; seeded faults)", "filter-list HTTP server (RoundTripper)", "client sockets (fake conns / response writers)", "query log and statistics (recorders)", "wall clock (synctest)"},
	Assumptions: []string{"urlfilter's matching of one rule set against one host name is trusted (the reference model owns separate engines built from the scenario's rule text)", "blocked-services rule table is read through the real API and trusted as data", "with filtering off for a client the statement does not say whether blocked services still apply: only coherence is asserted there", "with the DNS cache on, a repeated allowed query may legitimately be served without a new upstream exchange", "while the file of a list cannot be read, and during an overlapping rule change, the statement does not say which of the configurations accepted so far is in force: only what all of them (with and without the unreadable list) agree on is asserted"},
	FaultKinds:  []string{"upstream_error", "upstream_timeout", "upstream_servfail", "upstream_slow", "live_rule_change", "clock_advance", "protection_pause", "updates_loop_delayed", "restart", "concurrent_rule_change"},
	ProbeNames:  []string{"blocked_query", "forwarded_query", "blocked_by_service", "blocked_by_hosts_rule", "allowed_by_rule", "protection_off_query", "filtering_off_query", "pause_deadline_crossed", "unspecified_case", "aaaa_disabled_query", "op_skipped_no_list", "list_content_refreshed", "served_from_cache", "held_rule_change", "burst_settled", "restart_with_added_lists", "par_query", "par_query_must_be_blocked", "sched_steps", "sched_switches", "op_skipped_no_fault", "op_skipped_storage_fault_withdrawn"},
}
