// Package c14 decides property C14 (configuration file, DHCP lease database
// and downloaded filter-list files are replaced atomically) with engine E6
// "crashfs": a helper process - this same test binary re-executed under
// strace - performs 1..4 successive saves of one kind through the real code
// paths (home's configuration.write / parseConfig upgrade, dhcpd static-lease
// add/remove -> dbStore -> writeDB and migrateDB, filtering's refresh ->
// updateIntl -> finalizeUpdate); the parent replays the intercepted syscall
// stream into a disk model and checks
//
//	(a) after EVERY syscall the destination path reads as the complete
//	    previous or the complete new version (concurrent reader, SIGKILL),
//	(b) for a power loss at EVERY syscall boundary, every modelled on-disk
//	    state (directory operations durable as any prefix of the issued ones,
//	    un-synced 4 KiB blocks persisted as none / all / prefixes / seeded
//	    random subsets) has a complete version at the destination, and the
//	    real loaders accept a sample of the materialised states,
//	(c) with ENOSPC / EIO injected into the k-th open / write / fsync /
//	    fchmod / close / rename of a save (helper re-run under strace -e
//	    inject), (a) and (b) still hold, the destination stays complete, and a
//	    save that did not replace the file reports its failure,
//	(d) a store whose previous version lives under another path (the legacy
//	    <workdir>/leases.db before the migration) is judged as the pair of
//	    files (legacy.go): in every view of (a)-(c) the destination is a
//	    complete new version or the legacy file is still there, complete, and
//	    the next start from such a state loads what the undisturbed migration
//	    loads.
package c14

import (
	"bytes"
	"encoding/json"
	"fmt"
	"hash/crc32"
	"io"
	stdlog "log"
	"net/http"
	"os"
	"os/exec"
	"path/filepath"
	"regexp"
	"sort"
	"strconv"
	"strings"
	"testing"

	"github.com/AdguardTeam/AdGuardHome/internal/dhcpd"
	"github.com/AdguardTeam/AdGuardHome/internal/filtering/rulelist"
	"github.com/AdguardTeam/AdGuardHome/internal/home"
	"github.com/AdguardTeam/AdGuardHome/verifsim/crashfs"
	"github.com/AdguardTeam/AdGuardHome/verifsim/env"
	"github.com/AdguardTeam/AdGuardHome/verifsim/kernel"
	"pgregory.net/rapid"
)

// Save is one generated save operation.
type Save struct {
	// Op: write | upgrade (config); add | remove | migrate | overlap (leases);
	// refresh (filter).  "overlap" adds N (2..3) static leases at the same
	// time from separate goroutines, so that their saves overlap; it is always
	// the last save of a case.
	Op string `json:"op"`
	// N items of Len bytes each, content derived from Seed.
	N    int `json:"n,omitempty"`
	Len  int `json:"len,omitempty"`
	Seed int `json:"seed,omitempty"`
}

// Pick selects one syscall of one save for error injection.
type Pick struct {
	Save  int    `json:"save"`  // index into Saves
	Idx   int    `json:"idx"`   // index into that save's injectable calls, modulo their number
	Errno string `json:"errno"` // ENOSPC | EIO | EINTR
}

// Scenario is one case.
type Scenario struct {
	Kind string `json:"kind"` // config | leases | filter
	// TmpSameFS: $TMPDIR is on the destination's file system (renameio then
	// puts its temporary file into $TMPDIR) or not (temporary file next to
	// the destination).
	TmpSameFS bool `json:"tmp_same_fs"`
	// Init: absent | present | legacy (old-schema config / leases.db).
	Init     string `json:"init"`
	InitN    int    `json:"init_n,omitempty"`
	InitLen  int    `json:"init_len,omitempty"`
	InitSeed int    `json:"init_seed,omitempty"`
	// InitPerm is the permission of the initial file: 644, 666 (renameio
	// then has to fchmod its temporary file) or 600.
	InitPerm int `json:"init_perm,omitempty"`
	// LegacySchema is the schema_version of a legacy configuration file.
	LegacySchema int    `json:"legacy_schema,omitempty"`
	Saves        []Save `json:"saves"`
	// SubsetSeeds seed the random subsets of un-synced blocks that persist.
	SubsetSeeds []int `json:"subset_seeds"`
	// InjectAll enumerates every injectable call of every save (writes of a
	// long run are sampled); otherwise only Inject is used.
	InjectAll bool   `json:"inject_all,omitempty"`
	Inject    []Pick `json:"inject,omitempty"`
}

var legacySchemas = []int{20, 22, 24, 26, 27, 28}

func genSize(t *rapid.T, tier, kind, label string) (n, l int) {
	maxLen := 60000
	if kind == "leases" {
		maxLen = 200
	}
	big := 2 << 20
	if tier == "thorough" {
		big = 32 << 20
		if kind == "config" {
			big = 8 << 20
		}
	}
	switch c := rapid.IntRange(0, 99).Draw(t, label+"_class"); {
	case c < 10:
		return 0, 8
	case c < 50:
		return rapid.IntRange(1, 20).Draw(t, label+"_n"), rapid.IntRange(8, 64).Draw(t, label+"_len")
	case c < 82:
		// Around block boundaries: total near a multiple of 4096.
		blocks := rapid.IntRange(1, 12).Draw(t, label+"_blocks")
		l = rapid.SampledFrom([]int{16, 64, 200, 1024, 4095, 4096, 4097, 8192}).Draw(t, label+"_len")
		if l > maxLen {
			l = maxLen
		}
		n = blocks*4096/l + rapid.IntRange(-1, 1).Draw(t, label+"_adj")
		if n < 1 {
			n = 1
		}
		return n, l
	default:
		total := rapid.IntRange(64<<10, big).Draw(t, label+"_total")
		l = rapid.SampledFrom([]int{40, 200, 5000, 60000}).Draw(t, label+"_len")
		if l > maxLen {
			l = maxLen
		}
		n = total/l + 1
		// One write(2) per rule line / a quadratic cost per lease: bound the
		// number of items, not the bytes.
		maxN := 8_000
		if tier == "thorough" {
			maxN = 150_000
		}
		if n > maxN {
			n = maxN
		}
		return n, l
	}
}

// Gen draws a scenario.
func Gen(t *rapid.T, tier string) any {
	sc := &Scenario{}
	sc.Kind = rapid.SampledFrom([]string{"config", "leases", "filter"}).Draw(t, "kind")
	sc.TmpSameFS = rapid.Bool().Draw(t, "tmp_same_fs")
	sc.Init = rapid.SampledFrom([]string{"absent", "present", "present", "legacy"}).Draw(t, "init")
	if sc.Kind == "filter" && sc.Init == "legacy" {
		sc.Init = "present"
	}
	if sc.Init != "absent" {
		sc.InitN, sc.InitLen = genSize(t, tier, sc.Kind, "init")
		sc.InitSeed = rapid.IntRange(0, 9).Draw(t, "init_seed")
		sc.InitPerm = rapid.SampledFrom([]int{644, 644, 666, 600}).Draw(t, "init_perm")
		if sc.Kind == "config" && sc.Init == "legacy" {
			sc.LegacySchema = rapid.SampledFrom(legacySchemas).Draw(t, "legacy_schema")
		}
	}
	overlap := sc.Kind == "leases" && rapid.IntRange(0, 99).Draw(t, "overlap") < 40
	if overlap {
		// The trace of such a case carries the write payloads: keep it small.
		maxBytes := 1 << 20
		if tier == "thorough" {
			maxBytes = 4 << 20
		}
		if per := sc.InitLen + 100; sc.InitN*per > maxBytes {
			sc.InitN = maxBytes / per
		}
	}
	nSaves := rapid.IntRange(1, 4).Draw(t, "n_saves")
	for i := 0; i < nSaves; i++ {
		s := Save{Seed: rapid.IntRange(0, 9).Draw(t, "seed")}
		switch sc.Kind {
		case "config":
			s.Op = "write"
			if i == 0 && sc.Init == "legacy" {
				s.Op = "upgrade"
			}
			if s.Op == "write" {
				s.N, s.Len = genSize(t, tier, sc.Kind, "save")
			}
		case "leases":
			s.Op = "add"
			if i == 0 && sc.Init == "legacy" {
				s.Op = "migrate"
			} else if rapid.IntRange(0, 4).Draw(t, "remove") == 0 {
				s.Op = "remove"
			}
			s.Len = rapid.IntRange(1, 200).Draw(t, "host_len")
			if overlap && i == nSaves-1 && s.Op != "migrate" {
				s.Op = "overlap"
				s.N = rapid.IntRange(2, 3).Draw(t, "overlap_k")
			}
		default:
			s.Op = "refresh"
			s.N, s.Len = genSize(t, tier, sc.Kind, "save")
		}
		sc.Saves = append(sc.Saves, s)
	}
	maxSeeds := 6
	if tier == "thorough" {
		maxSeeds = 24
	}
	for i, n := 0, rapid.IntRange(2, maxSeeds).Draw(t, "n_subset_seeds"); i < n; i++ {
		sc.SubsetSeeds = append(sc.SubsetSeeds, rapid.IntRange(0, 1<<30).Draw(t, "subset_seed"))
	}
	allPct := 12
	maxPicks := 6
	if tier == "thorough" {
		allPct = 40
		maxPicks = 12
	}
	sc.InjectAll = rapid.IntRange(0, 99).Draw(t, "inject_all") < allPct
	if !sc.InjectAll {
		for i, n := 0, rapid.IntRange(0, maxPicks).Draw(t, "n_inject"); i < n; i++ {
			sc.Inject = append(sc.Inject, Pick{
				Save:  rapid.IntRange(0, nSaves-1).Draw(t, "inj_save"),
				Idx:   rapid.IntRange(0, 40).Draw(t, "inj_idx"),
				Errno: rapid.SampledFrom([]string{"ENOSPC", "EIO", "ENOSPC", "EIO", "EINTR"}).Draw(t, "inj_errno"),
			})
		}
	}
	return sc
}

// ---------------------------------------------------------------------------
// initial content

func legacyConfig(sc *Scenario) []byte {
	var b bytes.Buffer
	fmt.Fprintf(&b, "http:\n  address: 127.0.0.1:3000\n  session_ttl: 720h\ndns:\n  bind_hosts:\n    - 127.0.0.1\n  port: 5353\n")
	b.WriteString("user_rules:\n")
	for i := 0; i < sc.InitN; i++ {
		fmt.Fprintf(&b, "  - '%s'\n", Rule(sc.InitSeed, i, sc.InitLen))
	}
	if sc.InitN == 0 {
		b.Reset()
		fmt.Fprintf(&b, "http:\n  address: 127.0.0.1:3000\n  session_ttl: 720h\ndns:\n  bind_hosts:\n    - 127.0.0.1\n  port: 5353\nuser_rules: []\n")
	}
	fmt.Fprintf(&b, "schema_version: %d\n", sc.LegacySchema)
	return b.Bytes()
}

func presentConfig(sc *Scenario) []byte {
	var b bytes.Buffer
	b.WriteString("# written by an earlier run\nhttp:\n  address: 127.0.0.1:3000\ndns:\n  bind_hosts:\n    - 127.0.0.1\n  port: 5353\n")
	if sc.InitN == 0 {
		b.WriteString("user_rules: []\n")
	} else {
		b.WriteString("user_rules:\n")
		for i := 0; i < sc.InitN; i++ {
			fmt.Fprintf(&b, "  - '%s'\n", Rule(sc.InitSeed, i, sc.InitLen))
		}
	}
	b.WriteString("schema_version: 29\n")
	return b.Bytes()
}

func presentLeases(sc *Scenario) []byte {
	var b bytes.Buffer
	b.WriteString(`{"version":1,"leases":[`)
	for i := 0; i < sc.InitN; i++ {
		if i > 0 {
			b.WriteByte(',')
		}
		ip, mac := LeaseAddr(i)
		fmt.Fprintf(&b, `{"expires":"","ip":"%s","hostname":"%s","mac":"%s","static":true}`, ip, HostName(sc.InitSeed, i, sc.InitLen), mac)
	}
	b.WriteString("]}")
	return b.Bytes()
}

func legacyLeases(sc *Scenario) []byte {
	type lj struct {
		HWAddr   []byte `json:"mac"`
		IP       []byte `json:"ip"`
		Hostname string `json:"host"`
		Expiry   int64  `json:"exp"`
	}
	l := make([]lj, 0, sc.InitN)
	for i := 0; i < sc.InitN; i++ {
		ip, mac := LeaseAddr(i)
		l = append(l, lj{HWAddr: mac, IP: ip.AsSlice(), Hostname: HostName(sc.InitSeed, i, sc.InitLen), Expiry: 1})
	}
	out, _ := json.Marshal(l)
	return out
}

func presentFilter(sc *Scenario) []byte {
	var b bytes.Buffer
	for i := 0; i < sc.InitN; i++ {
		b.WriteString(Rule(sc.InitSeed+100, i, sc.InitLen))
		b.WriteByte('\n')
	}
	return b.Bytes()
}

// initialFiles returns the files (relative to the work dir) present before the
// helper starts.
func initialFiles(sc *Scenario) map[string][]byte {
	m := map[string][]byte{}
	if sc.Init == "absent" {
		return m
	}
	switch sc.Kind {
	case "config":
		if sc.Init == "legacy" {
			m["AdGuardHome.yaml"] = legacyConfig(sc)
		} else {
			m["AdGuardHome.yaml"] = presentConfig(sc)
		}
	case "leases":
		if sc.Init == "legacy" {
			m["leases.db"] = legacyLeases(sc)
		} else {
			m["data/leases.json"] = presentLeases(sc)
		}
	default:
		m["data/filters/1.txt"] = presentFilter(sc)
	}
	return m
}

// ---------------------------------------------------------------------------
// one traced helper run

type version struct {
	absent bool
	data   []byte
}

func (v version) String() string {
	if v.absent {
		return "absent"
	}
	return fmt.Sprintf("%dB/crc=%08x", len(v.data), crc32.ChecksumIEEE(v.data))
}

func sameVersion(v version, absent bool, data []byte) bool {
	if v.absent || absent {
		return v.absent == absent
	}
	return crashfs.Equal(v.data, data)
}

type runData struct {
	dir      string // run directory
	work     string
	tmp      string
	out      string
	roots    []string
	trace    *crashfs.Trace
	result   *HelperResult
	after    []version // per save, as stored by the helper
	exitCode int
	stderr   string
	capture  bool // the trace carries the write payloads
}

func hasOverlap(saves []Save) bool {
	for _, s := range saves {
		if s.Op == "overlap" {
			return true
		}
	}
	return false
}

type injectSpec struct {
	call  string
	ord   int
	errno string
}

var reTmpSuffix = regexp.MustCompile(`^(\..*?)\d{4,}$`)

func (r *runData) norm(p string) string {
	base := filepath.Base(p)
	if m := reTmpSuffix.FindStringSubmatch(base); m != nil {
		p = filepath.Join(filepath.Dir(p), m[1]+"#")
	}
	switch {
	case strings.HasPrefix(p, r.work):
		return "$WORK" + strings.TrimPrefix(p, r.work)
	case strings.HasPrefix(p, r.tmp):
		return "$TMP" + strings.TrimPrefix(p, r.tmp)
	}
	return p
}

var reTmpInText = regexp.MustCompile(`(/\.[A-Za-z][A-Za-z0-9_.-]*?)\d{6,}`)

// normText strips the run directory and random temp-file suffixes from a
// message so that it can go into the event log.
func (r *runData) normText(s string) string {
	s = strings.ReplaceAll(s, r.work, "$WORK")
	s = strings.ReplaceAll(s, r.tmp, "$TMP")
	s = strings.ReplaceAll(s, r.dir, "$RUN")
	return reTmpInText.ReplaceAllString(s, "$1#")
}

// runHelper prepares a fresh directory with the scenario's initial files and
// runs the helper in it under strace.
func runHelper(base string, seq int, sc *Scenario, saves []Save, init map[string][]byte, inj *injectSpec) (*runData, error) {
	// A case with an overlapping save is traced with the write payloads (the
	// content of concurrent writes cannot be told from their position) and
	// lets the helper use several CPUs.
	capture := inj == nil && hasOverlap(saves)
	r := &runData{dir: filepath.Join(base, "run-"+strconv.Itoa(seq))}
	r.work = filepath.Join(r.dir, "work")
	r.out = filepath.Join(r.dir, "out")
	for _, d := range []string{r.out, filepath.Join(r.work, "data", "filters")} {
		if err := os.MkdirAll(d, 0o755); err != nil {
			return nil, err
		}
	}
	if sc.TmpSameFS {
		r.tmp = filepath.Join(r.dir, "tmp")
		if err := os.MkdirAll(r.tmp, 0o755); err != nil {
			return nil, err
		}
	} else {
		// A directory on another file system than the (tmpfs) work dir.
		t, err := os.MkdirTemp(otherFSBase(), "verif-c14-")
		if err != nil {
			return nil, err
		}
		r.tmp = t
	}
	r.roots = []string{r.work, r.tmp}
	for rel, data := range init {
		perm := os.FileMode(0o644)
		switch sc.InitPerm {
		case 666:
			perm = 0o666
		case 600:
			perm = 0o600
		}
		if err := os.WriteFile(filepath.Join(r.work, rel), data, perm); err != nil {
			return nil, err
		}
		if err := os.Chmod(filepath.Join(r.work, rel), perm); err != nil {
			return nil, err
		}
	}
	r.capture = capture
	spec := &HelperSpec{Kind: sc.Kind, WorkDir: r.work, OutDir: r.out, Saves: saves}
	raw, _ := json.Marshal(spec)
	specPath := filepath.Join(r.dir, "spec.json")
	if err := os.WriteFile(specPath, raw, 0o644); err != nil {
		return nil, err
	}
	exe, err := os.Executable()
	if err != nil {
		return nil, err
	}
	tracePath := filepath.Join(r.dir, "trace.txt")
	strLimit, procs := "0", "1"
	if capture {
		strLimit = strconv.Itoa(64 << 20)
	}
	if hasOverlap(sc.Saves) {
		// Also in the injected runs of such a case, so that the main thread
		// starts the same way as in its baseline run.
		procs = "4"
	}
	args := []string{"-y", "-s", strLimit, "-o", tracePath, "-e", "trace=" + crashfs.TraceSet}
	if inj == nil {
		// Baseline: every thread is traced, so that a save done by another
		// thread would be seen.
		args = append([]string{"-f", "--seccomp-bpf"}, args...)
	} else {
		// Injection: only the main thread is traced (strace counts when=
		// per tracee, and no runtime thread must be hit).  The helper does
		// everything on its main thread.
		args = append(args, "-e", fmt.Sprintf("inject=%s:error=%s:when=%d", inj.call, inj.errno, inj.ord))
	}
	args = append(args, exe, "-test.run", "^$")
	cmd := exec.Command("strace", args...)
	cmd.Env = append(os.Environ(), HelperEnv+"="+specPath, "GOMAXPROCS="+procs, "TMPDIR="+r.tmp, "VERIF_PROP=", "VERIF_REPLAY=")
	var stderr bytes.Buffer
	cmd.Stderr = &stderr
	cmd.Stdout = io.Discard
	err = cmd.Run()
	r.stderr = stderr.String()
	if err != nil {
		ee, ok := err.(*exec.ExitError)
		if !ok {
			return r, fmt.Errorf("harness: starting strace: %w", err)
		}
		r.exitCode = ee.ExitCode()
	}
	f, err := os.Open(tracePath)
	if err != nil {
		return r, fmt.Errorf("harness: no trace (strace stderr: %s): %w", r.stderr, err)
	}
	defer f.Close()
	r.trace, err = crashfs.Parse(f)
	if err != nil {
		return r, fmt.Errorf("harness: %w", err)
	}
	if raw, err = os.ReadFile(filepath.Join(r.out, "result.json")); err == nil {
		r.result = &HelperResult{}
		if err = json.Unmarshal(raw, r.result); err != nil {
			return r, fmt.Errorf("harness: helper result: %w", err)
		}
		for k, s := range r.result.Saves {
			v := version{absent: s.Absent}
			if !s.Absent {
				v.data, err = os.ReadFile(filepath.Join(r.out, "after-"+strconv.Itoa(k+1)))
				if err != nil {
					return r, fmt.Errorf("harness: stored version %d: %w", k+1, err)
				}
			}
			r.after = append(r.after, v)
		}
	}
	return r, nil
}

func (r *runData) cleanup() {
	_ = os.RemoveAll(r.dir)
	if !strings.HasPrefix(r.tmp, r.dir) && r.tmp != "" {
		_ = os.RemoveAll(r.tmp)
	}
}

// otherFSBase returns a directory that is NOT on the file system of the
// per-case scratch directory (tmpfs).
func otherFSBase() string {
	if b := os.Getenv("VERIF_C14_OTHERFS"); b != "" {
		return b
	}
	return "/tmp"
}

// ---------------------------------------------------------------------------
// replay + oracle

type injectable struct {
	save int // 0-based
	call string
	ord  int
	desc string
}

type checker struct {
	sc   *Scenario
	c    *kernel.Ctx
	r    *runData
	dest string
	// versions[0] is the initial content, versions[k] the content save k is
	// meant to produce (taken from the baseline run).
	versions []version
	disk     *crashfs.Disk

	curSave   int // 1-based number of the latest begun save; 0 before the first
	inSave    bool
	prev      version // destination content when the current save began
	written   map[[2]int][][2]int64
	memoCrash map[int][2]int
	memoView  [2]int
	cands     []int
	candGen   int
	loaderN   int
	baseline  bool
	injected  *injectSpec
	injSeen   int
	injSave   int // 1-based save in which the injected error fired
	inj       []injectable
	destEver  bool // a rename ever replaced/created the destination
	label     string
	// ovCands is set during (and after) an overlapping save: every complete
	// lease database a save of it can legitimately write - the previous table
	// plus any subset of the concurrently added leases.
	ovCands []version
	// quiet keeps the event log free of scheduling-dependent lines.
	quiet bool
	// mute silences the whole run (repetitions of an overlapping case).
	mute bool
	// candCache carries the candidate tables over to repetitions.
	candCache *[]version
	// ovRenames counts the renames onto the destination during the overlap.
	ovRenames int
	// pred is the file that holds the previous version of the store while the
	// destination does not exist yet (legacy.go); "" if there is none.
	pred       string
	predData   []byte
	memoPair   *[3]int
	secondSeen [2]bool
	secondN    int
	migSummary string
}

// logf writes to the event log unless the run is in a phase whose details
// depend on the thread interleaving.
func (ck *checker) logf(format string, args ...any) {
	if !ck.quiet && !ck.mute {
		ck.c.Eventf(format, args...)
	}
}

// class maps the class of a torn-state violation: what overlapping saves do
// to each other depends on the schedule and shows up as a visible or as a
// power-loss state from run to run, so those share one class.
func (ck *checker) class(c string) string {
	if ck.inOverlap() {
		return "torn-overlapping-saves"
	}
	return c
}

// evf is Eventf unless the run is muted.
func (ck *checker) evf(format string, args ...any) {
	if !ck.mute {
		ck.c.Eventf(format, args...)
	}
}

func (ck *checker) inOverlap() bool {
	return ck.curSave >= 1 && ck.sc.Saves[ck.curSave-1].Op == "overlap" && ck.ovCands != nil
}

func (ck *checker) matchOverlap(absent bool, data []byte) bool {
	for _, v := range ck.ovCands {
		if sameVersion(v, absent, data) {
			return true
		}
	}
	return false
}

// leaseCandidates returns the lease database files for the previous table
// plus every subset of muts, each produced by the real code (a scratch server
// loaded with prev, the subset applied one after the other through the real
// handlers -> dbStore -> writeDB).  The file is sorted by hostname, so the
// order of application does not matter.
func leaseCandidates(prev version, muts []Mut) ([]version, error) {
	out := []version{prev}
	for mask := 1; mask < 1<<len(muts); mask++ {
		dir, err := kernel.TempDir("c14-cand")
		if err != nil {
			return nil, fmt.Errorf("harness: %w", err)
		}
		v, err := func() (version, error) {
			defer os.RemoveAll(dir)
			if err := os.MkdirAll(filepath.Join(dir, "data"), 0o755); err != nil {
				return version{}, err
			}
			dbPath := filepath.Join(dir, "data", "leases.json")
			if !prev.absent {
				if err := os.WriteFile(dbPath, prev.data, 0o644); err != nil {
					return version{}, err
				}
			}
			mux := env.NewMux()
			conf := DHCPConf(dir)
			conf.HTTPRegister = mux.Register
			if _, err := dhcpd.Create(conf); err != nil {
				return version{}, err
			}
			for i, m := range muts {
				if mask&(1<<i) == 0 {
					continue
				}
				code, resp, err := mux.Do(http.MethodPost, "/control/dhcp/"+m.Route, LeaseBody(m.N, m.Host))
				if err != nil || code != http.StatusOK {
					return version{}, fmt.Errorf("%s #%d: %d %s %v", m.Route, m.N, code, resp, err)
				}
			}
			b, err := os.ReadFile(dbPath)
			if err != nil {
				return version{}, err
			}
			return version{data: b}, nil
		}()
		if err != nil {
			return nil, fmt.Errorf("harness: computing the candidate lease tables: %w", err)
		}
		out = append(out, v)
	}
	return out, nil
}

func (ck *checker) destView() (absent bool, data []byte, ino *crashfs.Inode) {
	ino, ok := ck.disk.Lookup(ck.dest)
	if !ok {
		return true, nil, nil
	}
	return false, ino.Cache, ino
}

func (ck *checker) content(ino *crashfs.Inode, off, n int64) ([]byte, error) {
	if !ck.inSave {
		return nil, fmt.Errorf("harness: write into the watched tree outside a save (inode %d off %d len %d)", ino.ID, off, n)
	}
	v := ck.versions[ck.curSave]
	if v.absent || off+n > int64(len(v.data)) {
		return nil, fmt.Errorf("harness: content model: save %d writes [%d,%d) but its new version is %s", ck.curSave, off, off+n, v)
	}
	key := [2]int{ck.curSave, ino.ID}
	ws := ck.written[key]
	for _, w := range ws {
		if off < w[1] && w[0] < off+n {
			return nil, fmt.Errorf("harness: content model: save %d rewrites bytes [%d,%d) of inode %d", ck.curSave, off, off+n, ino.ID)
		}
	}
	if l := len(ws); l > 0 && ws[l-1][1] == off {
		// Sequential writes (the normal case) keep the list at one range.
		ws[l-1][1] = off + n
	} else {
		ck.written[key] = append(ws, [2]int64{off, off + n})
	}
	return v.data[off : off+n], nil
}

func splitmix(x uint64) uint64 {
	x += 0x9e3779b97f4a7c15
	x = (x ^ (x >> 30)) * 0xbf58476d1ce4e5b9
	x = (x ^ (x >> 27)) * 0x94d049bb133111eb
	return x ^ (x >> 31)
}

// allowedPower lists the versions a power loss may leave: any complete
// version written so far (the rename of an earlier save need not be durable
// yet, nobody syncs the directory), or the one being written.
func (ck *checker) allowedPower() []version {
	al := ck.versions[:ck.curSave+1]
	if ck.inOverlap() {
		al = append(append([]version(nil), al...), ck.ovCands...)
	}
	return al
}

func (ck *checker) matchPower(absent bool, data []byte) int {
	if ck.inOverlap() && ck.matchOverlap(absent, data) {
		return ck.curSave
	}
	al := ck.versions[:ck.curSave+1]
	for i := len(al) - 1; i >= 0; i-- {
		if sameVersion(al[i], absent, data) {
			return i
		}
	}
	if sameVersion(ck.prev, absent, data) {
		return ck.curSave
	}
	return -1
}

func describe(data []byte) string {
	return fmt.Sprintf("%d bytes crc=%08x", len(data), crc32.ChecksumIEEE(data))
}

// crashStates checks every modelled on-disk content of one inode.
func (ck *checker) crashStates(at int, ino *crashfs.Inode) error {
	n := ino.PendingOps()
	states := 0
	check := func(name string, data []byte) error {
		states++
		ck.c.Fault("crash_state")
		m := ck.matchPower(false, data)
		if m < 0 {
			return kernel.Violationf(ck.class("torn-after-power-loss"),
				"%s: power loss after syscall #%d (save %d): with un-synced blocks persisted as %q the destination holds %s, which is none of the complete versions %v",
				ck.label, at, ck.curSave, name, describe(data), ck.allowedPower())
		}
		if m < ck.curSave-1 {
			ck.c.Probe("stale_version_state")
		}
		return ck.loader(data, m)
	}
	if err := check("none", ino.Durable); err != nil {
		return err
	}
	if n == 0 {
		return nil
	}
	if err := check("all", ino.Cache); err != nil {
		return err
	}
	budget := (256 << 20) / (len(ino.Cache) + len(ino.Durable) + 1)
	if budget < 4 {
		budget = 4
	}
	if budget > 96 {
		budget = 96
	}
	// Prefixes: everything up to the p-th un-synced block operation.
	var prefixes []int
	if n-1 <= budget/2 {
		for p := 1; p < n; p++ {
			prefixes = append(prefixes, p)
		}
	} else {
		seen := map[int]bool{}
		for i := 0; i < budget/2; i++ {
			p := 1 + int(splitmix(uint64(i)*977+uint64(ck.sc.SubsetSeeds[0]))%uint64(n-1))
			if i == 0 {
				p = 1
			} else if i == 1 {
				p = n - 1
			}
			if !seen[p] {
				seen[p] = true
				prefixes = append(prefixes, p)
			}
		}
		sort.Ints(prefixes)
	}
	for _, p := range prefixes {
		if err := check("prefix:"+strconv.Itoa(p), ino.CrashState(func(i int) bool { return i < p })); err != nil {
			return err
		}
	}
	if err := check("last-only", ino.CrashState(func(i int) bool { return i == n-1 })); err != nil {
		return err
	}
	if err := check("all-but-first", ino.CrashState(func(i int) bool { return i != 0 })); err != nil {
		return err
	}
	for si, seed := range ck.sc.SubsetSeeds {
		if si >= budget/2 {
			break
		}
		den := []uint64{2, 8, 8}[si%3]
		inv := si%3 == 2
		s := uint64(seed)
		keep := func(i int) bool {
			hit := splitmix(s*1_000_003+uint64(i))%den == 0
			return hit != inv
		}
		if err := check("random:"+strconv.Itoa(seed), ino.CrashState(keep)); err != nil {
			return err
		}
	}
	ck.logf("  crash-states ino=%d pending=%d states=%d", ino.ID, n, states)
	return nil
}

// loader runs the real loader of the kind on a materialised state (a sample:
// a few per run) and requires it to load what the matching version loads.
func (ck *checker) loader(data []byte, ver int) error {
	if ck.loaderN >= 3 || len(data) > 2<<20 {
		return nil
	}
	ck.loaderN++
	got, err := loadSummary(ck.sc.Kind, data)
	if err != nil {
		return kernel.Violationf("loader-rejects-crash-state", "%s: the real loader fails on a crash state equal to version %d (%s): %v", ck.label, ver, describe(data), err)
	}
	ck.c.Probe("loader_ran")
	ck.logf("  loader: %s", got)
	return nil
}

// loadSummary runs the loader the server uses at start-up on data.
func loadSummary(kind string, data []byte) (string, error) {
	switch kind {
	case "config":
		return home.VerifCrashfsLoadConfig(data)
	case "leases":
		dir, err := kernel.TempDir("c14-load")
		if err != nil {
			return "", fmt.Errorf("harness: %w", err)
		}
		defer os.RemoveAll(dir)
		if err = os.MkdirAll(filepath.Join(dir, "data"), 0o755); err != nil {
			return "", err
		}
		if err = os.WriteFile(filepath.Join(dir, "data", "leases.json"), data, 0o644); err != nil {
			return "", err
		}
		conf := DHCPConf(dir)
		s, err := dhcpd.Create(conf)
		if err != nil {
			return "", err
		}
		return fmt.Sprintf("leases=%d", len(s.Leases())), nil
	default:
		res, err := rulelist.NewParser().Parse(io.Discard, bytes.NewReader(data), make([]byte, rulelist.DefaultRuleBufSize))
		if err != nil {
			return "", err
		}
		if res.BytesWritten != len(data) {
			return "", fmt.Errorf("stored list is not in normal form: %d of %d bytes are rules", res.BytesWritten, len(data))
		}
		return fmt.Sprintf("rules=%d crc=%08x", res.RulesCount, res.Checksum), nil
	}
}

// boundary runs checks (a) and (b) after event number at.
func (ck *checker) boundary(at int) error {
	ck.c.Fault("power_loss_boundary")
	// (a) what a concurrent reader / a restart after SIGKILL sees.
	absent, data, ino := ck.destView()
	gen := -1
	if ino != nil {
		gen = ino.ID<<20 ^ ino.Gen
	}
	if key := [2]int{ck.disk.NsGen, gen}; key != ck.memoView {
		ok := sameVersion(ck.prev, absent, data)
		if !ok && ck.inSave {
			ok = sameVersion(ck.versions[ck.curSave], absent, data)
		}
		if !ok && ck.inSave && ck.inOverlap() {
			ok = ck.matchOverlap(absent, data)
		}
		if !ok {
			what := "no file"
			if !absent {
				what = describe(data)
			}
			want := []version{ck.prev}
			if ck.inSave && ck.inOverlap() {
				want = ck.ovCands
			} else if ck.inSave {
				want = append(want, ck.versions[ck.curSave])
			}
			return kernel.Violationf(ck.class("torn-visible"),
				"%s: after syscall #%d (save %d) the destination reads as %s, neither the complete previous nor the complete new version %v",
				ck.label, at, ck.curSave, what, want)
		}
		ck.memoView = key
	}
	// (b) power loss now.
	if ck.candGen != ck.disk.NsGen || ck.cands == nil {
		ck.cands, ck.candGen = ck.disk.Candidates(ck.dest), ck.disk.NsGen
	}
	for _, id := range ck.cands {
		if id < 0 {
			if ck.matchPower(true, nil) < 0 {
				return kernel.Violationf(ck.class("missing-after-power-loss"),
					"%s: power loss after syscall #%d (save %d): the destination may not exist although a version existed before (%v)",
					ck.label, at, ck.curSave, ck.allowedPower())
			}
			continue
		}
		cand := ck.disk.Inode(id)
		memo := [2]int{cand.Gen, ck.curSave}
		if ck.memoCrash[id] == memo {
			continue
		}
		if err := ck.crashStates(at, cand); err != nil {
			return err
		}
		ck.memoCrash[id] = memo
	}
	// The store as the pair (destination, legacy file).
	return ck.pairBoundary(at, absent)
}

var injectableCalls = map[string]bool{"openat": true, "write": true, "pwrite64": true, "fsync": true, "fdatasync": true,
	"fchmod": true, "fchmodat": true, "close": true, "rename": true, "renameat": true, "renameat2": true, "ftruncate": true}

// replay feeds the run's trace through the model with all checks.
func (ck *checker) replay(init map[string][]byte) error {
	r := ck.r
	initial := map[string][]byte{}
	for rel, data := range init {
		initial[filepath.Join(r.work, rel)] = data
	}
	ck.disk = crashfs.NewDisk(r.roots, initial)
	ck.disk.Content = ck.content
	ck.disk.Capture = r.capture
	ck.written = map[[2]int][][2]int64{}
	ck.memoCrash = map[int][2]int{}
	ck.memoView = [2]int{-1, -1}
	ck.prev = ck.versions[0]
	otherTid := false
	seq := 0 // number of the syscall among those that concern the watched tree

	for i, ev := range r.trace.Events {
		eff, err := ck.disk.Apply(i, ev, r.norm)
		if err != nil {
			return err
		}
		if eff.Marker != "" {
			switch {
			case strings.HasPrefix(eff.Marker, "save-begin-"):
				k, _ := strconv.Atoi(strings.TrimPrefix(eff.Marker, "save-begin-"))
				if k != ck.curSave+1 || k >= len(ck.versions) {
					return fmt.Errorf("harness: unexpected marker %q", eff.Marker)
				}
				ck.curSave, ck.inSave = k, true
				absent, data, _ := ck.destView()
				ck.prev = version{absent: absent, data: data}
				if ck.sc.Saves[k-1].Op == "overlap" {
					if r.result == nil || k-1 >= len(r.result.Saves) {
						return fmt.Errorf("harness: no helper result for the overlapping save (exit %d, stderr %q)", r.exitCode, r.stderr)
					}
					muts := r.result.Saves[k-1].Muts
					if ck.candCache != nil && *ck.candCache != nil {
						ck.ovCands = *ck.candCache
					} else {
						ck.ovCands, err = leaseCandidates(ck.prev, muts)
						if err != nil {
							return err
						}
						if ck.candCache != nil {
							*ck.candCache = ck.ovCands
						}
					}
					ck.evf("%s save %d (overlap) begins; destination %s; %d leases added at the same time, %d candidate tables", ck.label, k, ck.prev, len(muts), len(ck.ovCands))
					// From here on the order of events is up to the scheduler.
					ck.quiet = true
					ck.c.Probe("overlapping_saves")
					continue
				}
				ck.evf("%s save %d (%s) begins; destination %s; new version %s", ck.label, k, ck.sc.Saves[k-1].Op, ck.prev, ck.versions[k])
			case strings.HasPrefix(eff.Marker, "save-end-"):
				if err = ck.saveEnd(); err != nil {
					return err
				}
			}
			continue
		}
		if ev.Injected {
			ck.injSeen++
			ck.injSave = ck.curSave
			if !ck.inSave || ck.injected == nil || ev.Name != ck.injected.call || ev.Ord != ck.injected.ord {
				return fmt.Errorf("harness: injected error landed on an unplanned call: %s (ord %d, in save: %v)", ev, ev.Ord, ck.inSave)
			}
			ck.c.Fault("inject_" + ck.injected.errno)
			ck.c.Probe("inject_on_" + probeCall(ev.Name))
		}
		if eff.Desc == "" {
			continue
		}
		if ev.Tid != r.trace.MainTid {
			// Another thread of the helper (baseline runs trace all of them).
			// Where its calls fall between the main thread's is up to the
			// scheduler, so they stay out of the event log unless they change
			// the model - which the real save paths never do (the runtime's
			// finalizer thread closing a forgotten descriptor is the only
			// thing seen here).
			if !eff.Touched {
				continue
			}
			if !ck.inOverlap() {
				otherTid = true
			} else if strings.HasPrefix(eff.Desc, "rename ") && ev.Errno == "" && strings.Contains(eff.Desc, "-> "+r.norm(ck.dest)+" ") {
				ck.ovRenames++
			}
		}
		seq++
		ck.logf("%s #%d %s", ck.label, seq, eff.Desc)
		if ck.inSave && ck.baseline && ev.Tid == r.trace.MainTid && injectableCalls[ev.Name] && ev.Errno == "" {
			ck.inj = append(ck.inj, injectable{save: ck.curSave - 1, call: ev.Name, ord: ev.Ord, desc: eff.Desc})
		}
		if strings.HasPrefix(eff.Desc, "rename ") && ev.Errno == "" && strings.Contains(eff.Desc, "-> "+r.norm(ck.dest)+" ") {
			ck.destEver = true
			if strings.Contains(eff.Desc, "rename $TMP/") {
				ck.c.Probe("temp_in_tmpdir")
			} else {
				ck.c.Probe("temp_next_to_dest")
			}
		}
		if err = ck.boundary(seq); err != nil {
			return err
		}
	}
	if otherTid {
		ck.c.Probe("save_syscalls_on_other_thread")
		if ck.baseline {
			// Injection runs trace the main thread only.
			ck.inj = nil
		}
	}
	return nil
}

func probeCall(name string) string {
	switch name {
	case "openat":
		return "open"
	case "rename", "renameat", "renameat2":
		return "rename"
	case "fdatasync":
		return "fsync"
	case "pwrite64":
		return "write"
	case "fchmodat":
		return "fchmod"
	}
	return name
}

func (ck *checker) saveEnd() error {
	k := ck.curSave
	ck.inSave = false
	absent, data, _ := ck.destView()
	var sr SaveResult
	if ck.r.result != nil && k-1 < len(ck.r.result.Saves) {
		sr = ck.r.result.Saves[k-1]
	} else {
		return fmt.Errorf("harness: no helper result for save %d (exit %d, stderr %q)", k, ck.r.exitCode, ck.r.stderr)
	}
	if ck.sc.Saves[k-1].Op == "overlap" {
		// Which of the concurrent saves renamed last is up to the scheduler
		// (and strace may report two renames that finished within
		// microseconds in either order): the helper's reading only has to be
		// one of the complete candidates, like everything seen on the way.
		if !ck.matchOverlap(ck.r.after[k-1].absent, ck.r.after[k-1].data) {
			return kernel.Violationf("torn-overlapping-saves", "%s: after the overlapping saves (save %d) the destination reads as %s, none of the complete candidates %v",
				ck.label, k, ck.r.after[k-1], ck.ovCands)
		}
		failed := 0
		for _, m := range sr.Muts {
			if m.Err != "" {
				failed++
			}
		}
		if failed > 0 || len(sr.Log) > 0 {
			ck.c.Probe("overlap_save_reported_failure")
		}
		if ck.ovRenames >= 2 {
			ck.c.Probe("overlap_two_renames_onto_dest")
		}
		absent2, data2, _ := ck.destView()
		ck.prev = version{absent: absent2, data: data2}
		ck.c.Step()
		return nil
	}
	if !sameVersion(ck.r.after[k-1], absent, data) {
		return fmt.Errorf("harness: model and helper disagree on the destination after save %d: model %s, helper %s",
			k, version{absent: absent, data: data}, ck.r.after[k-1])
	}
	isNew := sameVersion(ck.versions[k], absent, data)
	isOld := sameVersion(ck.prev, absent, data)
	outcome := "new"
	switch {
	case isNew && isOld:
		outcome = "unchanged(same content)"
		if ck.sc.Saves[k-1].Op == "refresh" {
			ck.c.Probe("save_without_change")
		}
	case isOld:
		outcome = "old"
	}
	ck.evf("%s save %d ends: destination %s; reported_failure=%v err=%q", ck.label, k, outcome, sr.Reported, ck.r.normText(sr.Err))
	faultHere := ck.injSave == k && ck.injSeen > 0
	switch {
	case isOld && !isNew && !sr.Reported:
		return kernel.Violationf("save-failure-not-reported",
			"%s: save %d (%s) left the previous version %s in place (new would be %s) and reported no failure (no error return, no error log line)",
			ck.label, k, ck.sc.Saves[k-1].Op, ck.prev, ck.versions[k])
	case isOld && !isNew && faultHere:
		ck.c.Probe("fault_dest_stays_old_failure_reported")
	case isNew && faultHere && sr.Reported:
		ck.c.Probe("fault_dest_new_failure_reported")
	case isNew && faultHere:
		ck.c.Probe("fault_tolerated_save_succeeded")
	}
	absent2, data2, _ := ck.destView()
	ck.prev = version{absent: absent2, data: data2}
	if ck.prev.absent {
		ck.c.Probe("dest_absent_after_save")
	}
	if err := ck.pairSaveEnd(k, absent2, data2); err != nil {
		return err
	}
	ck.c.Step()
	return nil
}

// finalCompare checks the model against the real directory tree the helper
// left behind: same files, same bytes.  A mismatch means the disk model (the
// trusted base) misread the trace: harness trouble, never a verdict.
func (ck *checker) finalCompare() error {
	real := map[string][]byte{}
	for _, root := range ck.r.roots {
		err := filepath.Walk(root, func(p string, fi os.FileInfo, err error) error {
			if err != nil {
				return err
			}
			if fi.Mode().IsRegular() {
				b, rerr := os.ReadFile(p)
				if rerr != nil {
					return rerr
				}
				real[p] = b
			}
			return nil
		})
		if err != nil {
			return fmt.Errorf("harness: walking %s: %w", root, err)
		}
	}
	model := ck.disk.Paths()
	for _, p := range model {
		ino, _ := ck.disk.Lookup(p)
		b, ok := real[p]
		if !ok {
			return fmt.Errorf("harness: model has %s, the real tree does not", ck.r.norm(p))
		}
		if !crashfs.Equal(b, ino.Cache) {
			if p == ck.dest && ck.inOverlap() && ck.matchOverlap(false, b) {
				// See saveEnd: the order of two near-simultaneous renames.
				delete(real, p)
				continue
			}
			return fmt.Errorf("harness: content of %s differs: model %s, real %s", ck.r.norm(p), describe(ino.Cache), describe(b))
		}
		delete(real, p)
	}
	for p := range real {
		return fmt.Errorf("harness: the real tree has %s, the model does not", ck.r.norm(p))
	}
	return nil
}

// Run executes one scenario.
func Run(t *testing.T, scAny any, c *kernel.Ctx) error {
	err := run(t, scAny, c)
	if _, ok := err.(*kernel.Violation); err != nil && !ok {
		// Harness trouble: say which case it was.
		raw, _ := json.Marshal(scAny)
		err = fmt.Errorf("%w; scenario=%s", err, raw)
	}
	return err
}

func run(t *testing.T, scAny any, c *kernel.Ctx) error {
	sc := scAny.(*Scenario)
	if len(sc.Saves) == 0 || len(sc.SubsetSeeds) == 0 {
		return nil
	}
	// The loaders run in this process; keep their chatter out of the worker log.
	stdlog.SetOutput(io.Discard)
	base, err := kernel.TempDir("c14")
	if err != nil {
		return err
	}
	defer os.RemoveAll(base)

	init := initialFiles(sc)
	c.Eventf("kind=%s tmp_same_fs=%v init=%s saves=%d", sc.Kind, sc.TmpSameFS, sc.Init, len(sc.Saves))

	// 1. Baseline run: no fault; defines the versions.
	r, err := runHelper(base, 0, sc, sc.Saves, init, nil)
	if r != nil {
		defer r.cleanup()
	}
	if err != nil {
		return err
	}
	if r.result == nil || r.exitCode != 0 || r.result.InitErr != "" || len(r.after) != len(sc.Saves) {
		initErr := ""
		if r.result != nil {
			initErr = r.result.InitErr
		}
		return fmt.Errorf("harness: baseline helper failed: exit=%d init_err=%q stderr=%q", r.exitCode, initErr, r.stderr)
	}
	destRel, _ := filepath.Rel(r.work, DestPath(sc.Kind, r.work))
	v0 := version{absent: true}
	if b, ok := init[destRel]; ok {
		v0 = version{data: b}
	} else {
		c.Probe("save_from_absent")
	}
	versions := append([]version{v0}, r.after...)
	var candCache []version
	var predData []byte
	if p := PredecessorPath(sc.Kind, sc.Init, r.work); p != "" {
		rel, _ := filepath.Rel(r.work, p)
		predData = init[rel]
	}
	ck := &checker{sc: sc, c: c, r: r, dest: DestPath(sc.Kind, r.work), versions: versions, baseline: true, label: "base", candCache: &candCache,
		pred: PredecessorPath(sc.Kind, sc.Init, r.work), predData: predData}
	if err = ck.replay(init); err != nil {
		return err
	}
	if err = ck.finalCompare(); err != nil {
		return err
	}
	if hasOverlap(sc.Saves) {
		// How the concurrent saves interleave is up to the scheduler: run
		// the same thing a few more times (not exactly replayable; the event
		// log only carries what does not depend on the schedule).
		for rep := 1; rep < overlapReps; rep++ {
			rr, rerr := runHelper(base, 1000+rep, sc, sc.Saves, init, nil)
			if rerr != nil {
				if rr != nil {
					rr.cleanup()
				}
				return rerr
			}
			if rr.result == nil || len(rr.after) != len(sc.Saves) {
				rr.cleanup()
				return fmt.Errorf("harness: repetition %d of the overlapping case failed: exit=%d stderr=%q", rep, rr.exitCode, rr.stderr)
			}
			vr := append([]version{v0}, rr.after...)
			ckr := &checker{sc: sc, c: c, r: rr, dest: DestPath(sc.Kind, rr.work), versions: vr, label: "base", mute: true, candCache: &candCache,
				pred: PredecessorPath(sc.Kind, sc.Init, rr.work), predData: predData}
			err = ckr.replay(init)
			if err == nil {
				err = ckr.finalCompare()
			}
			rr.cleanup()
			if err != nil {
				return err
			}
			c.Probe("overlap_repetition")
		}
		c.Eventf("overlapping saves: %d runs, the destination was a complete candidate table at every instant and in every crash state", overlapReps)
	}
	for k, s := range r.result.Saves {
		if s.Err != "" {
			c.Eventf("base save %d error: %s", k+1, r.normText(s.Err))
		}
		if !versions[k+1].absent {
			switch n := len(versions[k+1].data); {
			case n == 0:
				c.Probe("version_empty")
			case n >= 1<<20:
				c.Probe("version_ge_1MiB")
			}
		}
		switch sc.Saves[k].Op {
		case "upgrade":
			if !sameVersion(versions[k], versions[k+1].absent, versions[k+1].data) {
				c.Probe("upgrade_rewrote_config")
			}
		case "migrate":
			if !versions[k+1].absent {
				c.Probe("migrate_wrote_leases")
			}
		}
	}
	if len(sc.Saves) > 1 {
		c.Probe("multi_save")
	}
	if ck.destEver {
		c.Probe("dest_replaced_by_rename")
	}

	// 2. Error injection: re-run with one failing syscall each.
	plan := injectionPlan(sc, ck.inj)
	// Injected runs trace the main thread only: they leave out the (last)
	// overlapping save, whose syscalls come from other threads.
	injSaves := sc.Saves
	if hasOverlap(injSaves) {
		injSaves = injSaves[:len(injSaves)-1]
	}
	// Bound the cost of a case: an injected run costs about as much as the
	// baseline's main thread made syscalls (plus copying the initial files).
	mainCalls := 0
	for _, ev := range r.trace.Events {
		if ev.Tid == r.trace.MainTid {
			mainCalls++
		}
	}
	initBytes := 0
	for _, b := range init {
		initBytes += len(b)
	}
	for _, v := range versions {
		initBytes += len(v.data)
	}
	budget := 600_000
	if c.Tier == "thorough" {
		budget = 1_500_000
	}
	if maxRuns := budget / (mainCalls + initBytes/400 + 200); len(plan) > maxRuns {
		if maxRuns < 2 {
			maxRuns = 2
		}
		if len(plan) > maxRuns {
			c.Eventf("injection plan cut from %d to %d runs", len(plan), maxRuns)
			c.Probe("injection_plan_cut")
			cut := make([]plannedInject, 0, maxRuns)
			for i := 0; i < maxRuns; i++ {
				cut = append(cut, plan[i*len(plan)/maxRuns])
			}
			plan = cut
		}
	}
	for n, p := range plan {
		inj := &injectSpec{call: p.call, ord: p.ord, errno: p.errno}
		ri, rerr := runHelper(base, n+1, sc, injSaves, init, inj)
		if rerr != nil {
			if ri != nil {
				ri.cleanup()
			}
			return rerr
		}
		// Up to and including the save that is hit, the helper is in the same
		// state as in the baseline run, so that save is meant to write the
		// baseline's version.  Later saves start from a state that may differ
		// (e.g. the migration did not happen); like in the baseline run, what
		// such a fault-free save is meant to write is what it left behind.
		vi := append([]version(nil), versions...)
		for k := p.save + 1; k < len(sc.Saves) && k < len(ri.after); k++ {
			vi[k+1] = ri.after[k]
		}
		cki := &checker{sc: sc, c: c, r: ri, dest: DestPath(sc.Kind, ri.work), versions: vi, injected: inj,
			pred: PredecessorPath(sc.Kind, sc.Init, ri.work), predData: predData,
			label: fmt.Sprintf("inj[%s#%d:%s]", p.call, p.nth, p.errno)}
		c.Eventf("inject %s into save %d: %s", p.errno, p.save+1, p.desc)
		err = cki.replay(init)
		if err == nil {
			switch {
			case cki.injSeen != 1:
				err = fmt.Errorf("harness: %d injected errors seen in the trace, want 1 (%s ord %d)", cki.injSeen, p.call, p.ord)
			case ri.result == nil:
				err = kernel.Violationf("save-dies-on-io-error", "%s: the process died (exit %d) after %s on %s: %s", cki.label, ri.exitCode, p.errno, p.desc, tail(ri.stderr, 1500))
			default:
				err = cki.finalCompare()
			}
		}
		ri.cleanup()
		if err != nil {
			return err
		}
	}
	return nil
}

func tail(s string, n int) string {
	if len(s) > n {
		return s[len(s)-n:]
	}
	return s
}

// overlapReps is how often the baseline of a case with overlapping saves runs.
const overlapReps = 8

// maxWhen is the largest ordinal strace's inject=...:when= accepts.
const maxWhen = 65535

type plannedInject struct {
	injectable
	errno string
	nth   int
}

// injectionPlan chooses the syscalls to fail.
func injectionPlan(sc *Scenario, inj []injectable) []plannedInject {
	bySave := map[int][]injectable{}
	for _, x := range inj {
		bySave[x.save] = append(bySave[x.save], x)
	}
	var plan []plannedInject
	seen := map[string]bool{}
	add := func(x injectable, nth int, errno string) {
		k := x.call + "/" + strconv.Itoa(x.ord)
		if seen[k] || x.ord > maxWhen {
			return
		}
		seen[k] = true
		plan = append(plan, plannedInject{injectable: x, errno: errno, nth: nth})
	}
	if sc.InjectAll {
		for s := range sc.Saves {
			var l []injectable
			for _, x := range bySave[s] {
				if x.ord <= maxWhen {
					l = append(l, x)
				}
			}
			writes := 0
			for _, x := range l {
				if x.call == "write" {
					writes++
				}
			}
			wi := 0
			for i, x := range l {
				errno := []string{"ENOSPC", "EIO", "ENOSPC", "EIO", "ENOSPC", "EIO", "EINTR"}[(i+s)%7]
				if x.call == "write" {
					wi++
					// First, second, middle and last write of a long run.
					if writes > 6 && wi != 1 && wi != 2 && wi != writes/2 && wi != writes {
						continue
					}
					errno = "ENOSPC"
				}
				add(x, i, errno)
			}
		}
		return plan
	}
	for _, p := range sc.Inject {
		l := bySave[p.Save]
		// strace's when= takes at most 65535.
		for len(l) > 0 && l[len(l)-1].ord > maxWhen {
			l = l[:len(l)-1]
		}
		if len(l) == 0 {
			continue
		}
		i := p.Idx % len(l)
		add(l[i], i, p.Errno)
	}
	return plan
}

func nonTrivial(scAny any, c *kernel.Ctx) bool {
	return c.Probes["dest_replaced_by_rename"] > 0 && c.Faults["power_loss_boundary"] > 0 && c.Faults["crash_state"] > 0
}

// Prop is the registration of C14.
var Prop = &kernel.Property{
	ID:    "C14",
	Level: "fault_enumeration",
	Rule: "A case = one kind of file (config / lease DB / filter list), an initial file (absent, present, legacy format), 1-4 successive saves " +
		"with sizes from 0 B up (tens of MB in the thorough tier), executed by the real code in a helper process under strace. " +
		"Every syscall boundary of the trace is a crash point (all enumerated); per crash point the un-synced 4 KiB blocks persist as " +
		"none / all / prefixes / last-only / seeded random subsets and the directory operations as every prefix of the issued ones. " +
		"For the lease DB the last save of a case may be an 'overlap' (2-3 static leases added at the same time from separate goroutines, traced with strace -f and write payloads, run 8 times): " +
		"the acceptable complete versions are then the previous table plus any subset of the added leases, each serialised by the real code. " +
		"Error injection re-runs the helper with ENOSPC/EIO on chosen (InjectAll: all) open/write/fsync/fchmod/close/rename calls of the saves. " +
		"Non-trivial = the destination was replaced by a rename at least once and at least one crash state was materialised and compared.",
	Gen:        Gen,
	New:        func() any { return &Scenario{} },
	Run:        Run,
	NonTrivial: nonTrivial,
	Real: []string{
		"home.(*configuration).write and parseConfig's upgrade-and-write-back (through verif_hooks_crashfs.go), configmigrate",
		"dhcpd.Create / migrateDB / AddStaticLease / RemoveStaticLease -> dbStore -> writeDB, dbLoad",
		"filtering.New + POST /control/filtering/refresh -> refreshFiltersIntl -> update -> updateIntl -> finalizeUpdate, rulelist.Parser",
		"aghrenameio, github.com/google/renameio/v2 (+maybe), package os, the Go runtime's real syscalls, the Linux kernel's tmpfs",
	},
	Stub: []string{
		"the disk: a model (crashfs) replaying the strace syscall stream; file contents are reconstructed from the stored versions, not captured",
		"the list server: an http.RoundTripper returning the generated body",
		"power loss: enumerated on the model, not by cutting power",
	},
	Assumptions: []string{
		"disk model (trusted base): data is durable only after fsync/fdatasync of that file; until then any subset of its 4 KiB blocks and truncations may be on disk; directory operations become durable in issue order, at or after the call, never before; rename is atomic",
		"a power loss may leave a complete version OLDER than the previous one (the rename of an earlier save is not durable until the directory is synced, which the code never does); this is counted (probe stale_version_state) and not treated as a violation, because the statement is about atomicity, not durability",
		"the content of a write(fd, n) at offset o is newVersion[o:o+n]; the model is compared byte-for-byte with the real tree at the end of every run, and overlapping writes within a save are refused",
		"syscall error injection is strace's: the call is not executed and returns the error; partial writes are not injected",
		"overlapping saves are real concurrency: which interleavings occur is up to the OS scheduler (8 runs per case), a violation found there is re-found by re-running, not by exact replay; the event log of that phase carries only schedule-independent lines",
		"sizes: quick up to 2 MiB, thorough up to 32 MiB (configuration 8 MiB)",
	},
	FaultKinds: []string{"power_loss_boundary", "crash_state", "inject_ENOSPC", "inject_EIO", "inject_EINTR"},
	ProbeNames: []string{
		"temp_in_tmpdir", "temp_next_to_dest", "save_from_absent", "multi_save", "dest_replaced_by_rename",
		"version_empty", "version_ge_1MiB", "upgrade_rewrote_config", "migrate_wrote_leases", "save_without_change",
		"stale_version_state", "loader_ran",
		"inject_on_open", "inject_on_write", "inject_on_fsync", "inject_on_fchmod", "inject_on_close", "inject_on_rename",
		"fault_dest_stays_old_failure_reported", "fault_dest_new_failure_reported", "fault_tolerated_save_succeeded",
		"dest_absent_after_save", "overlapping_saves", "overlap_two_renames_onto_dest",
		"legacy_pair_checked", "second_start_from_legacy", "migration_failed_legacy_kept",
	},
}
