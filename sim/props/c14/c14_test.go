package c14

import (
	"os"
	"runtime"
	"testing"

	"github.com/AdguardTeam/AdGuardHome/verifsim/kernel"
)

// In helper mode the main goroutine is pinned to the process's main thread
// before anything else runs, so that every syscall of the saves comes from one
// tracee in program order (strace counts injection points per tracee).
func init() {
	if os.Getenv(HelperEnv) != "" {
		runtime.LockOSThread()
	}
}

// TestMain runs the save helper instead of the tests when the binary was
// re-executed by the parent under strace (it runs on the main goroutine).
func TestMain(m *testing.M) {
	if spec := os.Getenv(HelperEnv); spec != "" {
		os.Exit(HelperMain(spec))
	}
	os.Exit(m.Run())
}

func TestProp(t *testing.T) {
	kernel.Main(t, map[string]*kernel.Property{"C14": Prop})
}
