package c14

import (
	"fmt"
	"os"
	"path/filepath"

	"github.com/AdguardTeam/AdGuardHome/internal/dhcpd"
	"github.com/AdguardTeam/AdGuardHome/verifsim/crashfs"
	"github.com/AdguardTeam/AdGuardHome/verifsim/kernel"
)

// A store whose previous version lives under ANOTHER path (the lease database
// of an installation that still has the legacy <workdir>/leases.db) is judged
// as the pair of files: until the destination holds a complete new version,
// the predecessor file IS the previous version of the store and has to be
// there, complete - at every instant, in every power-loss state, and after a
// save that failed.  A start from such a state then has to load what the
// successful migration loads.

// PredecessorPath returns the file that holds the previous version of the
// store of the given kind while the destination does not exist yet ("" when
// the previous version lives at the destination itself).
func PredecessorPath(kind, init, workDir string) string {
	if kind == "leases" && init == "legacy" {
		return filepath.Join(workDir, "leases.db")
	}
	return ""
}

// predState is the state of the predecessor file in one view.
func (ck *checker) predComplete(ino *crashfs.Inode) bool {
	if ino == nil {
		return false
	}
	// Nothing un-synced may be needed for it to be complete.
	return crashfs.Equal(ino.Cache, ck.predData) && crashfs.Equal(ino.Durable, ck.predData)
}

// pairBoundary is the part of checks (a) and (b) that concerns the pair
// (destination, predecessor); boundary has already established that the
// destination itself is absent or complete in every view.
func (ck *checker) pairBoundary(at int, destAbsent bool) error {
	if ck.pred == "" {
		return nil
	}
	pino, _ := ck.disk.Lookup(ck.pred)
	pgen := -1
	if pino != nil {
		pgen = pino.ID<<20 ^ pino.Gen
	}
	da := 0
	if destAbsent {
		da = 1
	}
	key := [3]int{ck.disk.NsGen, pgen, da}
	if ck.memoPair != nil && *ck.memoPair == key {
		return nil
	}
	ck.c.Probe("legacy_pair_checked")
	// (a) concurrent reader / restart after SIGKILL.
	if destAbsent && !ck.predComplete(pino) {
		what := "is gone"
		if pino != nil {
			what = "reads as " + describe(pino.Cache)
		}
		return kernel.Violationf("legacy-db-lost",
			"%s: after syscall #%d (save %d) the destination does not exist (no complete new version) and the legacy file %s %s: neither the complete previous (%s) nor the complete new version of the store exists",
			ck.label, at, ck.curSave, ck.r.norm(ck.pred), what, describe(ck.predData))
	}
	// (b) power loss now: every durable prefix of the directory operations.
	for _, tup := range ck.disk.CandidateTuples(ck.dest, ck.pred) {
		destID, predID := tup[0], tup[1]
		var p *crashfs.Inode
		if predID >= 0 {
			p = ck.disk.Inode(predID)
		}
		if destID < 0 && !ck.predComplete(p) {
			what := "is gone"
			if p != nil {
				what = "may hold " + describe(p.Durable)
			}
			return kernel.Violationf("legacy-db-lost-after-power-loss",
				"%s: power loss after syscall #%d (save %d): the destination may not exist while the legacy file %s %s: neither version of the store (previous: %s) survives",
				ck.label, at, ck.curSave, ck.r.norm(ck.pred), what, describe(ck.predData))
		}
		if p == nil || !ck.predComplete(p) {
			continue
		}
		// A start from this state: the legacy file is (still) there.
		if destID < 0 {
			if !ck.secondSeen[0] {
				ck.secondSeen[0] = true
				if err := ck.secondStart(fmt.Sprintf("power loss after syscall #%d", at), true, nil); err != nil {
					return err
				}
			}
		} else if d := ck.disk.Inode(destID); !ck.secondSeen[1] && d.PendingOps() == 0 && len(ck.versions) > 1 && sameVersion(ck.versions[1], false, d.Durable) {
			ck.secondSeen[1] = true
			if err := ck.secondStart(fmt.Sprintf("power loss after syscall #%d", at), false, d.Durable); err != nil {
				return err
			}
		}
	}
	if ck.memoPair == nil {
		ck.memoPair = new([3]int)
	}
	*ck.memoPair = key
	return nil
}

// migrated returns what the real loader loads from the version the migration
// writes when nothing fails (the baseline's first version).
func (ck *checker) migrated() (string, bool, error) {
	if ck.migSummary != "" {
		return ck.migSummary, true, nil
	}
	if len(ck.versions) < 2 || ck.versions[1].absent || len(ck.versions[1].data) > 2<<20 {
		return "", false, nil
	}
	s, err := loadSummary(ck.sc.Kind, ck.versions[1].data)
	if err != nil {
		return "", false, fmt.Errorf("harness: loading the baseline's migrated version: %w", err)
	}
	ck.migSummary = s
	return s, true, nil
}

// secondStart starts the real server on a copy of a state in which the
// legacy file is complete and the destination is absent or complete: the
// (retried) migration has to succeed and to load what the undisturbed
// migration loads.
func (ck *checker) secondStart(when string, destAbsent bool, dest []byte) error {
	if ck.sc.Kind != "leases" || len(ck.predData)+len(dest) > 2<<20 {
		return nil
	}
	want, ok, err := ck.migrated()
	if err != nil || !ok {
		return err
	}
	ck.secondN++
	dir, err := kernel.TempDir("c14-second")
	if err != nil {
		return fmt.Errorf("harness: %w", err)
	}
	defer os.RemoveAll(dir)
	if err = os.MkdirAll(filepath.Join(dir, "data"), 0o755); err != nil {
		return fmt.Errorf("harness: %w", err)
	}
	if err = os.WriteFile(filepath.Join(dir, "leases.db"), ck.predData, 0o644); err != nil {
		return fmt.Errorf("harness: %w", err)
	}
	state := "no destination"
	if !destAbsent {
		state = "destination " + describe(dest)
		if err = os.WriteFile(filepath.Join(dir, "data", "leases.json"), dest, 0o644); err != nil {
			return fmt.Errorf("harness: %w", err)
		}
	}
	s, err := dhcpd.Create(DHCPConf(dir))
	if err != nil {
		return kernel.Violationf("start-fails-after-interrupted-migration",
			"%s: %s left the complete legacy file and %s; the next start fails: %v", ck.label, when, state, err)
	}
	got := fmt.Sprintf("leases=%d", len(s.Leases()))
	if got != want {
		return kernel.Violationf("leases-lost-after-interrupted-migration",
			"%s: %s left the complete legacy file and %s; the next start loads %s, the undisturbed migration loads %s",
			ck.label, when, state, got, want)
	}
	if _, err = os.Stat(filepath.Join(dir, "data", "leases.json")); err != nil {
		return kernel.Violationf("leases-lost-after-interrupted-migration",
			"%s: %s left the complete legacy file and %s; the next start leaves no lease database behind: %v",
			ck.label, when, state, err)
	}
	ck.c.Probe("second_start_from_legacy")
	ck.logf("  second start (legacy file + %s): %s", state, got)
	return nil
}

// pairSaveEnd runs after a save: a save that left the legacy file in place
// (a migration that failed) is followed by a second start on a copy of the
// state it left.
func (ck *checker) pairSaveEnd(k int, destAbsent bool, dest []byte) error {
	if ck.pred == "" {
		return nil
	}
	pino, ok := ck.disk.Lookup(ck.pred)
	if !ok || !ck.predComplete(pino) {
		return nil
	}
	if !destAbsent && !(len(ck.versions) > 1 && sameVersion(ck.versions[1], false, dest)) {
		// A later version next to the legacy file: what a start makes of that
		// is not a question of atomicity.
		return nil
	}
	if ck.injSave == k && ck.injSeen > 0 {
		ck.c.Probe("migration_failed_legacy_kept")
	}
	return ck.secondStart(fmt.Sprintf("save %d (%s)", k, ck.sc.Saves[k-1].Op), destAbsent, dest)
}
