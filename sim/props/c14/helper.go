package c14

import (
	"bytes"
	"encoding/json"
	"fmt"
	"io"
	stdlog "log"
	"log/slog"
	"net"
	"net/http"
	"net/netip"
	"os"
	"path/filepath"
	"strconv"
	"strings"
	"sync"
	"syscall"

	"github.com/AdguardTeam/AdGuardHome/internal/dhcpd"
	"github.com/AdguardTeam/AdGuardHome/internal/filtering"
	"github.com/AdguardTeam/AdGuardHome/internal/home"
	"github.com/AdguardTeam/AdGuardHome/verifsim/crashfs"
	"github.com/AdguardTeam/AdGuardHome/verifsim/env"
)

// HelperEnv names the environment variable that turns the test binary into
// the save helper (see TestMain); its value is the path of the spec file.
const HelperEnv = "VERIF_C14_HELPER"

// HelperSpec is what the parent tells the helper process.
type HelperSpec struct {
	Kind    string `json:"kind"`
	WorkDir string `json:"work_dir"`
	OutDir  string `json:"out_dir"`
	Saves   []Save `json:"saves"`
}

// SaveResult is what the helper reports about one save.
type SaveResult struct {
	// Err is the error the save call returned ("" if none).
	Err string `json:"err,omitempty"`
	// Reported is true when the failure of the save was observable by the
	// caller or the operator: an error return, an error line in the log, or
	// (filter refresh) an "updated" count of zero.
	Reported bool `json:"reported"`
	// Absent is true when the destination did not exist after the save;
	// otherwise its bytes are in OutDir/after-<k>.
	Absent bool `json:"absent,omitempty"`
	// Log holds the error-level log lines of the save.
	Log []string `json:"log,omitempty"`
	// Note carries save-specific details (e.g. the refresh response).
	Note string `json:"note,omitempty"`
	// Muts lists the static-lease changes an "overlap" save issued at the
	// same time from separate goroutines.
	Muts []Mut `json:"muts,omitempty"`
}

// Mut is one static-lease change of an overlapping save.
type Mut struct {
	Route string `json:"route"` // add_static_lease
	N     int    `json:"n"`     // number of the generated lease
	Host  string `json:"host"`
	Err   string `json:"err,omitempty"`
}

// OverlapHostLens returns the hostname lengths of the k leases an overlap
// save adds (pairwise different).
func OverlapHostLens(base, k int) []int {
	if base < 14 {
		// Long enough for the name to carry the number of the lease, i.e. to
		// be unique in the table.
		base = 14
	}
	if base > 190 {
		base = 190
	}
	return []int{base, base + 1, base + 3, base + 7}[:k]
}

// lockedWriter serialises writers of the in-memory log.
type lockedWriter struct {
	mu sync.Mutex
	w  io.Writer
}

func (l *lockedWriter) Write(b []byte) (int, error) {
	l.mu.Lock()
	defer l.mu.Unlock()
	return l.w.Write(b)
}

// LeaseBody is the request body of the static-lease handlers for the n-th
// generated lease.
func LeaseBody(n int, host string) []byte {
	ip, mac := LeaseAddr(n)
	body, _ := json.Marshal(map[string]string{"mac": mac.String(), "ip": ip.String(), "hostname": host})
	return body
}

// HelperResult is written to OutDir/result.json.
type HelperResult struct {
	InitErr string       `json:"init_err,omitempty"`
	Saves   []SaveResult `json:"saves"`
}

// DestPath returns the file whose replacement is checked for kind.
func DestPath(kind, workDir string) string {
	switch kind {
	case "config":
		return filepath.Join(workDir, "AdGuardHome.yaml")
	case "leases":
		return filepath.Join(workDir, "data", "leases.json")
	default:
		return filepath.Join(workDir, "data", "filters", "1.txt")
	}
}

// marker leaves a recognisable line in the syscall trace.
func marker(text string) {
	fd, err := syscall.Open(crashfs.MarkerDir+"/"+text, syscall.O_RDONLY, 0)
	if err == nil {
		_ = syscall.Close(fd)
	}
}

// item returns the i-th content item (rule / host label material) of a save:
// a deterministic string of exactly n bytes (n >= 1) over [a-z0-9].
func item(seed, i, n int) string {
	head := "s" + strconv.Itoa(seed) + "i" + strconv.Itoa(i) + "x"
	if len(head) >= n {
		return head[:n]
	}
	b := make([]byte, n)
	copy(b, head)
	x := uint32(seed)*2654435761 + uint32(i)*40503 + 12345
	const alpha = "abcdefghijklmnopqrstuvwxyz0123456789"
	for j := len(head); j < n; j++ {
		x = x*1664525 + 1013904223
		b[j] = alpha[(x>>16)%uint32(len(alpha))]
	}
	return string(b)
}

// Rule returns the i-th filtering rule of a save with the given item length.
func Rule(seed, i, n int) string {
	if n < 8 {
		n = 8
	}
	return "||" + item(seed, i, n-7) + ".test^"
}

// HostName returns a valid hostname of about n bytes built from item.
func HostName(seed, i, n int) string {
	if n < 1 {
		n = 1
	}
	if n > 200 {
		n = 200
	}
	s := item(seed, i, n)
	var labels []string
	for len(s) > 60 {
		labels = append(labels, s[:60])
		s = s[60:]
	}
	// The last label must not be all digits (it would be taken for a numeric
	// top-level domain and refused).
	if strings.Trim(s, "0123456789") == "" {
		s = "h" + s[1:]
	}
	labels = append(labels, s)
	return strings.Join(labels, ".")
}

// LeaseAddr returns the address and MAC of the n-th generated lease.
func LeaseAddr(n int) (netip.Addr, net.HardwareAddr) {
	n += 1 << 16 // keep clear of the gateway and the dynamic range
	ip := netip.AddrFrom4([4]byte{10, byte(n >> 16), byte(n >> 8), byte(n)})
	mac := net.HardwareAddr{0x02, 0x00, byte(n >> 24), byte(n >> 16), byte(n >> 8), byte(n)}
	return ip, mac
}

// FilterBody is the list-server response for a refresh save.
func FilterBody(s Save) []byte {
	var b bytes.Buffer
	b.WriteString("! Title: list " + strconv.Itoa(s.Seed) + "\n! a comment\n\n")
	for i := 0; i < s.N; i++ {
		b.WriteString(Rule(s.Seed, i, s.Len))
		b.WriteByte('\n')
	}
	return b.Bytes()
}

// UserRules is the custom-rule list for a config write save.
func UserRules(s Save) []string {
	rules := make([]string, s.N)
	for i := range rules {
		rules[i] = Rule(s.Seed, i, s.Len)
	}
	return rules
}

// DHCPConf returns the server configuration both the helper and the loader use.
func DHCPConf(workDir string) *dhcpd.ServerConfig {
	return &dhcpd.ServerConfig{
		ConfigModified: func() {},
		Enabled:        true,
		InterfaceName:  "verif0",
		Conf4: dhcpd.V4ServerConf{
			GatewayIP:     netip.MustParseAddr("10.0.0.1"),
			SubnetMask:    netip.MustParseAddr("255.0.0.0"),
			RangeStart:    netip.MustParseAddr("10.0.0.10"),
			RangeEnd:      netip.MustParseAddr("10.0.0.200"),
			LeaseDuration: 3600,
		},
		WorkDir: workDir,
		DataDir: filepath.Join(workDir, "data"),
	}
}

type listServer struct{ body []byte }

func (l *listServer) RoundTrip(r *http.Request) (*http.Response, error) {
	return &http.Response{
		StatusCode:    http.StatusOK,
		Status:        "200 OK",
		Proto:         "HTTP/1.1",
		ProtoMajor:    1,
		ProtoMinor:    1,
		Header:        http.Header{"Content-Type": []string{"text/plain"}},
		Body:          io.NopCloser(bytes.NewReader(l.body)),
		ContentLength: int64(len(l.body)),
		Request:       r,
	}, nil
}

// leaseCall adds or removes the n-th generated static lease through the real
// HTTP handler.
func leaseCall(mux *env.Mux, route string, n int, s Save, sr *SaveResult) error {
	code, resp, err := mux.Do(http.MethodPost, "/control/dhcp/"+route, LeaseBody(n, HostName(s.Seed, n, s.Len)))
	if err != nil {
		return err
	}
	sr.Note = fmt.Sprintf("%d %s", code, strings.TrimSpace(string(resp)))
	if code != http.StatusOK {
		return fmt.Errorf("%s: %d %s", route, code, strings.TrimSpace(string(resp)))
	}
	return nil
}

// errLines extracts the error-level lines from the captured log.
func errLines(buf *bytes.Buffer) []string {
	var out []string
	for _, l := range strings.Split(buf.String(), "\n") {
		if strings.Contains(l, "[error]") || strings.Contains(l, "level=ERROR") {
			if len(l) > 300 {
				l = l[:300]
			}
			out = append(out, l)
		}
	}
	buf.Reset()
	return out
}

// HelperMain runs in the traced child process: it performs the saves of the
// spec through the real code paths, one after the other, on the calling
// goroutine (which TestMain has locked to the process's main thread).
func HelperMain(specPath string) int {
	raw, err := os.ReadFile(specPath)
	if err != nil {
		fmt.Fprintln(os.Stderr, "helper: reading spec:", err)
		return 3
	}
	spec := &HelperSpec{}
	if err = json.Unmarshal(raw, spec); err != nil {
		fmt.Fprintln(os.Stderr, "helper: decoding spec:", err)
		return 3
	}

	// All log output goes to memory: no write(2) of the saving thread other
	// than the ones of the save itself and of the bookkeeping below.
	logBuf := &bytes.Buffer{}
	logW := &lockedWriter{w: logBuf}
	slog.SetDefault(slog.New(slog.NewTextHandler(logW, nil)))
	stdlog.SetOutput(logW)
	stdlog.SetFlags(0)

	res := &HelperResult{}
	dest := DestPath(spec.Kind, spec.WorkDir)

	var (
		flt    *filtering.DNSFilter
		mux    = env.NewMux()
		server = &listServer{}
		nLease = 1 << 20 // generated static leases start above the initial ones
		added  []Save
	)

	createDHCP := func() error {
		conf := DHCPConf(spec.WorkDir)
		conf.HTTPRegister = mux.Register
		_, cerr := dhcpd.Create(conf)
		return cerr
	}

	marker("init")
	switch spec.Kind {
	case "config":
		err = home.VerifCrashfsInit(spec.WorkDir)
	case "leases":
		if len(spec.Saves) == 0 || spec.Saves[0].Op != "migrate" {
			err = createDHCP()
		}
	case "filter":
		conf := &filtering.Config{
			DataDir:                    filepath.Join(spec.WorkDir, "data"),
			HTTPClient:                 &http.Client{Transport: server},
			HTTPRegister:               mux.Register,
			ConfigModified:             func() {},
			FilteringEnabled:           true,
			FiltersUpdateIntervalHours: 24,
			Filters: []filtering.FilterYAML{{
				Enabled: true,
				URL:     "http://lists.test/1.txt",
				Name:    "list one",
				Filter:  filtering.Filter{ID: 1},
			}},
		}
		flt, err = filtering.New(conf, nil)
		if err == nil {
			flt.RegisterFilteringHandlers()
		}
	default:
		err = fmt.Errorf("unknown kind %q", spec.Kind)
	}
	if err != nil {
		res.InitErr = err.Error()
	}
	logBuf.Reset()

	for k, s := range spec.Saves {
		if res.InitErr != "" {
			break
		}
		sr := SaveResult{}
		err = nil
		marker("save-begin-" + strconv.Itoa(k+1))
		switch s.Op {
		case "write":
			home.VerifCrashfsSetUserRules(UserRules(s))
			err = home.VerifCrashfsWriteConfig()
		case "upgrade":
			err = home.VerifCrashfsParseConfig()
		case "migrate":
			err = createDHCP()
		case "add":
			err = leaseCall(mux, "add_static_lease", nLease, s, &sr)
			added = append(added, s)
			nLease++
		case "remove":
			// Remove the most recently added generated lease, if any.
			if len(added) > 0 {
				nLease--
				err = leaseCall(mux, "remove_static_lease", nLease, added[len(added)-1], &sr)
				added = added[:len(added)-1]
			}
		case "overlap":
			// k static leases are added at the same time from k goroutines
			// (they run on other threads than this, pinned, one): each add
			// ends in its own dbStore -> writeDB, and the saves overlap.
			k := s.N
			if k < 2 {
				k = 2
			} else if k > 4 {
				k = 4
			}
			muts := make([]Mut, k)
			for i, hl := range OverlapHostLens(s.Len, k) {
				muts[i] = Mut{Route: "add_static_lease", N: nLease, Host: HostName(s.Seed, nLease, hl)}
				nLease++
			}
			start := make(chan struct{})
			wg := &sync.WaitGroup{}
			for i := range muts {
				wg.Add(1)
				go func() {
					defer wg.Done()
					m := &muts[i]
					<-start
					code, resp, derr := mux.Do(http.MethodPost, "/control/dhcp/"+m.Route, LeaseBody(m.N, m.Host))
					switch {
					case derr != nil:
						m.Err = derr.Error()
					case code != http.StatusOK:
						m.Err = fmt.Sprintf("%d %s", code, strings.TrimSpace(string(resp)))
					}
				}()
			}
			close(start)
			wg.Wait()
			sr.Muts = muts
			for _, m := range muts {
				if m.Err != "" {
					err = fmt.Errorf("%s #%d: %s", m.Route, m.N, m.Err)
				}
			}
		case "refresh":
			server.body = FilterBody(s)
			var code int
			var body []byte
			code, body, err = mux.Do(http.MethodPost, "/control/filtering/refresh", []byte(`{"whitelist":false}`))
			sr.Note = fmt.Sprintf("%d %s", code, strings.TrimSpace(string(body)))
			if err == nil && (code != http.StatusOK || !strings.Contains(string(body), `"updated":1`)) {
				sr.Reported = true
			}
		default:
			err = fmt.Errorf("unknown op %q", s.Op)
		}
		marker("save-end-" + strconv.Itoa(k+1))
		if err != nil {
			sr.Err = err.Error()
			sr.Reported = true
		}
		sr.Log = errLines(logBuf)
		if len(sr.Log) > 0 {
			sr.Reported = true
		}

		// Bookkeeping: keep the bytes of this version outside the watched tree.
		data, rerr := os.ReadFile(dest)
		switch {
		case os.IsNotExist(rerr):
			sr.Absent = true
		case rerr != nil:
			sr.Absent = true
			sr.Note += " read-error: " + rerr.Error()
		default:
			if werr := os.WriteFile(filepath.Join(spec.OutDir, "after-"+strconv.Itoa(k+1)), data, 0o644); werr != nil {
				fmt.Fprintln(os.Stderr, "helper: storing version:", werr)
				return 3
			}
		}
		res.Saves = append(res.Saves, sr)
	}
	marker("done")
	if flt != nil {
		flt.Close()
	}

	out, _ := json.Marshal(res)
	if err = os.WriteFile(filepath.Join(spec.OutDir, "result.json"), out, 0o644); err != nil {
		fmt.Fprintln(os.Stderr, "helper: writing result:", err)
		return 3
	}
	return 0
}
