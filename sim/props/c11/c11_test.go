package c11

import (
	"encoding/json"
	"fmt"
	"os"
	"path/filepath"
	"testing"

	"github.com/AdguardTeam/AdGuardHome/verifsim/kernel"
)

func TestProp(t *testing.T) {
	kernel.Main(t, map[string]*kernel.Property{"C11": Prop})
	markExhaustive()
}

// markExhaustive records in the worker's output that every case of this
// worker enumerated the complete finite product (thorough tier).  The kernel
// fills the worker's meta from Property fields only, so the flag
// coverage.exhaustive is added here, after the kernel has written the file.
func markExhaustive() {
	dir, w := os.Getenv("VERIF_OUT"), os.Getenv("VERIF_WORKER")
	if dir == "" || casesDone == 0 || exhaustiveDone != casesDone {
		return
	}
	if w == "" {
		w = "0"
	}
	p := filepath.Join(dir, fmt.Sprintf("worker-%s.json", w))
	b, err := os.ReadFile(p)
	if err != nil {
		return
	}
	var out map[string]any
	if json.Unmarshal(b, &out) != nil {
		return
	}
	meta, _ := out["meta"].(map[string]any)
	if meta == nil {
		return
	}
	meta["exhaustive"] = true
	meta["exhaustive_what"] = "every case ran the complete product routes x 9 path spellings x 8 methods x 6 content types x body/no body x 6 cookie states x 4 basic-credential states on the route set found on the real mux"
	if b, err = json.MarshalIndent(out, "", " "); err == nil {
		_ = os.WriteFile(p, b, 0o644)
	}
}
