package c11

import (
	"time"

	"golang.org/x/sys/unix"
)

func realNow() time.Time {
	var ts unix.Timespec
	_ = unix.ClockGettime(unix.CLOCK_MONOTONIC, &ts)
	return time.Unix(ts.Sec, ts.Nsec)
}
