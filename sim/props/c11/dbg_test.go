package c11

import (
	"os"
	"runtime/pprof"
	"testing"
	"testing/synctest"
	"time"

	"github.com/AdguardTeam/AdGuardHome/verifsim/homesim"
)

func TestDbg(t *testing.T) {
	if os.Getenv("C11_DBG") == "" {
		t.Skip()
	}
	synctest.Test(t, func(t *testing.T) {
		n, err := homesim.New(homesim.Conf{SessionTTL: 60, Attempts: 10, BlockDur: time.Minute, JustInstalled: true, Full: true})
		if err != nil {
			t.Fatal(err)
		}
		n.Close()
		synctest.Wait()
		pprof.Lookup("goroutine").WriteTo(os.Stdout, 1)
	})
}
