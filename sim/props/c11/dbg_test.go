package c11

import (
	"fmt"
	"os"
	"testing"
	"testing/synctest"
	"time"

	"github.com/AdguardTeam/AdGuardHome/verifsim/homesim"
)

func TestDbg(t *testing.T) {
	if os.Getenv("C11_DBG") == "" {
		t.Skip()
	}
	var t0, t1, t2, t3, t4 time.Time
	synctest.Test(t, func(t *testing.T) {
		t0 = realNow()
		n, err := homesim.New(homesim.Conf{SessionTTL: 60, Attempts: 10, BlockDur: time.Minute, JustInstalled: true, Full: true})
		if err != nil {
			t.Fatal(err)
		}
		t1 = realNow()
		for i := 0; i < 1000; i++ {
			_, _ = n.Do(&homesim.Req{Method: "GET", Target: "/control/status"})
		}
		t2 = realNow()
		for i := 0; i < 100; i++ {
			_, _ = n.H.StateDigest()
		}
		t3 = realNow()
		for i := 0; i < 100; i++ {
			_, _ = n.Do(&homesim.Req{Method: "GET", Target: "/control/status", BasicUser: "admin", BasicPass: "x"})
		}
		t4 = realNow()
		n.Close()
	})
	fmt.Println("assemble", t1.Sub(t0), "1000 req", t2.Sub(t1), "100 digests", t3.Sub(t2), "100 basic", t4.Sub(t3))
}
