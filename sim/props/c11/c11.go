// Package c11 decides property C11 (once an administrator exists, every admin
// endpoint runs its handler only for a valid session cookie or correct basic
// credentials; anything else is answered 403 or redirected to the login page
// with no side effect; state-changing endpoints accept only their declared
// method and a JSON content type; only the login call, the login page, static
// assets, the mobileconfig generators and the DoH resolver are public).
//
// The whole web part of a node is assembled by the real code (engine E5): the
// real mux filled by every package's real registration code through the real
// httpRegister wrapper.  The route set is discovered at run time (patterns on
// the real mux with the location of their registering call, cross-checked
// with a go/ast scan of the source and with mux.Handler), and each route is
// probed with the product of request shapes.
package c11

import (
	"fmt"
	"net/http"
	"net/http/httptest"
	"net/url"
	"path"
	"path/filepath"
	"sort"
	"strings"
	"sync"
	"testing"
	"time"

	"github.com/AdguardTeam/AdGuardHome/internal/home"
	"github.com/AdguardTeam/AdGuardHome/verifsim/homesim"
	"github.com/AdguardTeam/AdGuardHome/verifsim/kernel"
	"pgregory.net/rapid"
)

// Shape is one request shape (indices into the tables below).
type Shape struct {
	Method int `json:"m"`
	CT     int `json:"ct"`
	Body   int `json:"b"`
	Cookie int `json:"ck"`
	Basic  int `json:"ba"`
	Spell  int `json:"sp"`
}

// Scenario is one case.
type Scenario struct {
	JustInstalled bool  `json:"just_installed"`
	// FirstRun: the process is started without any user (first run) and the
	// administrator is created by the install wizard's configure step in the
	// same process, without a restart before the probing (implies the routes of
	// JustInstalled).
	FirstRun bool `json:"first_run,omitempty"`
	TTLs          int64 `json:"ttl_s"`
	// Restart: 0 none; 1 clean restart; 2 crash -- of the authentication module
	// between minting the cookies and probing.
	Restart int `json:"restart"`
	// Exhaustive runs the complete product of shapes on every route.
	Exhaustive bool `json:"exhaustive,omitempty"`
	// Route: <0 every route; otherwise the (Route mod #routes)-th route only.
	Route int `json:"route"`
	// Shapes are applied to each selected route (ignored when Exhaustive).
	Shapes []Shape `json:"shapes,omitempty"`
	// DigestEvery: the state digest is compared after this many requests.
	DigestEvery int `json:"digest_every"`
}

var (
	// methods[0] stands for "the declared method of the route".
	methods = []string{"", "GET", "POST", "PUT", "DELETE", "PATCH", "HEAD", "OPTIONS", "CONNECT"}
	ctypes  = []string{"", "application/json", "application/x-www-form-urlencoded", "text/plain", "application/json; charset=utf-8", "multipart/form-data; boundary=verif", "text/plain; application/json"}
	// A JSON value that no handler can decode into its request struct.
	bodies = [][]byte{nil, []byte(`"verif"`)}
)

// Cookie states.
const (
	ckNone = iota
	ckUnknown
	ckMalformed
	ckExpired
	ckLoggedOut
	ckValid
	nCookie
)

// Basic-credential states.
const (
	baNone = iota
	baWrongPassword
	baWrongUser
	baRight
	nBasic
)

var (
	cookieNames = []string{"none", "unknown", "malformed", "expired", "logged-out", "valid"}
	basicNames  = []string{"none", "wrong-password", "wrong-user", "right"}
	spellNames  = []string{"canonical", "leading-double-slash", "dot-segment", "dot-dot-detour", "trailing-slash", "upper-case", "percent-encoded", "inner-double-slash", "via-assets-dot-dot"}
)

const nSpell = 9

// spellTable makes the canonical spelling (the only one that reaches the
// route's own handler chain) about half of the sampled shapes.
var spellTable = []int{0, 4, 0, 6, 0, 5, 1, 0, 2, 0, 3, 0, 7, 0, 8, 0}

// spell returns the request target for pattern p in spelling k.
func spell(p string, k int) string {
	if p == "/" {
		return []string{"/", "//", "/./", "/x/..", "/index.html", "/INDEX.HTML", "/%69ndex.html", "//index.html", "/assets/.."}[k]
	}
	trail := strings.HasSuffix(p, "/")
	segs := strings.Split(strings.Trim(p, "/"), "/")
	join := func(s []string) string {
		out := "/" + strings.Join(s, "/")
		if trail {
			out += "/"
		}
		return out
	}
	last := len(segs) - 1
	switch k {
	case 1:
		return "/" + p
	case 2:
		return join(append([]string{segs[0], "."}, segs[1:]...))
	case 3:
		s := append([]string{}, segs[:last]...)
		return join(append(s, "x", "..", segs[last]))
	case 4:
		if trail {
			return strings.TrimSuffix(p, "/")
		}
		return p + "/"
	case 5:
		return strings.ToUpper(p)
	case 6:
		s := append([]string{}, segs...)
		w := s[last]
		s[last] = w[:len(w)-1] + fmt.Sprintf("%%%02x", w[len(w)-1])
		return join(s)
	case 7:
		if last == 0 {
			return "/" + p
		}
		s := append([]string{}, segs[:last]...)
		return join(append(s, "", segs[last]))
	case 8:
		return "/assets/.." + p
	}
	return p
}

// cleanPath is the canonical form net/http's mux redirects to.
func cleanPath(p string) string {
	if p == "" {
		return "/"
	}
	if p[0] != '/' {
		p = "/" + p
	}
	np := path.Clean(p)
	if p[len(p)-1] == '/' && np != "/" {
		np += "/"
	}
	return np
}

// isPublic is the whitelist of the statement: the login call, the login page
// and static assets, the mobileconfig generators and the DoH resolver.
func isPublic(p string) bool {
	if p == "/control/login" || p == "/dns-query" || strings.HasPrefix(p, "/dns-query/") || strings.HasPrefix(p, "/assets/") {
		return true
	}
	if strings.HasPrefix(p, "/login.") && !strings.Contains(p[1:], "/") {
		return true
	}
	ok, _ := path.Match("/apple/*.mobileconfig", p)
	return ok
}

// benignGET are read-only handlers that are allowed to run for valid
// credentials (positive control: valid credentials do get through).
var benignGET = map[string]bool{
	"/control/profile": true, "/control/i18n/current_language": true, "/control/rewrite/list": true,
	"/control/access/list": true, "/control/stats/config": true, "/control/querylog/config": true,
}

// route is one discovered route.
type route struct {
	Pattern string
	Loc     string
	Helper  bool
	// Method is the declared method ("" = unknown / none).
	Method string
	InSrc  bool
}

type discovery struct {
	src    []srcRoute
	helper helperRange
	err    error
}

var (
	discOnce sync.Once
	disc     discovery
	// exhaustiveDone counts cases that ran the complete product (see
	// c11_test.go).
	exhaustiveDone int
	casesDone      int
)

func internalDir() string { return filepath.Dir(home.VerifHomesimRepoDir()) }

func relLoc(loc string) string {
	root := filepath.Dir(internalDir())
	if rel, err := filepath.Rel(root, loc); err == nil && !strings.HasPrefix(rel, "..") {
		return rel
	}
	return loc
}

// discover builds the route list of the assembled node.
func discover(n *homesim.Node, c *kernel.Ctx, sc *Scenario) ([]route, error) {
	discOnce.Do(func() { disc.src, disc.helper, disc.err = scanSource(internalDir()) })
	if disc.err != nil {
		return nil, disc.err
	}
	pats, err := muxPatterns(n.H.Mux())
	if err != nil {
		return nil, err
	}
	srcByPath := map[string][]srcRoute{}
	for _, r := range disc.src {
		srcByPath[r.Path] = append(srcByPath[r.Path], r)
	}
	onMux := map[string]bool{}
	var routes []route
	for _, p := range pats {
		onMux[p.Pattern] = true
		if strings.ContainsAny(p.Pattern, " {") {
			return nil, fmt.Errorf("harness: pattern %q uses method/host/wildcard syntax the prober does not handle", p.Pattern)
		}
		r := route{Pattern: p.Pattern, Loc: p.Loc, Helper: disc.helper.viaHelper(p.Loc)}
		for _, s := range srcByPath[p.Pattern] {
			r.InSrc = true
			if r.Helper && s.Method != "-" && s.Method != "?" && s.Method != "" {
				if r.Method != "" && r.Method != s.Method {
					return nil, fmt.Errorf("harness: pattern %q declared with methods %s and %s in the source", p.Pattern, r.Method, s.Method)
				}
				r.Method = s.Method
			}
		}
		// (iii) confirm with the mux itself.
		req := httptest.NewRequest(http.MethodGet, p.Pattern, nil)
		if _, got := n.H.Mux().Handler(req); got != p.Pattern {
			return nil, fmt.Errorf("harness: mux.Handler(%q) matched pattern %q", p.Pattern, got)
		}
		switch {
		case !r.InSrc:
			c.Probe("route_on_mux_not_in_source_scan")
		case !r.Helper:
			c.Probe("route_registered_directly_on_mux")
		}
		routes = append(routes, r)
	}
	// Every registration the source scan found must be on the mux of the
	// assembled node, or routes would silently go unprobed.
	var missing []string
	for _, s := range disc.src {
		if onMux[s.Path] {
			continue
		}
		if !sc.JustInstalled && !sc.FirstRun && (strings.HasPrefix(s.Path, "/control/install/") || s.Path == "/install.html") {
			// First-run registrations do not exist in a restarted node.
			continue
		}
		missing = append(missing, fmt.Sprintf("%s (%s:%d %s)", s.Path, s.File, s.Line, s.Callee))
	}
	if len(missing) > 0 {
		return nil, fmt.Errorf("harness: routes registered in the source but not on the assembled mux: %s", strings.Join(missing, ", "))
	}
	sort.Slice(routes, func(i, j int) bool { return routes[i].Pattern < routes[j].Pattern })
	return routes, nil
}

// ---------------------------------------------------------------------------

type sim struct {
	sc     *Scenario
	c      *kernel.Ctx
	n      *homesim.Node
	routes []route
	// cookies by state.
	cookie   [nCookie]string
	digest0  string
	sinceChk []string
	nReq     int
}

const mintAddr = "198.51.100.9:4000"

func (s *sim) login() (string, error) {
	resp, err := s.n.Do(&homesim.Req{
		Method: http.MethodPost, Target: "/control/login", RemoteAddr: mintAddr, ContentType: "application/json",
		Body: []byte(fmt.Sprintf(`{"name":%q,"password":%q}`, homesim.User, homesim.Password)),
	})
	if err != nil {
		return "", err
	}
	if resp.Code != http.StatusOK || resp.SessionCookie == nil || resp.SessionCookie.Value == "" {
		return "", kernel.Violationf("login-failed", "POST /control/login with the right credentials answered %d", resp.Code)
	}
	return resp.SessionCookie.Value, nil
}

// mint creates the cookie states: an expired session (clock advanced past the
// TTL), a logged-out one and a valid one.
func (s *sim) mint() error {
	expired, err := s.login()
	if err != nil {
		return err
	}
	d := time.Duration(s.sc.TTLs+1) * time.Second
	time.Sleep(d)
	s.c.SimTime += d
	loggedOut, err := s.login()
	if err != nil {
		return err
	}
	resp, err := s.n.Do(&homesim.Req{Method: http.MethodGet, Target: "/control/logout", RemoteAddr: mintAddr, Cookie: loggedOut})
	if err != nil {
		return err
	}
	if resp.Code != http.StatusFound {
		return kernel.Violationf("logout-failed", "GET /control/logout with a fresh session answered %d", resp.Code)
	}
	valid, err := s.login()
	if err != nil {
		return err
	}
	s.cookie = [nCookie]string{"", "000102030405060708090a0b0c0d0e0f", "zz-not-hex", expired, loggedOut, valid}
	switch s.sc.Restart {
	case 1:
		if err = s.n.H.RestartAuth(true); err != nil {
			return fmt.Errorf("harness: restart: %w", err)
		}
		s.c.Fault("clean_restart")
	case 2:
		if err = s.n.H.RestartAuth(false); err != nil {
			return fmt.Errorf("harness: restart: %w", err)
		}
		s.c.Fault("process_crash")
	}
	s.c.Fault("clock_past_session_ttl")
	return nil
}

// install takes a node that was started on first run (no administrator)
// through the install wizard's configure step, in the same process.
func (s *sim) install() error {
	if !s.n.H.FirstRun() {
		return fmt.Errorf("harness: the node is not in first-run mode")
	}
	// Nothing is asserted before an administrator exists; the answer shows that
	// the process really is in first-run mode.
	resp, err := s.n.Do(&homesim.Req{Method: http.MethodGet, Target: "/control/status", RemoteAddr: mintAddr})
	if err != nil {
		if hp, ok := err.(*homesim.HandlerPanic); ok {
			return kernel.Violationf("handler-panic", "GET /control/status before the installation: %v", hp.Value)
		}
		return err
	}
	s.c.Eventf("first run: GET /control/status -> %d %s", resp.Code, locSuffix(resp.Location))
	if resp.Code == http.StatusFound && strings.HasSuffix(resp.Location, "install.html") {
		s.c.Probe("first_run_redirect_to_install")
	}
	if err = s.n.Install(); err != nil {
		return err
	}
	if s.n.H.FirstRun() {
		return fmt.Errorf("harness: the node is still in first-run mode after the install step")
	}
	s.c.Fault("install_in_process")
	s.c.Eventf("install step done: administrator created")
	return nil
}

func basicCreds(k int) (string, string) {
	switch k {
	case baWrongPassword:
		return homesim.User, "wrong-password"
	case baWrongUser:
		return "root", homesim.Password
	case baRight:
		return homesim.User, homesim.Password
	}
	return "", ""
}

// probe sends one shape to one route and judges the answer.
func (s *sim) probe(r *route, sh Shape) error {
	method := methods[sh.Method%len(methods)]
	if method == "" {
		method = r.Method
		if method == "" {
			method = http.MethodGet
		}
	}
	ct := ctypes[sh.CT%len(ctypes)]
	body := bodies[sh.Body%len(bodies)]
	ck := sh.Cookie % nCookie
	ba := sh.Basic % nBasic
	sp := sh.Spell % nSpell
	target := spell(r.Pattern, sp)

	u, err := url.ParseRequestURI(target)
	if err != nil {
		return fmt.Errorf("harness: bad target %q: %w", target, err)
	}
	raw := u.Path
	eff := cleanPath(raw)
	canonical := raw == eff
	redirected := !canonical && method != http.MethodConnect
	public := isPublic(eff)

	// Who is asking, according to the statement.
	authn := "no"
	switch {
	case ck == ckValid, ck == ckNone && ba == baRight:
		authn = "yes"
	case ba == baRight:
		// A dead cookie next to correct basic credentials: the statement
		// allows the handler to run, it does not require it.
		authn = "open"
		s.c.Probe("dead_cookie_with_right_basic")
	}

	// Which pattern the mux will dispatch to (only for a canonical path:
	// otherwise it redirects or, for CONNECT, matches the raw path, which
	// only the catch-all can take).
	hit := ""
	if canonical {
		for i := range s.routes {
			if s.routes[i].Pattern == eff {
				hit = eff
			}
		}
	}
	install := strings.HasPrefix(hit, "/control/install/") || hit == "/install.html"

	// Never let a real handler with side effects or network I/O run: with
	// credentials that (may) pass, only send what the statement says is
	// rejected before the handler, or a read-only positive control.
	expectAuth := 0 // status the statement demands for an authenticated request; 0 = none
	jsonish := strings.HasPrefix(ct, "application/json")
	if authn != "no" && hit != "" && !public && !install {
		hr := s.routeByPattern(hit)
		switch {
		case hr.Pattern == "/":
			// static files
		case !hr.Helper || hr.Method == "":
			s.c.Probe("skipped_authenticated_no_declared_method")
			return nil
		case method != hr.Method:
			expectAuth = http.StatusMethodNotAllowed
		case hr.Method != http.MethodGet && !jsonish && (body != nil || ct != ""):
			expectAuth = http.StatusUnsupportedMediaType
		case hr.Method == http.MethodGet && benignGET[hit] && body == nil && ct == "":
			expectAuth = http.StatusOK
		default:
			s.c.Probe("skipped_authenticated_handler_would_run")
			return nil
		}
	}

	req := &homesim.Req{Method: method, Target: target, RemoteAddr: "203.0.113.7:5000", ContentType: ct, Body: body, Cookie: s.cookie[ck]}
	req.BasicUser, req.BasicPass = basicCreds(ba)
	resp, err := s.n.Do(req)
	desc := fmt.Sprintf("%s %s ct=%q body=%d cookie=%s basic=%s (%s of %s)", method, target, ct, len(body), cookieNames[ck], basicNames[ba], spellNames[sp], r.Pattern)
	if err != nil {
		if hp, ok := err.(*homesim.HandlerPanic); ok {
			return kernel.Violationf("handler-panic", "%s: %v", desc, hp.Value)
		}
		return err
	}
	s.nReq++
	s.c.Eventf("%s -> %d %s", desc, resp.Code, locSuffix(resp.Location))
	s.sinceChk = append(s.sinceChk, fmt.Sprintf("%s -> %d", desc, resp.Code))
	s.c.Probe("request")
	if sp != 0 {
		s.c.Probe("non_canonical_spelling")
	}

	// net/http answers 301 up to go1.25 and 307 from go1.26 on.
	mux301 := redirected && (resp.Code == http.StatusMovedPermanently || resp.Code == http.StatusTemporaryRedirect || resp.Code == http.StatusPermanentRedirect) && strings.HasPrefix(resp.Location, eff)
	switch {
	case redirected && (mux301 || resp.Code == http.StatusForbidden):
		// The mux's own redirect to the canonical path (no handler involved).
		s.c.Probe("mux_redirect_to_canonical_path")
	case redirected:
		return kernel.Violationf("non-canonical-path-served", "%s: the path is not canonical, expected the mux's redirect to %q (or 403), got %d location=%q", desc, eff, resp.Code, resp.Location)
	case !canonical && (authn != "no" || public):
		// CONNECT with a non-canonical path: the mux matches the raw path,
		// which only the static catch-all takes.
		s.c.Probe("connect_non_canonical")
	case install && canonical:
		// Install routes answer 403 once a user exists, whoever asks.
		if resp.Code != http.StatusForbidden {
			return kernel.Violationf("install-route-not-403", "%s: a user exists, expected 403, got %d", desc, resp.Code)
		}
		s.c.Probe("install_route_forbidden")
	case public:
		s.c.Probe("public_route_request")
	case authn == "no":
		loginRedirect := resp.Code == http.StatusFound && (eff == "/" || eff == "/index.html") && strings.HasSuffix(resp.Location, "/login.html")
		if !canonical && isPublic(raw) && resp.Code >= 300 && resp.Code < 400 && resp.Code != http.StatusNotModified {
			// CONNECT is dispatched on the raw path: a non-canonical spelling
			// under the public static prefix (/assets/..) is taken by the
			// static file server, which answers with its own redirect.  No
			// protected handler ran (the state digest is still compared); this
			// is the static handler's counterpart of the mux's redirect for a
			// non-canonical path.
			s.c.Probe("static_redirect_for_non_canonical_asset_path")
			return nil
		}
		if resp.Code != http.StatusForbidden && !loginRedirect {
			return kernel.Violationf("unauth-not-refused", "%s: no valid session and no correct credentials, expected 403 (or 302 to the login page for / and /index.html), got %d location=%q; registered at %s", desc, resp.Code, resp.Location, relLoc(s.routeLoc(hit)))
		}
		if loginRedirect {
			s.c.Probe("unauth_redirected_to_login")
		} else {
			s.c.Probe("unauth_forbidden")
		}
		if ck == ckExpired {
			s.c.Probe("expired_cookie_refused")
		}
		if ck == ckLoggedOut {
			s.c.Probe("logged_out_cookie_refused")
		}
	case expectAuth != 0:
		unauthOK := authn == "open" && resp.Code == http.StatusForbidden
		if resp.Code != expectAuth && !unauthOK {
			class := map[int]string{http.StatusMethodNotAllowed: "auth-wrong-method-not-405", http.StatusUnsupportedMediaType: "auth-non-json-not-415", http.StatusOK: "valid-credentials-refused"}[expectAuth]
			return kernel.Violationf(class, "%s: authenticated (%s); declared method %s; expected %d, got %d %q", desc, authn, s.routeByPattern(hit).Method, expectAuth, resp.Code, truncate(resp.Body))
		}
		switch expectAuth {
		case http.StatusMethodNotAllowed:
			s.c.Probe("auth_wrong_method_405")
		case http.StatusUnsupportedMediaType:
			s.c.Probe("auth_non_json_415")
		default:
			s.c.Probe("auth_positive_control_200")
		}
	default:
		s.c.Probe("authenticated_static_or_fallthrough")
	}
	return nil
}

func truncate(b []byte) string {
	if len(b) > 120 {
		b = b[:120]
	}
	return string(b)
}

func locSuffix(l string) string {
	if l == "" {
		return ""
	}
	return "location=" + l
}

func (s *sim) routeByPattern(p string) *route {
	for i := range s.routes {
		if s.routes[i].Pattern == p {
			return &s.routes[i]
		}
	}
	return &route{}
}

func (s *sim) routeLoc(p string) string {
	if p == "" {
		return "(no exact pattern: catch-all /)"
	}
	return s.routeByPattern(p).Loc
}

// checkpoint compares the state digest with the one taken before probing.
func (s *sim) checkpoint() error {
	if len(s.sinceChk) == 0 {
		return nil
	}
	d, err := s.n.H.StateDigest()
	if err != nil {
		return fmt.Errorf("harness: state digest: %w", err)
	}
	s.c.Probe("state_digest_compared")
	if d != s.digest0 {
		reqs := s.sinceChk
		if len(reqs) > 12 {
			reqs = reqs[len(reqs)-12:]
		}
		return kernel.Violationf("state-changed", "administrative state changed although no handler may have run:\n before: %s\n after:  %s\n requests since the last comparison (%d, last shown):\n  %s", s.digest0, d, len(s.sinceChk), strings.Join(reqs, "\n  "))
	}
	s.sinceChk = s.sinceChk[:0]
	return nil
}

func (s *sim) after() error {
	s.c.Step()
	every := s.sc.DigestEvery
	if every < 1 {
		every = 1
	}
	if len(s.sinceChk) >= every {
		return s.checkpoint()
	}
	return nil
}

// Run executes one scenario.
func Run(t *testing.T, scAny any, c *kernel.Ctx) error {
	sc := scAny.(*Scenario)
	if sc.TTLs < 1 {
		return fmt.Errorf("harness: bad scenario")
	}
	err := kernel.Bubble(t, func() error {
		conf := homesim.Conf{
			SessionTTL: uint32(sc.TTLs), Attempts: 1000, BlockDur: time.Minute,
			JustInstalled: sc.JustInstalled, Full: true,
		}
		var (
			n   *homesim.Node
			err error
		)
		if sc.FirstRun {
			n, err = homesim.NewFirstRun(conf)
		} else {
			n, err = homesim.New(conf)
		}
		if err != nil {
			return err
		}
		defer n.Close()
		s := &sim{sc: sc, c: c, n: n}
		if sc.FirstRun {
			if err = s.install(); err != nil {
				return err
			}
		}
		if s.routes, err = discover(n, c, sc); err != nil {
			return err
		}
		direct := 0
		for _, r := range s.routes {
			if !r.Helper {
				direct++
			}
		}
		c.Eventf("node just_installed=%v first_run=%v ttl_s=%d restart=%d routes=%d direct=%d", sc.JustInstalled, sc.FirstRun, sc.TTLs, sc.Restart, len(s.routes), direct)
		for _, r := range s.routes {
			c.Eventf("route %s method=%q helper=%v in_src=%v", r.Pattern, r.Method, r.Helper, r.InSrc)
		}
		if err = s.mint(); err != nil {
			return err
		}
		if s.digest0, err = n.H.StateDigest(); err != nil {
			return fmt.Errorf("harness: state digest: %w", err)
		}
		sel := s.routes
		if sc.Route >= 0 && !sc.Exhaustive {
			i := sc.Route % len(s.routes)
			sel = s.routes[i : i+1]
		}
		for i := range sel {
			r := &sel[i]
			if sc.Exhaustive {
				for sp := 0; sp < nSpell; sp++ {
					for m := 1; m < len(methods); m++ {
						for ct := range ctypes {
							for b := range bodies {
								for ck := 0; ck < nCookie; ck++ {
									for ba := 0; ba < nBasic; ba++ {
										if err = s.probe(r, Shape{Method: m, CT: ct, Body: b, Cookie: ck, Basic: ba, Spell: sp}); err != nil {
											return err
										}
										if err = s.after(); err != nil {
											return err
										}
									}
								}
							}
						}
					}
				}
				c.Probe("route_product_completed")
				continue
			}
			for _, sh := range sc.Shapes {
				if err = s.probe(r, sh); err != nil {
					return err
				}
				if err = s.after(); err != nil {
					return err
				}
			}
		}
		return s.checkpoint()
	})
	if err == nil {
		casesDone++
		if sc.Exhaustive {
			exhaustiveDone++
		}
	}
	return err
}

// Gen draws a scenario.
func Gen(t *rapid.T, tier string) any {
	sc := &Scenario{
		JustInstalled: rapid.IntRange(0, 2).Draw(t, "just_installed") != 0,
		TTLs:          rapid.SampledFrom([]int64{60, 61, 3600, 86399, 86400, 30 * 86400}).Draw(t, "ttl"),
		Restart:       rapid.IntRange(0, 2).Draw(t, "restart"),
		Route:         -1,
	}
	if tier == "thorough" {
		sc.Exhaustive = true
		sc.DigestEvery = 512
		return sc
	}
	// The install wizard run in the process itself.  The administrator it
	// creates has a password hash of the real cost (a fifth of a second per
	// comparison), so these cases send few requests that carry the
	// administrator's name in basic credentials.
	sc.FirstRun = rapid.IntRange(0, 3).Draw(t, "first_run") == 0
	if sc.FirstRun {
		sc.JustInstalled = true
	}
	if rapid.IntRange(0, 5).Draw(t, "single_route") == 0 {
		sc.Route = rapid.IntRange(0, 199).Draw(t, "route")
	}
	sc.DigestEvery = rapid.SampledFrom([]int{16, 256, 1}).Draw(t, "digest_every")
	maxShapes := 24
	basics := []int{baNone, baWrongPassword, baWrongUser, baRight}
	if sc.FirstRun {
		if sc.Route < 0 {
			maxShapes = 3
			basics = []int{baNone, baNone, baWrongUser}
		} else {
			maxShapes = 8
		}
	}
	n := rapid.IntRange(1, maxShapes).Draw(t, "n_shapes")
	for i := 0; i < n; i++ {
		sc.Shapes = append(sc.Shapes, Shape{
			Method: rapid.IntRange(0, len(methods)-1).Draw(t, "method"),
			CT:     rapid.IntRange(0, len(ctypes)-1).Draw(t, "ct"),
			Body:   rapid.IntRange(0, len(bodies)-1).Draw(t, "body"),
			Cookie: rapid.IntRange(0, nCookie-1).Draw(t, "cookie"),
			Basic:  rapid.SampledFrom(basics).Draw(t, "basic"),
			Spell:  rapid.SampledFrom(spellTable).Draw(t, "spell"),
		})
	}
	return sc
}

// Prop is the property.
var Prop = &kernel.Property{
	ID:    "C11",
	Level: "exploration",
	Rule: "the route set is discovered at run time on the real mux of a node assembled by the real registration code (net/http's own pattern index with the location of each registering call, cross-checked against a go/ast scan of internal/ and mux.Handler); quick: every route x a seeded list of request shapes (method, content type, body, cookie state none/unknown/malformed/expired/logged-out/valid, basic credentials none/wrong/right, 9 path spellings), thorough: the complete product on every route; the node is a restarted configured process, a process right after the installation, or (quick, a quarter of the cases) a process started on first run without users in which the install wizard's configure step creates the administrator (Auth.addUser, first-run flags, configuration write) before the probing, without a restart in between; " +
		"a case is non-trivial when it probed >=1 protected route without credentials, >=1 with valid credentials and compared the state digest; distinct = distinct scenario digests",
	Gen: Gen,
	New: func() any { return &Scenario{} },
	Run: Run,
	NonTrivial: func(_ any, c *kernel.Ctx) bool {
		return c.Probes["unauth_forbidden"] > 0 && (c.Probes["auth_wrong_method_405"]+c.Probes["auth_non_json_415"]+c.Probes["auth_positive_control_200"]) > 0 && c.Probes["state_digest_compared"] > 0
	},
	Real: []string{"internal/home: newWebAPI, registerControlHandlers, registerInstallHandlers, RegisterAuthHandlers, httpRegister and its wrapper chain (postInstall, optionalAuth, gzip, ensure), preInstall, limitRequestBody, Auth + bbolt sessions.db, authRateLimiter, tlsManager, clientsContainer, configuration.write", "registration code of dhcpd.Create, dnsforward.Server.Prepare, filtering.RegisterFilteringHandlers, stats initWeb, querylog initWeb, clients and TLS handlers, all through home.httpRegister on the real http.ServeMux", "net/http request parsing and ServeMux path canonicalisation"},
	Stub: []string{"HTTP/HTTPS listeners (requests go to the handler the listeners serve, in-process)", "the DNS, DHCP, filtering-update, statistics and query-log background loops are not started (objects are created and registered only)", "static front-end files (in-memory fs.FS)", "wall clock (synctest fake clock)", "the request decoding, port checks and startMods of handleInstallConfigure (the install step performs its other effects through a hook: leaving first-run mode, Auth.addUser, configuration write; the control routes and module objects are on the mux before the step instead of being registered by it)"},
	Assumptions: []string{
		"handlers are never allowed to run with valid credentials except six read-only GET handlers (positive control); for authenticated requests only what the statement says is rejected before the handler is sent (wrong method -> 405, mutating method with a non-JSON content type -> 415)",
		"a request with a dead cookie next to correct basic credentials may be served or refused",
		"a redirect (3xx) issued by the public static file server itself for a non-canonical spelling under /assets/ (reachable only with CONNECT, which the mux dispatches on the raw path, e.g. CONNECT /assets/..) is accepted like the mux's own redirect for a non-canonical path: static assets are public, no protected handler runs and the state digest is unchanged; any other answer there, a protected handler running or a state change is still a violation",
		"the login route is public for every method (a GET is answered 405 by its own method guard)",
		"package internal/next (another binary with its own mux) is not part of the node",
		"nothing is asserted about requests before the administrator exists (first-run mode)",
		"in cases with the in-process installation the administrator's password hash has the real cost, so sweeps over all routes send basic credentials with another user name only; single-route cases use all credential states",
		"a route is covered if it is on the real mux after the real registration code has run; the space of source programs is not enumerated",
	},
	FaultKinds: []string{"clean_restart", "process_crash", "clock_past_session_ttl", "install_in_process"},
	ProbeNames: []string{"request", "non_canonical_spelling", "mux_redirect_to_canonical_path", "install_route_forbidden", "public_route_request", "unauth_forbidden", "unauth_redirected_to_login", "expired_cookie_refused", "logged_out_cookie_refused", "dead_cookie_with_right_basic", "auth_wrong_method_405", "auth_non_json_415", "auth_positive_control_200", "authenticated_static_or_fallthrough", "connect_non_canonical", "static_redirect_for_non_canonical_asset_path", "skipped_authenticated_handler_would_run", "skipped_authenticated_no_declared_method", "state_digest_compared", "route_registered_directly_on_mux", "first_run_redirect_to_install"},
}
