package c11

import (
	"fmt"
	"go/ast"
	"go/build"
	"go/parser"
	"go/token"
	"io/fs"
	"net/http"
	"path/filepath"
	"reflect"
	"sort"
	"strconv"
	"strings"
)

// muxPattern is one pattern found on the real mux.
type muxPattern struct {
	// Pattern is the registered pattern string.
	Pattern string
	// Loc is the source location (file:line) of the call that registered it, as
	// recorded by net/http itself.
	Loc string
}

// muxPatterns lists every pattern registered on mux by reading net/http's
// routing index (unexported fields, read-only through reflection).  This is
// the authoritative route set: whatever is on the mux is probed, no matter how
// it got there.
func muxPatterns(mux *http.ServeMux) (out []muxPattern, err error) {
	defer func() {
		if r := recover(); r != nil {
			err = fmt.Errorf("harness: net/http.ServeMux layout not as expected (go version?): %v", r)
		}
	}()
	idx := reflect.ValueOf(mux).Elem().FieldByName("index")
	if !idx.IsValid() {
		return nil, fmt.Errorf("harness: net/http.ServeMux has no field index")
	}
	seen := map[string]bool{}
	add := func(p reflect.Value) {
		p = p.Elem()
		s := p.FieldByName("str").String()
		if seen[s] {
			return
		}
		seen[s] = true
		out = append(out, muxPattern{Pattern: s, Loc: p.FieldByName("loc").String()})
	}
	segs := idx.FieldByName("segments")
	it := segs.MapRange()
	for it.Next() {
		l := it.Value()
		for i := 0; i < l.Len(); i++ {
			add(l.Index(i))
		}
	}
	multis := idx.FieldByName("multis")
	for i := 0; i < multis.Len(); i++ {
		add(multis.Index(i))
	}
	sort.Slice(out, func(i, j int) bool { return out[i].Pattern < out[j].Pattern })
	if len(out) == 0 {
		return nil, fmt.Errorf("harness: no pattern found on the mux")
	}
	return out, nil
}

// srcRoute is one route registration found in the source.
type srcRoute struct {
	File   string // relative to internal/
	Line   int
	Callee string
	// Method is the declared method when the first argument is http.MethodX or
	// a string literal; "?" otherwise; "-" when the callee takes no method.
	Method string
	Path   string
}

// helperRange is the line range of home.httpRegister in control.go.
type helperRange struct {
	File       string
	From, To   int
	Discovered bool
}

var registrarNames = map[string]bool{
	"Handle": true, "HandleFunc": true,
	"httpRegister": true, "HTTPRegister": true, "registerHTTP": true, "httpReg": true,
}

var helperNames = map[string]bool{"httpRegister": true, "HTTPRegister": true, "registerHTTP": true, "httpReg": true}

// scanSource parses every Go file under internalDir that is part of a linux
// build with the verif tag (tests and package next, which belongs to another
// binary with its own mux, excluded) and returns the call expressions that
// register a route: callee named Handle / HandleFunc / httpRegister /
// HTTPRegister / registerHTTP / httpReg with a "/..." string literal argument.
func scanSource(internalDir string) (routes []srcRoute, helper helperRange, err error) {
	bctx := build.Default
	bctx.GOOS = "linux"
	bctx.BuildTags = append([]string{"verif"}, bctx.BuildTags...)
	fset := token.NewFileSet()
	err = filepath.WalkDir(internalDir, func(p string, d fs.DirEntry, walkErr error) error {
		if walkErr != nil {
			return walkErr
		}
		rel, _ := filepath.Rel(internalDir, p)
		if d.IsDir() {
			if rel == "next" || d.Name() == "testdata" {
				return filepath.SkipDir
			}
			return nil
		}
		if !strings.HasSuffix(p, ".go") || strings.HasSuffix(p, "_test.go") {
			return nil
		}
		if ok, mErr := bctx.MatchFile(filepath.Dir(p), filepath.Base(p)); mErr != nil || !ok {
			return nil
		}
		f, pErr := parser.ParseFile(fset, p, nil, parser.SkipObjectResolution)
		if pErr != nil {
			return fmt.Errorf("harness: parsing %s: %w", rel, pErr)
		}
		if rel == filepath.Join("home", "control.go") {
			for _, decl := range f.Decls {
				if fd, ok := decl.(*ast.FuncDecl); ok && fd.Recv == nil && fd.Name.Name == "httpRegister" {
					helper = helperRange{File: p, From: fset.Position(fd.Pos()).Line, To: fset.Position(fd.End()).Line, Discovered: true}
				}
			}
		}
		ast.Inspect(f, func(n ast.Node) bool {
			call, ok := n.(*ast.CallExpr)
			if !ok {
				return true
			}
			name := ""
			switch fn := call.Fun.(type) {
			case *ast.Ident:
				name = fn.Name
			case *ast.SelectorExpr:
				name = fn.Sel.Name
			}
			if !registrarNames[name] {
				return true
			}
			for i, arg := range call.Args {
				lit, isLit := arg.(*ast.BasicLit)
				if !isLit || lit.Kind != token.STRING {
					continue
				}
				s, uErr := strconv.Unquote(lit.Value)
				if uErr != nil || !strings.HasPrefix(s, "/") {
					continue
				}
				r := srcRoute{File: rel, Line: fset.Position(call.Pos()).Line, Callee: name, Method: "-", Path: s}
				if helperNames[name] && i == 1 {
					r.Method = "?"
					switch m := call.Args[0].(type) {
					case *ast.SelectorExpr:
						if x, isID := m.X.(*ast.Ident); isID && x.Name == "http" && strings.HasPrefix(m.Sel.Name, "Method") {
							r.Method = strings.ToUpper(strings.TrimPrefix(m.Sel.Name, "Method"))
						}
					case *ast.BasicLit:
						if v, qErr := strconv.Unquote(m.Value); qErr == nil {
							r.Method = v
						}
					}
				}
				routes = append(routes, r)
				break
			}
			return true
		})
		return nil
	})
	if err != nil {
		return nil, helper, err
	}
	sort.Slice(routes, func(i, j int) bool {
		if routes[i].Path != routes[j].Path {
			return routes[i].Path < routes[j].Path
		}
		return routes[i].File < routes[j].File
	})
	if !helper.Discovered {
		return nil, helper, fmt.Errorf("harness: func httpRegister not found in home/control.go")
	}
	return routes, helper, nil
}

// viaHelper reports whether a mux pattern was registered by the body of
// home.httpRegister.
func (h helperRange) viaHelper(loc string) bool {
	i := strings.LastIndexByte(loc, ':')
	if i < 0 {
		return false
	}
	line, err := strconv.Atoi(loc[i+1:])
	if err != nil {
		return false
	}
	return filepath.Clean(loc[:i]) == filepath.Clean(h.File) && line >= h.From && line <= h.To
}
