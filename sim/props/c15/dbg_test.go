package c15

import (
	"encoding/json"
	"fmt"
	"hash"
	"hash/fnv"
	"os"
	"reflect"
	"strings"
	"testing"
	"testing/synctest"
	"unsafe"

	"github.com/AdguardTeam/AdGuardHome/verifsim/kernel"
	"pgregory.net/rapid"
)

// TestDbgLeak finds a scenario whose bubble leaks a goroutine and re-runs it
// bare, so that synctest prints the blocked goroutines.
func TestDbgLeak(t *testing.T) {
	if os.Getenv("VERIF_DBG") == "" {
		t.Skip()
	}
	var bad []byte
	for seed := 1; seed < 200 && bad == nil; seed++ {
		g := rapid.Custom(func(rt *rapid.T) *Scenario { return Gen(rt, "quick").(*Scenario) })
		sc := g.Example(seed)
		kc := dbgCtx()
		err := Run(t, sc, kc)
		if err != nil && strings.Contains(err.Error(), "leaked") {
			bad, _ = json.Marshal(sc)
		} else if err != nil {
			fmt.Println("seed", seed, "err:", err)
		}
	}
	if bad == nil {
		return
	}
	fmt.Println(string(bad))
	sc := &Scenario{}
	_ = json.Unmarshal(bad, sc)
	bubble = func(t *testing.T, f func() error) (err error) {
		synctest.Test(t, func(t *testing.T) { err = f() })
		return err
	}
	_ = Run(t, sc, dbgCtx())
}

// dbgCtx builds a kernel.Ctx outside the kernel (debugging only).
func dbgCtx() *kernel.Ctx {
	c := &kernel.Ctx{Faults: map[string]int{}, Probes: map[string]int{}, KeepLog: true}
	f := reflect.ValueOf(c).Elem().FieldByName("h")
	h := hash.Hash64(fnv.New64a())
	reflect.NewAt(f.Type(), unsafe.Pointer(f.UnsafeAddr())).Elem().Set(reflect.ValueOf(&h).Elem())
	return c
}
