// Package c15 decides property C15 (a failed filter-list refresh changes
// nothing; a successful one stores a stable normal form; unchanged content is
// not rewritten) by deterministic simulation on engine E7 (listsim): the real
// filtering.DNSFilter with its updates loop, parser and atomic file
// replacement on a tmpfs data directory under a fake clock, against a list
// server that, per request, serves generated list text or fails in one of the
// enumerated ways at a chosen offset class.
package c15

import (
	"bytes"
	"crypto/sha256"
	"encoding/hex"
	"fmt"
	"os"
	"path/filepath"
	"sort"
	"strings"
	"testing"
	"time"

	"github.com/AdguardTeam/AdGuardHome/internal/filtering/rulelist"
	"github.com/AdguardTeam/AdGuardHome/verifsim/kernel"
	ls "github.com/AdguardTeam/AdGuardHome/verifsim/listsim"
	"github.com/AdguardTeam/AdGuardHome/verifsim/sched"
	"pgregory.net/rapid"
)

// Rep is the planned behaviour of the list server for one request.
type Rep struct {
	// K: ok ok_chunked ok_close dial status cut_hdr cut_cl cut_chunked
	// slow_hdr slow_body html binary.
	K string `json:"k"`
	// C is the content version served (html / binary: variant number).
	C int `json:"c,omitempty"`
	// Alt: 0 the text itself; >0 same rules, other comments and blanks in
	// front; -1 the same characters with one rule line split in two.
	Alt int `json:"alt,omitempty"`
	St  int `json:"st,omitempty"`
	// Cut: class of the offset at which the transfer dies or stalls
	// (afterhdr midline lineend last), P: per-mille selecting the line.
	Cut string `json:"cut,omitempty"`
	P   int    `json:"p,omitempty"`
	// D: stall in seconds.
	D int `json:"d,omitempty"`
}

// Op is one generated operation.
type Op struct {
	// K: add seturl remove refresh advance restart config par.
	K   string `json:"k"`
	U   int    `json:"u,omitempty"`
	U2  int    `json:"u2,omitempty"`
	W   bool   `json:"w,omitempty"`
	En  bool   `json:"en,omitempty"`
	S   int64  `json:"s,omitempty"`
	H   int    `json:"h,omitempty"`
	Srv []Rep  `json:"srv,omitempty"`
	// Local, if set, puts the local list file into a state before the
	// operation: K write (content C, variant Alt) | missing | dir.
	Local *Rep `json:"local,omitempty"`
	// A concurrent phase (K par): Tasks run as tasks of the seeded cooperative
	// scheduler (the interleaving at lock operations and at the list server's
	// latency is a function of Seed; Pct is the preemption probability), after
	// the clock has been advanced by S seconds.
	Seed  uint64    `json:"seed,omitempty"`
	Pct   int       `json:"pct,omitempty"`
	Tasks []ParTask `json:"tasks,omitempty"`
}

// InitList is a list present in the configuration at first start (no file yet).
type InitList struct {
	U  int  `json:"u"`
	W  bool `json:"w,omitempty"`
	En bool `json:"en"`
}

// Scenario is one case.
type Scenario struct {
	IntervalH int          `json:"interval_h"`
	TimeoutS  int          `json:"timeout_s"`
	Contents  []ls.Content `json:"contents"`
	Init      []InitList   `json:"init,omitempty"`
	Ops       []Op         `json:"ops"`
}

var urls = []string{
	"http://lists.test/l0.txt",
	"https://lists.test/l1.txt",
	"http://other.test/l2.txt",
	"http://lists.test/dir/l3.txt?x=1",
	localURL, // a local file under a safe pattern; replaced by its path at run time
}

const (
	localURL = "$LOCAL/list.txt"
	localIdx = 4
)

// runURLs is urls with the local entry resolved for the running case (one
// case runs at a time in a process).
var runURLs = urls

var (
	okKinds    = []string{ls.KindOK, ls.KindOK, ls.KindOKChunked, ls.KindOKClose}
	faultKinds = []string{ls.KindDial, ls.KindStatus, ls.KindCutHdr, ls.KindCutCL, ls.KindCutCL, ls.KindCutChunk, ls.KindSlowHdr, ls.KindSlowBody, "html", "binary"}
	cutClasses = []string{"afterhdr", "midline", "midline", "lineend", "lineend", "last"}
	statuses   = []int{404, 500, 403, 301, 204, 206, 304, 503}
	intervals  = []int{1, 1, 1, 12, 24, 0}
)

// opKinds is the weighted table of operation kinds (interleaved, because the
// generator favours small indices).
var opKinds = []string{"refresh", "advance", "add", "par", "seturl", "advance", "refresh", "restart", "par", "advance", "remove", "refresh", "seturl", "add", "par", "advance", "config", "refresh", "restart", "advance", "seturl"}

func genContent(t *rapid.T) ls.Content {
	n := rapid.IntRange(0, 10).Draw(t, "n_parts")
	plain := rapid.IntRange(0, 3).Draw(t, "plain") != 0
	c := ls.Content{}
	probeAt := rapid.IntRange(0, n).Draw(t, "probe_at")
	for i := 0; i <= n; i++ {
		if i == probeAt {
			c.Parts = append(c.Parts, ls.Part{K: "probe", N: rapid.IntRange(0, 1).Draw(t, "probe_form"),
				Pre: rapid.IntRange(0, 4).Draw(t, "pre"), Post: rapid.IntRange(0, 4).Draw(t, "post"), EOL: rapid.IntRange(0, 3).Draw(t, "eol")})
			continue
		}
		var k string
		if plain {
			k = rapid.SampledFrom([]string{"rule", "rule", "rule", "comment", "bang", "title", "blank", "long"}).Draw(t, "kind")
		} else {
			k = rapid.SampledFrom(ls.PartKinds).Draw(t, "kind_any")
		}
		p := ls.Part{K: k, N: rapid.IntRange(0, 26).Draw(t, "n")}
		if k == "long" && plain {
			p.N = rapid.IntRange(0, 1).Draw(t, "long_small")
		}
		if plain {
			p.Pre, p.Post = rapid.IntRange(0, 4).Draw(t, "pre"), rapid.IntRange(0, 4).Draw(t, "post")
			p.EOL = rapid.IntRange(0, 3).Draw(t, "eol")
			if i == n && rapid.IntRange(0, 2).Draw(t, "no_final_eol") == 0 {
				p.EOL = 5
			}
		} else {
			p.Pre, p.Post = rapid.IntRange(0, len(ls.WS)-1).Draw(t, "pre_any"), rapid.IntRange(0, len(ls.WS)-1).Draw(t, "post_any")
			p.EOL = rapid.IntRange(0, len(ls.EOLs)-1).Draw(t, "eol_any")
		}
		c.Parts = append(c.Parts, p)
	}
	return c
}

func genRep(t *rapid.T, nContents, timeoutS int) Rep {
	if rapid.IntRange(0, 99).Draw(t, "rep_ok") < 42 {
		r := Rep{K: rapid.SampledFrom(okKinds).Draw(t, "ok_kind"), C: rapid.IntRange(0, nContents-1).Draw(t, "content")}
		switch a := rapid.IntRange(0, 9).Draw(t, "alt"); {
		case a < 6:
		case a < 9:
			r.Alt = a - 5
		default:
			r.Alt = -1
		}
		return r
	}
	r := Rep{K: rapid.SampledFrom(faultKinds).Draw(t, "fault_kind"), C: rapid.IntRange(0, nContents-1).Draw(t, "content")}
	switch r.K {
	case ls.KindStatus:
		r.St = rapid.SampledFrom(statuses).Draw(t, "status")
	case ls.KindCutHdr:
		r.P = rapid.SampledFrom([]int{0, 0, 1, 9, 17, 40, 80, 1000}).Draw(t, "hdr_cut")
	case ls.KindCutCL, ls.KindCutChunk:
		r.Cut = rapid.SampledFrom(cutClasses).Draw(t, "cut")
		r.P = rapid.IntRange(0, 1000).Draw(t, "cut_p")
	case ls.KindSlowHdr:
		r.D = timeoutS + rapid.SampledFrom([]int{-2, 1, 1, 30, 4000}).Draw(t, "delay")
	case ls.KindSlowBody:
		r.Cut = rapid.SampledFrom(cutClasses).Draw(t, "cut")
		r.P = rapid.IntRange(0, 1000).Draw(t, "cut_p")
		r.D = timeoutS + rapid.SampledFrom([]int{-2, 1, 1, 30, 4000}).Draw(t, "delay")
	}
	return r
}

// Gen draws a scenario.
func Gen(t *rapid.T, tier string) any {
	sc := &Scenario{
		IntervalH: rapid.SampledFrom(intervals).Draw(t, "interval"),
		TimeoutS:  rapid.SampledFrom([]int{5, 30, 300}).Draw(t, "timeout"),
	}
	nc := rapid.IntRange(2, 5).Draw(t, "n_contents")
	for i := 0; i < nc; i++ {
		sc.Contents = append(sc.Contents, genContent(t))
	}
	used := map[int]bool{}
	for i, n := 0, rapid.IntRange(0, 3).Draw(t, "n_init"); i < n; i++ {
		u := rapid.IntRange(0, len(urls)-1).Draw(t, "init_url")
		if used[u] {
			continue
		}
		used[u] = true
		sc.Init = append(sc.Init, InitList{U: u, W: rapid.IntRange(0, 2).Draw(t, "init_allow") == 0, En: rapid.IntRange(0, 5).Draw(t, "init_enabled") != 0})
	}
	maxOps := 14
	if tier == "thorough" {
		maxOps = 30
	}
	n := rapid.IntRange(2, maxOps).Draw(t, "n_ops")
	ivl := sc.IntervalH
	if ivl == 0 {
		ivl = 1
	}
	// side tracks which locations probably name a list, and of which kind
	// (assuming downloads succeed), so that set_url / remove mostly hit one.
	side := map[int]bool{}
	for _, il := range sc.Init {
		side[il.U] = il.W
	}
	pick := func(label string) int {
		u := rapid.IntRange(0, len(urls)-1).Draw(t, label)
		if _, ok := side[u]; ok || rapid.IntRange(0, 4).Draw(t, label+"_any") == 0 {
			return u
		}
		for k := 0; k < len(urls); k++ {
			if _, ok := side[(u+k)%len(urls)]; ok {
				return (u + k) % len(urls)
			}
		}
		return u
	}
	sideOf := func(u int) bool {
		if w, ok := side[u]; ok && rapid.IntRange(0, 7).Draw(t, "wrong_side") != 0 {
			return w
		}
		return rapid.IntRange(0, 2).Draw(t, "allow") == 0
	}
	for i := 0; i < n; i++ {
		var op Op
		plan := true
		switch rapid.SampledFrom(opKinds).Draw(t, "kind") {
		case "add":
			op = Op{K: "add", U: rapid.IntRange(0, len(urls)-1).Draw(t, "url"), W: rapid.IntRange(0, 2).Draw(t, "allow") == 0}
			if _, ok := side[op.U]; !ok {
				side[op.U] = op.W
			}
		case "seturl":
			op = Op{K: "seturl", U: pick("url"), En: rapid.IntRange(0, 3).Draw(t, "enabled") != 0}
			op.W = sideOf(op.U)
			op.U2 = op.U
			if rapid.IntRange(0, 1).Draw(t, "new_url") == 0 {
				op.U2 = rapid.IntRange(0, len(urls)-1).Draw(t, "url2")
			}
			if w, ok := side[op.U]; ok && w == op.W {
				if _, taken := side[op.U2]; !taken {
					delete(side, op.U)
					side[op.U2] = w
				}
			}
		case "remove":
			op = Op{K: "remove", U: pick("url")}
			op.W = sideOf(op.U)
			if w, ok := side[op.U]; ok && w == op.W {
				delete(side, op.U)
			}
			plan = false
		case "refresh":
			op = Op{K: "refresh", W: rapid.IntRange(0, 2).Draw(t, "allow") == 0}
		case "advance":
			op = Op{K: "advance", S: rapid.SampledFrom([]int64{int64(ivl)*3600 + 10, 3700, 6, 1, 7300, 60, int64(ivl)*7200 + 10, 3600, 90000}).Draw(t, "secs")}
		case "restart":
			op = Op{K: "restart", S: rapid.SampledFrom([]int64{30, 0, 2, 30, 5, 30}).Draw(t, "downtime")}
			plan = false
		case "par":
			op = Op{K: "par", Seed: rapid.Uint64().Draw(t, "par_seed"), Pct: rapid.SampledFrom([]int{20, 50, 80}).Draw(t, "par_pct"),
				S: rapid.SampledFrom([]int64{0, int64(ivl)*3600 + 10, 0, 3700, 60, 0}).Draw(t, "par_secs")}
			op.Tasks = genPar(t, nc, sc.TimeoutS, pick, sideOf, side)
			plan = false
		default:
			op = Op{K: "config", H: rapid.SampledFrom([]int{1, 0, 12, 1, 24, 72}).Draw(t, "new_interval")}
			plan = false
		}
		usesLocal := (op.K == "add" || op.K == "seturl") && (op.U == localIdx || op.U2 == localIdx)
		for _, pt := range op.Tasks {
			if (pt.K == "add" || pt.K == "seturl") && (pt.U == localIdx || pt.U2 == localIdx) {
				usesLocal = true
			}
		}
		if _, ok := side[localIdx]; ok && op.K != "restart" && op.K != "config" && rapid.IntRange(0, 2).Draw(t, "touch_local") == 0 || usesLocal && rapid.IntRange(0, 3).Draw(t, "prepare_local") != 0 {
			lp := Rep{K: rapid.SampledFrom([]string{"write", "write", "missing", "write", "dir", "write"}).Draw(t, "local_state")}
			if lp.K == "write" {
				lp.C = rapid.IntRange(0, nc-1).Draw(t, "local_content")
				lp.Alt = rapid.SampledFrom([]int{0, 0, 1, -1, 2, 0}).Draw(t, "local_alt")
			}
			op.Local = &lp
		}
		if plan {
			for j, m := 0, rapid.IntRange(0, 4).Draw(t, "n_plan"); j < m; j++ {
				op.Srv = append(op.Srv, genRep(t, nc, sc.TimeoutS))
			}
		}
		sc.Ops = append(sc.Ops, op)
	}
	return sc
}

// ---- reference model --------------------------------------------------------

// fstate is a state of a list's file: absent, or present with these bytes.
type fstate struct {
	has bool
	nf  string
}

type mlist struct {
	url     string
	white   bool
	id      int64
	enabled bool
	st      fstate
	lines   []string
	inode   uint64
	count   int
	// unloaded is why the system may have forgotten the checksum of the stored
	// file: "" (it has not), "failed-seturl", "reenable".
	unloaded string
	// earlier holds the line sets the list's file may have held earlier in
	// the current operation (its state before, and every text served to it).
	earlier [][]string
}

type run struct {
	// leftover: files of no list that a concurrent phase left behind (counted
	// there, not judged); the sequential check does not report them again.
	leftover map[string]bool

	sc   *Scenario
	c    *kernel.Ctx
	dir  string
	n    *ls.Node
	srv  *ls.Server
	body [][]byte // rendered contents
	// server side
	plan []Rep
	cur  map[string]int // url -> version last served completely
	// model
	lists    []*mlist
	verdicts map[string]string
	opIdx    int
	// the local list file: its path and what it holds now
	localPath  string
	localState string // write | missing | dir
	localBody  []byte
	localTag   string
	// bookkeeping for the message of list-id-reused
	startAt, prevStartAt time.Time
	// the concurrent phase: which goroutine runs which task, the tasks' planned
	// replies, the task that made the n-th request
	inPar       bool
	parOwner    map[uint64]int
	parPlan     [][]Rep
	parReqOwner []int
	// abandon: a deadlock was found; the parked tasks hold the module's locks.
	abandon bool
}

// errStop ends a case after a tolerated known finding that leaves the system
// in a state the model cannot follow.
var errStop = fmt.Errorf("stop")

func sha(b []byte) string {
	s := sha256.Sum256(b)
	return hex.EncodeToString(s[:6])
}

func altPrefix(n int) []byte {
	switch n {
	case 1:
		return []byte("# regenerated\r\n\r\n")
	case 2:
		return []byte("! Checksum: abc\n!\n   \n\t\n")
	default:
		return []byte("#\n# Title: none\n\n")
	}
}

// splitVariant returns the same characters as the normal form of text with one
// rule line (not a probe line) broken in two.
func splitVariant(text []byte) []byte {
	_, lines := ls.NormalForm(text)
	for i, l := range lines {
		if len(l) >= 6 && len(l) < 200 && !strings.Contains(l, ".probe.test") {
			out := append([]string{}, lines[:i]...)
			out = append(out, l[:len(l)/2], l[len(l)/2:])
			out = append(out, lines[i+1:]...)
			return []byte(strings.Join(out, "\n") + "\n")
		}
	}
	return text
}

func lineBounds(b []byte) (starts, ends []int) {
	s := 0
	for i, c := range b {
		if c == '\n' {
			starts, ends = append(starts, s), append(ends, i+1)
			s = i + 1
		}
	}
	if s < len(b) {
		starts, ends = append(starts, s), append(ends, len(b))
	}
	return
}

func cutPos(body []byte, class string, p int) int {
	if len(body) == 0 {
		return 0
	}
	starts, ends := lineBounds(body)
	k := p * len(starts) / 1001
	switch class {
	case "afterhdr":
		return 0
	case "last":
		return len(body) - 1
	case "midline":
		return starts[k] + max(1, (ends[k]-starts[k])/2)
	case "lineend":
		return ends[k]
	}
	return len(body) / 2
}

// reply turns a planned Rep into what the server does.
func (r *run) reply(url string, rep Rep) ls.Reply {
	v := rep.C % len(r.body)
	var body []byte
	switch rep.K {
	case "html":
		return ls.Reply{Kind: ls.KindOK, Body: ls.HTMLPage(rep.C), Tag: "html"}
	case "binary":
		return ls.Reply{Kind: ls.KindOKChunked, Body: ls.BinaryBlob(rep.C), Tag: "binary"}
	}
	body = r.body[v]
	switch {
	case rep.Alt > 0:
		body = append(altPrefix(rep.Alt), body...)
	case rep.Alt < 0:
		body = splitVariant(body)
	}
	kind := rep.K
	if k := r.sc.Ops[r.opIdx].K; k == "seturl" || k == "par" {
		// set_url downloads while holding the list mutex; the updates-loop
		// timer firing during a stall would then block on that mutex, which a
		// synctest bubble cannot treat as idle (simulated time would stop).
		// Inside set_url a stall is therefore delivered as a dead connection.
		// (In a concurrent phase the clock stands still: the same.)
		switch kind {
		case ls.KindSlowHdr:
			kind, rep.P = ls.KindCutHdr, 0
		case ls.KindSlowBody:
			kind = ls.KindCutCL
		}
	}
	out := ls.Reply{Kind: kind, Body: body, Status: rep.St, Delay: time.Duration(rep.D) * time.Second,
		Tag: fmt.Sprintf("v%d/%d", v, rep.Alt)}
	switch kind {
	case ls.KindCutHdr:
		out.Cut = rep.P
	case ls.KindCutCL, ls.KindCutChunk, ls.KindSlowBody:
		out.Cut = cutPos(body, rep.Cut, rep.P)
		out.Tag += "@" + rep.Cut
	}
	return out
}

func (r *run) planFn(url string) ls.Reply {
	if r.inPar {
		// a task's requests are answered from that task's plan
		t, ok := r.parOwner[goid()]
		if !ok {
			t = -1
		}
		r.parReqOwner = append(r.parReqOwner, t)
		if ok && len(r.parPlan[t]) > 0 {
			rep := r.parPlan[t][0]
			r.parPlan[t] = r.parPlan[t][1:]
			return r.reply(url, rep)
		}
	} else if len(r.plan) > 0 {
		rep := r.plan[0]
		r.plan = r.plan[1:]
		return r.reply(url, rep)
	}
	v, ok := r.cur[url]
	if !ok {
		v = len(url) % len(r.body)
	}
	return r.reply(url, Rep{K: ls.KindOK, C: v})
}

func urlIdx(u string) int {
	for i, x := range runURLs {
		if x == u {
			return i
		}
	}
	return -1
}

func (r *run) find(url string) *mlist {
	for _, l := range r.lists {
		if l.url == url {
			return l
		}
	}
	return nil
}

// expectation for one request record.
const (
	expOld    = 0 // the statement requires: nothing changes
	expNew    = 1 // the statement requires: normal form stored (or kept if equal)
	expEither = 2
)

func (r *run) classify(rec *ls.Record) int {
	if rec.Refused || rec.TimedOut || rec.Unreadable {
		return expOld
	}
	if rec.Uncertain {
		return expEither
	}
	switch rec.Reply.Kind {
	case ls.KindOK, ls.KindOKChunked, ls.KindOKClose, ls.KindSlowHdr, ls.KindSlowBody:
	default:
		return expOld
	}
	if rec.Reply.Tag == "html" || rec.Reply.Tag == "binary" {
		return expOld
	}
	if ls.Ambiguous(rec.Reply.Body) {
		return expEither
	}
	return expNew
}

func (r *run) countFaults(recs []*ls.Record) {
	c := r.c
	for _, rec := range recs {
		k := rec.Reply.Kind
		if rec.Local {
			switch {
			case rec.Uncertain:
			case rec.Unreadable && r.localState == "missing":
				c.Fault("local_file_missing")
			case rec.Unreadable:
				c.Fault("local_file_is_directory")
			default:
				c.Probe("local_file_read")
			}
			continue
		}
		switch {
		case rec.Reply.Tag == "html":
			c.Fault("html_page")
		case rec.Reply.Tag == "binary":
			c.Fault("binary_body")
		case rec.TimedOut && k == ls.KindSlowHdr:
			c.Fault("slow_headers_timeout")
		case rec.TimedOut && k == ls.KindSlowBody:
			c.Fault("slow_body_timeout")
		case k == ls.KindSlowHdr || k == ls.KindSlowBody:
			c.Probe("slow_but_in_time")
		case k == ls.KindDial:
			c.Fault("dial_error")
		case k == ls.KindStatus:
			c.Fault("status_not_200")
		case k == ls.KindCutHdr:
			c.Fault("cut_in_headers")
			if rec.Reply.Cut == 0 {
				c.Probe("cut_before_any_byte")
			}
		case k == ls.KindCutCL:
			c.Fault("cut_content_length")
		case k == ls.KindCutChunk:
			c.Fault("cut_chunked")
		case k == ls.KindOKChunked:
			c.Probe("complete_chunked")
		case k == ls.KindOKClose:
			c.Probe("complete_close_delimited")
		}
		if k == ls.KindCutCL || k == ls.KindCutChunk || (rec.TimedOut && k == ls.KindSlowBody) {
			switch {
			case strings.HasSuffix(rec.Reply.Tag, "@afterhdr"):
				c.Probe("cut_after_headers")
			case strings.HasSuffix(rec.Reply.Tag, "@midline"):
				c.Probe("cut_mid_line")
			case strings.HasSuffix(rec.Reply.Tag, "@lineend"):
				c.Probe("cut_at_line_boundary")
			case strings.HasSuffix(rec.Reply.Tag, "@last"):
				c.Probe("cut_before_last_byte")
			}
		}
	}
}

// parserFixedPoint checks, with the real parser, that a completely served text
// it accepts is written in the statement's normal form and that the output is
// a fixed point (same bytes, count and checksum when parsed again).
func parserFixedPoint(text []byte) error {
	buf := make([]byte, rulelist.DefaultRuleBufSize)
	var out1 bytes.Buffer
	res1, err := rulelist.NewParser().Parse(&out1, bytes.NewReader(text), buf)
	if err != nil {
		return nil
	}
	nf, lines := ls.NormalForm(text)
	if !bytes.Equal(out1.Bytes(), nf) {
		return kernel.Violationf("normal-form-mismatch", "parser output (%d bytes, sha %s) differs from the normal form of the served text (%d bytes, sha %s); first difference at offset %d",
			out1.Len(), sha(out1.Bytes()), len(nf), sha(nf), firstDiff(out1.Bytes(), nf))
	}
	if res1.RulesCount != len(lines) {
		return kernel.Violationf("normal-form-mismatch", "parser counted %d rules, the normal form has %d lines", res1.RulesCount, len(lines))
	}
	var out2 bytes.Buffer
	res2, err := rulelist.NewParser().Parse(&out2, bytes.NewReader(out1.Bytes()), buf)
	if err != nil {
		return kernel.Violationf("normal-form-not-fixed-point", "re-parsing the stored form fails: %v", err)
	}
	if res2.RulesCount != res1.RulesCount || res2.Checksum != res1.Checksum || !bytes.Equal(out2.Bytes(), out1.Bytes()) {
		return kernel.Violationf("normal-form-not-fixed-point", "re-parse: count %d -> %d, checksum %08x -> %08x, bytes equal %v",
			res1.RulesCount, res2.RulesCount, res1.Checksum, res2.Checksum, bytes.Equal(out2.Bytes(), out1.Bytes()))
	}
	return nil
}

func firstDiff(a, b []byte) int {
	n := min(len(a), len(b))
	for i := 0; i < n; i++ {
		if a[i] != b[i] {
			return i
		}
	}
	return n
}

// opOutcome is what apply learnt from the API.
type opOutcome struct {
	code int
	body []byte
	// membership change accepted by the API
	added   *mlist
	changed bool // some list's url/enabled/membership changed
	// for seturl failures at download stage
	failedSetURL *mlist
	// the list a successful set_url was applied to
	target *mlist
	// that list was disabled before the request and is enabled now
	reenabled bool
}

// setLocal puts the local list file into the planned state.
func (r *run) setLocal(rep Rep) error {
	if err := os.RemoveAll(r.localPath); err != nil {
		return err
	}
	switch rep.K {
	case "missing":
		r.localState, r.localBody, r.localTag = "missing", nil, "missing"
	case "dir":
		r.localState, r.localBody, r.localTag = "dir", nil, "dir"
		return os.Mkdir(r.localPath, 0o755)
	default:
		rp := r.reply(r.localPath, Rep{K: ls.KindOK, C: rep.C, Alt: rep.Alt})
		r.localState, r.localBody, r.localTag = "write", rp.Body, rp.Tag
		return os.WriteFile(r.localPath, rp.Body, 0o644)
	}
	return nil
}

// localRecords makes up the "request" records of the local list for this
// operation: a forced refresh of its kind certainly reads the file; during
// any other operation the system may or may not have read it.
func (r *run) localRecords(op Op, out *opOutcome) []*ls.Record {
	l := r.find(r.localPath)
	involved := op.K == "add" && op.U == localIdx
	if op.K == "seturl" && op.U2 == localIdx && op.En {
		// set_url downloads when the location changes or the list gets enabled.
		// (and refuses a location another list already has, before any download)
		if tgt := r.find(runURLs[op.U]); tgt != nil && tgt.white == op.W {
			involved = (tgt.url == r.localPath && !tgt.enabled) || (tgt.url != r.localPath && l == nil)
		}
	}
	if (l == nil || !l.enabled) && !involved {
		return nil
	}
	rec := &ls.Record{URL: r.localPath, Local: true, Reply: ls.Reply{Kind: ls.KindOK, Body: r.localBody, Tag: r.localTag}}
	rec.Unreadable = r.localState != "write"
	certain := op.K == "refresh" && l != nil && l.enabled && l.white == op.W && out.failedSetURL == nil
	rec.Uncertain = !certain && !rec.Unreadable
	if op.K == "restart" || op.K == "config" || op.K == "remove" {
		return nil // nothing is downloaded in these operations
	}
	if !certain && !involved && op.K != "advance" && op.K != "add" {
		return nil
	}
	return []*ls.Record{rec}
}

func (r *run) apply(op Op) (*opOutcome, error) {
	n := r.n
	out := &opOutcome{}
	var err error
	switch op.K {
	case "add":
		out.code, out.body, err = n.AddURL("", runURLs[op.U], op.W)
	case "seturl":
		out.code, out.body, err = n.SetURL(runURLs[op.U], op.W, "", runURLs[op.U2], op.En)
	case "remove":
		out.code, out.body, err = n.RemoveURL(runURLs[op.U], op.W)
	case "refresh":
		out.code, _, out.body, err = n.Refresh(op.W)
		if err == nil && out.code != 200 {
			return nil, kernel.Violationf("api-status", "POST filtering/refresh -> %d %s", out.code, out.body)
		}
		r.c.Probe("refresh_forced")
	case "advance":
		time.Sleep(time.Duration(op.S) * time.Second)
		r.c.SimTime += time.Duration(op.S) * time.Second
	case "config":
		out.code, out.body, err = n.SetConfig(true, uint32(op.H))
		if err == nil && out.code != 200 {
			return nil, kernel.Violationf("api-status", "POST filtering/config -> %d %s", out.code, out.body)
		}
	case "restart":
		block, allow, rules, pats, ivl := n.DiskConfig()
		n.Close()
		time.Sleep(time.Duration(op.S) * time.Second) // downtime
		r.c.SimTime += time.Duration(op.S) * time.Second
		if err = ls.FixMtimes(n.Opt.DataDir); err != nil {
			return nil, err
		}
		r.prevStartAt, r.startAt = r.startAt, time.Now()
		opt := n.Opt
		opt.Block, opt.Allow, opt.UserRules, opt.SafeFSPatterns, opt.IntervalH = block, allow, rules, pats, ivl
		r.n, err = ls.Open(opt, r.srv)
		if err != nil {
			return nil, fmt.Errorf("harness: reopening: %w", err)
		}
		r.c.Fault("clean_restart")
		for _, l := range r.lists {
			if l.enabled {
				l.unloaded = ""
			}
		}
	default:
		return nil, fmt.Errorf("harness: unknown op %q", op.K)
	}
	return out, err
}

// membership updates the model's list set from the API's answer and says what
// the answer had to be.
func (r *run) membership(op Op, out *opOutcome, recs []*ls.Record) error {
	byURL := map[string][]*ls.Record{}
	for _, rec := range recs {
		byURL[rec.URL] = append(byURL[rec.URL], rec)
	}
	switch op.K {
	case "add":
		u := runURLs[op.U]
		exists := r.find(u) != nil
		dl := byURL[u]
		switch out.code {
		case 200:
			if exists {
				return kernel.Violationf("add-duplicate-accepted", "add_url %s answered 200 although a list with that URL exists", u)
			}
			if len(dl) > 0 && r.classify(dl[len(dl)-1]) == expOld {
				return kernel.Violationf("failed-download-accepted", "add_url %s answered 200 although the download failed: %s", u, fmtRecs(dl))
			}
			l := &mlist{url: u, white: op.W, enabled: true}
			r.lists = append(r.lists, l)
			out.added, out.changed = l, true
			r.c.Probe("add_accepted")
		case 400:
			r.c.Probe("add_rejected")
			if !exists && len(dl) == 1 && r.classify(dl[0]) == expNew {
				if nf, _ := ls.NormalForm(dl[0].Reply.Body); len(nf) > 0 {
					return kernel.Violationf("good-list-rejected", "add_url %s: the server delivered a complete well-formed list (%s) but the request was rejected: %s", u, dl[0].Reply.Tag, out.body)
				}
			}
		default:
			return kernel.Violationf("api-status", "add_url -> %d %s", out.code, out.body)
		}
	case "seturl":
		u, u2 := runURLs[op.U], runURLs[op.U2]
		var tgt *mlist
		if l := r.find(u); l != nil && l.white == op.W {
			tgt = l
		}
		switch out.code {
		case 200:
			if tgt == nil {
				return kernel.Violationf("seturl-unknown-accepted", "set_url for %s (allow=%v) answered 200 but no such list exists", u, op.W)
			}
			if u2 != u && r.find(u2) != nil {
				return kernel.Violationf("seturl-duplicate-accepted", "set_url %s -> %s answered 200 although another list has that URL", u, u2)
			}
			if dl := byURL[u2]; len(dl) > 0 && r.classify(dl[len(dl)-1]) == expOld {
				return kernel.Violationf("failed-download-accepted", "set_url %s -> %s answered 200 although the download failed: %s", u, u2, fmtRecs(dl))
			}
			if tgt.url != u2 || tgt.enabled != op.En {
				out.changed = true
			}
			if !op.En {
				tgt.unloaded = "reenable"
			} else if tgt.url != u2 {
				tgt.unloaded = "url-changed"
			}
			out.reenabled = !tgt.enabled && op.En
			tgt.url, tgt.enabled = u2, op.En
			out.target = tgt
			r.c.Probe("seturl_accepted")
		case 400:
			r.c.Probe("seturl_rejected")
			if tgt == nil {
				break
			}
			dl := byURL[u2]
			if len(dl) > 0 {
				out.failedSetURL = tgt
				// (a missing local file is refused by the validation, before
				// anything about the list is touched)
				if u2 != u && !(dl[0].Local && r.localState == "missing") {
					// A list that was already unloaded for another reason
					// (disabled) keeps that reason: the failed request
					// restores what it found.
					if tgt.unloaded == "" {
						tgt.unloaded = "failed-seturl"
					}
					r.c.Probe("seturl_download_failed")
				}
				if len(dl) == 1 && r.classify(dl[0]) == expNew && (u2 == u || r.find(u2) == nil) {
					return kernel.Violationf("good-list-rejected", "set_url %s -> %s: the server delivered a complete well-formed list (%s) but the request was rejected: %s", u, u2, dl[0].Reply.Tag, out.body)
				}
			}
		default:
			return kernel.Violationf("api-status", "set_url -> %d %s", out.code, out.body)
		}
	case "remove":
		if out.code != 200 {
			return kernel.Violationf("api-status", "remove_url -> %d %s", out.code, out.body)
		}
		u := runURLs[op.U]
		for i, l := range r.lists {
			if l.url == u && l.white == op.W {
				r.lists = append(r.lists[:i:i], r.lists[i+1:]...)
				out.changed = true
				r.c.Probe("list_removed")
				break
			}
		}
	}
	return nil
}

func (r *run) side(white bool) []*mlist {
	var out []*mlist
	for _, l := range r.lists {
		if l.white == white {
			out = append(out, l)
		}
	}
	return out
}

func hasLine(lines []string, v int) (exact, mention bool) {
	pr := ls.ProbeRules(v)
	name := ls.ProbeName(v)
	for _, l := range lines {
		if l == pr[0] || l == pr[1] {
			exact = true
		} else if strings.Contains(l, name) {
			mention = true
		}
	}
	return
}

// expectedVerdict computes the decision for version v's probe host from the
// lists the model believes to be stored and enabled.  ok is false when a list
// mentions the name in a line that is not exactly the probe rule.
func (r *run) expectedVerdict(v int) (reason string, ok bool) {
	allow, block := false, false
	for _, l := range r.lists {
		if !l.enabled || !l.st.has {
			continue
		}
		exact, mention := hasLine(l.lines, v)
		if mention {
			return "", false
		}
		if exact && l.white {
			allow = true
		}
		if exact && !l.white {
			block = true
		}
	}
	switch {
	case allow:
		return "NotFilteredWhiteList", true
	case block:
		return "FilteredBlackList", true
	}
	return "NotFilteredNotFound", true
}

// earlierVerdict reports whether reason is the decision for version v's probe
// host under some combination of states the lists' files went through during
// the current operation (engines built then and not rebuilt since).
func (r *run) earlierVerdict(v int, reason string) bool {
	var ls2 []*mlist
	for _, l := range r.lists {
		if l.enabled {
			ls2 = append(ls2, l)
		}
	}
	var rec func(i int, allow, block bool) bool
	budget := 4096
	rec = func(i int, allow, block bool) bool {
		if budget--; budget < 0 {
			return false
		}
		if i == len(ls2) {
			want := "NotFilteredNotFound"
			if allow {
				want = "NotFilteredWhiteList"
			} else if block {
				want = "FilteredBlackList"
			}
			return want == reason
		}
		l := ls2[i]
		vers := l.earlier
		if len(vers) == 0 {
			vers = [][]string{l.lines}
		}
		for _, lines := range vers {
			exact, mention := hasLine(lines, v)
			if rec(i+1, allow || (exact && l.white), block || (exact && !l.white)) {
				return true
			}
			// a line that merely contains the name may or may not match it
			if mention && !exact && rec(i+1, allow || l.white, block || !l.white) {
				return true
			}
		}
		return false
	}
	return rec(0, false, false)
}

// check observes the system after an operation and justifies every part of
// the observation from the model and the requests the server saw.
func (r *run) check(op Op, out *opOutcome, recs []*ls.Record) error {
	c, n := r.c, r.n
	// 0. the parser's normal form, for every completely served text.
	for _, rec := range recs {
		if rec.Reply.Complete() || ((rec.Reply.Kind == ls.KindSlowHdr || rec.Reply.Kind == ls.KindSlowBody) && !rec.TimedOut) {
			if err := parserFixedPoint(rec.Reply.Body); err != nil {
				return err
			}
		}
	}
	for _, rec := range recs {
		// The server's "current version" of a location, for unplanned requests.
		if i := strings.IndexByte(rec.Reply.Tag, '/'); i > 1 && r.classify(rec) != expOld {
			var v int
			fmt.Sscanf(rec.Reply.Tag[1:i], "%d", &v)
			r.cur[rec.URL] = v
		}
	}
	if err := r.membership(op, out, recs); err != nil {
		return err
	}
	st, _, err := n.Status()
	if err != nil {
		return err
	}
	// 1. the list set.
	for _, sd := range []struct {
		white bool
		obs   []ls.FilterJSON
	}{{false, st.Filters}, {true, st.WhitelistFilters}} {
		want := r.side(sd.white)
		if len(want) != len(sd.obs) {
			return kernel.Violationf("list-set-mismatch", "allow=%v: status shows %d lists, the model has %d", sd.white, len(sd.obs), len(want))
		}
		for i, l := range want {
			o := sd.obs[i]
			if l.id == 0 {
				for _, other := range r.lists {
					if other.id == o.ID {
						v := kernel.Violationf("list-id-reused", "add_url gave the new list %s the id %d, which list %s still uses: both now share the file data/filters/%d.txt (ids are issued from a counter seeded with the start time in seconds: this run started at t=%s, the previous one at t=%s)",
							o.URL, o.ID, other.url, o.ID, r.startAt.Sub(kernel.Epoch), r.prevStartAt.Sub(kernel.Epoch))
						if ls.Tolerate(c, "C15", "c15", v) {
							return errStop
						}
						return v
					}
				}
				l.id = o.ID
			}
			if o.URL != l.url || o.Enabled != l.enabled || o.ID != l.id {
				return kernel.Violationf("list-set-mismatch", "allow=%v list %d: status {url %s enabled %v id %d}, model {url %s enabled %v id %d}", sd.white, i, o.URL, o.Enabled, o.ID, l.url, l.enabled, l.id)
			}
		}
	}
	obsCount := map[int64]int{}
	for _, o := range append(append([]ls.FilterJSON{}, st.Filters...), st.WhitelistFilters...) {
		obsCount[o.ID] = int(o.RulesCount)
	}
	// 2. every list's file.
	byURL := map[string][]*ls.Record{}
	for _, rec := range recs {
		byURL[rec.URL] = append(byURL[rec.URL], rec)
	}
	anyStoredChanged := false
	failedN, okN, ambN, maybeFailedN := 0, 0, 0, 0
	kindReq := map[bool]bool{} // kinds (allow / block) of the lists that were requested
	known := map[string]bool{}
	for _, l := range r.lists {
		known[fmt.Sprintf("%d.txt", l.id)] = true
		fs, err := ls.ReadFileState(n.ListPath(l.id))
		if err != nil {
			return err
		}
		obs := fstate{has: fs.Exists, nf: string(fs.Data)}
		myRecs := byURL[l.url]
		if out.failedSetURL == l {
			myRecs = nil // downloads of the rejected new location must change nothing
		}
		if len(myRecs) > 0 {
			kindReq[l.white] = true
		}
		acc := []fstate{l.st}
		sawNew, sawCertainNew, sawCertainExpNew, onlySame := false, false, false, true
		l.earlier = nil
		if l.st.has {
			l.earlier = append(l.earlier, l.lines)
		} else {
			l.earlier = append(l.earlier, nil)
		}
		for _, rec := range myRecs {
			cl := r.classify(rec)
			if cl == expOld {
				if !rec.Local || op.K == "refresh" {
					failedN++
				} else {
					maybeFailedN++
				}
				continue
			}
			nf, lines := ls.NormalForm(rec.Reply.Body)
			ns := fstate{has: true, nf: string(nf)}
			if ns != l.st {
				onlySame = false
			}
			l.earlier = append(l.earlier, lines)
			// After an earlier download in this operation the system knows the
			// stored file's checksum again.
			_ = l.unloaded
			sawNew = true
			if !rec.Uncertain {
				sawCertainNew = true
			}
			if cl == expEither && out.code == 200 && ((op.K == "add" && l == out.added) || (op.K == "seturl" && l == out.target)) {
				// The request that downloaded it was accepted: the text counts
				// as taken (the old file came from another location).
				cl = expNew
				sawCertainExpNew = true
			}
			if cl == expEither {
				acc = append(acc, ns)
				if !rec.Uncertain {
					ambN++
				} else if ls.Ambiguous(rec.Reply.Body) {
					maybeFailedN++
				}
				continue
			}
			okN++
			if !rec.Uncertain {
				sawCertainExpNew = true
			}
			next := []fstate{ns}
			if ns.nf == "" {
				// No rules: the statement does not ask for an empty file
				// where there was none.
				for _, a := range acc {
					if !a.has {
						next = append(next, a)
					}
				}
			}
			// The statement lets content with an unchanged checksum stay.
			crc := ls.LinesChecksum(lines)
			for _, a := range acc {
				// (Whether the system still knows the stored file's checksum
				// at this point is its own business: keeping equal-checksum
				// content is always within the statement.)
				if a.has && a != ns {
					if _, al := ls.NormalForm([]byte(a.nf)); ls.LinesChecksum(al) == crc {
						next = append(next, a)
					}
				}
			}
			acc = next
		}
		found := false
		for _, a := range acc {
			if a == obs {
				found = true
			}
		}
		where := fmt.Sprintf("list id=%d allow=%v url#%d", l.id, l.white, urlIdx(l.url))
		if !found {
			desc := fmt.Sprintf("%s: file now exists=%v %d bytes sha %s; before the operation exists=%v %d bytes sha %s; requests: %s", where, obs.has, len(obs.nf), sha([]byte(obs.nf)), l.st.has, len(l.st.nf), sha([]byte(l.st.nf)), fmtRecs(myRecs))
			if !sawNew {
				return kernel.Violationf("failed-refresh-changed-file", "%s", desc)
			}
			if len(acc) == 1 && acc[0].has && obs.has {
				desc += fmt.Sprintf("; expected normal form %d bytes sha %s, first difference at offset %d", len(acc[0].nf), sha([]byte(acc[0].nf)), firstDiff([]byte(acc[0].nf), []byte(obs.nf)))
			}
			if obs == l.st && l.unloaded != "" && len(acc) == 1 && acc[0].nf == "" && obs.nf != "" {
				v := kernel.Violationf("empty-list-keeps-old-file", "%s: the location now serves a list without rules and the download was accepted, but the file keeps its previous %d bytes (checksum 0 doubles as 'nothing loaded' after %s): rules_count says %d, the old rules stay in the file the engines read", desc, len(obs.nf), l.unloaded, obsCount[l.id])
				if ls.Tolerate(c, "C15", "c15", v) {
					return errStop
				}
				return v
			}
			if obs == l.st {
				return kernel.Violationf("successful-refresh-not-stored", "%s", desc)
			}
			return kernel.Violationf("stored-not-normal-form", "%s", desc)
		}
		// inode: unchanged content is not rewritten, a failed refresh never replaces the file.
		if obs == l.st && obs.has && onlySame && fs.Inode != l.inode {
			if !sawNew {
				return kernel.Violationf("failed-refresh-replaced-file", "%s: same bytes but a new inode after only failed requests: %s", where, fmtRecs(myRecs))
			}
			cls := "unchanged-rewritten"
			if l.unloaded != "" {
				cls += "-after-" + l.unloaded
			}
			if l.unloaded == "url-changed" {
				// Another location: not a refresh of the same source; not asserted.
				c.Probe("same_content_from_new_location")
				cls = ""
			}
			v := kernel.Violationf(cls, "%s: the served content equals the stored one (sha %s) but the file was replaced (new inode); requests: %s", where, sha(fs.Data), fmtRecs(myRecs))
			if cls != "" && !ls.Tolerate(c, "C15", "c15", v) {
				return v
			}
		} else if obs == l.st && obs.has && sawNew && onlySame {
			c.Probe("unchanged_content_kept_inode")
		}
		if obs == l.st && len(myRecs) > 0 && !sawNew {
			c.Probe("failed_refresh_left_list_unchanged")
		}
		if obs == l.st && obs.has && fs.Inode != l.inode {
			// replaced and replaced back within the operation
			anyStoredChanged = true
		}
		if obs != l.st {
			anyStoredChanged = true
			c.Probe("changed_content_stored_as_normal_form")
			if l.white {
				c.Probe("allow_list_updated")
			}
			l.unloaded = ""
		} else if sawCertainNew && onlySame && l.enabled {
			l.unloaded = ""
		}
		if sawNew && obs == l.st && !onlySame {
			amb := false
			for _, rec := range myRecs {
				if r.classify(rec) == expEither {
					amb = true
				}
			}
			if amb {
				c.Probe("ambiguous_text_rejected")
			} else {
				c.Probe("same_checksum_other_text_kept_old")
			}
		}
		for _, rec := range myRecs {
			if r.classify(rec) == expEither && obs.has {
				if nf, _ := ls.NormalForm(rec.Reply.Body); string(nf) == obs.nf && obs != l.st {
					c.Probe("ambiguous_text_accepted")
				}
			}
		}
		// rule count.
		_, lines := ls.NormalForm(fs.Data)
		if obs.has && string(mustNF(fs.Data)) != obs.nf {
			return kernel.Violationf("stored-not-normal-form", "%s: the stored file is not in normal form", where)
		}
		cnt := obsCount[l.id]
		if l.enabled {
			if obs == l.st && !out.changed && op.K != "restart" && l.count != cnt {
				return kernel.Violationf("rules-count-changed", "%s: rules_count %d -> %d although the file is unchanged; requests: %s", where, l.count, cnt, fmtRecs(myRecs))
			}
			if cnt != len(lines) {
				cls := "rules-count-mismatch"
				if op.K == "restart" {
					cls = "reparse-count-mismatch"
				}
				return kernel.Violationf(cls, "%s: rules_count %d, the stored file has %d rule lines", where, cnt, len(lines))
			}
			if op.K == "restart" && obs.has {
				c.Probe("restart_reparsed_same_count")
			}
		}
		if sawCertainExpNew {
			// a download that had to be taken re-establishes the remembered checksum
			l.unloaded = ""
		}
		l.st, l.lines, l.inode, l.count = obs, lines, fs.Inode, cnt
	}
	if failedN > 0 && okN > 0 {
		c.Probe("refresh_partly_failed")
	}
	if failedN > 0 && okN == 0 {
		c.Probe("refresh_all_failed")
	}
	if op.K == "advance" && len(recs) > 0 {
		c.Probe("refresh_scheduled")
	}
	// 3. nothing else in the directory.
	names, err := ls.DirNames(n.FiltersDir())
	if err != nil {
		return err
	}
	for _, nm := range names {
		if known[nm] && r.findID(nm).st.has || strings.HasSuffix(nm, ".old") || r.leftover[nm] {
			continue
		}
		return kernel.Violationf("stray-file", "data/filters contains %q, which belongs to no list in the model (after %s, requests: %s)", nm, op.K, fmtRecs(recs))
	}
	// 4. rules in force.
	changed := anyStoredChanged || out.changed
	for pass := 0; pass < 2; pass++ {
		var stale *kernel.Violation
		vs := make([]string, 0, len(r.body))
		for v := range r.body {
			name := ls.ProbeName(v)
			got, err := n.CheckHost(name)
			if err != nil {
				return err
			}
			vs = append(vs, got.Reason)
			want, ok := r.expectedVerdict(v)
			before := r.verdicts[name]
			if !ok {
				r.verdicts[name] = got.Reason
				c.Probe("probe_name_in_merged_line")
				continue
			}
			if got.Reason != want {
				switch {
				case !changed:
					return kernel.Violationf("rules-in-force-changed", "%s: verdict %s -> %s although no list changed in this operation (model expects %s); requests: %s", name, before, got.Reason, want, fmtRecs(recs))
				case pass == 0 && anyStoredChanged && r.earlierVerdict(v, got.Reason):
					cls := "stored-list-not-in-force"
					if len(kindReq) == 2 && failedN+ambN+maybeFailedN > 0 {
						// a timer-driven refresh (block and allow lists at once) in which downloads failed
						cls = "stored-list-not-in-force-after-failed-downloads"
					}
					stale = kernel.Violationf(cls, "%s: verdict %s, the lists now stored give %s: the engines were not rebuilt after a refresh that replaced a list file; requests: %s", name, got.Reason, want, fmtRecs(recs))
				case pass == 0 && op.K == "seturl" && out.reenabled && !anyStoredChanged && r.verdictWithout(out.target, v) == got.Reason:
					// (a more specific name for what would be a verdict-mismatch)
					stale = kernel.Violationf("enabled-list-not-in-force-when-unchanged", "%s: verdict %s, the lists stored and enabled give %s: set_url enabled the list id=%d, answered 200 and found its content unchanged (the file was kept), and the engines were not rebuilt, so the enabled list is not in force; requests: %s", name, got.Reason, want, out.target.id, fmtRecs(recs))
				default:
					return kernel.Violationf("verdict-mismatch", "%s: verdict %s, the lists stored give %s (before the operation: %s); requests: %s", name, got.Reason, want, before, fmtRecs(recs))
				}
			}
			if stale == nil {
				r.verdicts[name] = got.Reason
			}
		}
		if pass == 0 {
			c.Eventf("  verdicts %s", strings.Join(vs, ","))
		}
		if stale == nil {
			break
		}
		if !ls.Tolerate(c, "C15", "c15", stale) {
			return stale
		}
		// Known finding: carry on after making the system rebuild its engines.
		if _, _, err := n.SetRules(nil); err != nil {
			return err
		}
		n.Settle()
	}
	for _, l := range r.lists {
		c.Eventf("  list allow=%v id=%d url#%d en=%v file=%v/%s count=%d", l.white, l.id, urlIdx(l.url), l.enabled, l.st.has, sha([]byte(l.st.nf)), l.count)
	}
	return nil
}

func mustNF(b []byte) []byte {
	nf, _ := ls.NormalForm(b)
	return nf
}

func (r *run) findID(name string) *mlist {
	for _, l := range r.lists {
		if fmt.Sprintf("%d.txt", l.id) == name {
			return l
		}
	}
	return &mlist{}
}

func fmtRecs(recs []*ls.Record) string {
	if len(recs) == 0 {
		return "none"
	}
	parts := make([]string, 0, len(recs))
	for _, rec := range recs {
		s := fmt.Sprintf("url#%d:%s[%s]", urlIdx(rec.URL), rec.Reply.Kind, rec.Reply.Tag)
		if rec.Local {
			s = fmt.Sprintf("url#%d:local-file[%s]", urlIdx(rec.URL), rec.Reply.Tag)
			if rec.Uncertain {
				s += ":maybe-read"
			}
		}
		if rec.Reply.Kind == ls.KindStatus {
			s += fmt.Sprintf("=%d", rec.Reply.Status)
		}
		if rec.TimedOut {
			s += ":timeout"
		}
		s += fmt.Sprintf(":%dB", rec.Delivered)
		parts = append(parts, s)
	}
	return strings.Join(parts, " ")
}

// Run executes one scenario.
func Run(t *testing.T, scAny any, c *kernel.Ctx) error {
	sc := scAny.(*Scenario)
	if len(sc.Contents) == 0 {
		return fmt.Errorf("harness: scenario without contents")
	}
	dir, err := kernel.TempDir("c15")
	if err != nil {
		return err
	}
	defer os.RemoveAll(dir)
	sched.Init()
	return bubble(t, func() error {
		r := &run{sc: sc, c: c, dir: dir, cur: map[string]int{}, verdicts: map[string]string{}}
		for v := range sc.Contents {
			r.body = append(r.body, sc.Contents[v].Render(v))
			r.verdicts[ls.ProbeName(v)] = "NotFilteredNotFound"
		}
		r.srv = &ls.Server{Plan: r.planFn}
		r.localPath = filepath.Join(dir, "local", "list.txt")
		runURLs = append([]string{}, urls...)
		runURLs[localIdx] = r.localPath
		if err = os.MkdirAll(filepath.Dir(r.localPath), 0o755); err != nil {
			return err
		}
		r.localState, r.localTag = "missing", "missing"
		opt := ls.Options{DataDir: filepath.Join(dir, "data"), IntervalH: uint32(sc.IntervalH), ClientTimeout: time.Duration(sc.TimeoutS) * time.Second,
			SafeFSPatterns: []string{filepath.Join(dir, "local", "*")}}
		for i, il := range sc.Init {
			lc := ls.ListConf{ID: int64(i + 1), URL: runURLs[il.U%len(urls)], Name: fmt.Sprintf("init %d", i), Enabled: il.En}
			if il.W {
				opt.Allow = append(opt.Allow, lc)
			} else {
				opt.Block = append(opt.Block, lc)
			}
			ml := &mlist{url: lc.URL, white: il.W, id: lc.ID, enabled: il.En}
			if !il.En {
				ml.unloaded = "reenable"
			}
			r.lists = append(r.lists, ml)
		}
		// the model keeps block lists and allow lists in status order
		sort.SliceStable(r.lists, func(i, j int) bool { return !r.lists[i].white && r.lists[j].white })
		r.startAt, r.prevStartAt = time.Now(), time.Now()
		if r.n, err = ls.Open(opt, r.srv); err != nil {
			return fmt.Errorf("harness: filtering.New: %w", err)
		}
		defer func() {
			if !r.abandon {
				r.n.Close()
				r.n.Drain()
			}
		}()
		for i, op := range sc.Ops {
			r.opIdx = i
			r.plan = append([]Rep(nil), op.Srv...)
			c.Eventf("op %d %s u=%d u2=%d w=%v en=%v s=%d t=%s", i, op.K, op.U, op.U2, op.W, op.En, op.S, time.Since(kernel.Epoch))
			if op.Local != nil {
				if err = r.setLocal(*op.Local); err != nil {
					return err
				}
				c.Eventf("  local file: %s", r.localTag)
			}
			var out *opOutcome
			var err error
			if op.K == "par" {
				err = r.par(op)
			} else if out, err = r.apply(op); err == nil {
				c.SimTime += r.n.Settle()
				err = ls.FixMtimes(opt.DataDir)
			}
			var recs []*ls.Record
			if err == nil && op.K != "par" {
				recs = append(r.srv.Take(), r.localRecords(op, out)...)
				r.countFaults(recs)
				c.Eventf("  -> %d; requests %s", out.code, fmtRecs(recs))
				err = r.check(op, out, recs)
			}
			if err == errStop {
				c.Step()
				return nil
			}
			if err != nil {
				if v, ok := err.(*kernel.Violation); ok {
					v.Msg = fmt.Sprintf("after op %d (%s) at t=%s: %s", i, op.K, time.Since(kernel.Epoch), v.Msg)
				}
				return err
			}
			c.Step()
		}
		return nil
	})
}

// Prop is the registration.
var Prop = &kernel.Property{
	ID:    "C15",
	Level: "exploration",
	Rule: "seeded histories (rapid) of add_url / set_url (new location, disable, re-enable) / remove_url / forced refresh / clock advance past the update interval (the real updates-loop timer refreshes) / restart / interval change over block and allow lists, " +
		"against a list server that per request serves generated text (mixed line ends, blanks, comments, titles, long lines, control bytes, same rules in other clothes, same characters split differently) in three framings or fails (dial, status, cut in headers, cut body with Content-Length or chunked at after-headers / mid-line / line-boundary / last-byte, stall past the client timeout, HTML page, binary body); " +
		"one list location is a local file under a safe pattern that the harness rewrites, deletes or turns into a directory; " +
		"concurrent phases (op par): 2-4 of forced refresh / the updates loop's periodic refresh and pending engine initialisations / add_url / set_url / remove_url / interval change / configuration write-out run as tasks of a seeded cooperative scheduler (switches at every lock operation of the instrumented tree and at the list server's latency; the schedule is a function of the op's seed), each task's requests answered from its own plan, and the outcome (answers incl. 'updated' and 'refresh in progress', list set, files, rules_count, last_updated, rules in force) must equal that of one serial order of the tasks under the reference model; " +
		"a case is non-trivial when >=1 changed content was stored and >=1 injected fault fired; distinct = distinct scenario digests",
	Gen: Gen,
	New: func() any { return &Scenario{} },
	Run: Run,
	NonTrivial: func(_ any, c *kernel.Ctx) bool {
		f := 0
		for k, v := range c.Faults {
			if k != "clean_restart" {
				f += v
			}
		}
		return c.Probes["changed_content_stored_as_normal_form"] > 0 && f > 0
	},
	Real: []string{"internal/filtering (DNSFilter: New/Start/Close, updatesLoop timer, refresh, update/finalizeUpdate, load, HTTP handlers, engines via urlfilter)", "internal/filtering/rulelist parser", "internal/aghrenameio + renameio on tmpfs", "net/http client (timeout, redirects) and HTTP/1 response/body framing (http.ReadResponse)"},
	Stub: []string{"list server and TCP connection (http.RoundTripper producing a raw HTTP/1.1 byte stream that can die or stall at a chosen offset)", "admin HTTP client (handlers called in-process)", "wall clock (synctest fake clock); file mtimes are stamped with the simulated time after each operation", "configuration file (the harness carries WriteDiskConfig's lists over a restart)"},
	Assumptions: []string{
		"a line is what a \\n terminates; a lone \\r is an ordinary character inside a line",
		"for completely delivered text that contains control bytes, HTML mark-up or lines longer than 60000 bytes both outcomes are accepted: nothing changed, or the normal form stored",
		"a completely delivered text whose rule lines have the same CRC-32 as the stored ones may be kept un-stored (the statement's 'unchanged checksum')",
		"HTTP bodies delimited by connection close are only generated complete (truncation is invisible by protocol design)",
		"outside the concurrent phases operations are serialised (mode A): the next operation starts when the previous refresh has finished",
		"concurrent phase (mode D): the simulated clock stands still during the phase (stalls are delivered as dead connections, as inside set_url); the updates loop's goroutine is stopped before the phase and started again after it, its two bodies run as one task; a request a task makes for a location that names no list at the task's position in a serial order is ignored by that order (as the sequential oracle ignores it); reads of the local list file count as 'may have been read' for every task; last_updated is only required to be unchanged for a list no operation concerned and to carry the phase's instant for a list whose content was stored; rules_count of a disabled list is not asserted",
		"reads of the local-file list are not intercepted: a forced refresh of its kind certainly reads it (strict expectation); during other operations the list may show either its previous state or the normal form of the file's current content, and only its previous state while the file is unreadable",
		"a stalled download inside set_url is delivered as a dead connection (set_url holds the list mutex while downloading; a timer-driven refresh blocking on that mutex would stop the simulated clock); stalls past the client timeout are simulated for add_url, forced and scheduled refresh",
	},
	FaultKinds: []string{"dial_error", "status_not_200", "cut_in_headers", "cut_content_length", "cut_chunked", "slow_headers_timeout", "slow_body_timeout", "html_page", "binary_body", "local_file_missing", "local_file_is_directory", "clean_restart", "concurrent_phase"},
	ProbeNames: []string{"par_file_of_no_list_left_behind", "refresh_forced", "refresh_scheduled", "refresh_partly_failed", "refresh_all_failed", "failed_refresh_left_list_unchanged", "changed_content_stored_as_normal_form", "unchanged_content_kept_inode",
		"allow_list_updated", "add_accepted", "add_rejected", "seturl_accepted", "seturl_rejected", "seturl_download_failed", "list_removed", "restart_reparsed_same_count",
		"cut_before_any_byte", "cut_after_headers", "cut_mid_line", "cut_at_line_boundary", "cut_before_last_byte", "complete_chunked", "complete_close_delimited", "slow_but_in_time",
		"ambiguous_text_accepted", "ambiguous_text_rejected", "same_checksum_other_text_kept_old", "same_content_from_new_location", "probe_name_in_merged_line", "local_file_read",
		"sched_steps", "sched_switches", "par_serial_order_found", "par_order_matters", "par_refresh_busy", "par_changed_content_stored", "par_config_written_out", "par_refresh_and_change_of_same_list"},
}

// bubble is kernel.Bubble (a variable so that a debugging test can run a
// scenario in a bare synctest bubble and see the goroutine dump of a leak).
var bubble = kernel.Bubble
