package c15

import (
	"encoding/json"
	"fmt"
	"os"
	"strconv"
	"testing"

	"github.com/AdguardTeam/AdGuardHome/verifsim/kernel"
)

// TestDbgParSeeds runs the scenario in $VERIF_DBG_PAR with the schedule seeds
// 0..$VERIF_DBG_N-1 in its first concurrent phase and prints, per outcome
// class, the first seed that reaches it (debugging aid for writing minimal
// scenarios of findings; needs the instrumented tree).
func TestDbgParSeeds(t *testing.T) {
	path := os.Getenv("VERIF_DBG_PAR")
	if path == "" {
		t.Skip()
	}
	b, err := os.ReadFile(path)
	if err != nil {
		t.Fatal(err)
	}
	var rf struct {
		Scenario json.RawMessage `json:"scenario"`
	}
	if err = json.Unmarshal(b, &rf); err != nil {
		t.Fatal(err)
	}
	n, _ := strconv.Atoi(os.Getenv("VERIF_DBG_N"))
	if n == 0 {
		// the scenario as it is
		sc := &Scenario{}
		if err = json.Unmarshal(rf.Scenario, sc); err != nil {
			t.Fatal(err)
		}
		kc := dbgCtx()
		err = Run(t, sc, kc)
		for _, l := range kc.Log() {
			fmt.Println("  |", l)
		}
		fmt.Println("result:", err)
		return
	}
	seen := map[string]bool{}
	for seed := 0; seed < n; seed++ {
		for _, pct := range []int{20, 50, 80} {
			sc := &Scenario{}
			if err = json.Unmarshal(rf.Scenario, sc); err != nil {
				t.Fatal(err)
			}
			for i := range sc.Ops {
				if sc.Ops[i].K == "par" {
					sc.Ops[i].Seed, sc.Ops[i].Pct = uint64(seed), pct
					break
				}
			}
			kc := dbgCtx()
			err := Run(t, sc, kc)
			cls := "pass"
			if v, ok := err.(*kernel.Violation); ok {
				cls = v.Class
			} else if err != nil {
				cls = "error: " + err.Error()
			}
			if !seen[cls] {
				seen[cls] = true
				fmt.Printf("seed %d pct %d: %s\n", seed, pct, cls)
				if err != nil {
					fmt.Println("   ", err)
				}
			}
		}
	}
}
