package c15

// The concurrent phase of C15 ("mode D"): 2-4 of the operations that run
// concurrently in production -- the updates loop (periodic refresh, pending
// engine initialisations), a forced refresh from the admin API, add_url /
// set_url / remove_url, the interval setting and the configuration write-out --
// run as tasks of the seeded cooperative scheduler against the same node, with
// the list server's latency a scheduling point.  Afterwards the statement's
// invariants must hold across the phase: what the system shows (list set,
// stored files, rules_count, last_updated, the forced refreshes' "updated"
// answers, rules in force) must be what ONE serial order of the overlapped
// operations produces according to the reference model.

import (
	"fmt"
	"os"
	"runtime"
	"sort"
	"strings"
	"time"

	"github.com/AdguardTeam/AdGuardHome/verifsim/kernel"
	ls "github.com/AdguardTeam/AdGuardHome/verifsim/listsim"
	"github.com/AdguardTeam/AdGuardHome/verifsim/sched"
	"pgregory.net/rapid"
)

// ParTask is one of the overlapped operations of a concurrent phase.
type ParTask struct {
	// K: refresh (forced, lists of kind W) | periodic (the updates loop's timer
	// fires: refresh of the lists that are due, and the pending engine
	// initialisations) | init (the updates loop handles pending engine
	// initialisations only) | add | seturl | remove | config (interval H) |
	// writeconf (the configuration write-out reads the module's settings).
	K   string `json:"k"`
	U   int    `json:"u,omitempty"`
	U2  int    `json:"u2,omitempty"`
	W   bool   `json:"w,omitempty"`
	En  bool   `json:"en,omitempty"`
	H   int    `json:"h,omitempty"`
	Srv []Rep  `json:"srv,omitempty"`
}

// parKinds is the weighted table of task kinds (interleaved).
var parKinds = []string{"refresh", "seturl", "periodic", "remove", "refresh", "add", "seturl", "refresh", "init", "periodic", "remove", "add", "config", "refresh", "seturl", "writeconf"}

func goid() uint64 {
	var buf [40]byte
	n := runtime.Stack(buf[:], false)
	var id uint64
	for _, c := range buf[len("goroutine "):n] {
		if c < '0' || c > '9' {
			break
		}
		id = id*10 + uint64(c-'0')
	}
	return id
}

// genPar draws the tasks of one concurrent phase.
func genPar(t *rapid.T, nc, timeoutS int, pick func(string) int, sideOf func(int) bool, side map[int]bool) []ParTask {
	var out []ParTask
	// home takes one global lock around every POST / PUT / DELETE handler, so
	// the assembled application never runs two modifying admin requests at
	// once: a phase holds at most one of them (forced refresh, add, set_url,
	// remove, config), overlapped with the work that is not under that lock —
	// the updates loop (periodic refresh, engine initialisation) and the
	// configuration write-out that other components trigger.
	loop, posted := false, false
	for j, n := 0, rapid.IntRange(2, 3).Draw(t, "par_n"); j < n; j++ {
		k := rapid.SampledFrom(parKinds).Draw(t, "par_kind")
		if k == "periodic" || k == "init" {
			if loop {
				k = "refresh" // there is one updates loop
			}
			loop = true
		}
		switch k {
		case "refresh", "add", "seturl", "remove", "config":
			if posted {
				if loop {
					k = "writeconf"
				} else {
					k, loop = "periodic", true
				}
			} else {
				posted = true
			}
		}
		pt := ParTask{K: k}
		plan := false
		switch k {
		case "refresh":
			pt.W = rapid.IntRange(0, 2).Draw(t, "allow") == 0
			plan = true
		case "periodic":
			plan = true
		case "add":
			pt.U, pt.W = rapid.IntRange(0, len(urls)-1).Draw(t, "url"), rapid.IntRange(0, 2).Draw(t, "allow") == 0
			plan = true
		case "seturl":
			pt.U, pt.En = pick("url"), rapid.IntRange(0, 3).Draw(t, "enabled") != 0
			pt.W = sideOf(pt.U)
			pt.U2 = pt.U
			if rapid.IntRange(0, 2).Draw(t, "new_url") != 0 {
				pt.U2 = rapid.IntRange(0, len(urls)-1).Draw(t, "url2")
			}
			plan = true
		case "remove":
			pt.U = pick("url")
			pt.W = sideOf(pt.U)
		case "config":
			pt.H = rapid.SampledFrom([]int{1, 0, 12, 1, 24, 72}).Draw(t, "new_interval")
		}
		if plan {
			for i, m := 0, rapid.IntRange(0, 3).Draw(t, "n_plan"); i < m; i++ {
				pt.Srv = append(pt.Srv, genRep(t, nc, timeoutS))
			}
		}
		out = append(out, pt)
	}
	// the generator's idea of which locations name a list afterwards
	for _, pt := range out {
		switch pt.K {
		case "add":
			if _, ok := side[pt.U]; !ok {
				side[pt.U] = pt.W
			}
		case "seturl":
			if w, ok := side[pt.U]; ok && w == pt.W {
				if _, taken := side[pt.U2]; !taken {
					delete(side, pt.U)
					side[pt.U2] = w
				}
			}
		case "remove":
			if w, ok := side[pt.U]; ok && w == pt.W {
				delete(side, pt.U)
			}
		}
	}
	return out
}

// taskObs is what one task of the phase was answered and what it requested.
type taskObs struct {
	code    int
	body    []byte
	updated int
	busy    bool
	err     error
	recs    []*ls.Record
}

func (o *taskObs) byURL(u string) []*ls.Record {
	var out []*ls.Record
	for _, rec := range o.recs {
		if rec.URL == u {
			out = append(out, rec)
		}
	}
	return out
}

// simList is a list in the simulation of one serial order.
type simList struct {
	src     *mlist // the list before the phase; nil: added in the phase
	url     string
	white   bool
	enabled bool
	id      int64
	acc     []fstate
	// prevAcc: the states the file could be in before the last download that
	// was taken (the "old file" of the listed finding empty-list-keeps-old-file
	// when several operations of one phase touch the list one after another).
	prevAcc []fstate
	earlier [][]string
	// what the requests applied to it were like
	touched, sawNew, certainNew, onlySame, targeted bool
	unloaded                                        string
	wasUnloaded                                     bool
}

type simState struct {
	lists   []*simList
	removed []*simList
}

func (s *simState) find(u string) *simList {
	for _, l := range s.lists {
		if l.url == u {
			return l
		}
	}
	return nil
}

// stages of the comparison, for choosing which serial order to report when
// none explains the observation: the one that gets furthest.
const (
	stAnswer = iota
	stUpdated
	stListSet
	stFile
	stStray
	stCount
	stStamp
	stVerdict
)

type mismatch struct {
	stage int
	class string
	msg   string
}

func mm(stage int, class, format string, args ...any) *mismatch {
	return &mismatch{stage: stage, class: class, msg: fmt.Sprintf(format, args...)}
}

func hasState(acc []fstate, s fstate) bool {
	for _, a := range acc {
		if a == s {
			return true
		}
	}
	return false
}

func sameChecksum(a fstate, crc uint32) bool {
	_, al := ls.NormalForm([]byte(a.nf))
	return ls.LinesChecksum(al) == crc
}

// feed applies the requests recs (all for the list's location, made by one
// operation) to the list: the set of file states the statement allows
// afterwards.  accepted says that the API request that made them was answered
// 200 and the list is its target.  lo / hi: whether the list's content was
// certainly / possibly replaced (what a refresh counts as "updated").
func (r *run) feed(l *simList, recs []*ls.Record, accepted bool) (lo, hi int) {
	for _, rec := range recs {
		l.touched = true
		cl := r.classify(rec)
		if cl == expOld {
			continue
		}
		nf, lines := ls.NormalForm(rec.Reply.Body)
		ns := fstate{has: true, nf: string(nf)}
		if l.src == nil || ns != l.src.st {
			l.onlySame = false
		}
		l.earlier = append(l.earlier, lines)
		l.sawNew = true
		if cl == expEither && accepted {
			// The request that downloaded it was accepted: the text counts as taken.
			cl = expNew
		}
		if l.unloaded != "" {
			// the system may have forgotten the stored file's checksum (listed
			// findings): a rewrite of equal content is judged by the inode check
			hi = 1
		}
		if cl == expEither {
			if !hasState(l.acc, ns) {
				l.acc = append(l.acc, ns)
			}
			if len(l.acc) > 1 {
				hi = 1
			}
			continue
		}
		l.certainNew = true
		l.prevAcc = append([]fstate(nil), l.acc...)
		crc := ls.LinesChecksum(lines)
		next := []fstate{ns}
		certain := true
		for _, a := range l.acc {
			if a == ns {
				certain = false
				continue
			}
			hi = 1
			switch {
			case !a.has && ns.nf == "":
				// No rules: the statement does not ask for an empty file where there was none.
				next, certain = append(next, a), false
			case a.has && sameChecksum(a, crc):
				// The statement lets content with an unchanged checksum stay.
				next, certain = append(next, a), false
			}
		}
		l.acc = next
		l.unloaded = ""
		if certain {
			lo = 1
		}
	}
	return lo, hi
}

// localRecord makes up the "request" of an operation that may have read the
// local list file (reads of it are not intercepted).
func (r *run) localRecord() *ls.Record {
	rec := &ls.Record{URL: r.localPath, Local: true, Reply: ls.Reply{Kind: ls.KindOK, Body: r.localBody, Tag: r.localTag}}
	rec.Unreadable = r.localState != "write"
	rec.Uncertain = !rec.Unreadable
	return rec
}

func (r *run) recsFor(o *taskObs, u string) []*ls.Record {
	if u == r.localPath {
		return []*ls.Record{r.localRecord()}
	}
	return o.byURL(u)
}

// simulate runs the reference model over the tasks in the given order, each
// with the answer and the requests observed for it.
func (r *run) simulate(tasks []ParTask, order []int, obs []*taskObs, refreshers int) (*simState, *mismatch) {
	s := &simState{}
	for _, l := range r.lists {
		sl := &simList{src: l, url: l.url, white: l.white, enabled: l.enabled, id: l.id, acc: []fstate{l.st}, onlySame: true, unloaded: l.unloaded, wasUnloaded: l.unloaded != ""}
		if l.st.has {
			sl.earlier = append(sl.earlier, l.lines)
		} else {
			sl.earlier = append(sl.earlier, nil)
		}
		s.lists = append(s.lists, sl)
	}
	for _, ti := range order {
		pt, o := tasks[ti], obs[ti]
		who := fmt.Sprintf("task %d (%s)", ti, pt.K)
		switch pt.K {
		case "refresh", "periodic":
			if o.busy {
				if refreshers < 2 {
					return s, mm(stAnswer, "refresh-busy-without-refresh", "%s was answered that a refresh is in progress, but no other refresh overlaps it", who)
				}
				continue
			}
			if pt.K == "refresh" && o.code != 200 {
				return s, mm(stAnswer, "api-status", "%s: POST filtering/refresh -> %d %s", who, o.code, o.body)
			}
			// A list that a set_url or remove_url of the same phase is about has
			// changed its identity under the refresh: the refresh drops what it
			// did for it from its count (the write-back recognises lists by id
			// and URL), so such a list need not be counted.
			moved := map[string]bool{}
			for _, q := range tasks {
				switch q.K {
				case "seturl":
					moved[runURLs[q.U]], moved[runURLs[q.U2]] = true, true
				case "remove":
					moved[runURLs[q.U]] = true
				}
			}
			lo, hi := 0, 0
			for _, l := range s.lists {
				if !l.enabled || (pt.K == "refresh" && l.white != pt.W) {
					continue
				}
				var recs []*ls.Record
				if l.url == r.localPath {
					recs = []*ls.Record{r.localRecord()}
				} else {
					recs = o.byURL(l.url)
				}
				a, b := r.feed(l, recs, false)
				if moved[l.url] || (l.src != nil && moved[l.src.url]) {
					a = 0
				}
				lo, hi = lo+a, hi+b
			}
			if pt.K == "refresh" && (o.updated < lo || o.updated > hi) {
				return s, mm(stUpdated, "par-updated-answer", "%s answered updated=%d; in this order the model has %d..%d lists of its kind whose content it replaced", who, o.updated, lo, hi)
			}
		case "add":
			u := runURLs[pt.U]
			exists := s.find(u) != nil
			dl := r.recsFor(o, u)
			switch o.code {
			case 200:
				if exists {
					return s, mm(stAnswer, "add-duplicate-accepted", "%s: add_url %s answered 200 although a list with that URL exists", who, u)
				}
				if len(dl) > 0 && r.classify(dl[len(dl)-1]) == expOld {
					return s, mm(stAnswer, "failed-download-accepted", "%s: add_url %s answered 200 although the download failed: %s", who, u, fmtRecs(dl))
				}
				l := &simList{url: u, white: pt.W, enabled: true, acc: []fstate{{}}, earlier: [][]string{nil}, targeted: true, touched: true}
				r.feed(l, dl, true)
				// append after the lists of its kind
				s.lists = append(s.lists, l)
			case 400:
				if !exists && len(dl) == 1 && r.classify(dl[0]) == expNew {
					if nf, _ := ls.NormalForm(dl[0].Reply.Body); len(nf) > 0 {
						return s, mm(stAnswer, "good-list-rejected", "%s: add_url %s: the server delivered a complete well-formed list (%s) but the request was rejected: %s", who, u, dl[0].Reply.Tag, o.body)
					}
				}
			default:
				return s, mm(stAnswer, "api-status", "%s: add_url -> %d %s", who, o.code, o.body)
			}
		case "seturl":
			u, u2 := runURLs[pt.U], runURLs[pt.U2]
			var tgt *simList
			if l := s.find(u); l != nil && l.white == pt.W {
				tgt = l
			}
			var dl []*ls.Record
			if u2 == r.localPath {
				// set_url downloads when the location changes or the list gets
				// enabled (and refuses a location another list already has).
				if tgt != nil && pt.En && ((tgt.url == u2 && !tgt.enabled) || (tgt.url != u2 && s.find(u2) == nil)) {
					dl = []*ls.Record{r.localRecord()}
				}
			} else {
				dl = o.byURL(u2)
			}
			switch o.code {
			case 200:
				if tgt == nil {
					return s, mm(stAnswer, "seturl-unknown-accepted", "%s: set_url for %s (allow=%v) answered 200 but no such list exists", who, u, pt.W)
				}
				if u2 != u && s.find(u2) != nil {
					return s, mm(stAnswer, "seturl-duplicate-accepted", "%s: set_url %s -> %s answered 200 although another list has that URL", who, u, u2)
				}
				if len(dl) > 0 && r.classify(dl[len(dl)-1]) == expOld {
					return s, mm(stAnswer, "failed-download-accepted", "%s: set_url %s -> %s answered 200 although the download failed: %s", who, u, u2, fmtRecs(dl))
				}
				if !pt.En {
					tgt.unloaded = "reenable"
				} else if tgt.url != u2 {
					tgt.unloaded = "url-changed"
				}
				if tgt.unloaded != "" {
					tgt.wasUnloaded = true
				}
				tgt.url, tgt.enabled = u2, pt.En
				tgt.targeted, tgt.touched = true, true
				r.feed(tgt, dl, true)
			case 400:
				if tgt == nil {
					break
				}
				if len(dl) > 0 {
					tgt.targeted, tgt.touched = true, true
					if u2 != u && !(dl[0].Local && r.localState == "missing") {
						if tgt.unloaded == "" {
							tgt.unloaded = "failed-seturl"
						}
						tgt.wasUnloaded = true
					}
					if len(dl) == 1 && r.classify(dl[0]) == expNew && (u2 == u || s.find(u2) == nil) {
						return s, mm(stAnswer, "good-list-rejected", "%s: set_url %s -> %s: the server delivered a complete well-formed list (%s) but the request was rejected: %s", who, u, u2, dl[0].Reply.Tag, o.body)
					}
				}
			default:
				return s, mm(stAnswer, "api-status", "%s: set_url -> %d %s", who, o.code, o.body)
			}
		case "remove":
			if o.code != 200 {
				return s, mm(stAnswer, "api-status", "%s: remove_url -> %d %s", who, o.code, o.body)
			}
			u := runURLs[pt.U]
			for i, l := range s.lists {
				if l.url == u && l.white == pt.W {
					s.lists = append(s.lists[:i:i], s.lists[i+1:]...)
					s.removed = append(s.removed, l)
					break
				}
			}
		case "config":
			if o.code != 200 {
				return s, mm(stAnswer, "api-status", "%s: POST filtering/config -> %d %s", who, o.code, o.body)
			}
		}
	}
	// the status shows block lists, then allow lists, each in order of addition
	sort.SliceStable(s.lists, func(i, j int) bool { return !s.lists[i].white && s.lists[j].white })
	return s, nil
}

// parObs is the system's state after the phase.
type parObs struct {
	st         *ls.Status
	all        []ls.FilterJSON
	files      map[int64]ls.FileState
	names      []string
	verdicts   []string
	before     map[int64]string // last_updated before the phase
	stamp      string           // the phase's instant as the status prints it
	strays     bool             // data/filters holds a file of no list
	strayNames []string
}

func verdictFor(lists []*simList, lines map[*simList][]string, v int) (reason string, ok bool) {
	allow, block := false, false
	for _, l := range lists {
		if !l.enabled {
			continue
		}
		ll, has := lines[l]
		if !has {
			continue
		}
		exact, mention := hasLine(ll, v)
		if mention {
			return "", false
		}
		if exact && l.white {
			allow = true
		}
		if exact && !l.white {
			block = true
		}
	}
	switch {
	case allow:
		return "NotFilteredWhiteList", true
	case block:
		return "FilteredBlackList", true
	}
	return "NotFilteredNotFound", true
}

// judge compares the outcome of one simulated order with the observation.
func (r *run) judge(s *simState, ob *parObs) *mismatch {
	// 1. the list set.
	if len(s.lists) != len(ob.all) {
		return mm(stListSet, "par-list-set", "status shows %d lists, this order gives %d", len(ob.all), len(s.lists))
	}
	usedIDs := map[int64]string{}
	for _, l := range r.lists {
		usedIDs[l.id] = l.url
	}
	ids := make([]int64, len(s.lists))
	for i, l := range s.lists {
		o := ob.all[i]
		white := i >= len(ob.st.Filters)
		id := l.id
		if id == 0 {
			if other, ok := usedIDs[o.ID]; ok {
				return mm(stListSet, "list-id-reused", "add_url gave the new list %s the id %d, which list %s uses or used in this run", o.URL, o.ID, other)
			}
			usedIDs[o.ID] = o.URL
			id = o.ID
		}
		ids[i] = id
		if o.URL != l.url || o.Enabled != l.enabled || o.ID != id || white != l.white {
			return mm(stListSet, "par-list-set", "list %d: status {url#%d enabled %v id %d allow %v}, this order {url#%d enabled %v id %d allow %v}", i, urlIdx(o.URL), o.Enabled, o.ID, white, urlIdx(l.url), l.enabled, id, l.white)
		}
	}
	// 2. every list's file.
	known := map[string]bool{}
	lines := map[*simList][]string{}
	for i, l := range s.lists {
		fs := ob.files[ids[i]]
		obs := fstate{has: fs.Exists, nf: string(fs.Data)}
		where := fmt.Sprintf("list id=%d allow=%v url#%d", ids[i], l.white, urlIdx(l.url))
		if obs.has {
			known[fmt.Sprintf("%d.txt", ids[i])] = true
			_, lines[l] = ls.NormalForm(fs.Data)
		}
		if !hasState(l.acc, obs) {
			var want []string
			allEmpty := true
			for _, a := range l.acc {
				want = append(want, fmt.Sprintf("exists=%v/%dB/%s", a.has, len(a.nf), sha([]byte(a.nf))))
				if !a.has || a.nf != "" {
					allEmpty = false
				}
			}
			desc := fmt.Sprintf("%s: file now exists=%v %d bytes sha %s; this order allows %s", where, obs.has, len(obs.nf), sha([]byte(obs.nf)), strings.Join(want, " or "))
			switch {
			case (l.src != nil && obs == l.src.st || hasState(l.prevAcc, obs)) && l.wasUnloaded && allEmpty && obs.nf != "":
				return mm(stFile, "empty-list-keeps-old-file", "%s: the location now serves a list without rules and the download was accepted, but the file keeps its previous %d bytes (checksum 0 doubles as 'nothing loaded')", desc, len(obs.nf))
			case !l.sawNew:
				return mm(stFile, "par-failed-refresh-changed-file", "%s", desc)
			case l.src != nil && obs == l.src.st:
				return mm(stFile, "par-successful-refresh-not-stored", "%s", desc)
			}
			return mm(stFile, "par-stored-file-from-no-serial-order", "%s", desc)
		}
		if obs.has && string(mustNF(fs.Data)) != obs.nf {
			return mm(stFile, "stored-not-normal-form", "%s: the stored file is not in normal form", where)
		}
	}
	// 3. what else is in the directory.  A file that belongs to no list (left
	// behind by an add_url that lost against another one, or re-created by a
	// refresh for a list removed meanwhile) is untidy, but the statement speaks
	// of the files of the lists that exist: it is counted, not judged.
	for _, nm := range ob.names {
		if known[nm] || strings.HasSuffix(nm, ".old") {
			continue
		}
		ob.strays = true
		ob.strayNames = append(ob.strayNames, nm)
	}
	// 4. rule counts.
	for i, l := range s.lists {
		if !l.enabled {
			continue
		}
		if cnt := int(ob.all[i].RulesCount); cnt != len(lines[l]) {
			return mm(stCount, "par-rules-count-mismatch", "list id=%d allow=%v url#%d: rules_count %d, the stored file has %d rule lines", ids[i], l.white, urlIdx(l.url), cnt, len(lines[l]))
		}
	}
	// 5. last_updated: a list nobody touched keeps it; a list whose content was
	// stored in the phase carries the phase's instant.
	for i, l := range s.lists {
		got := ob.all[i].LastUpdated
		if l.src == nil {
			continue
		}
		fs := ob.files[ids[i]]
		obs := fstate{has: fs.Exists, nf: string(fs.Data)}
		switch {
		case !l.touched && got != ob.before[l.id]:
			return mm(stStamp, "par-last-updated-changed", "list id=%d url#%d: last_updated %q -> %q although no operation of this order concerned the list", l.id, urlIdx(l.url), ob.before[l.id], got)
		case obs != l.src.st && obs.has && l.enabled && got != ob.stamp:
			return mm(stStamp, "par-last-updated-stale", "list id=%d url#%d: new content was stored at %s but last_updated says %q", l.id, urlIdx(l.url), ob.stamp, got)
		}
	}
	// 6. rules in force.
	for v := range r.body {
		want, ok := verdictFor(s.lists, lines, v)
		if ok && ob.verdicts[v] != want {
			if explainedByEarlier(s, lines, v, ob.verdicts[v]) {
				return mm(stVerdict, "older-engines-installed-last", "%s: verdict %s, the lists stored and enabled give %s; the verdict is that of files (or of a list set) that existed earlier in the phase: engines built from them were installed after the engines built from the final files", ls.ProbeName(v), ob.verdicts[v], want)
			}
			return mm(stVerdict, "par-rules-in-force-differ", "%s: verdict %s, the lists stored and enabled give %s", ls.ProbeName(v), ob.verdicts[v], want)
		}
	}
	return nil
}

// explainedByEarlier reports whether reason is the decision for version v's
// probe host under some combination of states the lists' files (and the list
// set) went through during the phase.
func explainedByEarlier(s *simState, lines map[*simList][]string, v int, reason string) bool {
	type cand struct {
		white bool
		vers  [][]string
	}
	var cs []cand
	for _, l := range s.lists {
		vers := append([][]string{}, l.earlier...)
		if ll, ok := lines[l]; ok {
			vers = append(vers, ll)
		}
		cs = append(cs, cand{l.white, vers})
	}
	for _, l := range s.removed {
		cs = append(cs, cand{l.white, l.earlier})
	}
	budget := 4096
	var rec func(i int, allow, block bool) bool
	rec = func(i int, allow, block bool) bool {
		if budget--; budget < 0 {
			return false
		}
		if i == len(cs) {
			want := "NotFilteredNotFound"
			if allow {
				want = "NotFilteredWhiteList"
			} else if block {
				want = "FilteredBlackList"
			}
			return want == reason
		}
		if rec(i+1, allow, block) { // the list not in the engines
			return true
		}
		for _, ll := range cs[i].vers {
			exact, mention := hasLine(ll, v)
			if (exact || mention) && rec(i+1, allow || cs[i].white, block || !cs[i].white) {
				return true
			}
		}
		return false
	}
	return rec(0, false, false)
}

// verdictWithout is the decision for version v's probe host from the lists the
// model believes to be stored and enabled, leaving one of them out.
func (r *run) verdictWithout(out *mlist, v int) string {
	allow, block := false, false
	for _, l := range r.lists {
		if l == out || !l.enabled || !l.st.has {
			continue
		}
		exact, _ := hasLine(l.lines, v)
		allow = allow || (exact && l.white)
		block = block || (exact && !l.white)
	}
	switch {
	case allow:
		return "NotFilteredWhiteList"
	case block:
		return "FilteredBlackList"
	}
	return "NotFilteredNotFound"
}

func permutations(n int) [][]int {
	var out [][]int
	var rec func(cur []int, used uint)
	rec = func(cur []int, used uint) {
		if len(cur) == n {
			out = append(out, append([]int(nil), cur...))
			return
		}
		for i := 0; i < n; i++ {
			if used&(1<<i) == 0 {
				rec(append(cur, i), used|1<<i)
			}
		}
	}
	rec(nil, 0)
	return out
}

func taskLabel(pt ParTask) string {
	switch pt.K {
	case "refresh":
		return fmt.Sprintf("refresh allow=%v", pt.W)
	case "add":
		return fmt.Sprintf("add url#%d allow=%v", pt.U, pt.W)
	case "seturl":
		return fmt.Sprintf("seturl url#%d->url#%d allow=%v en=%v", pt.U, pt.U2, pt.W, pt.En)
	case "remove":
		return fmt.Sprintf("remove url#%d allow=%v", pt.U, pt.W)
	case "config":
		return fmt.Sprintf("config interval=%d", pt.H)
	}
	return pt.K
}

// par runs one concurrent phase and judges it.
func (r *run) par(op Op) error {
	c, n := r.c, r.n
	if len(op.Tasks) == 0 || len(op.Tasks) > 6 {
		return fmt.Errorf("harness: concurrent phase with %d tasks", len(op.Tasks))
	}
	ob := &parObs{before: map[int64]string{}, files: map[int64]ls.FileState{}}
	stB, _, err := n.Status()
	if err != nil {
		return err
	}
	for _, o := range append(append([]ls.FilterJSON{}, stB.Filters...), stB.WhitelistFilters...) {
		ob.before[o.ID] = o.LastUpdated
	}
	// The updates loop's goroutine is stopped for the phase; its two bodies run
	// as a task (periodic / init).  The clock may move before the phase (lists
	// become due), never during it.
	n.F.VerifStopUpdatesLoop()
	kernel.Wait()
	if op.S > 0 {
		time.Sleep(time.Duration(op.S) * time.Second)
		c.SimTime += time.Duration(op.S) * time.Second
	}
	ob.stamp = time.Now().Format(time.RFC3339)

	obs := make([]*taskObs, len(op.Tasks))
	names := make([]string, len(op.Tasks))
	fns := make([]func(), len(op.Tasks))
	r.parOwner = map[uint64]int{}
	r.parPlan = make([][]Rep, len(op.Tasks))
	r.parReqOwner = nil
	refreshers := 0
	var confErr *kernel.Violation
	snapshot := func(what string) {
		block, allow, _, _, _ := n.DiskConfig()
		seenU, seenID := map[string]bool{}, map[int64]bool{}
		for _, lc := range append(append([]ls.ListConf{}, block...), allow...) {
			if (seenU[lc.URL] || seenID[lc.ID]) && confErr == nil {
				confErr = kernel.Violationf("par-config-snapshot-duplicate", "the configuration written out %s holds two lists with the location url#%d or the id %d", what, urlIdx(lc.URL), lc.ID)
			}
			seenU[lc.URL], seenID[lc.ID] = true, true
		}
		c.Probe("par_config_written_out")
	}
	for i, pt := range op.Tasks {
		o := &taskObs{}
		obs[i], names[i] = o, pt.K
		r.parPlan[i] = append([]Rep(nil), pt.Srv...)
		if pt.K == "refresh" || pt.K == "periodic" {
			refreshers++
		}
		var body func()
		switch pt.K {
		case "refresh":
			body = func() {
				o.code, o.updated, o.body, o.err = n.Refresh(pt.W)
				if o.err == nil && o.code == 500 && strings.Contains(string(o.body), "already running") {
					o.busy = true
				}
			}
		case "periodic":
			body = func() {
				n.F.VerifDrainInitializer()
				sched.Yield()
				n.F.VerifPeriodicRefresh(time.Hour)
				n.F.VerifDrainInitializer()
				sched.Yield()
				n.F.VerifDrainInitializer()
			}
		case "init":
			body = func() {
				for k := 0; k < 3; k++ {
					n.F.VerifDrainInitializer()
					sched.Yield()
				}
			}
		case "add":
			body = func() { o.code, o.body, o.err = n.AddURL("", runURLs[pt.U%len(urls)], pt.W) }
		case "seturl":
			body = func() {
				o.code, o.body, o.err = n.SetURL(runURLs[pt.U%len(urls)], pt.W, "", runURLs[pt.U2%len(urls)], pt.En)
			}
		case "remove":
			body = func() { o.code, o.body, o.err = n.RemoveURL(runURLs[pt.U%len(urls)], pt.W) }
		case "config":
			body = func() { o.code, o.body, o.err = n.SetConfig(true, uint32(pt.H)) }
		case "writeconf":
			body = func() { snapshot("by a concurrent write-out") }
		default:
			return fmt.Errorf("harness: unknown task kind %q", pt.K)
		}
		fns[i] = func() {
			r.parOwner[goid()] = i
			body()
		}
	}
	r.inPar = true
	r.srv.Latency = func() { sched.Yield() }
	n.OnModified = func() { snapshot("on a request's behalf") }
	res := sched.Run(op.Seed, op.Pct, names, fns)
	n.OnModified = nil
	r.srv.Latency = nil
	r.inPar = false
	c.Fault("concurrent_phase")
	c.Probes["sched_steps"] += res.Steps
	c.Probes["sched_switches"] += res.Switches
	if res.Deadlock != "" {
		r.abandon = true
		var parts []string
		for _, pt := range op.Tasks {
			parts = append(parts, taskLabel(pt))
		}
		return kernel.Violationf("deadlock: "+res.Deadlock, "concurrent tasks [%s], schedule seed %d: every task waits for a lock:\n%s", strings.Join(parts, " | "), op.Seed, res.Detail)
	}
	if res.Escapes > 0 {
		return fmt.Errorf("harness: the scheduler had to release a task stuck outside the seam (%d escapes)", res.Escapes)
	}
	// The loop's goroutine takes over again (and handles a pending engine
	// initialisation at once); 137 ms keep the driver off its timer grid.
	n.F.VerifStartUpdatesLoop()
	time.Sleep(137 * time.Millisecond)
	c.SimTime += n.Settle()
	if err = ls.FixMtimes(n.Opt.DataDir); err != nil {
		return err
	}
	for _, o := range obs {
		if o.err != nil {
			return o.err
		}
	}
	recs := r.srv.Take()
	if len(recs) != len(r.parReqOwner) {
		return fmt.Errorf("harness: %d requests logged, %d planned", len(recs), len(r.parReqOwner))
	}
	for i, rec := range recs {
		if t := r.parReqOwner[i]; t >= 0 {
			obs[t].recs = append(obs[t].recs, rec)
		} else {
			return fmt.Errorf("harness: a request for url#%d was made by no task of the phase", urlIdx(rec.URL))
		}
	}
	r.countFaults(recs)
	for i, pt := range op.Tasks {
		if pt.K != "seturl" && pt.K != "remove" {
			continue
		}
		for j, pj := range op.Tasks {
			if (pj.K == "refresh" || pj.K == "periodic") && obs[i].code == 200 && len(obs[j].byURL(runURLs[pt.U%len(urls)])) > 0 {
				c.Probe("par_refresh_and_change_of_same_list")
			}
		}
	}
	for i, pt := range op.Tasks {
		o := obs[i]
		ans := fmt.Sprintf("%d", o.code)
		switch {
		case o.busy:
			ans = "refresh in progress"
			c.Probe("par_refresh_busy")
		case pt.K == "refresh":
			ans += fmt.Sprintf(" updated=%d", o.updated)
		case pt.K == "periodic" || pt.K == "init" || pt.K == "writeconf":
			ans = "-"
		}
		c.Eventf("  task %d %s -> %s; requests %s", i, taskLabel(pt), ans, fmtRecs(o.recs))
	}
	if confErr != nil {
		return confErr
	}
	return r.checkPar(op, obs, recs, ob, refreshers)
}

// checkPar is the oracle of a concurrent phase.
func (r *run) checkPar(op Op, obs []*taskObs, recs []*ls.Record, ob *parObs, refreshers int) error {
	c, n := r.c, r.n
	// 0. the parser's normal form, for every completely served text.
	for _, rec := range recs {
		if rec.Reply.Complete() {
			if err := parserFixedPoint(rec.Reply.Body); err != nil {
				return err
			}
		}
	}
	for _, rec := range recs {
		if i := strings.IndexByte(rec.Reply.Tag, '/'); i > 1 && r.classify(rec) != expOld {
			var v int
			fmt.Sscanf(rec.Reply.Tag[1:i], "%d", &v)
			r.cur[rec.URL] = v
		}
	}
	// the observation
	st, _, err := n.Status()
	if err != nil {
		return err
	}
	ob.st = st
	ob.all = append(append([]ls.FilterJSON{}, st.Filters...), st.WhitelistFilters...)
	for _, o := range ob.all {
		if ob.files[o.ID], err = ls.ReadFileState(n.ListPath(o.ID)); err != nil {
			return err
		}
	}
	if ob.names, err = ls.DirNames(n.FiltersDir()); err != nil {
		return err
	}
	for v := range r.body {
		got, err := n.CheckHost(ls.ProbeName(v))
		if err != nil {
			return err
		}
		ob.verdicts = append(ob.verdicts, got.Reason)
	}
	c.Eventf("  verdicts %s", strings.Join(ob.verdicts, ","))
	for i, o := range ob.all {
		fs := ob.files[o.ID]
		c.Eventf("  status %d: id=%d url#%d en=%v count=%d updated=%q file=%v/%s", i, o.ID, urlIdx(o.URL), o.Enabled, o.RulesCount, o.LastUpdated, fs.Exists, sha(fs.Data))
	}

	// every serial order of the overlapped operations
	perms := permutations(len(op.Tasks))
	var okState *simState
	var okOrder []int
	var worst *mismatch
	var worstOrder []int
	explained := 0
	for _, order := range perms {
		s, m := r.simulate(op.Tasks, order, obs, refreshers)
		if m == nil {
			m = r.judge(s, ob)
		}
		if m == nil {
			explained++
			if okState == nil {
				okState, okOrder = s, order
			}
			continue
		}
		if os.Getenv("VERIF_DBG_ORDERS") != "" {
			fmt.Printf("order %v: %s: %s\n", order, m.class, m.msg)
		}
		if worst == nil || (c.IsKnown(m.class) && !c.IsKnown(worst.class)) || (c.IsKnown(m.class) == c.IsKnown(worst.class) && m.stage > worst.stage) {
			worst, worstOrder = m, order
		}
	}
	if okState == nil {
		return r.parViolation(op, obs, ob, worst, worstOrder)
	}
	c.Probe("par_serial_order_found")
	if explained < len(perms) {
		c.Probe("par_order_matters")
	}
	c.Eventf("  serial order %v explains the phase (%d of %d do)", okOrder, explained, len(perms))
	return r.commitPar(op, okState, ob)
}

// parViolation names what went wrong when no serial order explains the phase.
func (r *run) parViolation(op Op, obs []*taskObs, ob *parObs, worst *mismatch, order []int) error {
	var parts []string
	for i, pt := range op.Tasks {
		o := obs[i]
		ans := fmt.Sprintf("%d", o.code)
		if o.busy {
			ans = "refresh in progress"
		} else if pt.K == "refresh" {
			ans += fmt.Sprintf(" updated=%d", o.updated)
		}
		parts = append(parts, fmt.Sprintf("task %d %s -> %s, requests %s", i, taskLabel(pt), ans, fmtRecs(o.recs)))
	}
	ctx := fmt.Sprintf("overlapped [%s], schedule seed %d pct %d; no serial order of them explains the outcome; closest order %v: %s", strings.Join(parts, " | "), op.Seed, op.Pct, order, worst.msg)
	v := kernel.Violationf(worst.class, "%s", ctx)
	if !r.c.IsKnown(worst.class) {
		if cls, what := r.diagnose(op, obs, ob); cls != "" {
			v = kernel.Violationf(cls, "%s; %s", what, ctx)
		}
	}
	if ls.Tolerate(r.c, "C15", "c15", v) {
		return errStop
	}
	return v
}

// diagnose recognises the outcomes a concurrent phase must not have, from the
// observation alone.
func (r *run) diagnose(op Op, obs []*taskObs, ob *parObs) (class, what string) {
	now := map[int64]ls.FilterJSON{}
	for _, o := range ob.all {
		now[o.ID] = o
	}
	have := map[string]bool{}
	for _, nm := range ob.names {
		have[nm] = true
	}
	refreshed := func(u string) (bodies [][]byte, who []int) {
		for i, pt := range op.Tasks {
			if (pt.K != "refresh" && pt.K != "periodic") || obs[i].busy {
				continue
			}
			if u == r.localPath && r.localState == "write" {
				// reads of the local file are not seen: any refresh may have read it
				bodies, who = append(bodies, r.localBody), append(who, i)
			}
			for _, rec := range obs[i].byURL(u) {
				if r.classify(rec) != expOld {
					bodies, who = append(bodies, rec.Reply.Body), append(who, i)
				}
			}
		}
		return
	}
	for _, l := range r.lists {
		o, still := now[l.id]
		if !still {
			// a list removed in the phase: a file re-created for it by a
			// refresh that had snapshotted it belongs to no list (counted in
			// judge, not judged).
			continue
		}
		if o.URL != l.url {
			// the list was given another location in the phase
			fs := ob.files[l.id]
			bodies, who := refreshed(l.url)
			for k, b := range bodies {
				nf, _ := ls.NormalForm(b)
				fromNew := false
				for i := range op.Tasks {
					if obs[i].code >= 400 {
						// a rejected request stores nothing: what it was
						// served does not explain the file
						continue
					}
					for _, rec := range obs[i].byURL(o.URL) {
						if x, _ := ls.NormalForm(rec.Reply.Body); string(x) == string(nf) {
							fromNew = true
						}
					}
				}
				// (the listed finding leaves the metadata as set_url set them: when
				// rules_count is not that of any text set_url downloaded, this is
				// something else)
				metaFromSetURL, any := false, false
				for i, pt := range op.Tasks {
					if pt.K != "seturl" || obs[i].code != 200 {
						continue
					}
					for _, rec := range obs[i].byURL(o.URL) {
						if _, xl := ls.NormalForm(rec.Reply.Body); r.classify(rec) != expOld {
							any = true
							metaFromSetURL = metaFromSetURL || len(xl) == int(o.RulesCount)
						}
					}
				}
				if o.Enabled && any && !metaFromSetURL {
					continue
				}
				if fs.Exists && string(nf) == string(fs.Data) && !fromNew {
					return "seturl-overwritten-by-stale-refresh", fmt.Sprintf("set_url moved the list id=%d from url#%d to url#%d, and afterwards its file holds what task %d (a refresh that had taken the list into its work set under the old location) downloaded from url#%d (sha %s), while the reported rules_count=%d and the remembered checksum are those set_url left", l.id, urlIdx(l.url), urlIdx(o.URL), who[k], urlIdx(l.url), sha(fs.Data), o.RulesCount)
				}
			}
		}
	}
	// a list that a set_url of the phase downloaded (same location: disabled
	// and enabled again) and a refresh downloaded, too: the file of the one with
	// the rules_count of the other
	for _, l := range r.lists {
		o, still := now[l.id]
		fs := ob.files[l.id]
		if !still || o.URL != l.url || !o.Enabled || !fs.Exists {
			continue
		}
		type text struct {
			nf    string
			lines int
			task  int
		}
		var byRefresh, bySetURL []text
		for i, pt := range op.Tasks {
			if obs[i].busy || (pt.K == "seturl" && obs[i].code != 200) {
				continue
			}
			for _, rec := range obs[i].byURL(l.url) {
				if r.classify(rec) == expOld {
					continue
				}
				nf, lines := ls.NormalForm(rec.Reply.Body)
				switch pt.K {
				case "refresh", "periodic":
					byRefresh = append(byRefresh, text{string(nf), len(lines), i})
				case "seturl":
					bySetURL = append(bySetURL, text{string(nf), len(lines), i})
				}
			}
		}
		for _, a := range byRefresh {
			for _, b := range bySetURL {
				if a.lines == b.lines {
					continue
				}
				if string(fs.Data) == b.nf && int(o.RulesCount) == a.lines {
					return "stale-refresh-written-back-after-seturl", fmt.Sprintf("the list id=%d url#%d holds in its file what set_url (task %d, which enabled it again) downloaded (%d rule lines, sha %s) but reports rules_count=%d, that of the text the refresh (task %d) had downloaded before and wrote back into the list afterwards", l.id, urlIdx(l.url), b.task, b.lines, sha(fs.Data), o.RulesCount, a.task)
				}
				if string(fs.Data) == a.nf && int(o.RulesCount) == b.lines {
					return "stale-refresh-written-back-after-seturl", fmt.Sprintf("the list id=%d url#%d reports rules_count=%d, that of the text set_url (task %d, which enabled it again) downloaded, but its file holds what the refresh (task %d) downloaded (%d rule lines, sha %s) and stored afterwards", l.id, urlIdx(l.url), o.RulesCount, b.task, a.task, a.lines, sha(fs.Data))
				}
			}
		}
	}
	return "", ""
}

// commitPar continues the model from the order that explained the phase.
func (r *run) commitPar(op Op, s *simState, ob *parObs) error {
	c := r.c
	var lists []*mlist
	for i, sl := range s.lists {
		o := ob.all[i]
		fs := ob.files[o.ID]
		obs := fstate{has: fs.Exists, nf: string(fs.Data)}
		_, lines := ls.NormalForm(fs.Data)
		l := sl.src
		if l == nil {
			l = &mlist{white: sl.white}
			c.Probe("add_accepted")
		}
		where := fmt.Sprintf("list id=%d allow=%v url#%d", o.ID, sl.white, urlIdx(sl.url))
		if sl.src != nil {
			prev := sl.src.st
			switch {
			case obs == prev && obs.has && sl.touched && sl.onlySame && fs.Inode != sl.src.inode && !sl.targeted:
				// unchanged content is not rewritten, a failed refresh never replaces the file
				if !sl.sawNew {
					return kernel.Violationf("failed-refresh-replaced-file", "%s: same bytes but a new inode after only failed requests in a concurrent phase", where)
				}
				cls := "unchanged-rewritten"
				if sl.src.unloaded != "" {
					cls += "-after-" + sl.src.unloaded
				}
				if sl.src.unloaded == "url-changed" {
					c.Probe("same_content_from_new_location")
					break
				}
				v := kernel.Violationf(cls, "%s: the content served in the concurrent phase equals the stored one (sha %s) but the file was replaced (new inode)", where, sha(fs.Data))
				if !ls.Tolerate(c, "C15", "c15", v) {
					return v
				}
			case obs == prev && obs.has && sl.sawNew && sl.onlySame && fs.Inode == sl.src.inode:
				c.Probe("unchanged_content_kept_inode")
			}
			if obs == prev && sl.touched && !sl.sawNew {
				c.Probe("failed_refresh_left_list_unchanged")
			}
			if obs != prev {
				c.Probe("changed_content_stored_as_normal_form")
				c.Probe("par_changed_content_stored")
				if sl.white {
					c.Probe("allow_list_updated")
				}
			}
		}
		switch {
		case !sl.enabled:
			l.unloaded = "reenable"
		case sl.src == nil || obs != sl.src.st || sl.certainNew:
			l.unloaded = ""
		default:
			l.unloaded = sl.unloaded
		}
		l.url, l.enabled, l.id = sl.url, sl.enabled, o.ID
		l.st, l.lines, l.inode, l.count = obs, lines, fs.Inode, int(o.RulesCount)
		l.earlier = nil
		lists = append(lists, l)
	}
	if len(s.removed) > 0 {
		c.Probe("list_removed")
	}
	if ob.strays {
		c.Probe("par_file_of_no_list_left_behind")
		if r.leftover == nil {
			r.leftover = map[string]bool{}
		}
		for _, nm := range ob.strayNames {
			r.leftover[nm] = true
		}
	}
	r.lists = lists
	for v := range r.body {
		r.verdicts[ls.ProbeName(v)] = ob.verdicts[v]
	}
	for _, l := range r.lists {
		c.Eventf("  list allow=%v id=%d url#%d en=%v file=%v/%s count=%d", l.white, l.id, urlIdx(l.url), l.enabled, l.st.has, sha([]byte(l.st.nf)), l.count)
	}
	return nil
}
