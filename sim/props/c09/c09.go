// Package c09 decides property C09 (statistics totals equal the queries
// counted inside the retention window) by deterministic simulation: the real
// stats.StatsCtx on a real bbolt file in a tmpfs directory, under the fake
// clock of a synctest bubble, driven by seeded histories of updates, clock
// advances (the 1 s flush loop is driven through the real loop body), clean
// restarts, crashes, retention changes and resets, with a per-hour counter
// reference model checked after every operation.
package c09

import (
	"encoding/json"
	"fmt"
	"log/slog"
	"net/http"
	"os"
	"path/filepath"
	"sort"
	"sync"
	"testing"
	"time"

	"github.com/AdguardTeam/AdGuardHome/internal/stats"
	"github.com/AdguardTeam/AdGuardHome/verifsim/env"
	"github.com/AdguardTeam/AdGuardHome/verifsim/kernel"
	"github.com/AdguardTeam/AdGuardHome/verifsim/sched"
	"github.com/AdguardTeam/dnsproxy/proxy"
	"pgregory.net/rapid"
)

// Op is one generated operation.
type Op struct {
	Kind string `json:"k"`
	// update
	Result int    `json:"res,omitempty"`
	Client string `json:"cl,omitempty"`
	Domain string `json:"dom,omitempty"`
	Ups    []Up   `json:"ups,omitempty"`
	N      int    `json:"n,omitempty"`
	// advance: milliseconds
	Ms int64 `json:"ms,omitempty"`
	// setlimit: hours, enabled; legacy: days
	Hours   int  `json:"h,omitempty"`
	Enabled bool `json:"en,omitempty"`
	Days    int  `json:"days,omitempty"`
	// burst: G goroutines x K updates spread over SpreadMs of simulated time,
	// concurrent with the flush loop and with API reads
	G        int   `json:"g,omitempty"`
	K        int   `json:"kk,omitempty"`
	SpreadMs int64 `json:"spread_ms,omitempty"`
	// par: the flush body, G API reads and K updates run as concurrent tasks
	// under the seeded cooperative scheduler (the interleaving at lock
	// boundaries is a function of Seed; Pct is the preemption probability)
	Seed uint64 `json:"seed,omitempty"`
	Pct  int    `json:"pct,omitempty"`
}

// Up is one upstream statistics item of an update.
type Up struct {
	Addr   string `json:"a"`
	Cached bool   `json:"c,omitempty"`
	Err    bool   `json:"e,omitempty"`
	Us     int64  `json:"us,omitempty"`
}

// Scenario is one case.
type Scenario struct {
	StartMs int64 `json:"start_ms"`
	LimitH  int   `json:"limit_h"`
	Enabled bool  `json:"enabled"`
	Dense   bool  `json:"dense_ticks"`
	Ops     []Op  `json:"ops"`
}

var (
	clients = []string{"192.0.2.1", "192.0.2.2", "2001:db8::1", "10.0.0.7"}
	domains = []string{"a.test", "b.test", "ads.example", "x.y.example", "c.test", "tracker.test"}
	upAddrs = []string{"198.51.100.1:53", "tls://dns.example", "https://doh.example/dns-query"}
	limits  = []int{1, 2, 3, 24, 25, 168, 191, 192, 193, 720, 2160}
)

const hourMs = int64(3600_000)

func genLimit(t *rapid.T, label string) int {
	if rapid.IntRange(0, 3).Draw(t, label+"_kind") == 0 {
		return rapid.IntRange(1, 400).Draw(t, label+"_any")
	}
	return rapid.SampledFrom(limits).Draw(t, label)
}

// Gen draws a scenario.  It tracks the simulated time so that advances can be
// aimed at hour boundaries.
func Gen(t *rapid.T, tier string) any {
	sc := &Scenario{}
	switch rapid.IntRange(0, 3).Draw(t, "start_kind") {
	case 0:
		sc.StartMs = 0
	case 1:
		sc.StartMs = hourMs*int64(rapid.IntRange(1, 30).Draw(t, "start_h")) - int64(rapid.IntRange(0, 3000).Draw(t, "start_before_ms"))
	default:
		sc.StartMs = int64(rapid.IntRange(0, 72*3600).Draw(t, "start_s")) * 1000
	}
	sc.LimitH = genLimit(t, "limit")
	sc.Enabled = rapid.IntRange(0, 9).Draw(t, "enabled") != 0
	sc.Dense = rapid.IntRange(0, 3).Draw(t, "dense") == 0
	maxOps := 40
	if tier == "thorough" {
		maxOps = 120
	}
	n := rapid.IntRange(3, maxOps).Draw(t, "n_ops")
	now := sc.StartMs
	var budgetH int64 = 3000 // cap on total simulated hours per case
	if sc.Dense {
		budgetH = 30
	}
	for i := 0; i < n; i++ {
		var op Op
		switch k := rapid.IntRange(0, 99).Draw(t, "kind"); {
		case k < 45:
			op = Op{Kind: "update",
				Result: rapid.SampledFrom([]int{1, 1, 1, 2, 2, 3, 4, 5, 0, 6}).Draw(t, "res"),
				Client: rapid.SampledFrom(clients).Draw(t, "client"),
				Domain: rapid.SampledFrom(domains).Draw(t, "domain"),
				N:      rapid.IntRange(1, 4).Draw(t, "n"),
			}
			for j, m := 0, rapid.IntRange(0, 2).Draw(t, "n_ups"); j < m; j++ {
				op.Ups = append(op.Ups, Up{
					Addr:   rapid.SampledFrom(upAddrs).Draw(t, "up_addr"),
					Cached: rapid.IntRange(0, 4).Draw(t, "up_cached") == 0,
					Err:    rapid.IntRange(0, 4).Draw(t, "up_err") == 0,
					Us:     int64(rapid.IntRange(0, 500_000).Draw(t, "up_us")),
				})
			}
		case k < 72:
			op = Op{Kind: "advance"}
			toBoundary := hourMs - now%hourMs
			switch rapid.IntRange(0, 9).Draw(t, "adv_kind") {
			case 0, 1:
				op.Ms = int64(rapid.IntRange(1, 5000).Draw(t, "adv_ms"))
			case 2, 3:
				op.Ms = int64(rapid.IntRange(1, 5).Draw(t, "adv_s")) * 1000
			case 4, 5, 6:
				// land within [-2 s, +2 s] of the next hour boundary
				op.Ms = toBoundary + int64(rapid.IntRange(-2000, 2000).Draw(t, "adv_edge_ms"))
				if op.Ms <= 0 {
					op.Ms = 1
				}
			case 7, 8:
				op.Ms = int64(rapid.IntRange(1, 6).Draw(t, "adv_h"))*hourMs + int64(rapid.IntRange(-1, 1).Draw(t, "adv_h_s"))*1000
			default:
				op.Ms = int64(rapid.IntRange(7, 400).Draw(t, "adv_gap_h")) * hourMs
			}
			if op.Ms/hourMs > budgetH {
				op.Ms = int64(rapid.IntRange(1, 5).Draw(t, "adv_s2")) * 1000
			}
			budgetH -= op.Ms / hourMs
			now += op.Ms
		case k < 80:
			op = Op{Kind: "restart"}
		case k < 84:
			op = Op{Kind: "crash"}
		case k < 91:
			op = Op{Kind: "setlimit", Hours: genLimit(t, "new_limit"), Enabled: rapid.IntRange(0, 5).Draw(t, "new_enabled") != 0}
		case k < 94:
			op = Op{Kind: "legacy", Days: rapid.SampledFrom([]int{0, 1, 7, 30, 90, 2}).Draw(t, "days")}
		case k < 95:
			op = Op{Kind: "reset"}
		case k < 97:
			// The hour rolls over while no flush tick runs (as in "suspend"),
			// then the flush of the finished hour runs concurrently with API
			// reads and updates, interleaved at lock boundaries by the seeded
			// scheduler.
			toBoundary := hourMs - now%hourMs
			sus := Op{Kind: "suspend", Ms: toBoundary + int64(rapid.IntRange(0, 1500).Draw(t, "par_after_ms")) + int64(rapid.SampledFrom([]int{0, 0, 0, 1, 2}).Draw(t, "par_extra_h"))*hourMs}
			sc.Ops = append(sc.Ops, sus)
			now += sus.Ms
			budgetH -= sus.Ms / hourMs
			op = Op{Kind: "par", G: rapid.IntRange(1, 2).Draw(t, "par_readers"), K: rapid.IntRange(0, 3).Draw(t, "par_updates"),
				Seed: rapid.Uint64().Draw(t, "par_seed"), Pct: rapid.SampledFrom([]int{20, 50, 80}).Draw(t, "par_pct")}
		case k < 98:
			op = Op{Kind: "read"}
		default:
			// Concurrent updates while the flush loop ticks; often placed so
			// that the hour rolls over in the middle of the burst.
			if rapid.Bool().Draw(t, "burst_at_boundary") {
				toBoundary := hourMs - now%hourMs
				if toBoundary > 1500 {
					adv := Op{Kind: "advance", Ms: toBoundary - int64(rapid.IntRange(200, 1400).Draw(t, "burst_before_ms"))}
					sc.Ops = append(sc.Ops, adv)
					now += adv.Ms
				}
			}
			if rapid.IntRange(0, 2).Draw(t, "burst_after_suspend") == 0 && budgetH > 60 {
				// The process was suspended (no flush ticks) for hours: the
				// flush loop has to catch up while the burst runs.
				sus := Op{Kind: "suspend", Ms: int64(rapid.IntRange(2, 50).Draw(t, "suspend_h"))*hourMs + int64(rapid.IntRange(0, 3599).Draw(t, "suspend_s"))*1000}
				sc.Ops = append(sc.Ops, sus)
				now += sus.Ms
				budgetH -= sus.Ms / hourMs
			}
			op = Op{Kind: "burst", G: rapid.IntRange(2, 6).Draw(t, "burst_g"), K: rapid.IntRange(3, 30).Draw(t, "burst_k"), SpreadMs: int64(rapid.IntRange(100, 4000).Draw(t, "burst_spread"))}
			now += op.SpreadMs + 1000
		}
		sc.Ops = append(sc.Ops, op)
	}
	return sc
}

// ---- reference model -------------------------------------------------------

type hourCounts struct {
	total   uint64
	res     [6]uint64
	allowed map[string]uint64
	blocked map[string]uint64
	clients map[string]uint64
	upResp  map[string]uint64
	// ssSlack bounds safe-search counts that a crash may or may not have lost.
	ssSlack uint64
}

func newHour() *hourCounts {
	return &hourCounts{allowed: map[string]uint64{}, blocked: map[string]uint64{}, clients: map[string]uint64{}, upResp: map[string]uint64{}}
}

type model struct {
	hours   map[uint32]*hourCounts
	cur     uint32 // id of the unit the system is collecting into
	limitH  uint32
	enabled bool
	floor   uint32 // highest "first hour of the window" ever in force
	// crashed[h] is set for an hour whose un-persisted counts were lost in a
	// crash: the API value is adopted if it is <= the model's.
	crashed map[uint32]bool
}

func hourOf(t time.Time) uint32 { return uint32(t.Unix() / 3600) }

func (m *model) observeWindow() {
	if f := m.cur - m.limitH + 1; f > m.floor {
		m.floor = f
	}
}

func (m *model) clear(now time.Time) {
	m.hours = map[uint32]*hourCounts{}
	m.crashed = map[uint32]bool{}
	m.cur = hourOf(now)
	m.floor = 0
	m.observeWindow()
}

// ---- the run ---------------------------------------------------------------

type statsResp struct {
	TimeUnits  string               `json:"time_units"`
	TopQueried []map[string]uint64  `json:"top_queried_domains"`
	TopClients []map[string]uint64  `json:"top_clients"`
	TopBlocked []map[string]uint64  `json:"top_blocked_domains"`
	TopUpResp  []map[string]uint64  `json:"top_upstreams_responses"`
	TopUpAvg   []map[string]float64 `json:"top_upstreams_avg_time"`

	DNSQueries           []uint64 `json:"dns_queries"`
	BlockedFiltering     []uint64 `json:"blocked_filtering"`
	ReplacedSafebrowsing []uint64 `json:"replaced_safebrowsing"`
	ReplacedParental     []uint64 `json:"replaced_parental"`

	NumDNSQueries           uint64 `json:"num_dns_queries"`
	NumBlockedFiltering     uint64 `json:"num_blocked_filtering"`
	NumReplacedSafebrowsing uint64 `json:"num_replaced_safebrowsing"`
	NumReplacedSafesearch   uint64 `json:"num_replaced_safesearch"`
	NumReplacedParental     uint64 `json:"num_replaced_parental"`
}

type node struct {
	dir      string
	s        *stats.StatsCtx
	mux      *env.Mux
	nextTick time.Time
	c        *kernel.Ctx
	m        *model
	dense    bool
	modified int
	// abandon: a deadlock was found; the parked tasks hold the node's locks.
	abandon bool
}

func (n *node) open() error {
	n.mux = env.NewMux()
	s, err := stats.New(stats.Config{
		Logger:            slog.New(slog.DiscardHandler),
		Filename:          filepath.Join(n.dir, "stats.db"),
		Limit:             time.Duration(n.m.limitH) * time.Hour,
		Enabled:           n.m.enabled,
		ConfigModified:    func() { n.modified++ },
		ShouldCountClient: func([]string) bool { return true },
		HTTPRegister:      n.mux.Register,
	})
	if err != nil {
		return fmt.Errorf("harness: stats.New: %w", err)
	}
	n.s = s
	s.VerifInitWeb()
	n.nextTick = time.Now() // the real loop flushes immediately on start
	n.m.cur = hourOf(time.Now())
	n.m.observeWindow()
	return nil
}

// tick runs the real flush body at the current simulated instant.
func (n *node) tick() error {
	for spins := 0; ; spins++ {
		now := time.Now()
		cont, sleepFor := n.s.VerifFlush()
		if id := hourOf(now); id != n.m.cur {
			n.m.cur = id
			n.m.observeWindow()
			n.c.Probe("hour_rollover")
		}
		if !cont {
			return kernel.Violationf("flush-loop-exit", "the periodic flush loop body asked to stop at %s", now.UTC().Format(time.RFC3339))
		}
		if sleepFor > 0 {
			n.nextTick = now.Add(sleepFor)
			return nil
		}
		// sleepFor == 0: the real loop calls flush again at once.
		if spins > 100000 {
			return fmt.Errorf("harness: flush keeps asking for an immediate re-run")
		}
	}
}

// advance moves the simulated clock to target, running the flush loop on the
// way: every tick in the dense plan; in the sparse plan only the ticks around
// hour boundaries and the last one (the skipped ticks are no-ops of the real
// loop within one hour).
func (n *node) advance(target time.Time) error {
	for !n.nextTick.After(target) {
		if d := time.Until(n.nextTick); d > 0 {
			time.Sleep(d)
		}
		if err := n.tick(); err != nil {
			return err
		}
		if !n.dense {
			now := time.Now()
			step := n.nextTick.Sub(now)
			if step <= 0 {
				continue
			}
			boundary := now.Truncate(time.Hour).Add(time.Hour)
			lim := boundary.Add(-step) // last tick strictly before the boundary stays
			if target.Before(lim) {
				lim = target
			}
			if k := lim.Sub(now) / step; k > 1 {
				n.nextTick = now.Add(k * step)
				n.c.Probe("sparse_skip")
			}
		}
	}
	if d := time.Until(target); d > 0 {
		time.Sleep(d)
	}
	return nil
}

func (n *node) read() (*statsResp, error) {
	code, body, err := n.mux.Do(http.MethodGet, "/control/stats", nil)
	if err != nil {
		if hp, ok := err.(*env.HandlerPanic); ok {
			return nil, kernel.Violationf("api-panic", "%v", hp)
		}
		return nil, err
	}
	if code != http.StatusOK {
		return nil, kernel.Violationf("api-status", "GET /control/stats -> %d %s", code, body)
	}
	r := &statsResp{}
	if err = json.Unmarshal(body, r); err != nil {
		return nil, kernel.Violationf("api-json", "GET /control/stats: %v in %s", err, body)
	}
	return r, nil
}

func sumMaps(l []map[string]uint64) (map[string]uint64, bool) {
	out := map[string]uint64{}
	for _, m := range l {
		for k, v := range m {
			if _, dup := out[k]; dup {
				return nil, false
			}
			out[k] = v
		}
	}
	return out, true
}

func fmtMap(m map[string]uint64) string {
	keys := make([]string, 0, len(m))
	for k := range m {
		keys = append(keys, k)
	}
	sort.Strings(keys)
	s := ""
	for _, k := range keys {
		s += fmt.Sprintf("%s=%d ", k, m[k])
	}
	return s
}

func eqMap(a, b map[string]uint64) bool {
	if len(a) != len(b) {
		return false
	}
	for k, v := range a {
		if b[k] != v {
			return false
		}
	}
	return true
}

// check compares one API read with the model.
func (n *node) check() error {
	r, err := n.read()
	if err != nil {
		return err
	}
	m := n.m
	first := m.cur - m.limitH + 1
	var cert, aged hourCounts
	domA, domB, cl, up := map[string]uint64{}, map[string]uint64{}, map[string]uint64{}, map[string]uint64{}
	anyAged := false
	get := func(h uint32) *hourCounts {
		if hc := m.hours[h]; hc != nil {
			return hc
		}
		return &hourCounts{}
	}
	daily := int(m.limitH)/24 > 7
	// A crashed hour adopts what the API reports, if the series shows it.
	if !daily {
		for h := range m.crashed {
			if h < first || h > m.cur || len(r.DNSQueries) != int(m.limitH) {
				continue
			}
			i := int(h - first)
			hc := get(h)
			if r.DNSQueries[i] <= hc.total {
				n.c.Probe("crash_lost_counts")
				// Adopt: the crash lost some un-persisted updates of that hour.
				// Per-name maps are no longer comparable for that hour.
				hc.total = r.DNSQueries[i]
				hc.res[2], hc.res[3], hc.res[5] = r.BlockedFiltering[i], r.ReplacedSafebrowsing[i], r.ReplacedParental[i]
				// Safe-search has no hourly series: after a crash the hour's
				// share is only bounded by what it held before.
				hc.ssSlack += hc.res[4]
				hc.res[4] = 0
				hc.allowed, hc.blocked, hc.clients, hc.upResp = nil, nil, nil, nil
				m.hours[h] = hc
			}
			delete(m.crashed, h)
		}
	}
	namesComparable := len(m.crashed) == 0
	for h := first; h <= m.cur; h++ {
		hc := get(h)
		dst := &cert
		if h < m.floor || m.crashed[h] {
			// Hours whose value is only bounded (aged out of an earlier
			// window, or hit by a crash and not yet re-observed hourly).
			dst = &aged
			if hc.total > 0 {
				anyAged = true
			}
		}
		dst.total += hc.total
		aged.res[4] += hc.ssSlack
		for i := range hc.res {
			dst.res[i] += hc.res[i]
		}
		if hc.total > 0 && hc.allowed == nil {
			namesComparable = false
		}
		for k, v := range hc.allowed {
			domA[k] += v
		}
		for k, v := range hc.blocked {
			domB[k] += v
		}
		for k, v := range hc.clients {
			cl[k] += v
		}
		for k, v := range hc.upResp {
			up[k] += v
		}
	}
	if anyAged {
		n.c.Probe("aged_hours_in_window")
	}
	between := func(name string, got, lo, span uint64) error {
		if got < lo || got > lo+span {
			return kernel.Violationf("total-mismatch", "%s=%d, reference model expects %d (+ at most %d from hours that were outside an earlier window); cur=%d limit=%dh", name, got, lo, span, m.cur, m.limitH)
		}
		return nil
	}
	checks := []struct {
		name string
		got  uint64
		idx  int
	}{
		{"num_blocked_filtering", r.NumBlockedFiltering, 2},
		{"num_replaced_safebrowsing", r.NumReplacedSafebrowsing, 3},
		{"num_replaced_safesearch", r.NumReplacedSafesearch, 4},
		{"num_replaced_parental", r.NumReplacedParental, 5},
	}
	if err = between("num_dns_queries", r.NumDNSQueries, cert.total, aged.total); err != nil {
		return err
	}
	for _, ck := range checks {
		if err = between(ck.name, ck.got, cert.res[ck.idx], aged.res[ck.idx]); err != nil {
			return err
		}
	}
	// Each counted query is in exactly one category: the four reported
	// categories can never exceed the total.
	if s := r.NumBlockedFiltering + r.NumReplacedSafebrowsing + r.NumReplacedSafesearch + r.NumReplacedParental; s > r.NumDNSQueries {
		return kernel.Violationf("category-sum", "categories sum to %d > num_dns_queries %d", s, r.NumDNSQueries)
	}
	var seriesSum uint64
	for _, v := range r.DNSQueries {
		seriesSum += v
	}
	if !daily {
		if r.TimeUnits != "hours" {
			return kernel.Violationf("series-units", "limit %dh reported in %q", m.limitH, r.TimeUnits)
		}
		if len(r.DNSQueries) != int(m.limitH) || len(r.BlockedFiltering) != int(m.limitH) || len(r.ReplacedSafebrowsing) != int(m.limitH) || len(r.ReplacedParental) != int(m.limitH) {
			return kernel.Violationf("series-len", "hourly series has %d points for a %dh window", len(r.DNSQueries), m.limitH)
		}
		if seriesSum != r.NumDNSQueries {
			return kernel.Violationf("series-sum", "hourly dns_queries sum to %d, num_dns_queries=%d", seriesSum, r.NumDNSQueries)
		}
		for i := range r.DNSQueries {
			h := first + uint32(i)
			hc := get(h)
			got := [4]uint64{r.DNSQueries[i], r.BlockedFiltering[i], r.ReplacedSafebrowsing[i], r.ReplacedParental[i]}
			want := [4]uint64{hc.total, hc.res[2], hc.res[3], hc.res[5]}
			if got == want {
				continue
			}
			if h < m.floor && got == [4]uint64{} {
				continue
			}
			if m.crashed[h] {
				continue
			}
			return kernel.Violationf("hour-mismatch", "hour %d (index %d of %d, cur=%d): api (total,filtered,sb,parental)=%v, reference model %v", h, i, len(r.DNSQueries), m.cur, got, want)
		}
	} else {
		if r.TimeUnits != "days" {
			return kernel.Violationf("series-units", "limit %dh reported in %q", m.limitH, r.TimeUnits)
		}
		if len(r.DNSQueries) != int(m.limitH)/24 {
			return kernel.Violationf("series-len", "daily series has %d points for a %dh window", len(r.DNSQueries), m.limitH)
		}
		if seriesSum > r.NumDNSQueries {
			return kernel.Violationf("series-sum", "daily dns_queries sum to %d > num_dns_queries=%d", seriesSum, r.NumDNSQueries)
		}
		// At most the oldest, partial day may be missing from the series.
		var firstDay uint64
		for h := first; h < first+24+uint32(m.limitH%24) && h <= m.cur; h++ {
			firstDay += get(h).total
		}
		if seriesSum+firstDay < r.NumDNSQueries {
			return kernel.Violationf("series-sum", "daily dns_queries sum to %d, num_dns_queries=%d, oldest partial day holds only %d", seriesSum, r.NumDNSQueries, firstDay)
		}
		n.c.Probe("daily_series_checked")
	}
	if namesComparable && !anyAged {
		for _, x := range []struct {
			name string
			got  []map[string]uint64
			want map[string]uint64
		}{
			{"top_queried_domains", r.TopQueried, domA},
			{"top_blocked_domains", r.TopBlocked, domB},
			{"top_clients", r.TopClients, cl},
			{"top_upstreams_responses", r.TopUpResp, up},
		} {
			got, ok := sumMaps(x.got)
			if !ok {
				return kernel.Violationf("top-dup", "%s lists a name twice: %v", x.name, x.got)
			}
			if !eqMap(got, x.want) {
				return kernel.Violationf("top-mismatch", "%s: api {%s} reference model {%s}", x.name, fmtMap(got), fmtMap(x.want))
			}
		}
		n.c.Probe("tops_checked")
	}
	n.c.Eventf("read total=%d filt=%d sb=%d ss=%d par=%d units=%s n=%d", r.NumDNSQueries, r.NumBlockedFiltering, r.NumReplacedSafebrowsing, r.NumReplacedSafesearch, r.NumReplacedParental, r.TimeUnits, len(r.DNSQueries))
	return nil
}

func (n *node) apply(op Op) error {
	m := n.m
	switch op.Kind {
	case "update":
		for i := 0; i < op.N; i++ {
			e := &stats.Entry{Client: op.Client, Domain: op.Domain, Result: stats.Result(op.Result), ProcessingTime: 3 * time.Millisecond}
			for _, u := range op.Ups {
				us := &proxy.UpstreamStatistics{Address: u.Addr, IsCached: u.Cached, QueryDuration: time.Duration(u.Us) * time.Microsecond}
				if u.Err {
					us.Error = fmt.Errorf("simulated upstream error")
				}
				e.UpstreamStats = append(e.UpstreamStats, us)
			}
			n.s.Update(e)
			if !m.enabled || op.Result < 1 || op.Result > 5 {
				n.c.Probe("update_not_counted")
				continue
			}
			hc := m.hours[m.cur]
			if hc == nil {
				hc = newHour()
				m.hours[m.cur] = hc
			}
			hc.total++
			hc.res[op.Result]++
			if hc.allowed != nil {
				if op.Result == 1 {
					hc.allowed[op.Domain]++
				} else {
					hc.blocked[op.Domain]++
				}
				hc.clients[op.Client]++
				for _, u := range op.Ups {
					if !u.Cached && !u.Err {
						hc.upResp[u.Addr]++
					}
				}
			}
			n.c.Probe("update_counted")
			if hourOf(time.Now()) != m.cur {
				n.c.Probe("update_between_boundary_and_tick")
			}
		}
	case "advance":
		d := time.Duration(op.Ms) * time.Millisecond
		n.c.SimTime += d
		if err := n.advance(time.Now().Add(d)); err != nil {
			return err
		}
		if d >= 7*time.Hour {
			n.c.Fault("clock_jump_hours")
		}
	case "restart":
		if err := n.s.Close(); err != nil {
			return kernel.Violationf("close-error", "Close: %v", err)
		}
		n.c.Fault("clean_restart")
		if err := n.open(); err != nil {
			return err
		}
	case "crash":
		n.s.VerifCrash()
		n.c.Fault("process_crash")
		if hc := m.hours[m.cur]; hc != nil && hc.total > 0 {
			m.crashed[m.cur] = true
		}
		if err := n.open(); err != nil {
			return err
		}
	case "setlimit":
		body, _ := json.Marshal(map[string]any{"enabled": op.Enabled, "interval": float64(int64(op.Hours) * hourMs), "ignored": []string{}})
		code, resp, err := n.mux.Do(http.MethodPut, "/control/stats/config/update", body)
		if err != nil {
			return apiErr(err)
		}
		if code != http.StatusOK {
			return kernel.Violationf("api-status", "PUT stats/config/update %s -> %d %s", body, code, resp)
		}
		m.limitH, m.enabled = uint32(op.Hours), op.Enabled
		m.observeWindow()
		n.c.Fault("retention_change")
	case "legacy":
		body, _ := json.Marshal(map[string]any{"interval": op.Days})
		code, resp, err := n.mux.Do(http.MethodPost, "/control/stats_config", body)
		if err != nil {
			return apiErr(err)
		}
		valid := op.Days == 0 || op.Days == 1 || op.Days == 7 || op.Days == 30 || op.Days == 90
		if !valid {
			if code != http.StatusBadRequest {
				return kernel.Violationf("api-status", "POST stats_config %s -> %d %s, want 400", body, code, resp)
			}
			break
		}
		if code != http.StatusOK {
			return kernel.Violationf("api-status", "POST stats_config %s -> %d %s", body, code, resp)
		}
		if op.Days == 0 {
			m.enabled = false
			m.clear(time.Now())
			n.c.Fault("clear")
		} else {
			m.enabled = true
			m.limitH = uint32(op.Days * 24)
			m.observeWindow()
			n.c.Fault("retention_change")
		}
	case "reset":
		code, resp, err := n.mux.Do(http.MethodPost, "/control/stats_reset", nil)
		if err != nil {
			return apiErr(err)
		}
		if code != http.StatusOK {
			return kernel.Violationf("api-status", "POST stats_reset -> %d %s", code, resp)
		}
		m.clear(time.Now())
		n.c.Fault("clear")
	case "read":
	case "suspend":
		// Simulated time passes without the flush loop running (SIGSTOP,
		// laptop lid): the next tick finds the unit hours behind.
		d := time.Duration(op.Ms) * time.Millisecond
		time.Sleep(d)
		n.c.SimTime += d
		n.c.Fault("process_suspended")
		return errSkipCheck
	case "burst":
		return n.burst(op)
	case "par":
		return n.par(op)
	default:
		return fmt.Errorf("harness: unknown op %q", op.Kind)
	}
	return nil
}

// burst runs G goroutines of K updates each, spread over the simulated
// interval, while this goroutine keeps driving the real flush body every
// simulated second and another one reads the API: conservation — every update
// is counted exactly once, in one of the hours that were current meanwhile.
func (n *node) burst(op Op) error {
	m := n.m
	if int(m.limitH)/24 > 7 || len(m.crashed) > 0 {
		// Daily series or a pending crash adoption: the per-hour split could
		// not be observed; run it as plain sequential updates instead.
		n.c.Probe("burst_skipped")
		return nil
	}
	if hourOf(time.Now())-m.cur >= m.limitH {
		// The unit that is still current (the process was suspended) will be
		// outside the window once the flush loop has caught up: updates booked
		// to it could not be observed.  First let the loop catch up.
		if err := n.advance(time.Now()); err != nil {
			return err
		}
		n.c.Probe("burst_after_catch_up")
	}
	before, err := n.read()
	if err != nil {
		return err
	}
	h0 := m.cur
	first0 := m.cur - m.limitH + 1
	var wg sync.WaitGroup
	start := time.Now()
	total := op.G * op.K
	for g := 0; g < op.G; g++ {
		wg.Add(1)
		go func(g int) {
			defer wg.Done()
			for i := 0; i < op.K; i++ {
				// Deterministic offsets: goroutine g's i-th update; the first
				// third of them go out at once, in parallel with whatever the
				// flush loop is doing at the start instant.
				off := time.Duration((int64(i)*op.SpreadMs/int64(op.K))+int64(g)) * time.Millisecond
				if i < op.K/3 {
					off = 0
				}
				time.Sleep(time.Until(start.Add(off)))
				n.s.Update(&stats.Entry{Client: "10.9.9.9", Domain: "burst.test", Result: stats.RNotFiltered, ProcessingTime: time.Millisecond})
			}
		}(g)
	}
	var readErr error
	wg.Add(1)
	go func() {
		defer wg.Done()
		for i := 0; i < 4; i++ {
			time.Sleep(time.Duration(op.SpreadMs/4) * time.Millisecond)
			code, body, err := n.mux.Do(http.MethodGet, "/control/stats", nil)
			if err != nil {
				readErr = apiErr(err)
			} else if code != http.StatusOK {
				readErr = kernel.Violationf("api-status", "GET /control/stats during a burst -> %d %s", code, body)
			}
		}
	}()
	d := time.Duration(op.SpreadMs+1000) * time.Millisecond
	n.c.SimTime += d
	if err = n.advance(start.Add(d)); err != nil {
		return err
	}
	wg.Wait()
	if readErr != nil {
		return readErr
	}
	n.c.Fault("concurrent_burst")
	if m.cur != h0 {
		n.c.Probe("burst_across_rollover")
	}
	if !m.enabled {
		return nil // nothing is counted; the regular check verifies that
	}
	return n.settle(before, h0, first0, start, total, fmt.Sprintf("%d goroutines x %d concurrent updates while the flush loop ticked", op.G, op.K))
}

// settle attributes total concurrent updates, made since the API answered
// before, to the hours that were current meanwhile, as the API reports them
// now: the sum must be exactly total, and no hour may have shrunk.
func (n *node) settle(before *statsResp, h0, first0 uint32, start time.Time, total int, what string) error {
	m := n.m
	after, err := n.read()
	if err != nil {
		return err
	}
	// Attribute the burst to the hours that were current during it, as the
	// API reports them; the sum must be exactly the number of updates.
	first1 := m.cur - m.limitH + 1
	var got uint64
	for h := h0; h <= m.cur; h++ {
		var b, a uint64
		if i := int(h - first0); h >= first0 && i < len(before.DNSQueries) {
			b = before.DNSQueries[i]
		}
		if i := int(h - first1); h >= first1 && i >= 0 && i < len(after.DNSQueries) {
			a = after.DNSQueries[i]
		} else if h < first1 {
			a = b // aged out of the window meanwhile: not observable
		}
		if a < b {
			return kernel.Violationf("burst-updates-lost", "hour %d shrank from %d to %d during a burst of updates", h, b, a)
		}
		delta := a - b
		got += delta
		if delta > 0 && h != h0 && h < hourOf(start) {
			return kernel.Violationf("burst-update-in-past-hour", "%d update(s) counted during the burst (which began in hour %d, with the unit of hour %d still current) were booked to hour %d, which was never current while they were counted", delta, hourOf(start), h0, h)
		}
		if delta > 0 {
			hc := m.hours[h]
			if hc == nil {
				hc = newHour()
				m.hours[h] = hc
			}
			hc.total += delta
			hc.res[1] += delta
			if hc.allowed != nil {
				hc.allowed["burst.test"] += delta
				hc.clients["10.9.9.9"] += delta
			}
		}
	}
	if h0 >= first1 && got != uint64(total) {
		return kernel.Violationf("burst-updates-lost", "%s (hours %d..%d): statistics grew by %d, not %d", what, h0, m.cur, got, total)
	}
	n.c.Probe("burst_conserved")
	return nil
}

// par runs the flush body, API reads and updates as concurrent tasks under
// the seeded cooperative scheduler.  A read that overlaps the flush sees the
// window before or after the rollover: its total can lack only the hours that
// leave the window and can exceed the earlier total only by the concurrent
// updates; afterwards the updates are conserved as in a burst.
func (n *node) par(op Op) error {
	m := n.m
	if int(m.limitH)/24 > 7 || len(m.crashed) > 0 || !m.enabled {
		n.c.Probe("par_skipped")
		return nil
	}
	if hourOf(time.Now())-m.cur >= m.limitH {
		if err := n.advance(time.Now()); err != nil {
			return err
		}
		n.c.Probe("burst_after_catch_up")
	}
	before, err := n.read()
	if err != nil {
		return err
	}
	h0 := m.cur
	first0 := m.cur - m.limitH + 1
	start := time.Now()
	type rd struct {
		r   *statsResp
		err error
	}
	reads := make([]rd, op.G)
	names := []string{"flush"}
	fns := []func(){func() { n.s.VerifFlush() }}
	for g := 0; g < op.G; g++ {
		names = append(names, "read")
		fns = append(fns, func() { reads[g].r, reads[g].err = n.read() })
	}
	for k := 0; k < op.K; k++ {
		names = append(names, "update")
		fns = append(fns, func() {
			n.s.Update(&stats.Entry{Client: "10.9.9.9", Domain: "burst.test", Result: stats.RNotFiltered, ProcessingTime: time.Millisecond})
		})
	}
	res := sched.Run(op.Seed, op.Pct, names, fns)
	n.c.Fault("flush_concurrent_with_reads")
	n.c.Probes["sched_steps"] += res.Steps
	n.c.Probes["sched_switches"] += res.Switches
	if res.Deadlock != "" {
		n.abandon = true
		return kernel.Violationf("deadlock: "+res.Deadlock, "flush, %d reads and %d updates as concurrent tasks, schedule seed %d: every task waits for a lock:\n%s", op.G, op.K, op.Seed, res.Detail)
	}
	if hourOf(start) != h0 {
		n.c.Probe("par_flush_of_finished_hour")
	}
	var sumBefore, aged uint64
	first1 := hourOf(start) - m.limitH + 1
	for i, v := range before.DNSQueries {
		sumBefore += v
		if h := first0 + uint32(i); h < first1 {
			aged += v
		}
	}
	for g := range reads {
		if reads[g].err != nil {
			return reads[g].err
		}
		var sum uint64
		for _, v := range reads[g].r.DNSQueries {
			sum += v
		}
		n.c.Eventf("  par read %d: total %d (before %d, leaving the window %d, concurrent updates %d)", g, sum, sumBefore, aged, op.K)
		if sum < sumBefore-aged || sum > sumBefore+uint64(op.K) {
			return kernel.Violationf("concurrent-read-inconsistent", "GET /control/stats concurrent with the flush of hour %d (now hour %d, retention %d h) reports %d queries in the window; the API reported %d just before, of which %d in hours that leave the window, and %d updates were made concurrently: expected %d..%d", h0, hourOf(start), m.limitH, sum, sumBefore, aged, op.K, sumBefore-aged, sumBefore+uint64(op.K))
		}
	}
	// One more (sequential) run of the flush body: a no-op for the system
	// that brings the reference model's notion of the current hour up to date.
	if err = n.tick(); err != nil {
		return err
	}
	return n.settle(before, h0, first0, start, op.K, fmt.Sprintf("%d updates concurrent with the flush and %d reads", op.K, op.G))
}

// errSkipCheck tells Run not to read the API after the operation (reading
// would be legitimate, but while the process is "suspended" nothing runs).
var errSkipCheck = fmt.Errorf("skip check")

func apiErr(err error) error {
	if hp, ok := err.(*env.HandlerPanic); ok {
		return kernel.Violationf("api-panic", "%v", hp)
	}
	return err
}

// Run executes one scenario.
func Run(t *testing.T, scAny any, c *kernel.Ctx) error {
	sc := scAny.(*Scenario)
	dir, err := kernel.TempDir("c09")
	if err != nil {
		return err
	}
	defer os.RemoveAll(dir)
	sched.Init()
	return kernel.Bubble(t, func() error {
		time.Sleep(time.Duration(sc.StartMs) * time.Millisecond)
		m := &model{hours: map[uint32]*hourCounts{}, crashed: map[uint32]bool{}, limitH: uint32(sc.LimitH), enabled: sc.Enabled}
		n := &node{dir: dir, c: c, m: m, dense: sc.Dense}
		if err := n.open(); err != nil {
			return err
		}
		defer func() {
			if !n.abandon {
				n.s.VerifCrash()
			}
		}()
		if err := n.advance(time.Now()); err != nil { // the immediate first flush
			return err
		}
		for i, op := range sc.Ops {
			c.Eventf("op %d %s t=%s", i, op.Kind, time.Since(kernel.Epoch))
			if err := n.apply(op); err == errSkipCheck {
				c.Step()
				continue
			} else if err != nil {
				return err
			}
			if err := n.check(); err != nil {
				if v, ok := err.(*kernel.Violation); ok {
					v.Msg = fmt.Sprintf("after op %d (%s) at t=%s: %s", i, op.Kind, time.Since(kernel.Epoch), v.Msg)
				}
				return err
			}
			c.Step()
		}
		return nil
	})
}

// Prop is the registration.
var Prop = &kernel.Property{
	ID:    "C09",
	Level: "exploration",
	Rule: "seeded histories (rapid) of update / clock advance (seconds .. 400 h, aimed at hour boundaries) / clean restart / crash / retention change (new and legacy API) / reset / read against the real stats.StatsCtx + bbolt under a fake clock; " +
		"a case is non-trivial when it counted >=1 update and saw >=1 hour rollover, restart, crash, retention change or clear; distinct = distinct scenario digests",
	Gen: Gen,
	New: func() any { return &Scenario{} },
	Run: Run,
	NonTrivial: func(_ any, c *kernel.Ctx) bool {
		return c.Probes["update_counted"] > 0 && (c.Probes["hour_rollover"] > 0 || c.Faults["clean_restart"] > 0 || c.Faults["process_crash"] > 0 || c.Faults["retention_change"] > 0 || c.Faults["clear"] > 0)
	},
	Real:        []string{"internal/stats (StatsCtx, unit, flush body, HTTP handlers)", "go.etcd.io/bbolt on a tmpfs file"},
	Stub:        []string{"the 1 s periodicFlush loop driver (body real, via VerifFlush)", "admin HTTP client (handlers called in-process)", "wall clock (synctest fake clock)"},
	Assumptions: []string{"an update between an hour boundary and the next 1 s flush tick is booked to the hour the flush loop still considers current", "hours that were outside an earlier, shorter window may or may not reappear after the window is widened", "after a crash (no Close) the current hour may lose un-persisted counts; older hours may not"},
	FaultKinds:  []string{"clean_restart", "process_crash", "clock_jump_hours", "retention_change", "clear", "concurrent_burst", "process_suspended", "flush_concurrent_with_reads"},
	ProbeNames:  []string{"hour_rollover", "update_counted", "update_not_counted", "update_between_boundary_and_tick", "aged_hours_in_window", "daily_series_checked", "tops_checked", "crash_lost_counts", "sparse_skip", "burst_conserved", "burst_across_rollover", "burst_skipped", "burst_after_catch_up", "par_skipped", "par_flush_of_finished_hour", "sched_steps", "sched_switches"},
}
