package c05

import (
	"testing"

	"github.com/AdguardTeam/AdGuardHome/verifsim/kernel"
)

func TestProp(t *testing.T) {
	kernel.Main(t, map[string]*kernel.Property{"C05": Prop})
}
