// Package c05 decides property C05 (reconfiguring the live server never races
// with, crashes or stalls DNS serving) by deterministic simulation under the
// Go race detector.
//
// The node is the widest assembly of engine E1: the real filtering, client
// storage, dnsforward + dnsproxy request path, the REAL query log (memory +
// file), REAL statistics (bbolt) and the REAL DHCPv4 server, all in one
// synctest bubble.  A case is a sequence of *epochs*; each epoch forks K tasks
// (DNS requests of all transports, admin operations through the real handlers,
// and the bodies of the background workers) up front and lets them start at
// seeded instants of the simulated clock:
//
//   - mode B (logical concurrency): every task sleeps a distinct simulated
//     offset first.  The bubble's clock only advances when every goroutine is
//     durably blocked, so the tasks run physically one after another in a
//     seeded order — exactly repeatable — yet the race detector sees no
//     happens-before edge between them other than the locks of the system
//     itself: two conflicting accesses not ordered by a common lock are
//     reported even though they happened microseconds apart in a fixed order.
//   - mode C (real parallel burst): all tasks wake at the same simulated
//     instant and run on all cores.  Not exactly repeatable; finds atomicity
//     violations, lock-order stalls and runtime fatals.
//
// Oracle: no data-race report whose stacks touch AdGuard Home code, no panic,
// no runtime fatal, every query answered with one well-formed reply for its
// own question (or dropped where access control permits), the epoch completes,
// and the node still answers a probe query afterwards.
package c05

import (
	"context"
	"encoding/json"
	"fmt"
	"log/slog"
	"net"
	"net/netip"
	"os"
	"path/filepath"
	"regexp"
	"sort"
	"strings"
	"sync"
	"testing"
	"time"

	"github.com/AdguardTeam/AdGuardHome/internal/aghnet"
	"github.com/AdguardTeam/AdGuardHome/internal/client"
	"github.com/AdguardTeam/AdGuardHome/internal/dhcpd"
	"github.com/AdguardTeam/AdGuardHome/internal/dnsforward"
	"github.com/AdguardTeam/AdGuardHome/internal/filtering"
	"github.com/AdguardTeam/AdGuardHome/internal/filtering/safesearch"
	"github.com/AdguardTeam/AdGuardHome/internal/home"
	"github.com/AdguardTeam/AdGuardHome/internal/querylog"
	"github.com/AdguardTeam/AdGuardHome/internal/stats"
	"github.com/AdguardTeam/AdGuardHome/internal/verifyield"
	"github.com/AdguardTeam/AdGuardHome/verifsim/dnsnode"
	"github.com/AdguardTeam/AdGuardHome/verifsim/env"
	"github.com/AdguardTeam/AdGuardHome/verifsim/kernel"
	"github.com/AdguardTeam/AdGuardHome/verifsim/sched"
	"github.com/insomniacslk/dhcp/dhcpv4"
	"github.com/miekg/dns"
	"pgregory.net/rapid"
)

// Task is one operation of an epoch.
type Task struct {
	Kind string `json:"k"`
	// AtUs is the simulated start offset inside the epoch (mode B: distinct).
	AtUs int `json:"at_us"`
	A    int `json:"a,omitempty"` // small argument (index into a pool)
	B    int `json:"b,omitempty"`
}

// Scenario is one case.
type Scenario struct {
	Mode    string   `json:"mode"` // "B", "C" or "D"
	MemSize uint     `json:"mem_size"`
	Cache   bool     `json:"cache"`
	Repeat  int      `json:"repeat"` // mode C: how often each burst is repeated
	Epochs  [][]Task `json:"epochs"`
	// JumpS is the clock advance before each epoch, in seconds (an hour's
	// rollover makes the statistics flush write a unit and start a new one, a
	// day's makes the query log rotate, any makes timed pauses expire).
	JumpS []int `json:"jump_s,omitempty"`
	// Mode D: one scheduler seed per epoch and the preemption probability.
	SchedSeeds []uint64 `json:"sched_seeds,omitempty"`
	SwitchPct  int      `json:"switch_pct,omitempty"`
}

const serverName = "dns.example"

var (
	queryKinds = []string{"q_udp", "q_tcp", "q_tls_cid", "q_doh_cid", "q_quic", "q_dnscrypt", "q_blocked", "q_rewrite", "q_service", "q_dhcp_host", "q_ptr"}
	adminKinds = []string{
		"client_add", "client_update", "client_remove", "client_find",
		"access_set", "access_list",
		"set_rules", "add_url", "refresh", "remove_url", "set_url", "filtering_config", "filtering_status", "check_host",
		"rewrite_add", "rewrite_delete", "rewrite_update", "rewrite_list",
		"services_update", "services_get", "services_set_legacy",
		"protection_pause", "protection_on",
		"safesearch_settings", "safesearch_status",
		"qlog_config", "qlog_clear", "qlog_get",
		"stats_config", "stats_reset", "stats_get",
		"dns_config", "dns_info", "cache_clear",
		"dhcp_static_add", "dhcp_static_remove", "dhcp_discover", "dhcp_status",
	}
	workerKinds = []string{"w_stats_flush", "w_qlog_flush", "w_qlog_rotate", "w_clock_tick"}

	names     = []string{"a.test", "b.test", "ads.test", "rw.test", "c.rw.test", "4chan.org", "host1.lan", "x.example"}
	srcAddrs  = []string{"192.0.2.1", "192.0.2.2", "10.0.0.5", "2001:db8::1", "192.168.10.101"}
	cids      = []string{"alice", "bob"}
	ruleSets  = [][]string{{"||ads.test^"}, {"||ads.test^", "@@||a.test^"}, {"0.0.0.0 b.test"}, {}}
	clientIPs = []string{"192.0.2.1", "192.0.2.2", "10.0.0.0/8"}
	macs      = []string{"aa:bb:cc:00:00:01", "aa:bb:cc:00:00:02", "aa:bb:cc:00:00:03"}
)

func genEpoch(t *rapid.T, mode string, maxTasks int) []Task {
	k := rapid.IntRange(2, maxTasks).Draw(t, "n_tasks")
	used := map[int]bool{}
	hasReset := false
	var out []Task
	for i := 0; i < k; i++ {
		var kind string
		switch c := rapid.IntRange(0, 9).Draw(t, "class"); {
		case c < 4:
			kind = rapid.SampledFrom(queryKinds).Draw(t, "query_kind")
		case c < 9:
			kind = rapid.SampledFrom(adminKinds).Draw(t, "admin_kind")
		default:
			kind = rapid.SampledFrom(workerKinds).Draw(t, "worker_kind")
		}
		if kind == "stats_reset" {
			// Two overlapping resets make the second one wait for the file
			// lock of the database the first one has just re-opened (bbolt.Open
			// without a timeout polls forever): a hung admin request, not a
			// stall of DNS serving, so it is kept out of the epochs.
			if hasReset {
				kind = "stats_get"
			}
			hasReset = true
		}
		tk := Task{Kind: kind, A: rapid.IntRange(0, 7).Draw(t, "a"), B: rapid.IntRange(0, 3).Draw(t, "b")}
		if mode == "B" {
			// Distinct start instants: the order of the tasks is the schedule.
			for {
				tk.AtUs = rapid.IntRange(1, 40).Draw(t, "at") * 100
				if !used[tk.AtUs] {
					used[tk.AtUs] = true
					break
				}
			}
		} else {
			tk.AtUs = 1000
		}
		out = append(out, tk)
	}
	return out
}

// Gen draws a scenario.  VERIF_C05_MODE pins the mode (both tiers mix modes
// B and C otherwise).
func Gen(t *rapid.T, tier string) any {
	sc := &Scenario{MemSize: uint(rapid.SampledFrom([]int{1, 2, 5, 100}).Draw(t, "mem_size")), Cache: rapid.Bool().Draw(t, "cache")}
	mode := os.Getenv("VERIF_C05_MODE")
	if mode == "" {
		// One case in four (quick) or three (thorough) is a real parallel
		// burst; the rest are exactly repeatable mode B schedules.
		mode = "B"
		share := 3
		if tier == "thorough" {
			share = 2
		}
		switch rapid.IntRange(0, share+1).Draw(t, "mode_c") {
		case 0:
			mode = "C"
		case 1:
			// A seeded cooperative schedule with preemption at every lock
			// acquisition (exactly repeatable; needs the yield-instrumented
			// copy of the repository the check builds from).
			mode = "D"
		}
	}
	sc.Mode = mode
	nEpochs, maxTasks := rapid.IntRange(1, 6).Draw(t, "n_epochs"), 6
	if mode == "C" {
		maxTasks = 24
		sc.Repeat = rapid.IntRange(1, 3).Draw(t, "repeat")
	}
	if mode == "D" {
		maxTasks = 8
		sc.SwitchPct = rapid.SampledFrom([]int{5, 15, 30, 60}).Draw(t, "switch_pct")
	}
	for i := 0; i < nEpochs; i++ {
		ep := genEpoch(t, mode, maxTasks)
		jump := rapid.SampledFrom([]int{0, 0, 0, 7, 3600, 3601, 86400}).Draw(t, "jump_s")
		if jump >= 3600 {
			// What the periodic loops do first thing after the hour (day) has
			// rolled over, and what an open dashboard keeps doing.
			at := func() int {
				if mode != "B" {
					return 1000
				}
				for {
					a := rapid.IntRange(1, 40).Draw(t, "at_extra")*100 + 50
					dup := false
					for _, tk := range ep {
						dup = dup || tk.AtUs == a
					}
					if !dup {
						return a
					}
				}
			}
			ep = append(ep, Task{Kind: "w_stats_flush", AtUs: at()})
			ep = append(ep, Task{Kind: "stats_get", AtUs: at()})
			if jump >= 86400 {
				ep = append(ep, Task{Kind: "w_qlog_rotate", AtUs: at()})
				ep = append(ep, Task{Kind: "qlog_get", AtUs: at()})
			}
		}
		sc.Epochs = append(sc.Epochs, ep)
		sc.JumpS = append(sc.JumpS, jump)
		if mode == "D" {
			sc.SchedSeeds = append(sc.SchedSeeds, rapid.Uint64().Draw(t, "sched_seed"))
		}
	}
	return sc
}

// ---- node --------------------------------------------------------------------

type capConn struct {
	mu   sync.Mutex
	sent int
}

func (c *capConn) ReadFrom([]byte) (int, net.Addr, error) { return 0, nil, net.ErrClosed }
func (c *capConn) WriteTo(p []byte, _ net.Addr) (int, error) {
	c.mu.Lock()
	defer c.mu.Unlock()
	c.sent++
	return len(p), nil
}
func (c *capConn) Close() error                     { return nil }
func (c *capConn) LocalAddr() net.Addr              { return &net.UDPAddr{IP: net.IPv4(192, 168, 10, 1), Port: 67} }
func (c *capConn) SetDeadline(time.Time) error      { return nil }
func (c *capConn) SetReadDeadline(time.Time) error  { return nil }
func (c *capConn) SetWriteDeadline(time.Time) error { return nil }

type dhcpServer interface {
	dhcpd.Interface
	VerifV4ConfigureDNSIPAddrs(ips []net.IP) bool
	VerifV4HandlePacket(conn net.PacketConn, peer net.Addr, req *dhcpv4.DHCPv4) bool
}

type runner struct {
	c    *kernel.Ctx
	sc   *Scenario
	dir  string
	n    *dnsnode.Node
	ql   querylog.QueryLog
	st   *stats.StatsCtx
	dh   dhcpServer
	ls   *env.ListServer
	find func([]string) (*querylog.Client, error)
	cnt  func([]string) bool

	// confLock plays the role of home's configuration lock held by
	// (*configuration).write while it collects the settings of all components.
	confLock sync.Mutex

	mu       sync.Mutex // protects the fields below (tasks run concurrently in mode C)
	problems []*kernel.Violation
	listN    int
	fivexx   int

	// abandon is set when a mode D epoch ended in a deadlock: the parked tasks
	// hold the node's locks for ever and the node must not be closed.
	abandon bool
	// tickAfter is the clock advance owed by the w_clock_tick tasks of a mode
	// D epoch.
	tickAfter time.Duration
}

// onConfigModified does what home's onConfigModified -> (*configuration).write
// does on every "configuration modified" callback: under the configuration
// lock it asks every component for its current settings again (the file write
// itself is C14's subject).
func (r *runner) onConfigModified() {
	verifyield.Acquire(r.confLock.TryLock, r.confLock.Lock, "config.lock")
	defer r.confLock.Unlock()

	if r.st != nil {
		r.st.WriteDiskConfig(&stats.Config{})
	}
	if r.ql != nil {
		r.ql.WriteDiskConfig(&querylog.Config{})
	}
	if n := r.n; n != nil {
		n.Filter.WriteDiskConfig(&filtering.Config{})
		n.Server.WriteDiskConfig(&dnsforward.Config{})
		n.Clients.RangeByName(func(*client.Persistent) bool { return true })
	}
	if r.dh != nil {
		r.dh.WriteDiskConfig(&dhcpd.ServerConfig{})
	}
}

func (r *runner) problem(v *kernel.Violation) {
	r.mu.Lock()
	defer r.mu.Unlock()
	r.problems = append(r.problems, v)
}

func (r *runner) api(method, path string, body any) (int, []byte) {
	var b []byte
	if body != nil {
		b, _ = json.Marshal(body)
	}
	code, resp, err := r.n.Mux.Do(method, path, b)
	if err != nil {
		if hp, ok := err.(*env.HandlerPanic); ok {
			r.problem(kernel.Violationf("panic-in-handler", "%v", hp))
		} else {
			r.problem(kernel.Violationf("harness-route", "%v", err))
		}
		return 0, nil
	}
	if code >= 500 {
		// Not asserted: e.g. the statistics API answers 500 while a reset is
		// swapping the database; the statement is about DNS serving.
		r.mu.Lock()
		r.fivexx++
		r.mu.Unlock()
	}
	return code, resp
}

func (r *runner) query(q *dnsnode.Query, mayDrop bool) {
	rep := r.n.Do(q)
	desc := fmt.Sprintf("%s %s %s from %s", q.Proto, q.Name, dns.Type(q.Qtype), q.Addr)
	switch {
	case rep.WireErr != nil:
		r.problem(kernel.Violationf("malformed-reply", "%s: %v", desc, rep.WireErr))
	case rep.Msg == nil:
		if !mayDrop {
			r.problem(kernel.Violationf("query-unanswered", "%s: no reply (err=%v, http=%d)", desc, rep.Err, rep.HTTPStatus))
		}
	default:
		m := rep.Msg
		if !m.Response || len(m.Question) != 1 || !strings.EqualFold(m.Question[0].Name, dns.Fqdn(q.Name)) || m.Question[0].Qtype != q.Qtype || m.Id != q.NewReq().Id {
			r.problem(kernel.Violationf("reply-for-other-question", "%s: reply id=%d question=%v", desc, m.Id, m.Question))
		}
		if rep.Writes > 1 {
			r.problem(kernel.Violationf("query-answered-twice", "%s: %d replies", desc, rep.Writes))
		}
	}
}

func persistent(i int, flags int) *client.Persistent {
	p := &client.Persistent{Name: fmt.Sprintf("cl%d", i%3), UID: client.MustNewUID(), UseOwnSettings: flags&1 != 0, FilteringEnabled: flags&2 != 0,
		IgnoreQueryLog: flags&1 != 0 && flags&2 != 0}
	ids := []string{clientIPs[i%len(clientIPs)]}
	if i%2 == 0 {
		ids = append(ids, cids[i%len(cids)])
	}
	_ = p.SetIDs(ids)
	return p
}

func (r *runner) run(tk Task) {
	ctx := context.Background()
	addr := netip.AddrPortFrom(netip.MustParseAddr(srcAddrs[tk.A%len(srcAddrs)]), 5000)
	name := names[tk.A%len(names)]
	// Every answer shape of the upstream gets exercised: addresses, and HTTPS
	// records with address hints.
	qt := []uint16{dns.TypeA, dns.TypeHTTPS, dns.TypeAAAA, dns.TypeHTTPS}[tk.B%4]
	switch tk.Kind {
	// ---- DNS requests
	case "q_udp":
		r.query(&dnsnode.Query{Proto: "udp", Addr: addr, Name: name, Qtype: qt}, true)
	case "q_tcp":
		r.query(&dnsnode.Query{Proto: "tcp", Addr: addr, Name: name, Qtype: qt}, false)
	case "q_tls_cid":
		r.query(&dnsnode.Query{Proto: "tls", Addr: addr, Name: name, Qtype: qt, SNI: cids[tk.B%2] + "." + serverName}, false)
	case "q_doh_cid":
		r.query(&dnsnode.Query{Proto: "https", Addr: addr, Name: name, Qtype: qt, SNI: serverName, Host: serverName, Path: "/dns-query/" + cids[tk.B%2]}, false)
	case "q_quic":
		r.query(&dnsnode.Query{Proto: "quic", Addr: addr, Name: name, Qtype: dns.TypeHTTPS, SNI: serverName}, false)
	case "q_dnscrypt":
		r.query(&dnsnode.Query{Proto: "dnscrypt", Addr: addr, Name: name, Qtype: dns.TypeTXT}, true)
	case "q_blocked":
		r.query(&dnsnode.Query{Proto: "udp", Addr: addr, Name: "ads.test", Qtype: dns.TypeA}, true)
	case "q_rewrite":
		r.query(&dnsnode.Query{Proto: "tcp", Addr: addr, Name: "c.rw.test", Qtype: dns.TypeA}, false)
	case "q_service":
		r.query(&dnsnode.Query{Proto: "tcp", Addr: addr, Name: "boards.4chan.org", Qtype: dns.TypeA}, false)
	case "q_dhcp_host":
		r.query(&dnsnode.Query{Proto: "tcp", Addr: netip.MustParseAddrPort("192.168.10.50:999"), Name: "host1.lan", Qtype: dns.TypeA}, false)
	case "q_ptr":
		r.query(&dnsnode.Query{Proto: "tcp", Addr: netip.MustParseAddrPort("192.168.10.50:999"), Name: "101.10.168.192.in-addr.arpa", Qtype: dns.TypePTR}, false)

	// ---- clients
	case "client_add":
		_ = r.n.Clients.Add(ctx, persistent(tk.A, tk.B))
	case "client_update":
		_ = r.n.Clients.Update(ctx, fmt.Sprintf("cl%d", tk.A%3), persistent(tk.A+tk.B, tk.B))
	case "client_remove":
		r.n.Clients.RemoveByName(ctx, fmt.Sprintf("cl%d", tk.A%3))
	case "client_find":
		r.n.Clients.Find(srcAddrs[tk.A%len(srcAddrs)])
		r.n.Clients.RangeByName(func(*client.Persistent) bool { return true })

	// ---- access
	case "access_set":
		var dis []string
		if tk.B%2 == 1 {
			dis = []string{srcAddrs[tk.A%len(srcAddrs)]}
		}
		r.api("POST", "/control/access/set", map[string]any{"allowed_clients": []string{}, "disallowed_clients": orEmpty(dis), "blocked_hosts": []string{"blocked-by-access.test"}})
	case "access_list":
		r.api("GET", "/control/access/list", nil)

	// ---- rules and lists
	case "set_rules":
		r.api("POST", "/control/filtering/set_rules", map[string]any{"rules": orEmpty(ruleSets[tk.A%len(ruleSets)])})
	case "add_url":
		r.mu.Lock()
		r.listN++
		n := r.listN
		r.mu.Unlock()
		url := fmt.Sprintf("https://lists.invalid/l%d.txt", n%4)
		r.ls.Set(url, fmt.Sprintf("||list%d.test^\n||ads.test^\n", n))
		r.api("POST", "/control/filtering/add_url", map[string]any{"name": "l", "url": url, "whitelist": tk.B%3 == 0})
	case "refresh":
		r.ls.Set(fmt.Sprintf("https://lists.invalid/l%d.txt", tk.A%4), fmt.Sprintf("||refreshed%d.test^\n", tk.A))
		r.api("POST", "/control/filtering/refresh", map[string]any{"whitelist": tk.B%3 == 0})
	case "remove_url":
		r.api("POST", "/control/filtering/remove_url", map[string]any{"url": fmt.Sprintf("https://lists.invalid/l%d.txt", tk.A%4), "whitelist": tk.B%3 == 0})
	case "set_url":
		url := fmt.Sprintf("https://lists.invalid/l%d.txt", tk.A%4)
		r.api("POST", "/control/filtering/set_url", map[string]any{"url": url, "whitelist": tk.B%3 == 0, "data": map[string]any{"enabled": tk.B%2 == 0, "name": "l", "url": url}})
	case "filtering_config":
		r.api("POST", "/control/filtering/config", map[string]any{"enabled": tk.B != 0, "interval": 24})
	case "filtering_status":
		r.api("GET", "/control/filtering/status", nil)
	case "check_host":
		r.api("GET", "/control/filtering/check_host?name="+name, nil)

	// ---- rewrites
	case "rewrite_add":
		r.api("POST", "/control/rewrite/add", map[string]any{"domain": fmt.Sprintf("*.rw%d.test", tk.A%2), "answer": "198.18.0.9"})
	case "rewrite_delete":
		r.api("POST", "/control/rewrite/delete", map[string]any{"domain": fmt.Sprintf("*.rw%d.test", tk.A%2), "answer": "198.18.0.9"})
	case "rewrite_update":
		r.api("PUT", "/control/rewrite/update", map[string]any{"target": map[string]any{"domain": "*.rw.test", "answer": "198.18.0.1"}, "update": map[string]any{"domain": "*.rw.test", "answer": "198.18.0.1"}})
	case "rewrite_list":
		r.api("GET", "/control/rewrite/list", nil)

	// ---- blocked services
	case "services_update":
		ids := []string{}
		if tk.B%2 == 0 {
			ids = []string{"4chan"}
		}
		r.api("PUT", "/control/blocked_services/update", map[string]any{"ids": ids, "schedule": map[string]any{"time_zone": "UTC"}})
	case "services_get":
		r.api("GET", "/control/blocked_services/get", nil)
	case "services_set_legacy":
		ids := []string{}
		if tk.B%2 == 0 {
			ids = []string{"4chan", "9gag"}
		}
		r.api("POST", "/control/blocked_services/set", ids)

	// ---- protection
	case "protection_pause":
		r.api("POST", "/control/protection", map[string]any{"enabled": false, "duration": 1 + tk.A}) // a few ms: expires inside the case
	case "protection_on":
		r.api("POST", "/control/protection", map[string]any{"enabled": true})

	// ---- safe search
	case "safesearch_settings":
		r.api("PUT", "/control/safesearch/settings", map[string]any{"enabled": tk.B%2 == 0, "bing": true, "duckduckgo": true, "ecosia": true, "google": tk.A%2 == 0, "pixabay": true, "yandex": true, "youtube": true})
	case "safesearch_status":
		r.api("GET", "/control/safesearch/status", nil)

	// ---- query log
	case "qlog_config":
		ign := []string{}
		if tk.B%2 == 0 {
			ign = []string{"b.test"}
		}
		r.api("PUT", "/control/querylog/config/update", map[string]any{"enabled": tk.A%5 != 0, "anonymize_client_ip": tk.A%2 == 0, "interval": 86_400_000, "ignored": ign})
	case "qlog_clear":
		r.api("POST", "/control/querylog_clear", nil)
	case "qlog_get":
		r.api("GET", "/control/querylog?limit=20", nil)

	// ---- statistics
	case "stats_config":
		r.api("PUT", "/control/stats/config/update", map[string]any{"enabled": tk.A%5 != 0, "interval": 86_400_000 * (1 + tk.B%2), "ignored": []string{}})
	case "stats_reset":
		r.api("POST", "/control/stats_reset", nil)
	case "stats_get":
		r.api("GET", "/control/stats", nil)

	// ---- DNS settings
	case "dns_config":
		modes := []string{"default", "null_ip", "nxdomain", "refused"}
		r.api("POST", "/control/dns_config", map[string]any{"blocking_mode": modes[tk.A%4], "blocked_response_ttl": 10 + tk.B, "disable_ipv6": tk.B%2 == 0, "dnssec_enabled": tk.A%2 == 0})
	case "dns_info":
		r.api("GET", "/control/dns_info", nil)
	case "cache_clear":
		r.api("POST", "/control/cache_clear", nil)

	// ---- DHCP
	case "dhcp_static_add":
		r.api("POST", "/control/dhcp/add_static_lease", map[string]any{"mac": macs[tk.A%3], "ip": fmt.Sprintf("192.168.10.%d", 150+tk.A%3), "hostname": fmt.Sprintf("host%d", tk.A%3)})
	case "dhcp_static_remove":
		r.api("POST", "/control/dhcp/remove_static_lease", map[string]any{"mac": macs[tk.A%3], "ip": fmt.Sprintf("192.168.10.%d", 150+tk.A%3), "hostname": fmt.Sprintf("host%d", tk.A%3)})
	case "dhcp_discover":
		mac, _ := net.ParseMAC(fmt.Sprintf("aa:bb:cc:00:01:%02x", tk.A))
		if req, err := dhcpv4.NewDiscovery(mac); err == nil {
			r.dh.VerifV4HandlePacket(&capConn{}, &net.UDPAddr{IP: net.IPv4zero, Port: 68}, req)
		}
	case "dhcp_status":
		r.api("GET", "/control/dhcp/status", nil)
		r.dh.Leases()

	// ---- background workers (real bodies)
	case "w_stats_flush":
		r.st.VerifFlush()
	case "w_qlog_flush":
		_ = querylog.VerifFlush(ctx, r.ql)
	case "w_qlog_rotate":
		querylog.VerifCheckAndRotate(ctx, r.ql)
	case "w_clock_tick":
		// Let the filter-update timer and a protection pause deadline pass.
		if r.sc.Mode == "D" {
			// The bubble's clock stands still while tasks are parked: the
			// clock moves when the epoch's tasks have finished.
			r.mu.Lock()
			r.tickAfter += 6 * time.Second
			r.mu.Unlock()
			sched.Yield()
			break
		}
		time.Sleep(6 * time.Second)
	default:
		r.problem(kernel.Violationf("harness-unknown-task", "%q", tk.Kind))
	}
}

// answerWithHints is the simulated upstream's answer: the default one, with
// address hints on HTTPS records and a CNAME in front of some A answers, so
// that response filtering has every kind of record to look at.
func answerWithHints(req *dns.Msg) *dns.Msg {
	m := env.DefaultAnswer(req)
	for _, rr := range m.Answer {
		if h, ok := rr.(*dns.HTTPS); ok {
			h.Value = append(h.Value, &dns.SVCBIPv4Hint{Hint: []net.IP{net.IPv4(203, 0, 113, 7).To4()}}, &dns.SVCBIPv6Hint{Hint: []net.IP{net.ParseIP("2001:db8::7")}})
		}
	}
	return m
}

func orEmpty(s []string) []string {
	if s == nil {
		return []string{}
	}
	return s
}

// ---- race-detector log ---------------------------------------------------------

var (
	raceLogOnce sync.Once
	raceLogPath string
	raceLogOff  int64
)

func raceLog() string {
	raceLogOnce.Do(func() {
		for _, f := range strings.Fields(os.Getenv("GORACE")) {
			if strings.HasPrefix(f, "log_path=") {
				raceLogPath = strings.TrimPrefix(f, "log_path=") + "." + fmt.Sprint(os.Getpid())
			}
		}
	})
	return raceLogPath
}

// newRaceReports returns the data-race reports written since the last call.
func newRaceReports() []string {
	p := raceLog()
	if p == "" {
		return nil
	}
	b, err := os.ReadFile(p)
	if err != nil || int64(len(b)) <= raceLogOff {
		return nil
	}
	text := string(b[raceLogOff:])
	raceLogOff = int64(len(b))
	var out []string
	for _, blk := range strings.Split(text, "==================") {
		if strings.Contains(blk, "WARNING: DATA RACE") {
			out = append(out, strings.TrimSpace(blk))
		}
	}
	return out
}

var frameRe = regexp.MustCompile(`(?m)^  (\S+)\(`)

const aghPrefix = "github.com/AdguardTeam/AdGuardHome/internal/"

// raceSignature returns the unordered pair of the top AdGuard Home frames of
// the two conflicting accesses ("" if neither stack touches AdGuard Home).
func raceSignature(report string) string {
	var sigs []string
	// The two access stacks are the first two paragraphs.
	paras := strings.Split(report, "\n\n")
	for _, p := range paras {
		if len(sigs) == 2 {
			break
		}
		if !(strings.Contains(p, " at 0x") && strings.Contains(p, "by goroutine")) && !strings.Contains(p, "by main goroutine") {
			continue
		}
		top := ""
		for _, m := range frameRe.FindAllStringSubmatch(p, -1) {
			if strings.HasPrefix(m[1], aghPrefix) {
				top = strings.TrimPrefix(m[1], aghPrefix)
				break
			}
		}
		sigs = append(sigs, top)
	}
	if len(sigs) < 2 || (sigs[0] == "" && sigs[1] == "") {
		return ""
	}
	// One unsynchronised read site racing with many writers is one defect:
	// name it by the site, so that the known-finding entry covers exactly it.
	for _, site := range []string{"filtering.(*DNSFilter).WriteDiskConfig.func1"} {
		if sigs[0] == site || sigs[1] == site {
			return site + " <-> (any writer)"
		}
	}
	for i := range sigs {
		if sigs[i] == "" {
			sigs[i] = "(third-party)"
		}
		// Closure suffixes and generic markers vary little; keep them.
	}
	sort.Strings(sigs)
	return sigs[0] + " <-> " + sigs[1]
}

// ---- run ---------------------------------------------------------------------

func (r *runner) epoch(i int, tasks []Task) error {
	if r.sc.Mode == "D" {
		return r.epochD(i, tasks)
	}
	var wg sync.WaitGroup
	start := time.Now()
	for _, tk := range tasks {
		wg.Add(1)
		go func(tk Task) {
			defer wg.Done()
			defer func() {
				if p := recover(); p != nil {
					r.problem(kernel.Violationf("panic-in-task", "task %s panicked: %v", tk.Kind, p))
				}
			}()
			// No happens-before edge is created by sleeping: the only order
			// between tasks the race detector sees is the system's own locks.
			time.Sleep(time.Until(start.Add(time.Duration(tk.AtUs) * time.Microsecond)))
			r.run(tk)
		}(tk)
	}
	wg.Wait()
	kernel.Wait()
	return nil
}

// epochD runs the tasks under the seeded cooperative scheduler: one task
// executes at a time and the token moves at lock acquisitions only.
func (r *runner) epochD(i int, tasks []Task) error {
	var names []string
	var fns []func()
	for _, tk := range tasks {
		names = append(names, tk.Kind)
		fns = append(fns, func() {
			defer func() {
				if p := recover(); p != nil {
					r.problem(kernel.Violationf("panic-in-task", "task %s panicked: %v", tk.Kind, p))
				}
			}()
			r.run(tk)
		})
	}
	// The body of the filtering module's updates loop runs as one more task
	// (twice: requests made after the first pass are handled by the second).
	for k := 0; k < 2; k++ {
		names = append(names, "w_filter_updates")
		fns = append(fns, func() {
			sched.Yield()
			r.n.Filter.VerifDrainInitializer()
		})
	}
	var seed uint64
	if i < len(r.sc.SchedSeeds) {
		seed = r.sc.SchedSeeds[i]
	}
	res := sched.Run(seed, r.sc.SwitchPct, names, fns)
	// The number of failed lock attempts is left out of the event log: a
	// goroutine of the system that is not a task (the address processor, say)
	// can make one more attempt fail without changing the order of the tasks.
	r.c.Eventf("  sched steps=%d spawned=%d escapes=%d", res.Steps, res.Spawned, res.Escapes)
	r.c.Probes["sched_spawned_tasks"] += res.Spawned
	r.c.Probes["sched_steps"] += res.Steps
	r.c.Probes["sched_switches"] += res.Switches
	r.c.Probes["sched_lock_waits"] += res.Blocked
	if res.Escapes > 0 {
		r.c.Probes["sched_escapes"] += res.Escapes
	}
	if res.Deadlock != "" {
		// The tasks stay parked holding their locks: nothing of this node may
		// be touched again.
		r.abandon = true
		return kernel.Violationf("deadlock: "+res.Deadlock, "epoch %d (D) tasks %v seed %d: every unfinished task waits for a lock and none can be granted:\n%s", i, names, seed, res.Detail)
	}
	r.n.Filter.VerifDrainInitializer()
	if r.tickAfter > 0 {
		time.Sleep(r.tickAfter)
		r.tickAfter = 0
	}
	kernel.Wait()
	return nil
}

func (r *runner) verdict(i int, tasks []Task) error {
	kinds := make([]string, 0, len(tasks))
	ord := append([]Task(nil), tasks...)
	sort.SliceStable(ord, func(a, b int) bool { return ord[a].AtUs < ord[b].AtUs })
	for _, tk := range ord {
		kinds = append(kinds, tk.Kind)
	}
	for _, rep := range newRaceReports() {
		sig := raceSignature(rep)
		if sig == "" {
			r.c.Probe("third_party_race_report")
			continue
		}
		v := kernel.Violationf("race: "+sig, "epoch %d (%s) tasks %v: the race detector reports\n%s", i, r.sc.Mode, kinds, rep)
		if !r.c.Tolerate(v) {
			return v
		}
	}
	r.mu.Lock()
	probs := r.problems
	r.problems = nil
	r.mu.Unlock()
	for _, v := range probs {
		v.Msg = fmt.Sprintf("epoch %d (%s) tasks %v: %s", i, r.sc.Mode, kinds, v.Msg)
		if !r.c.Tolerate(v) {
			return v
		}
	}
	return nil
}

// probe checks that the node still serves after the epoch.
func (r *runner) probe() error {
	r.api("POST", "/control/access/set", map[string]any{"allowed_clients": []string{}, "disallowed_clients": []string{}, "blocked_hosts": []string{"blocked-by-access.test"}})
	r.api("POST", "/control/protection", map[string]any{"enabled": true})
	rep := r.n.Do(&dnsnode.Query{Proto: "tcp", Addr: netip.MustParseAddrPort("203.0.113.200:1"), Name: "probe-after-epoch.example", Qtype: dns.TypeA})
	kernel.Wait()
	if rep.Msg == nil || rep.Msg.Rcode != dns.RcodeSuccess || len(rep.Msg.Answer) != 1 {
		return kernel.Violationf("node-not-serving-after-epoch", "probe query after the epoch: reply=%v err=%v", rep.Msg, rep.Err)
	}
	return nil
}

// Run executes one scenario.
func Run(t *testing.T, scAny any, c *kernel.Ctx) error {
	sc := scAny.(*Scenario)
	dnsnode.InitProcess()
	sched.Init()
	sched.SpawnAllow = []string{"querylog.(*queryLog).Add", "enableProtectionAfterPause"}
	dir, err := kernel.TempDir("c05")
	if err != nil {
		return err
	}
	defer os.RemoveAll(dir)
	newRaceReports() // discard anything left from process start
	return kernel.Bubble(t, func() error {
		time.Sleep(3 * time.Minute)
		r := &runner{c: c, sc: sc, dir: dir, ls: env.NewListServer()}
		logger := slog.New(slog.DiscardHandler)
		anonymizer := aghnet.NewIPMut(nil)
		mux := env.NewMux()
		emptyIgn, _ := aghnet.NewIgnoreEngine(nil)
		ql, err := querylog.New(querylog.Config{Logger: logger, Ignored: emptyIgn, Anonymizer: anonymizer, ConfigModified: r.onConfigModified, HTTPRegister: mux.Register,
			FindClient: func(ids []string) (*querylog.Client, error) { return r.find(ids) }, BaseDir: dir, RotationIvl: 24 * time.Hour,
			MemSize: sc.MemSize, Enabled: true, FileEnabled: true})
		if err != nil {
			return err
		}
		r.ql = ql
		querylog.VerifInitWeb(ql)
		emptyIgn2, _ := aghnet.NewIgnoreEngine(nil)
		st, err := stats.New(stats.Config{Logger: logger, Filename: filepath.Join(dir, "stats.db"), Limit: 24 * time.Hour, Enabled: true, Ignored: emptyIgn2,
			ConfigModified: r.onConfigModified, HTTPRegister: mux.Register, ShouldCountClient: func(ids []string) bool { return r.cnt(ids) }})
		if err != nil {
			return err
		}
		r.st = st
		st.VerifInitWeb()
		defer func() {
			if !r.abandon {
				st.VerifCrash()
			}
		}()

		ds, err := dhcpd.Create(&dhcpd.ServerConfig{ConfigModified: r.onConfigModified, HTTPRegister: mux.Register, Enabled: true, InterfaceName: "verif0", LocalDomainName: "lan",
			Conf4: dhcpd.V4ServerConf{GatewayIP: netip.MustParseAddr("192.168.10.1"), SubnetMask: netip.MustParseAddr("255.255.255.0"),
				RangeStart: netip.MustParseAddr("192.168.10.100"), RangeEnd: netip.MustParseAddr("192.168.10.120"), LeaseDuration: 3600, ICMPTimeout: 0},
			WorkDir: dir, DataDir: dir})
		if err != nil {
			return fmt.Errorf("harness: dhcpd.Create: %w", err)
		}
		var dh dhcpServer = ds
		dh.VerifV4ConfigureDNSIPAddrs([]net.IP{net.IPv4(192, 168, 10, 1)})
		r.dh = dh

		up := &env.Upstream{Addr: "sim-upstream:53", Answer: answerWithHints, Latency: 337 * time.Microsecond}
		if sc.Mode == "D" {
			// The clock of the bubble stands still while tasks are parked: the
			// exchange is a scheduling point instead of a pause.
			up.Latency = 0
			up.OnExchange = func() { sched.Yield() }
		}
		cfg := &dnsnode.Config{Dir: dir, ListServer: r.ls, Upstream: up, UpTimeout: 2 * time.Second, ServerName: serverName,
			QueryLog: ql, Stats: st, Anonymizer: anonymizer, ClientDHCP: dh, DHCP: dh, LocalDomain: "lan", RuntimeSourceDHCP: true,
			OnModified: r.onConfigModified, NoUpdatesLoop: sc.Mode == "D"}
		cfg.Filtering = filtering.Config{BlockingMode: filtering.BlockingModeDefault, ProtectionEnabled: true, FilteringEnabled: true, FiltersUpdateIntervalHours: 1,
			UserRules: []string{"||ads.test^"}, Rewrites: []*filtering.LegacyRewrite{{Domain: "*.rw.test", Answer: "198.18.0.1"}},
			SafeSearchCacheSize: 1 << 16, CacheTime: 30}
		cfg.Filtering.BlockedServices = nil
		cfg.Filtering.SafeSearchConf = filtering.SafeSearchConfig{Enabled: false, Bing: true, DuckDuckGo: true, Ecosia: true, Google: true, Pixabay: true, Yandex: true, YouTube: true}
		cfg.Filtering.SafeSearch, err = safesearch.NewDefault(context.Background(), &safesearch.DefaultConfig{Logger: logger, ServicesConfig: cfg.Filtering.SafeSearchConf, CacheSize: 1 << 16, CacheTTL: 30 * time.Minute})
		if err != nil {
			return fmt.Errorf("harness: safesearch: %w", err)
		}
		cfg.DNS = dnsforward.Config{}
		if sc.Cache {
			cfg.DNS.CacheSize = 1 << 16
		}
		cfg.InitialClients = []*client.Persistent{persistent(0, 2)}
		n, err := dnsnode.New(cfg)
		if err != nil {
			return err
		}
		defer func() {
			if !r.abandon {
				n.Close()
			}
		}()
		r.n = n
		r.find, r.cnt = home.VerifClientFuncs(n.Clients, n.Server)
		for _, rt := range mux.Routes() {
			n.Mux.Register(rt.Method, rt.Path, rt.Handler)
		}
		kernel.Wait()
		if sigs := newRaceReports(); len(sigs) > 0 {
			c.Probe("race_report_during_setup")
		}
		for i, tasks := range sc.Epochs {
			rep := 1
			if sc.Mode == "C" && sc.Repeat > 1 {
				rep = sc.Repeat
			}
			for k := 0; k < rep; k++ {
				if k == 0 && i < len(sc.JumpS) && sc.JumpS[i] > 0 {
					d := time.Duration(sc.JumpS[i]) * time.Second
					time.Sleep(d)
					kernel.Wait()
					c.SimTime += d
					if d >= time.Hour {
						c.Fault("clock_jump_hour")
					}
					if err := r.verdict(i, nil); err != nil {
						return err
					}
				}
				c.Eventf("epoch %d.%d mode=%s n=%d", i, k, sc.Mode, len(tasks))
				if err := r.epoch(i, tasks); err != nil {
					return err
				}
				c.Fault("epoch_" + sc.Mode)
				for _, tk := range tasks {
					switch {
					case strings.HasPrefix(tk.Kind, "q_"):
						c.Probe("task_query")
					case strings.HasPrefix(tk.Kind, "w_"):
						c.Probe("task_worker")
					default:
						c.Probe("task_admin")
					}
				}
				if err := r.verdict(i, tasks); err != nil {
					return err
				}
				if err := r.probe(); err != nil {
					return err
				}
				if err := r.verdict(i, nil); err != nil {
					return err
				}
				c.Step()
			}
			if sc.Mode == "B" {
				// The order of mode B is a function of the scenario: log it.
				for _, tk := range tasks {
					c.Eventf("  %s@%d", tk.Kind, tk.AtUs)
				}
			}
			c.SimTime += 4 * time.Millisecond
		}
		return nil
	})
}

// Prop is the registration.
var Prop = &kernel.Property{
	ID:    "C05",
	Level: "exploration",
	Rule: "seeded epochs (rapid) of 2-6 (mode B) or 2-24 (mode C) tasks drawn from 11 kinds of DNS request (all six transports, blocked / rewritten / blocked-service / DHCP-host / PTR names), 37 admin operations through the real handlers (clients, access lists, custom rules, list add/refresh/remove/toggle, filtering flag, rewrites, blocked services, protection pause/on, safe search, query-log and statistics configuration / clear / reads, DNS settings, cache clear, DHCP static leases, DHCPDISCOVER) and 4 background-worker bodies (statistics flush, query-log flush and rotation, timers); mode B starts the tasks at distinct seeded instants of the simulated clock (physically sequential, logically concurrent for the race detector), mode C releases them at one instant on all cores; built with -race; " +
		"non-trivial = the case executed at least one DNS request task and one admin or worker task in the same epoch set; distinct = distinct scenario digests (an epoch's task multiset and order is the interleaving measure)",
	Gen: Gen,
	New: func() any { return &Scenario{} },
	Run: Run,
	NonTrivial: func(_ any, c *kernel.Ctx) bool {
		return c.Probes["task_query"] > 0 && c.Probes["task_admin"]+c.Probes["task_worker"] > 0
	},
	Real:        []string{"internal/dnsforward + dnsproxy request path", "internal/filtering (engines, list refresh, rewrites, safe search, blocked services, all HTTP handlers)", "internal/client.Storage", "internal/querylog (memory + file, handlers, flush and rotation bodies)", "internal/stats + bbolt (handlers, flush body)", "internal/dhcpd v4 (packet handler, static-lease handlers, leases.json)", "home callbacks findMultiple / shouldCountClient"},
	Stub:        []string{"upstream resolver, list server, client sockets, DHCP socket", "loop drivers of statistics flush / query-log rotation (bodies real, run as tasks)", "home's own HTTP handlers for clients (client.Storage methods are called directly)", "listeners"},
	Assumptions: []string{"the Go race detector has no false positives: a report whose two access stacks contain an AdGuard Home frame is a violation; reports confined to third-party frames are counted, not reported", "mode B orders tasks through the simulated clock only (time.Sleep creates no happens-before edge), so lock release->acquire edges always point along the seeded order; permuted orders are part of the sampled space", "mode C bursts are not exactly repeatable: a replay re-runs the burst and may not reproduce"},
	FaultKinds:  []string{"epoch_B", "epoch_C", "epoch_D", "clock_jump_hour"},
	ProbeNames:  []string{"task_query", "task_admin", "task_worker", "third_party_race_report", "race_report_during_setup"},
}
