// Package c03 decides property C03 (access lists: excluded clients and blocked
// names are never resolved, filtered, logged or counted — no reply over UDP and
// DNSCrypt, REFUSED elsewhere; allow-list mode vs disallow mode as stated; all
// other requests served) by deterministic simulation on engine E1: seeded
// access lists (set at start and replaced live through the real handler),
// requests of all six transports from many source addresses and ClientIDs, a
// decision function written from the statement, and the node's observable
// effects (client socket, upstream exchange log, query-log and statistics
// recorders).
package c03

import (
	"encoding/json"
	"fmt"
	"net/http"
	"net/netip"
	"os"
	"strings"
	"testing"
	"time"

	"github.com/AdguardTeam/AdGuardHome/internal/dnsforward"
	"github.com/AdguardTeam/AdGuardHome/internal/filtering"
	"github.com/AdguardTeam/AdGuardHome/verifsim/dnsnode"
	"github.com/AdguardTeam/AdGuardHome/verifsim/env"
	"github.com/AdguardTeam/AdGuardHome/verifsim/kernel"
	"github.com/AdguardTeam/urlfilter"
	"github.com/AdguardTeam/urlfilter/filterlist"
	"github.com/miekg/dns"
	"pgregory.net/rapid"
)

// Lists is one access configuration.
type Lists struct {
	Allowed    []string `json:"allowed"`
	Disallowed []string `json:"disallowed"`
	Hosts      []string `json:"blocked_hosts"`
}

// Op is one generated operation.
type Op struct {
	Kind     string `json:"k"` // query | set
	Proto    string `json:"proto,omitempty"`
	Addr     string `json:"addr,omitempty"`
	ClientID string `json:"cid,omitempty"` // as the client spells it (any case)
	ViaPath  bool   `json:"via_path,omitempty"`
	Name     string `json:"name,omitempty"`
	Qtype    uint16 `json:"qt,omitempty"`
	Lists    *Lists `json:"lists,omitempty"`
}

// Scenario is one case.
type Scenario struct {
	Initial Lists `json:"initial"`
	Ops     []Op  `json:"ops"`
}

const serverName = "dns.example"

var (
	srcAddrs = []string{"192.0.2.1", "192.0.2.2", "192.0.2.130", "198.51.100.7", "10.1.2.3", "2001:db8:1::1", "2001:db8:1:2::9", "2001:db8:2::1", "fe80::1%eth0", "fe80::2%eth1", "fe80::2%eth0", "::ffff:192.0.2.1", "127.0.0.1"}
	listIPs  = []string{"192.0.2.1", "192.0.2.2", "198.51.100.7", "2001:db8:1::1", "2001:db8:2::1", "fe80::1", "10.1.2.3", "fe80::1%eth0", "fe80::2%eth1"}
	listNets = []string{"192.0.2.0/24", "192.0.2.128/25", "192.0.2.0/31", "0.0.0.0/0", "10.0.0.0/8", "198.51.100.7/32", "2001:db8:1::/48", "2001:db8:1:2::/64", "::/0", "fe80::/10", "2001:db8:2::1/128"}
	cids     = []string{"alice", "bob", "kid-1", "x"}
	hostPats = []string{"blocked.test", "||ads.test^", "*.wild.test", "||x.example^$dnstype=AAAA", "|exact.test^", "sub.blocked.test", "||test2^"}
	qnames   = []string{"blocked.test", "sub.blocked.test", "ads.test", "a.ads.test", "x.wild.test", "wild.test", "x.example", "exact.test", "a.exact.test", "fine.test", "ok.example", "a.test2", "BLOCKED.test", "Ads.TEST"}
	protos   = []string{"udp", "tcp", "tls", "https", "quic", "dnscrypt"}
	qtypes   = []uint16{dns.TypeA, dns.TypeAAAA, dns.TypeTXT}
)

func genLists(t *rapid.T) Lists {
	var l Lists
	pick := func(label string, max int) []string {
		var out []string
		for i, n := 0, rapid.IntRange(0, max).Draw(t, label+"_n"); i < n; i++ {
			switch rapid.IntRange(0, 2).Draw(t, label+"_kind") {
			case 0:
				out = append(out, rapid.SampledFrom(listIPs).Draw(t, label+"_ip"))
			case 1:
				out = append(out, rapid.SampledFrom(listNets).Draw(t, label+"_net"))
			default:
				out = append(out, rapid.SampledFrom(cids).Draw(t, label+"_cid"))
			}
		}
		return out
	}
	switch rapid.IntRange(0, 3).Draw(t, "list_shape") {
	case 0: // disallow mode only
		l.Disallowed = pick("dis", 4)
	case 1: // allow-list mode, disallowed list present but must be ignored
		l.Allowed = pick("alw", 3)
		l.Disallowed = pick("dis", 3)
	case 2:
		l.Allowed = pick("alw", 4)
	}
	// The API rejects duplicates and intersections; keep the lists valid.
	seen := map[string]bool{}
	uniq := func(in []string) (out []string) {
		for _, s := range in {
			if !seen[s] {
				seen[s] = true
				out = append(out, s)
			}
		}
		return out
	}
	l.Allowed = uniq(l.Allowed)
	l.Disallowed = uniq(l.Disallowed)
	hseen := map[string]bool{}
	for i, n := 0, rapid.IntRange(0, 3).Draw(t, "hosts_n"); i < n; i++ {
		h := rapid.SampledFrom(hostPats).Draw(t, "host_pat")
		if !hseen[h] {
			hseen[h] = true
			l.Hosts = append(l.Hosts, h)
		}
	}
	return l
}

func flipCase(t *rapid.T, s string) string {
	if rapid.IntRange(0, 2).Draw(t, "flip") != 0 {
		return s
	}
	return strings.ToUpper(s[:1]) + s[1:]
}

// Gen draws a scenario.
func Gen(t *rapid.T, tier string) any {
	sc := &Scenario{Initial: genLists(t)}
	maxOps := 30
	if tier == "thorough" {
		maxOps = 80
	}
	for i, n := 0, rapid.IntRange(4, maxOps).Draw(t, "n_ops"); i < n; i++ {
		if rapid.IntRange(0, 9).Draw(t, "is_set") == 0 {
			l := genLists(t)
			sc.Ops = append(sc.Ops, Op{Kind: "set", Lists: &l})
			continue
		}
		op := Op{Kind: "query",
			Proto: rapid.SampledFrom(protos).Draw(t, "proto"),
			Addr:  rapid.SampledFrom(srcAddrs).Draw(t, "addr"),
			Name:  rapid.SampledFrom(qnames).Draw(t, "qname"),
			Qtype: rapid.SampledFrom(qtypes).Draw(t, "qtype"),
		}
		if op.Proto == "tls" || op.Proto == "quic" || op.Proto == "https" {
			if rapid.IntRange(0, 2).Draw(t, "has_cid") != 0 {
				op.ClientID = flipCase(t, rapid.SampledFrom(append([]string{"zed"}, cids...)).Draw(t, "cid"))
				op.ViaPath = op.Proto == "https" && rapid.Bool().Draw(t, "via_path")
			}
		}
		sc.Ops = append(sc.Ops, op)
	}
	return sc
}

// ---- decision function written from the statement ----------------------------

type access struct {
	allowedIPs, disIPs   map[netip.Addr]bool
	allowedNets, disNets []netip.Prefix
	allowedIDs, disIDs   map[string]bool
	hosts                *urlfilter.DNSEngine
	store                *filterlist.RuleStorage
	allowMode            bool
}

func newAccess(l Lists) (*access, error) {
	a := &access{allowedIPs: map[netip.Addr]bool{}, disIPs: map[netip.Addr]bool{}, allowedIDs: map[string]bool{}, disIDs: map[string]bool{}}
	add := func(items []string, ips map[netip.Addr]bool, nets *[]netip.Prefix, ids map[string]bool) {
		for _, s := range items {
			if ip, err := netip.ParseAddr(s); err == nil {
				ips[ip] = true
			} else if p, err := netip.ParsePrefix(s); err == nil {
				*nets = append(*nets, p)
			} else {
				ids[s] = true
			}
		}
	}
	add(l.Allowed, a.allowedIPs, &a.allowedNets, a.allowedIDs)
	add(l.Disallowed, a.disIPs, &a.disNets, a.disIDs)
	a.allowMode = len(l.Allowed) > 0
	st, err := filterlist.NewRuleStorage([]filterlist.RuleList{&filterlist.StringRuleList{ID: 1, RulesText: strings.ToLower(strings.Join(l.Hosts, "\n")), IgnoreCosmetic: true}})
	if err != nil {
		return nil, err
	}
	a.store = st
	a.hosts = urlfilter.NewDNSEngine(st)
	return a, nil
}

func (a *access) close() { _ = a.store.Close() }

// decision is the reference verdict; open is set for the two shapes the
// statement does not fix (4-in-6 sources against plain IPv4 entries, zoned
// sources against un-zoned exact-address entries).
type decision struct {
	excluded bool
	open     bool
	why      string
}

func inSet(addr netip.Addr, ips map[netip.Addr]bool, nets []netip.Prefix) (hit, open bool) {
	if ips[addr] {
		return true, false
	}
	plain := addr.WithZone("")
	for _, n := range nets {
		if n.Contains(plain) {
			return true, false
		}
	}
	// Shapes the statement leaves open.
	if addr.Zone() != "" && ips[plain] {
		return false, true
	}
	if addr.Is4In6() {
		u := addr.Unmap()
		if ips[u] {
			return false, true
		}
		for _, n := range nets {
			if n.Contains(u) {
				return false, true
			}
		}
	}
	return false, false
}

func (a *access) decide(addr netip.Addr, clientID, host string, qt uint16) decision {
	if a.allowMode {
		hit, open := inSet(addr, a.allowedIPs, a.allowedNets)
		if !hit && !(clientID != "" && a.allowedIDs[clientID]) {
			return decision{excluded: true, open: open, why: "allow-list mode, neither address nor ClientID allowed"}
		}
	} else {
		hit, open := inSet(addr, a.disIPs, a.disNets)
		if hit || (clientID != "" && a.disIDs[clientID]) {
			return decision{excluded: true, why: "address or ClientID disallowed"}
		}
		if open {
			return decision{open: true, why: "open shape"}
		}
	}
	if _, ok := a.hosts.MatchRequest(&urlfilter.DNSRequest{Hostname: host, DNSType: qt}); ok {
		return decision{excluded: true, why: "name on the blocked-hosts list"}
	}
	return decision{why: "admitted"}
}

// ---- run ---------------------------------------------------------------------

type runner struct {
	c  *kernel.Ctx
	n  *dnsnode.Node
	ac *access
	// first decision seen for an "open" input, to assert consistency
	openSeen map[string]bool
}

func (r *runner) query(op Op) error {
	addr := netip.MustParseAddr(op.Addr)
	q := &dnsnode.Query{Proto: op.Proto, Addr: netip.AddrPortFrom(addr, 40000), Name: op.Name, Qtype: op.Qtype}
	cid := strings.ToLower(op.ClientID)
	switch op.Proto {
	case "tls", "quic":
		q.SNI = serverName
		if op.ClientID != "" {
			q.SNI = op.ClientID + "." + serverName
		}
	case "https":
		q.SNI, q.Host = serverName, serverName
		if op.ClientID != "" {
			if op.ViaPath {
				q.Path = "/dns-query/" + op.ClientID
			} else {
				q.SNI = op.ClientID + "." + serverName
			}
		}
	}
	host := strings.ToLower(strings.TrimSuffix(op.Name, "."))
	d := r.ac.decide(addr, cid, host, op.Qtype)
	logN, statN, upN := r.n.QLog.Len(), r.n.Stats.Len(), r.n.Up.Len()
	rep := r.n.Do(q)
	kernel.Wait()
	if rep.WireErr != nil {
		return kernel.Violationf("malformed-reply", "%v", rep.WireErr)
	}
	rc := "none"
	if rep.Msg != nil {
		rc = dns.RcodeToString[rep.Msg.Rcode]
	}
	r.c.Eventf("query %s %s cid=%q %s %s -> %s writes=%d up=%d log=%d stat=%d | model excluded=%v open=%v", op.Proto, op.Addr, cid, op.Name, dns.Type(op.Qtype), rc, rep.Writes, r.n.Up.Len()-upN, r.n.QLog.Len()-logN, r.n.Stats.Len()-statN, d.excluded, d.open)
	desc := fmt.Sprintf("%s from %s cid=%q for %s %s", op.Proto, op.Addr, cid, op.Name, dns.Type(op.Qtype))

	refusedObserved := false
	switch op.Proto {
	case "udp", "dnscrypt":
		refusedObserved = rep.Dropped
	default:
		refusedObserved = rep.Msg != nil && rep.Msg.Rcode == dns.RcodeRefused
	}
	if d.open {
		// Only: a decision, and the same decision for the same input.
		r.c.Probe("open_shape")
		key := fmt.Sprintf("%s|%s|%s|%d", op.Addr, cid, host, op.Qtype)
		if prev, ok := r.openSeen[key]; ok && prev != refusedObserved {
			return kernel.Violationf("inconsistent-decision", "%s: served once and refused once under the same lists", desc)
		}
		r.openSeen[key] = refusedObserved
		d.excluded = refusedObserved
	}
	if d.excluded {
		r.c.Probe("excluded_request")
		r.c.Probe("excluded_" + op.Proto)
		if d.why == "name on the blocked-hosts list" {
			r.c.Probe("excluded_by_name")
		}
		switch op.Proto {
		case "udp", "dnscrypt":
			if !rep.Dropped {
				return kernel.Violationf("excluded-got-reply", "%s is excluded (%s): over %s there must be no reply at all, got %s", desc, d.why, op.Proto, rc)
			}
		default:
			if rep.Msg == nil || rep.Writes != 1 || rep.Msg.Rcode != dns.RcodeRefused || len(rep.Msg.Answer) != 0 {
				return kernel.Violationf("excluded-not-refused", "%s is excluded (%s): want exactly one REFUSED reply, got %s (writes=%d http=%d)", desc, d.why, rc, rep.Writes, rep.HTTPStatus)
			}
		}
		if n := r.n.Up.Len() - upN; n != 0 {
			return kernel.Violationf("excluded-resolved", "%s is excluded (%s) but %d question(s) went upstream", desc, d.why, n)
		}
		if n := r.n.QLog.Len() - logN; n != 0 {
			return kernel.Violationf("excluded-logged", "%s is excluded (%s) but was written to the query log", desc, d.why)
		}
		if n := r.n.Stats.Len() - statN; n != 0 {
			return kernel.Violationf("excluded-counted", "%s is excluded (%s) but was counted in statistics", desc, d.why)
		}
		return nil
	}
	r.c.Probe("served_request")
	if cid != "" {
		r.c.Probe("served_with_clientid")
	}
	if rep.Msg == nil || rep.Msg.Rcode != dns.RcodeSuccess {
		return kernel.Violationf("admitted-not-served", "%s must be served (%s; allow-mode=%v) but got %s (writes=%d http=%d err=%v)", desc, d.why, r.ac.allowMode, rc, rep.Writes, rep.HTTPStatus, rep.Err)
	}
	if r.n.Up.Len()-upN < 1 || r.n.QLog.Len()-logN != 1 || r.n.Stats.Len()-statN != 1 {
		return kernel.Violationf("admitted-not-processed", "%s served but up=%d log=%d stat=%d (want >=1, 1, 1)", desc, r.n.Up.Len()-upN, r.n.QLog.Len()-logN, r.n.Stats.Len()-statN)
	}
	return nil
}

func (r *runner) set(l Lists) error {
	orEmpty := func(s []string) []string {
		if s == nil {
			return []string{}
		}
		return s
	}
	b, _ := json.Marshal(map[string]any{"allowed_clients": orEmpty(l.Allowed), "disallowed_clients": orEmpty(l.Disallowed), "blocked_hosts": orEmpty(l.Hosts)})
	code, resp, err := r.n.Mux.Do("POST", "/control/access/set", b)
	if err != nil {
		if hp, ok := err.(*env.HandlerPanic); ok {
			return kernel.Violationf("api-panic", "%v", hp)
		}
		return err
	}
	if code != http.StatusOK {
		return fmt.Errorf("harness: access/set %s -> %d %s", b, code, resp)
	}
	kernel.Wait()
	r.ac.close()
	r.ac, err = newAccess(l)
	r.openSeen = map[string]bool{}
	r.c.Fault("live_access_update")
	r.c.Eventf("set allowed=%v disallowed=%v hosts=%v", l.Allowed, l.Disallowed, l.Hosts)
	return err
}

// Run executes one scenario.
func Run(t *testing.T, scAny any, c *kernel.Ctx) error {
	sc := scAny.(*Scenario)
	dnsnode.InitProcess()
	dir, err := kernel.TempDir("c03")
	if err != nil {
		return err
	}
	defer os.RemoveAll(dir)
	return kernel.Bubble(t, func() error {
		up := &env.Upstream{Addr: "sim-upstream:53", Answer: env.DefaultAnswer, Latency: 2 * time.Millisecond}
		cfg := &dnsnode.Config{Dir: dir, ListServer: env.NewListServer(), Upstream: up, UpTimeout: 2 * time.Second, ServerName: serverName}
		cfg.Filtering = filtering.Config{BlockingMode: filtering.BlockingModeDefault, ProtectionEnabled: true, FilteringEnabled: true, FiltersUpdateIntervalHours: 24}
		cfg.DNS = dnsforward.Config{AllowedClients: sc.Initial.Allowed, DisallowedClients: sc.Initial.Disallowed, BlockedHosts: sc.Initial.Hosts}
		if len(sc.Initial.Hosts) == 0 {
			// An empty list in the configuration means the built-in defaults;
			// they cover names this workload never asks for.
			c.Probe("default_blocked_hosts")
		}
		n, err := dnsnode.New(cfg)
		if err != nil {
			return err
		}
		defer n.Close()
		r := &runner{c: c, n: n, openSeen: map[string]bool{}}
		if r.ac, err = newAccess(sc.Initial); err != nil {
			return err
		}
		defer func() { r.ac.close() }()
		kernel.Wait()
		for i, op := range sc.Ops {
			var err error
			if op.Kind == "set" {
				err = r.set(*op.Lists)
			} else {
				err = r.query(op)
			}
			if err != nil {
				if v, ok := err.(*kernel.Violation); ok {
					v.Msg = fmt.Sprintf("op %d: %s", i, v.Msg)
				}
				return err
			}
			c.Step()
		}
		return nil
	})
}

// Prop is the registration.
var Prop = &kernel.Property{
	ID:    "C03",
	Level: "exploration",
	Rule: "seeded histories (rapid): allowed / disallowed lists mixing IPv4/IPv6 addresses, overlapping CIDRs (/0 .. /128) and ClientIDs, blocked-host patterns; set at start and replaced live through POST /control/access/set; requests over udp/tcp/tls/https/quic/dnscrypt from 11 source addresses (incl. zoned IPv6 and 4-in-6) with ClientIDs given by SNI label or DoH path in any letter case; " +
		"non-trivial = at least one excluded and one served request were executed in the case; distinct = distinct scenario digests",
	Gen: Gen,
	New: func() any { return &Scenario{} },
	Run: Run,
	NonTrivial: func(_ any, c *kernel.Ctx) bool {
		return c.Probes["excluded_request"] > 0 && c.Probes["served_request"] > 0
	},
	Real:        []string{"internal/dnsforward (HandleBefore, accessManager, ClientID extraction, access/set handler, pipeline, query-log/statistics glue)", "dnsproxy request path (handleBefore, respond*)", "internal/filtering", "internal/client.Storage"},
	Stub:        []string{"upstream resolver (exchange log)", "client sockets of all six transports (fake conns / writers; UDP judged by the response message)", "query log and statistics (recorders)", "listeners / TLS handshakes (server name placed in the fake connection state)"},
	Assumptions: []string{"blocked-host patterns are matched by urlfilter (trusted) against the lower-cased name", "4-in-6 sources against plain IPv4 entries and zoned IPv6 sources against un-zoned exact entries are not fixed by the statement: only 'a decision, and the same one for the same input' is asserted", "ClientIDs in the lists are lower-case (the extractor lower-cases the client's spelling)"},
	FaultKinds:  []string{"live_access_update"},
	ProbeNames:  []string{"excluded_request", "served_request", "served_with_clientid", "excluded_by_name", "open_shape", "excluded_udp", "excluded_tcp", "excluded_tls", "excluded_https", "excluded_quic", "excluded_dnscrypt", "default_blocked_hosts"},
}
