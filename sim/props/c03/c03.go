// Package c03 decides property C03 (access lists: excluded clients and blocked
// names are never resolved, filtered, logged or counted — no reply over UDP and
// DNSCrypt, REFUSED elsewhere; allow-list mode vs disallow mode as stated; all
// other requests served) by deterministic simulation on engine E1: seeded
// access lists (set at start and replaced live through the real handler),
// requests of all six transports from many source addresses and ClientIDs, a
// decision function written from the statement, and the node's observable
// effects (client socket, upstream exchange log, query-log and statistics
// recorders).
//
// The access settings in force are the last ones the API accepted.  Besides
// accepted replacements the history therefore contains updates the API may
// reject (duplicates, intersecting lists, entries that are no address, CIDR or
// ClientID, undecodable documents), unrelated settings writes, in-place
// reconfigurations (what saving the DNS settings does) and process restarts.
// Every "configuration modified" callback does what home's
// (*configuration).write does — it asks the components for their settings
// again and writes them out as YAML — and a restart builds the new node from
// the text the system itself wrote last, never from the harness's model.
//
// The blocked-hosts list is also what the system itself reports through GET
// /control/access/list: where the configured list is empty (the statement
// does not say what an empty list stands for) the reference model takes the
// reported list as the list in force, and requests ask for names taken from
// it at run time, so that "reported as blocked" and "enforced" cannot drift
// apart unnoticed.
//
// An access-list update may also arrive while requests are being handled: op
// "par" runs one update, one to four received requests of any transport and
// optionally a read of the lists as concurrent tasks under the seeded
// cooperative scheduler (mode D: one task at a time, switches at the lock
// operations of an instrumented copy of the tree).  Each overlapped request
// must have been judged by the settings before the update or by the settings
// after it, never by a mixture neither of them allows; the overlapped read
// must show what a read before or after the update shows.
package c03

import (
	"encoding/json"
	"fmt"
	"net/http"
	"net/netip"
	"os"
	"sort"
	"strings"
	"testing"
	"time"

	"github.com/AdguardTeam/AdGuardHome/internal/dnsforward"
	"github.com/AdguardTeam/AdGuardHome/internal/filtering"
	"github.com/AdguardTeam/AdGuardHome/verifsim/dnsnode"
	"github.com/AdguardTeam/AdGuardHome/verifsim/env"
	"github.com/AdguardTeam/AdGuardHome/verifsim/kernel"
	"github.com/AdguardTeam/AdGuardHome/verifsim/sched"
	"github.com/AdguardTeam/urlfilter"
	"github.com/AdguardTeam/urlfilter/filterlist"
	"github.com/miekg/dns"
	"gopkg.in/yaml.v3"
	"pgregory.net/rapid"
)

// Lists is one access configuration.
type Lists struct {
	Allowed    []string `json:"allowed"`
	Disallowed []string `json:"disallowed"`
	Hosts      []string `json:"blocked_hosts"`
}

// Op is one generated operation.
type Op struct {
	Kind     string `json:"k"` // query | set | restart | reconfigure | write | par
	Proto    string `json:"proto,omitempty"`
	Addr     string `json:"addr,omitempty"`
	ClientID string `json:"cid,omitempty"` // as the client spells it (any case)
	ViaPath  bool   `json:"via_path,omitempty"`
	Name     string `json:"name,omitempty"`
	Qtype    uint16 `json:"qt,omitempty"`
	Lists    *Lists `json:"lists,omitempty"`
	// Bad names how the generator spoiled the lists of a set ("" = valid by
	// construction): dup | intersect | unparsable | undecodable.
	Bad string `json:"bad,omitempty"`
	// Raw is the request body of an undecodable set.
	Raw string `json:"raw,omitempty"`
	// Write is the settings endpoint of an unrelated write.
	Write string `json:"write,omitempty"`
	// FromReported makes a query ask for a name the system itself reports as
	// blocked: the Pick-th (modulo) of the entries of the blocked-hosts list
	// returned by the last GET /control/access/list that are plain host names
	// (Name is asked if there is none).
	FromReported bool `json:"from_reported,omitempty"`
	Pick         int  `json:"pick,omitempty"`
	// par: the update (Lists / Bad / Raw as in a set) runs concurrently with
	// the requests Reqs and, if WithList, with a GET /control/access/list,
	// under the cooperative scheduler seeded with Seed, preemption
	// probability Pct percent.
	Seed     uint64 `json:"seed,omitempty"`
	Pct      int    `json:"pct,omitempty"`
	Reqs     []Op   `json:"reqs,omitempty"`
	WithList bool   `json:"with_list,omitempty"`
}

// Scenario is one case.
type Scenario struct {
	Initial Lists `json:"initial"`
	Ops     []Op  `json:"ops"`
}

const serverName = "dns.example"

var (
	srcAddrs = []string{"192.0.2.1", "192.0.2.2", "192.0.2.130", "198.51.100.7", "10.1.2.3", "2001:db8:1::1", "2001:db8:1:2::9", "2001:db8:2::1", "fe80::1%eth0", "fe80::2%eth1", "fe80::2%eth0", "::ffff:192.0.2.1", "127.0.0.1"}
	listIPs  = []string{"192.0.2.1", "192.0.2.2", "198.51.100.7", "2001:db8:1::1", "2001:db8:2::1", "fe80::1", "10.1.2.3", "fe80::1%eth0", "fe80::2%eth1"}
	listNets = []string{"192.0.2.0/24", "192.0.2.128/25", "192.0.2.0/31", "0.0.0.0/0", "10.0.0.0/8", "198.51.100.7/32", "2001:db8:1::/48", "2001:db8:1:2::/64", "::/0", "fe80::/10", "2001:db8:2::1/128"}
	cids     = []string{"alice", "bob", "kid-1", "x"}
	hostPats = []string{"blocked.test", "||ads.test^", "*.wild.test", "||x.example^$dnstype=AAAA", "|exact.test^", "sub.blocked.test", "||test2^"}
	qnames   = []string{"blocked.test", "sub.blocked.test", "ads.test", "a.ads.test", "x.wild.test", "wild.test", "x.example", "exact.test", "a.exact.test", "fine.test", "ok.example", "a.test2", "BLOCKED.test", "Ads.TEST"}
	protos   = []string{"udp", "tcp", "tls", "https", "quic", "dnscrypt"}
	qtypes   = []uint16{dns.TypeA, dns.TypeAAAA, dns.TypeTXT}

	// junkEntries can denote neither an address, nor a CIDR, nor a ClientID (a
	// ClientID is one host-name label).
	junkEntries = []string{"10.9.9.0/33", "192.0.2.300", "2001:db8::/129", "not a client", "bad_id!", "a.b", "-x-", ""}
	// rawBodies are request bodies that are no document of three string lists.
	rawBodies = []string{``, `{`, `{"allowed_clients":["192.0.2.1"],"disallowed_clients":[`, `{"allowed_clients":"192.0.2.1","disallowed_clients":[],"blocked_hosts":[]}`, `{"allowed_clients":[],"disallowed_clients":[7],"blocked_hosts":[]}`, `[]`}
	// writeKinds are settings writes that have nothing to do with the access
	// lists (and re-send the values already in force, so that the answers to
	// admitted requests stay what they are); each makes the component fire its
	// "configuration modified" callback.
	writeKinds = []string{"dns_protection", "dns_blocking_mode", "filtering_config"}
)

func genLists(t *rapid.T) Lists {
	var l Lists
	pick := func(label string, max int) []string {
		var out []string
		for i, n := 0, rapid.IntRange(0, max).Draw(t, label+"_n"); i < n; i++ {
			switch rapid.IntRange(0, 2).Draw(t, label+"_kind") {
			case 0:
				out = append(out, rapid.SampledFrom(listIPs).Draw(t, label+"_ip"))
			case 1:
				out = append(out, rapid.SampledFrom(listNets).Draw(t, label+"_net"))
			default:
				out = append(out, rapid.SampledFrom(cids).Draw(t, label+"_cid"))
			}
		}
		return out
	}
	switch rapid.IntRange(0, 3).Draw(t, "list_shape") {
	case 0: // disallow mode only
		l.Disallowed = pick("dis", 4)
	case 1: // allow-list mode, disallowed list present but must be ignored
		l.Allowed = pick("alw", 3)
		l.Disallowed = pick("dis", 3)
	case 2:
		l.Allowed = pick("alw", 4)
	}
	// The API rejects duplicates and intersections; keep the lists valid.
	seen := map[string]bool{}
	uniq := func(in []string) (out []string) {
		for _, s := range in {
			if !seen[s] {
				seen[s] = true
				out = append(out, s)
			}
		}
		return out
	}
	l.Allowed = uniq(l.Allowed)
	l.Disallowed = uniq(l.Disallowed)
	hseen := map[string]bool{}
	for i, n := 0, rapid.IntRange(0, 3).Draw(t, "hosts_n"); i < n; i++ {
		h := rapid.SampledFrom(hostPats).Draw(t, "host_pat")
		if !hseen[h] {
			hseen[h] = true
			l.Hosts = append(l.Hosts, h)
		}
	}
	return l
}

// genBadSet draws an update the API has a reason to reject: valid lists
// spoiled in one of the ways a user can get them wrong.
func genBadSet(t *rapid.T) Op {
	op := Op{Kind: "set", Bad: rapid.SampledFrom([]string{"dup", "intersect", "unparsable", "unparsable", "undecodable"}).Draw(t, "bad_kind")}
	if op.Bad == "undecodable" {
		op.Raw = rapid.SampledFrom(rawBodies).Draw(t, "raw_body")
		return op
	}
	l := genLists(t)
	insert := func(list []string, e string) []string {
		i := rapid.IntRange(0, len(list)).Draw(t, "bad_pos")
		out := append([]string{}, list[:i]...)
		out = append(out, e)
		return append(out, list[i:]...)
	}
	switch op.Bad {
	case "dup":
		var cands []*[]string
		for _, p := range []*[]string{&l.Allowed, &l.Disallowed, &l.Hosts} {
			if len(*p) > 0 {
				cands = append(cands, p)
			}
		}
		if len(cands) == 0 {
			l.Disallowed = []string{rapid.SampledFrom(listIPs).Draw(t, "dup_ip")}
			cands = append(cands, &l.Disallowed)
		}
		p := cands[rapid.IntRange(0, len(cands)-1).Draw(t, "dup_list")]
		*p = insert(*p, (*p)[rapid.IntRange(0, len(*p)-1).Draw(t, "dup_of")])
	case "intersect":
		var e string
		switch {
		case len(l.Allowed) > 0:
			e = l.Allowed[rapid.IntRange(0, len(l.Allowed)-1).Draw(t, "isect_of")]
			l.Disallowed = insert(l.Disallowed, e)
		case len(l.Disallowed) > 0:
			e = l.Disallowed[rapid.IntRange(0, len(l.Disallowed)-1).Draw(t, "isect_of")]
			l.Allowed = insert(l.Allowed, e)
		default:
			e = rapid.SampledFrom(listIPs).Draw(t, "isect_ip")
			l.Allowed, l.Disallowed = []string{e}, []string{e}
		}
	default:
		e := rapid.SampledFrom(junkEntries).Draw(t, "junk")
		if rapid.Bool().Draw(t, "junk_in_allowed") {
			l.Allowed = insert(l.Allowed, e)
		} else {
			l.Disallowed = insert(l.Disallowed, e)
		}
	}
	op.Lists = &l
	return op
}

func flipCase(t *rapid.T, s string) string {
	if rapid.IntRange(0, 2).Draw(t, "flip") != 0 {
		return s
	}
	return strings.ToUpper(s[:1]) + s[1:]
}

// genSet draws an update: lists that are valid by construction or, one time
// in three, lists the API has a reason to reject.
func genSet(t *rapid.T, kind string) Op {
	if rapid.IntRange(0, 2).Draw(t, "bad_set") == 0 {
		op := genBadSet(t)
		op.Kind = kind
		return op
	}
	l := genLists(t)
	return Op{Kind: kind, Lists: &l}
}

// genQuery draws one request.  moreIDs shifts the transports towards those
// that can carry a ClientID.
func genQuery(t *rapid.T, moreIDs bool) Op {
	ps := protos
	if moreIDs {
		ps = append(append([]string{}, protos...), "tls", "https", "quic")
	}
	op := Op{Kind: "query",
		Proto: rapid.SampledFrom(ps).Draw(t, "proto"),
		Addr:  rapid.SampledFrom(srcAddrs).Draw(t, "addr"),
		Name:  rapid.SampledFrom(qnames).Draw(t, "qname"),
		Qtype: rapid.SampledFrom(qtypes).Draw(t, "qtype"),
	}
	if op.Proto == "tls" || op.Proto == "quic" || op.Proto == "https" {
		if rapid.IntRange(0, 2).Draw(t, "has_cid") != 0 {
			op.ClientID = flipCase(t, rapid.SampledFrom(append([]string{"zed"}, cids...)).Draw(t, "cid"))
			op.ViaPath = op.Proto == "https" && rapid.Bool().Draw(t, "via_path")
		}
	}
	if rapid.IntRange(0, 5).Draw(t, "from_reported") == 0 {
		op.FromReported = true
		op.Pick = rapid.IntRange(0, 7).Draw(t, "pick")
	}
	return op
}

// Gen draws a scenario.
func Gen(t *rapid.T, tier string) any {
	sc := &Scenario{Initial: genLists(t)}
	maxOps := 30
	if tier == "thorough" {
		maxOps = 80
	}
	for i, n := 0, rapid.IntRange(4, maxOps).Draw(t, "n_ops"); i < n; i++ {
		switch rapid.IntRange(0, 21).Draw(t, "op_kind") {
		case 0, 1:
			sc.Ops = append(sc.Ops, genSet(t, "set"))
		case 2:
			sc.Ops = append(sc.Ops, Op{Kind: "restart"})
		case 3:
			sc.Ops = append(sc.Ops, Op{Kind: "reconfigure"})
		case 4:
			sc.Ops = append(sc.Ops, Op{Kind: "write", Write: rapid.SampledFrom(writeKinds).Draw(t, "write_kind")})
		case 5, 6:
			op := genSet(t, "par")
			op.Seed = rapid.Uint64().Draw(t, "par_seed")
			op.Pct = rapid.SampledFrom([]int{20, 50, 80}).Draw(t, "par_pct")
			for j, m := 0, rapid.IntRange(1, 4).Draw(t, "par_reqs"); j < m; j++ {
				op.Reqs = append(op.Reqs, genQuery(t, true))
			}
			op.WithList = rapid.IntRange(0, 2).Draw(t, "par_list") == 0
			sc.Ops = append(sc.Ops, op)
		default:
			sc.Ops = append(sc.Ops, genQuery(t, false))
		}
	}
	return sc
}

// ---- decision function written from the statement ----------------------------

type access struct {
	allowedIPs, disIPs   map[netip.Addr]bool
	allowedNets, disNets []netip.Prefix
	allowedIDs, disIDs   map[string]bool
	hosts                *urlfilter.DNSEngine
	store                *filterlist.RuleStorage
	allowMode            bool
}

func newAccess(l Lists) (*access, error) {
	a := &access{allowedIPs: map[netip.Addr]bool{}, disIPs: map[netip.Addr]bool{}, allowedIDs: map[string]bool{}, disIDs: map[string]bool{}}
	add := func(items []string, ips map[netip.Addr]bool, nets *[]netip.Prefix, ids map[string]bool) {
		for _, s := range items {
			if ip, err := netip.ParseAddr(s); err == nil {
				ips[ip] = true
			} else if p, err := netip.ParsePrefix(s); err == nil {
				*nets = append(*nets, p)
			} else {
				ids[s] = true
			}
		}
	}
	add(l.Allowed, a.allowedIPs, &a.allowedNets, a.allowedIDs)
	add(l.Disallowed, a.disIPs, &a.disNets, a.disIDs)
	a.allowMode = len(l.Allowed) > 0
	st, err := filterlist.NewRuleStorage([]filterlist.RuleList{&filterlist.StringRuleList{ID: 1, RulesText: strings.ToLower(strings.Join(l.Hosts, "\n")), IgnoreCosmetic: true}})
	if err != nil {
		return nil, err
	}
	a.store = st
	a.hosts = urlfilter.NewDNSEngine(st)
	return a, nil
}

func (a *access) close() { _ = a.store.Close() }

// decision is the reference verdict; open is set for the two shapes the
// statement does not fix (4-in-6 sources against plain IPv4 entries, zoned
// sources against un-zoned exact-address entries).
type decision struct {
	excluded bool
	open     bool
	why      string
}

func inSet(addr netip.Addr, ips map[netip.Addr]bool, nets []netip.Prefix) (hit, open bool) {
	if ips[addr] {
		return true, false
	}
	plain := addr.WithZone("")
	for _, n := range nets {
		if n.Contains(plain) {
			return true, false
		}
	}
	// Shapes the statement leaves open.
	if addr.Zone() != "" && ips[plain] {
		return false, true
	}
	if addr.Is4In6() {
		u := addr.Unmap()
		if ips[u] {
			return false, true
		}
		for _, n := range nets {
			if n.Contains(u) {
				return false, true
			}
		}
	}
	return false, false
}

// clientExcluded is the verdict on the client alone (address and ClientID).
func (a *access) clientExcluded(addr netip.Addr, clientID string) (excluded, open bool, why string) {
	if a.allowMode {
		hit, open := inSet(addr, a.allowedIPs, a.allowedNets)
		if !hit && !(clientID != "" && a.allowedIDs[clientID]) {
			return true, open, "allow-list mode, neither address nor ClientID allowed"
		}
		return false, false, ""
	}
	hit, open := inSet(addr, a.disIPs, a.disNets)
	if hit || (clientID != "" && a.disIDs[clientID]) {
		return true, false, "address or ClientID disallowed"
	}
	return false, open, ""
}

// nameBlocked is the verdict on the question alone.
func (a *access) nameBlocked(host string, qt uint16) bool {
	_, ok := a.hosts.MatchRequest(&urlfilter.DNSRequest{Hostname: host, DNSType: qt})
	return ok
}

func (a *access) decide(addr netip.Addr, clientID, host string, qt uint16) decision {
	excl, open, why := a.clientExcluded(addr, clientID)
	if excl {
		return decision{excluded: true, open: open, why: why}
	}
	if open {
		return decision{open: true, why: "open shape"}
	}
	if a.nameBlocked(host, qt) {
		return decision{excluded: true, why: "name on the blocked-hosts list"}
	}
	return decision{why: "admitted"}
}

// ---- run ---------------------------------------------------------------------

type runner struct {
	c   *kernel.Ctx
	n   *dnsnode.Node
	dir string
	up  *env.Upstream
	ac  *access
	// accepted are the access settings in force: the initial ones, then the
	// last ones the API accepted.
	accepted Lists
	// disk is the DNS section of the configuration file: the initial one, then
	// whatever the system wrote at its last "configuration modified" callback.
	disk       []byte
	diskWrites int
	diskErr    error
	// setWrites is diskWrites right after the last accepted update (-1: none).
	setWrites int
	// for reach probes
	sinceRestart, sinceRejected bool
	// first decision seen for an "open" input, to assert consistency
	openSeen map[string]bool
	// rep is what the last GET /control/access/list answered.
	rep reported
	// modelHosts is the blocked-hosts list the reference model is built from:
	// the accepted one or, where that is empty, the one the system reports.
	modelHosts []string
	// hold is an access model that must outlive its replacement (the settings
	// before an update that requests overlap).
	hold *access
	// abandon is set after a deadlock: the parked tasks hold the node's locks
	// for ever, so nothing of it may be touched again.
	abandon bool
}

// reported is the answer of GET /control/access/list.
type reported struct {
	A []string `json:"allowed_clients"`
	D []string `json:"disallowed_clients"`
	H []string `json:"blocked_hosts"`
}

func (a reported) same(b reported) bool {
	return sameSet(a.A, b.A) && sameSet(a.D, b.D) && sameSet(a.H, b.H)
}

// isPlainHostName reports whether s is a host name written out (labels of
// letters, digits and hyphens joined by dots) and not a pattern.
func isPlainHostName(s string) bool {
	if s == "" || len(s) > 253 {
		return false
	}
	for _, label := range strings.Split(s, ".") {
		if label == "" || len(label) > 63 {
			return false
		}
		for _, ch := range label {
			if !(ch >= 'a' && ch <= 'z' || ch >= 'A' && ch <= 'Z' || ch >= '0' && ch <= '9' || ch == '-') {
				return false
			}
		}
	}
	return true
}

// setModel replaces the reference model (the previous one is closed unless it
// is held).
func (r *runner) setModel(l Lists) error {
	a, err := newAccess(l)
	if err != nil {
		return err
	}
	if r.ac != nil && r.ac != r.hold {
		r.ac.close()
	}
	r.ac, r.modelHosts = a, l.Hosts
	r.openSeen = map[string]bool{}
	return nil
}

// onConfigModified does what home's onConfigModified -> (*configuration).write
// does on every "configuration modified" callback of any component: it asks
// the components for their current settings again, at this very moment, and
// writes the result out (the file write itself is C14's subject; the text is
// kept in memory).
func (r *runner) onConfigModified() {
	n := r.n
	if n == nil || n.Server == nil {
		return
	}
	n.Filter.WriteDiskConfig(&filtering.Config{})
	dc := dnsforward.Config{}
	n.Server.WriteDiskConfig(&dc)
	b, err := yaml.Marshal(&dc)
	if err != nil {
		r.diskErr = fmt.Errorf("harness: encoding the configuration: %w", err)
		return
	}
	r.disk = b
	r.diskWrites++
}

// start builds a node from the configuration text in r.disk.
func (r *runner) start() error {
	dc := dnsforward.Config{}
	if err := yaml.Unmarshal(r.disk, &dc); err != nil {
		return fmt.Errorf("harness: decoding the configuration: %w\n%s", err, r.disk)
	}
	cfg := &dnsnode.Config{Dir: r.dir, ListServer: env.NewListServer(), Upstream: r.up, UpTimeout: 2 * time.Second, ServerName: serverName, OnModified: r.onConfigModified}
	cfg.Filtering = filtering.Config{BlockingMode: filtering.BlockingModeDefault, ProtectionEnabled: true, FilteringEnabled: true, FiltersUpdateIntervalHours: 24}
	cfg.DNS = dc
	r.n = nil
	n, err := dnsnode.New(cfg)
	if err != nil {
		return err
	}
	r.n = n
	kernel.Wait()
	return nil
}

func (r *runner) stop() {
	if r.abandon {
		return
	}
	if r.n != nil {
		r.n.Close()
		r.n = nil
		kernel.Wait()
	}
}

func sameSet(a, b []string) bool {
	a, b = append([]string{}, a...), append([]string{}, b...)
	sort.Strings(a)
	sort.Strings(b)
	return fmt.Sprint(a) == fmt.Sprint(b) && len(a) == len(b)
}

// getReported reads GET /control/access/list.
func (r *runner) getReported() (got reported, err error) {
	code, body, err := r.n.Mux.Do("GET", "/control/access/list", nil)
	if err != nil {
		if hp, ok := err.(*env.HandlerPanic); ok {
			return got, kernel.Violationf("api-panic", "%v", hp)
		}
		return got, err
	}
	if code != http.StatusOK || json.Unmarshal(body, &got) != nil {
		return got, fmt.Errorf("harness: access/list -> %d %s", code, body)
	}
	return got, nil
}

// checkReported compares what GET /control/access/list reports with the
// settings in force.  An empty blocked-hosts list may stand for built-in
// defaults, which the statement does not fix: the reported hosts are compared
// only when the accepted list is non-empty.  When it is empty, whatever the
// system reports is the blocked-hosts list as far as anybody can tell, and the
// reference model is built from it: what is reported as blocked must be
// enforced.
func (r *runner) checkReported(class, what string) error {
	got, err := r.getReported()
	if err != nil {
		return err
	}
	r.rep = got
	hostsOK := sameSet(got.H, r.accepted.Hosts)
	if len(r.accepted.Hosts) == 0 {
		hostsOK = true
		if len(got.H) != 0 {
			r.c.Probe("default_blocked_hosts_reported")
		}
	}
	ok := sameSet(got.A, r.accepted.Allowed) && sameSet(got.D, r.accepted.Disallowed) && hostsOK
	r.c.Eventf("list %s -> allowed=%v disallowed=%v hosts=%v ok=%v", what, got.A, got.D, got.H, ok)
	if !ok {
		return kernel.Violationf(class, "%s the access settings in force are allowed=%v disallowed=%v blocked_hosts=%v, but GET /control/access/list reports allowed=%v disallowed=%v blocked_hosts=%v",
			what, r.accepted.Allowed, r.accepted.Disallowed, r.accepted.Hosts, got.A, got.D, got.H)
	}
	if len(r.accepted.Hosts) == 0 && !sameSet(got.H, r.modelHosts) {
		l := r.accepted
		l.Hosts = append([]string{}, got.H...)
		return r.setModel(l)
	}
	return nil
}

// request is one generated request made concrete.
type request struct {
	op   Op
	q    *dnsnode.Query
	addr netip.Addr
	cid  string // the ClientID as the server must understand it
	name string // the name asked
	host string // lower-case, no trailing dot
	desc string
}

// observed is what one request did.
type observed struct {
	rep           *dnsnode.Reply
	up, log, stat int
}

// build makes the request of op concrete.  A request "from reported" asks for
// one of the names the system itself listed as blocked in its last answer to
// GET /control/access/list.
func (r *runner) build(op Op) *request {
	rq := &request{op: op, addr: netip.MustParseAddr(op.Addr), cid: strings.ToLower(op.ClientID), name: op.Name}
	if op.FromReported {
		var plain []string
		for _, h := range r.rep.H {
			if isPlainHostName(h) {
				plain = append(plain, h)
			}
		}
		if len(plain) > 0 {
			rq.name = plain[op.Pick%len(plain)]
			r.c.Probe("reported_name_request")
			if len(r.accepted.Hosts) == 0 {
				r.c.Probe("reported_default_name_request")
			}
		}
	}
	q := &dnsnode.Query{Proto: op.Proto, Addr: netip.AddrPortFrom(rq.addr, 40000), Name: rq.name, Qtype: op.Qtype}
	switch op.Proto {
	case "tls", "quic":
		q.SNI = serverName
		if op.ClientID != "" {
			q.SNI = op.ClientID + "." + serverName
		}
	case "https":
		q.SNI, q.Host = serverName, serverName
		if op.ClientID != "" {
			if op.ViaPath {
				q.Path = "/dns-query/" + op.ClientID
			} else {
				q.SNI = op.ClientID + "." + serverName
			}
		}
	}
	rq.q = q
	rq.host = strings.ToLower(strings.TrimSuffix(rq.name, "."))
	rq.desc = fmt.Sprintf("%s from %s cid=%q for %s %s", op.Proto, op.Addr, rq.cid, rq.name, dns.Type(op.Qtype))
	return rq
}

func rcodeOf(rep *dnsnode.Reply) string {
	if rep.Msg != nil {
		return dns.RcodeToString[rep.Msg.Rcode]
	}
	return "none"
}

// refused reports whether the client saw the answer an excluded request gets.
func refused(proto string, rep *dnsnode.Reply) bool {
	switch proto {
	case "udp", "dnscrypt":
		return rep.Dropped
	default:
		return rep.Msg != nil && rep.Msg.Rcode == dns.RcodeRefused
	}
}

func (r *runner) query(op Op) error {
	rq := r.build(op)
	d := r.ac.decide(rq.addr, rq.cid, rq.host, op.Qtype)
	logN, statN, upN := r.n.QLog.Len(), r.n.Stats.Len(), r.n.Up.Len()
	rep := r.n.Do(rq.q)
	kernel.Wait()
	if rep.WireErr != nil {
		return kernel.Violationf("malformed-reply", "%v", rep.WireErr)
	}
	o := observed{rep: rep, up: r.n.Up.Len() - upN, log: r.n.QLog.Len() - logN, stat: r.n.Stats.Len() - statN}
	r.c.Eventf("query %s %s cid=%q %s %s -> %s writes=%d up=%d log=%d stat=%d | model excluded=%v open=%v", op.Proto, op.Addr, rq.cid, rq.name, dns.Type(op.Qtype), rcodeOf(rep), rep.Writes, o.up, o.log, o.stat, d.excluded, d.open)
	if d.open {
		// Only: a decision, and the same decision for the same input.
		refusedObserved := refused(op.Proto, rep)
		r.c.Probe("open_shape")
		key := fmt.Sprintf("%s|%s|%s|%d", op.Addr, rq.cid, rq.host, op.Qtype)
		if prev, ok := r.openSeen[key]; ok && prev != refusedObserved {
			return kernel.Violationf("inconsistent-decision", "%s: served once and refused once under the same lists", rq.desc)
		}
		r.openSeen[key] = refusedObserved
		d.excluded = refusedObserved
	}
	return r.judge(rq, d, o)
}

// judge holds what one request did against the verdict d it is under.
func (r *runner) judge(rq *request, d decision, o observed) error {
	op, rep, desc, rc := rq.op, o.rep, rq.desc, rcodeOf(o.rep)
	if d.excluded {
		r.c.Probe("excluded_request")
		if r.sinceRestart {
			r.c.Probe("excluded_after_restart")
		}
		if r.sinceRejected {
			r.c.Probe("excluded_after_rejected_update")
		}
		r.c.Probe("excluded_" + op.Proto)
		if d.why == "name on the blocked-hosts list" {
			r.c.Probe("excluded_by_name")
			if len(r.accepted.Hosts) == 0 {
				r.c.Probe("excluded_by_reported_default_name")
			}
		}
		switch op.Proto {
		case "udp", "dnscrypt":
			if !rep.Dropped {
				return kernel.Violationf("excluded-got-reply", "%s is excluded (%s): over %s there must be no reply at all, got %s", desc, d.why, op.Proto, rc)
			}
		default:
			if rep.Msg == nil || rep.Writes != 1 || rep.Msg.Rcode != dns.RcodeRefused || len(rep.Msg.Answer) != 0 {
				return kernel.Violationf("excluded-not-refused", "%s is excluded (%s): want exactly one REFUSED reply, got %s (writes=%d http=%d)", desc, d.why, rc, rep.Writes, rep.HTTPStatus)
			}
		}
		if o.up != 0 {
			return kernel.Violationf("excluded-resolved", "%s is excluded (%s) but %d question(s) went upstream", desc, d.why, o.up)
		}
		if o.log != 0 {
			return kernel.Violationf("excluded-logged", "%s is excluded (%s) but was written to the query log", desc, d.why)
		}
		if o.stat != 0 {
			return kernel.Violationf("excluded-counted", "%s is excluded (%s) but was counted in statistics", desc, d.why)
		}
		return nil
	}
	r.c.Probe("served_request")
	if r.sinceRestart {
		r.c.Probe("served_after_restart")
	}
	if r.sinceRejected {
		r.c.Probe("served_after_rejected_update")
	}
	if rq.cid != "" {
		r.c.Probe("served_with_clientid")
	}
	if rep.Msg == nil || rep.Msg.Rcode != dns.RcodeSuccess {
		return kernel.Violationf("admitted-not-served", "%s must be served (%s; allow-mode=%v) but got %s (writes=%d http=%d err=%v)", desc, d.why, r.ac.allowMode, rc, rep.Writes, rep.HTTPStatus, rep.Err)
	}
	if o.up < 1 || o.log != 1 || o.stat != 1 {
		return kernel.Violationf("admitted-not-processed", "%s served but up=%d log=%d stat=%d (want >=1, 1, 1)", desc, o.up, o.log, o.stat)
	}
	return nil
}

func listsBody(l Lists) []byte {
	orEmpty := func(s []string) []string {
		if s == nil {
			return []string{}
		}
		return s
	}
	b, _ := json.Marshal(map[string]any{"allowed_clients": orEmpty(l.Allowed), "disallowed_clients": orEmpty(l.Disallowed), "blocked_hosts": orEmpty(l.Hosts)})
	return b
}

// set sends one update.  The API's answer decides: 200 makes the lists of the
// request the settings in force, a 4xx answer leaves the previous ones in
// force.  Lists that are valid by construction must be accepted; for the
// spoiled ones either answer is taken (the statement does not say which
// documents are acceptable), an undecodable document cannot be accepted.
func (r *runner) set(op Op) error {
	b := setBody(op)
	code, resp, err := r.n.Mux.Do("POST", "/control/access/set", b)
	if err != nil {
		if hp, ok := err.(*env.HandlerPanic); ok {
			return kernel.Violationf("api-panic", "%v", hp)
		}
		return err
	}
	kernel.Wait()
	return r.afterSet(op, b, code, resp)
}

func setBody(op Op) []byte {
	if op.Lists != nil {
		return listsBody(*op.Lists)
	}
	return []byte(op.Raw)
}

// afterSet takes the API's answer to the update op (sent as b) into the
// reference model and compares the reported lists.
func (r *runner) afterSet(op Op, b []byte, code int, resp []byte) (err error) {
	if r.diskErr != nil {
		return r.diskErr
	}
	r.c.Eventf("set bad=%q %s -> %d", op.Bad, b, code)
	switch {
	case code == http.StatusOK && op.Lists == nil:
		return kernel.Violationf("undecodable-update-accepted", "POST /control/access/set with body %q, which is no document of three string lists, was answered 200", b)
	case code == http.StatusOK:
		l := *op.Lists
		if err = r.setModel(l); err != nil {
			return err
		}
		r.accepted = l
		r.setWrites = r.diskWrites
		r.sinceRejected = false
		r.c.Fault("live_access_update")
		if op.Bad != "" {
			r.c.Probe("invalid_update_accepted")
		}
		return r.checkReported("accepted-update-not-reported", fmt.Sprintf("after the accepted update %s", b))
	case code >= 400 && code <= 499 && op.Bad != "":
		r.sinceRejected = true
		r.c.Fault("rejected_access_update")
		r.c.Probe("invalid_" + op.Bad + "_rejected")
		return r.checkReported("rejected-update-visible", fmt.Sprintf("after the rejected (%d) update %s", code, b))
	}
	return fmt.Errorf("harness: access/set %s -> %d %s", b, code, resp)
}

// par runs the update of op, its requests and possibly a read of the lists as
// concurrent tasks, one at a time, interleaved at lock operations by the
// seeded scheduler.  The requests have been received when the phase starts.
// The settings in force afterwards are decided by the API's answer as for a
// plain update.  Each request must have been judged by the settings before
// the update or by those after it: if both exclude it it must have been
// excluded, if both admit it it must have been served, and whichever way it
// went, the effects must be those of an excluded or a served request.  The
// read must show what a read before or after the update shows.
func (r *runner) par(op Op) error {
	old, oldRep := r.ac, r.rep
	r.hold = old
	defer func() {
		r.hold = nil
		if old != r.ac {
			old.close()
		}
	}()
	type flight struct {
		rq  *request
		p   *dnsnode.Prepared
		rep *dnsnode.Reply
	}
	var fl []*flight
	for _, qop := range op.Reqs {
		rq := r.build(qop)
		p, err := r.n.Prepare(rq.q)
		if err != nil {
			return err
		}
		fl = append(fl, &flight{rq: rq, p: p})
	}
	b := setBody(op)
	var (
		code    int
		resp    []byte
		setErr  error
		during  reported
		listErr error
	)
	names := []string{"access/set"}
	fns := []func(){func() { code, resp, setErr = r.n.Mux.Do("POST", "/control/access/set", b) }}
	for _, f := range fl {
		names = append(names, "request")
		fns = append(fns, func() { f.rep = r.n.Handle(f.p) })
	}
	if op.WithList {
		names = append(names, "access/list")
		fns = append(fns, func() { during, listErr = r.getReported() })
	}
	logN, statN, upN := r.n.QLog.Len(), r.n.Stats.Len(), r.n.Up.Len()
	lat := r.up.Latency
	r.up.Latency, r.up.OnExchange = 0, func() { sched.Yield() }
	res := sched.Run(op.Seed, op.Pct, names, fns)
	r.up.Latency, r.up.OnExchange = lat, nil
	r.c.Probes["sched_steps"] += res.Steps
	r.c.Probes["sched_switches"] += res.Switches
	if res.Deadlock != "" {
		r.abandon = true
		return kernel.Violationf("deadlock: "+res.Deadlock, "an access-list update concurrent with %d request(s), schedule seed %d: every task waits for a lock:\n%s", len(fl), op.Seed, res.Detail)
	}
	kernel.Wait()
	r.c.Fault("update_with_requests_in_flight")
	for _, err := range []error{setErr, listErr} {
		if hp, ok := err.(*env.HandlerPanic); ok {
			return kernel.Violationf("api-panic", "%v", hp)
		} else if err != nil {
			return err
		}
	}
	// The settings in force from now on.
	if err := r.afterSet(op, b, code, resp); err != nil {
		return err
	}
	if op.WithList {
		r.c.Probe("list_read_during_update")
		r.c.Eventf("par list -> allowed=%v disallowed=%v hosts=%v", during.A, during.D, during.H)
		if !during.same(oldRep) && !during.same(r.rep) {
			return kernel.Violationf("overlap-list-mixed", "GET /control/access/list concurrent with the update %s reports allowed=%v disallowed=%v blocked_hosts=%v, which is neither what it reported before (allowed=%v disallowed=%v blocked_hosts=%v) nor after (allowed=%v disallowed=%v blocked_hosts=%v)",
				b, during.A, during.D, during.H, oldRep.A, oldRep.D, oldRep.H, r.rep.A, r.rep.D, r.rep.H)
		}
	}
	// What the requests did, by name asked.
	type group struct{ up, log, stat, served int }
	groups := map[string]*group{}
	for _, f := range fl {
		if f.rep.WireErr != nil {
			return kernel.Violationf("malformed-reply", "%v", f.rep.WireErr)
		}
		g := groups[f.rq.host]
		if g == nil {
			g = &group{}
			groups[f.rq.host] = g
		}
		if !refused(f.rq.op.Proto, f.rep) {
			g.served++
		}
	}
	norm := func(s string) string { return strings.ToLower(strings.TrimSuffix(s, ".")) }
	for _, e := range r.n.Up.Since(upN) {
		if g := groups[norm(e.Name)]; g != nil {
			g.up++
		} else {
			return kernel.Violationf("overlap-stray-effect", "a question for %s went upstream that no request of the phase asked", e.Name)
		}
	}
	for _, e := range r.n.QLog.Entries[logN:] {
		if g := groups[norm(e.Name)]; g != nil {
			g.log++
		} else {
			return kernel.Violationf("overlap-stray-effect", "the query log got a record for %s that no request of the phase asked", e.Name)
		}
	}
	for _, e := range r.n.Stats.Updates[statN:] {
		if g := groups[norm(e.Domain)]; g != nil {
			g.stat++
		} else {
			return kernel.Violationf("overlap-stray-effect", "statistics counted %s that no request of the phase asked", e.Domain)
		}
	}
	for i, f := range fl {
		rq, g := f.rq, groups[f.rq.host]
		dOld := old.decide(rq.addr, rq.cid, rq.host, rq.op.Qtype)
		dNew := r.ac.decide(rq.addr, rq.cid, rq.host, rq.op.Qtype)
		wasRefused := refused(rq.op.Proto, f.rep)
		r.c.Eventf("par[%d] %s %s cid=%q %s %s -> %s writes=%d | model old excluded=%v open=%v, new excluded=%v open=%v", i, rq.op.Proto, rq.op.Addr, rq.cid, rq.name, dns.Type(rq.op.Qtype), rcodeOf(f.rep), f.rep.Writes, dOld.excluded, dOld.open, dNew.excluded, dNew.open)
		// The effects of the requests that asked this name: those of the served
		// ones and nothing else.
		o := observed{rep: f.rep}
		switch {
		case g.served == 0:
			// Nobody was served: anything that happened is charged to each.
			o.up, o.log, o.stat = g.up, g.log, g.stat
		case g.log != g.served || g.stat != g.served || g.up < g.served:
			return kernel.Violationf("overlap-effects-mismatch", "of the concurrent requests for %s, %d were served, but %d question(s) went upstream, %d record(s) were written to the query log and %d counted in statistics", rq.host, g.served, g.up, g.log, g.stat)
		case !wasRefused:
			o.up, o.log, o.stat = 1, 1, 1
		}
		if dOld.excluded != dNew.excluded || dOld.open || dNew.open {
			r.c.Probe("overlap_verdict_changes")
		}
		var d decision
		switch {
		case dOld.open || dNew.open:
			// One of the two settings leaves it open: any decision.
			r.c.Probe("open_shape")
			d = decision{excluded: wasRefused, why: "open shape"}
			if wasRefused && dOld.excluded && !dOld.open {
				d.why = dOld.why
			} else if wasRefused && dNew.excluded && !dNew.open {
				d.why = dNew.why
			}
		case dOld.excluded == wasRefused:
			d = dOld
			if dNew.excluded != wasRefused {
				r.c.Probe("overlap_judged_by_old")
			}
		case dNew.excluded == wasRefused:
			d = dNew
			r.c.Probe("overlap_judged_by_new")
		case wasRefused:
			return kernel.Violationf("overlap-admitted-by-both-refused", "%s, concurrent with the update %s, is admitted by the settings before it and by the settings after it, but got %s (writes=%d http=%d)", rq.desc, b, rcodeOf(f.rep), f.rep.Writes, f.rep.HTTPStatus)
		default:
			// Served although both settings exclude it.  Tell the shapes apart.
			cOld, _, _ := old.clientExcluded(rq.addr, rq.cid)
			cNew, _, _ := r.ac.clientExcluded(rq.addr, rq.cid)
			nOld, nNew := old.nameBlocked(rq.host, rq.op.Qtype), r.ac.nameBlocked(rq.host, rq.op.Qtype)
			class := "overlap-excluded-by-both-served"
			switch {
			case cOld && cNew:
				class = "overlap-client-excluded-by-both-served"
			case !cOld && nOld && cNew && !nNew:
				class = "overlap-client-by-old-name-by-new-served"
			}
			v := kernel.Violationf(class, "%s, concurrent with the update %s, is excluded by the settings before it (%s) and by the settings after it (%s), but was answered %s: judged by a mixture of the two", rq.desc, b, dOld.why, dNew.why, rcodeOf(f.rep))
			if !r.c.Tolerate(v) {
				return v
			}
			continue
		}
		if err := r.judge(rq, d, o); err != nil {
			return err
		}
	}
	return nil
}

// restart ends the process and starts a new one from the configuration the
// system wrote last.
func (r *runner) restart() error {
	if r.setWrites >= 0 && r.setWrites == r.diskWrites {
		r.c.Probe("restart_right_after_update")
	}
	if r.sinceRejected {
		r.c.Probe("restart_after_rejected_update")
	}
	r.stop()
	r.c.Eventf("restart writes=%d", r.diskWrites)
	if err := r.start(); err != nil {
		return kernel.Violationf("restart-failed", "the node does not start from the configuration it wrote itself: %v\n%s", err, r.disk)
	}
	r.sinceRestart = true
	r.c.Fault("restart_from_written_config")
	return r.checkReported("restart-changed-settings", "after a restart from the written configuration")
}

// reconfigure rebuilds the running server from its own current configuration,
// as saving DNS settings that need a restart of the server does.
func (r *runner) reconfigure() error {
	if r.sinceRejected {
		r.c.Probe("reconfigure_after_rejected_update")
	}
	err := r.n.ReconfigureNoListen()
	kernel.Wait()
	r.c.SimTime += 100 * time.Millisecond
	r.c.Eventf("reconfigure -> err=%v", err != nil)
	if err != nil {
		return kernel.Violationf("reconfigure-failed", "reconfiguring the server with its own current settings fails and leaves it stopped: %v", err)
	}
	r.c.Fault("reconfigure")
	return r.checkReported("reconfigure-changed-settings", "after a reconfiguration")
}

// write saves settings that are not the access lists.
func (r *runner) write(kind string) error {
	path, body := "/control/dns_config", `{"protection_enabled":true}`
	switch kind {
	case "dns_protection":
	case "dns_blocking_mode":
		body = `{"blocking_mode":"default"}`
	case "filtering_config":
		path, body = "/control/filtering/config", `{"enabled":true,"interval":24}`
	default:
		return fmt.Errorf("harness: unknown write %q", kind)
	}
	before := r.diskWrites
	code, resp, err := r.n.Mux.Do("POST", path, []byte(body))
	if err != nil {
		if hp, ok := err.(*env.HandlerPanic); ok {
			return kernel.Violationf("api-panic", "%v", hp)
		}
		return err
	}
	kernel.Wait()
	if r.diskErr != nil {
		return r.diskErr
	}
	if code != http.StatusOK {
		return fmt.Errorf("harness: %s %s -> %d %s", path, body, code, resp)
	}
	r.c.Eventf("write %s -> %d, %d configuration write(s)", kind, code, r.diskWrites-before)
	if r.diskWrites > before {
		r.c.Fault("unrelated_config_write")
		if r.sinceRejected {
			r.c.Probe("write_after_rejected_update")
		}
	}
	return r.checkReported("reported-settings-mismatch", "after an unrelated settings write")
}

// Run executes one scenario.
func Run(t *testing.T, scAny any, c *kernel.Ctx) error {
	sc := scAny.(*Scenario)
	dnsnode.InitProcess()
	sched.Init()
	dir, err := kernel.TempDir("c03")
	if err != nil {
		return err
	}
	defer os.RemoveAll(dir)
	return kernel.Bubble(t, func() error {
		up := &env.Upstream{Addr: "sim-upstream:53", Answer: env.DefaultAnswer, Latency: 2 * time.Millisecond}
		r := &runner{c: c, dir: dir, up: up, accepted: sc.Initial, setWrites: -1, openSeen: map[string]bool{}}
		// The configuration file the first process starts from.
		var err error
		r.disk, err = yaml.Marshal(&dnsforward.Config{AllowedClients: sc.Initial.Allowed, DisallowedClients: sc.Initial.Disallowed, BlockedHosts: sc.Initial.Hosts})
		if err != nil {
			return fmt.Errorf("harness: encoding the initial configuration: %w", err)
		}
		if len(sc.Initial.Hosts) == 0 {
			// An empty list in the configuration may stand for built-in defaults:
			// whatever the system then reports is taken as the list in force.
			c.Probe("default_blocked_hosts")
		}
		if err = r.start(); err != nil {
			return err
		}
		defer func() { r.stop() }()
		if err = r.setModel(sc.Initial); err != nil {
			return err
		}
		defer func() { r.ac.close() }()
		if err = r.checkReported("initial-settings-not-reported", "after the first start"); err != nil {
			return err
		}
		for i, op := range sc.Ops {
			var err error
			switch op.Kind {
			case "set":
				if op.Lists == nil && op.Bad == "" {
					return fmt.Errorf("harness: set without lists")
				}
				err = r.set(op)
			case "restart":
				err = r.restart()
			case "reconfigure":
				err = r.reconfigure()
			case "write":
				err = r.write(op.Write)
			case "query":
				err = r.query(op)
			case "par":
				if op.Lists == nil && op.Bad == "" {
					return fmt.Errorf("harness: par without lists")
				}
				err = r.par(op)
			default:
				err = fmt.Errorf("harness: unknown op %q", op.Kind)
			}
			if err != nil {
				if v, ok := err.(*kernel.Violation); ok {
					v.Msg = fmt.Sprintf("op %d: %s", i, v.Msg)
				}
				return err
			}
			c.Step()
		}
		return nil
	})
}

// Prop is the registration.
var Prop = &kernel.Property{
	ID:    "C03",
	Level: "exploration",
	Rule: "seeded histories (rapid): allowed / disallowed lists mixing IPv4/IPv6 addresses, overlapping CIDRs (/0 .. /128) and ClientIDs, blocked-host patterns; set at start and replaced live through POST /control/access/set; updates the API may reject (duplicates, intersecting lists, entries that are no address / CIDR / ClientID, undecodable documents: the answer decides which lists are in force), unrelated settings writes, in-place reconfigurations and restarts from the configuration text the system itself wrote at its last configuration-modified callback, all mixed with the requests; after each of them GET /control/access/list is compared with the lists in force; requests over udp/tcp/tls/https/quic/dnscrypt from 11 source addresses (incl. zoned IPv6 and 4-in-6) with ClientIDs given by SNI label or DoH path in any letter case, for names of a small alphabet or taken at run time from the blocked-hosts list the system reports (which is the list in force where the configured one is empty); op 'par': one update (valid or spoiled), 1-4 received requests and optionally a read of the lists run as concurrent tasks under the seeded cooperative scheduler (switches at lock operations of the instrumented tree): every overlapped request judged by the settings before or after the update, never by a mixture, the overlapped read equal to a read before or after; " +
		"non-trivial = at least one excluded and one served request were executed in the case; distinct = distinct scenario digests",
	Gen: Gen,
	New: func() any { return &Scenario{} },
	Run: Run,
	NonTrivial: func(_ any, c *kernel.Ctx) bool {
		return c.Probes["excluded_request"] > 0 && c.Probes["served_request"] > 0
	},
	Real:        []string{"internal/dnsforward (HandleBefore, accessManager, ClientID extraction, access/set and access/list handlers, WriteDiskConfig, Prepare / reconfiguration, pipeline, query-log/statistics glue)", "dnsproxy request path (handleBefore, respond*)", "internal/filtering", "internal/client.Storage"},
	Stub:        []string{"upstream resolver (exchange log)", "client sockets of all six transports (fake conns / writers; UDP judged by the response message)", "query log and statistics (recorders)", "listeners / TLS handshakes (server name placed in the fake connection state)", "configuration file (YAML of the WriteDiskConfig snapshot taken inside every configuration-modified callback, as home's config.write takes it; a restart loads that text)", "Server.Reconfigure (VerifReconfigureNoListen: the same steps without opening listeners)", "goroutine scheduling during op par (cooperative scheduler at the lock operations of an instrumented copy of the tree; the clock stands still, the upstream answers at once)"},
	Assumptions: []string{"blocked-host patterns are matched by urlfilter (trusted) against the lower-cased name", "4-in-6 sources against plain IPv4 entries and zoned IPv6 sources against un-zoned exact entries are not fixed by the statement: only 'a decision, and the same one for the same input' is asserted", "ClientIDs in the lists are lower-case (the extractor lower-cases the client's spelling)"},
	FaultKinds:  []string{"live_access_update", "rejected_access_update", "restart_from_written_config", "reconfigure", "unrelated_config_write", "update_with_requests_in_flight"},
	ProbeNames:  []string{"excluded_request", "served_request", "served_with_clientid", "excluded_by_name", "open_shape", "excluded_udp", "excluded_tcp", "excluded_tls", "excluded_https", "excluded_quic", "excluded_dnscrypt", "default_blocked_hosts",
		"default_blocked_hosts_reported", "invalid_dup_rejected", "invalid_intersect_rejected", "invalid_unparsable_rejected", "invalid_undecodable_rejected",
		"restart_right_after_update", "restart_after_rejected_update", "reconfigure_after_rejected_update", "write_after_rejected_update",
		"served_after_restart", "excluded_after_restart", "served_after_rejected_update", "excluded_after_rejected_update",
		"reported_name_request", "reported_default_name_request", "excluded_by_reported_default_name", "list_read_during_update", "overlap_verdict_changes", "overlap_judged_by_old", "overlap_judged_by_new", "sched_steps", "sched_switches"},
}
