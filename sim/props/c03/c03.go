// Package c03 decides property C03 (access lists: excluded clients and blocked
// names are never resolved, filtered, logged or counted — no reply over UDP and
// DNSCrypt, REFUSED elsewhere; allow-list mode vs disallow mode as stated; all
// other requests served) by deterministic simulation on engine E1: seeded
// access lists (set at start and replaced live through the real handler),
// requests of all six transports from many source addresses and ClientIDs, a
// decision function written from the statement, and the node's observable
// effects (client socket, upstream exchange log, query-log and statistics
// recorders).
//
// The access settings in force are the last ones the API accepted.  Besides
// accepted replacements the history therefore contains updates the API may
// reject (duplicates, intersecting lists, entries that are no address, CIDR or
// ClientID, undecodable documents), unrelated settings writes, in-place
// reconfigurations (what saving the DNS settings does) and process restarts.
// Every "configuration modified" callback does what home's
// (*configuration).write does — it asks the components for their settings
// again and writes them out as YAML — and a restart builds the new node from
// the text the system itself wrote last, never from the harness's model.
package c03

import (
	"encoding/json"
	"fmt"
	"net/http"
	"net/netip"
	"os"
	"sort"
	"strings"
	"testing"
	"time"

	"github.com/AdguardTeam/AdGuardHome/internal/dnsforward"
	"github.com/AdguardTeam/AdGuardHome/internal/filtering"
	"github.com/AdguardTeam/AdGuardHome/verifsim/dnsnode"
	"github.com/AdguardTeam/AdGuardHome/verifsim/env"
	"github.com/AdguardTeam/AdGuardHome/verifsim/kernel"
	"github.com/AdguardTeam/urlfilter"
	"github.com/AdguardTeam/urlfilter/filterlist"
	"github.com/miekg/dns"
	"gopkg.in/yaml.v3"
	"pgregory.net/rapid"
)

// Lists is one access configuration.
type Lists struct {
	Allowed    []string `json:"allowed"`
	Disallowed []string `json:"disallowed"`
	Hosts      []string `json:"blocked_hosts"`
}

// Op is one generated operation.
type Op struct {
	Kind     string `json:"k"` // query | set | restart | reconfigure | write
	Proto    string `json:"proto,omitempty"`
	Addr     string `json:"addr,omitempty"`
	ClientID string `json:"cid,omitempty"` // as the client spells it (any case)
	ViaPath  bool   `json:"via_path,omitempty"`
	Name     string `json:"name,omitempty"`
	Qtype    uint16 `json:"qt,omitempty"`
	Lists    *Lists `json:"lists,omitempty"`
	// Bad names how the generator spoiled the lists of a set ("" = valid by
	// construction): dup | intersect | unparsable | undecodable.
	Bad string `json:"bad,omitempty"`
	// Raw is the request body of an undecodable set.
	Raw string `json:"raw,omitempty"`
	// Write is the settings endpoint of an unrelated write.
	Write string `json:"write,omitempty"`
}

// Scenario is one case.
type Scenario struct {
	Initial Lists `json:"initial"`
	Ops     []Op  `json:"ops"`
}

const serverName = "dns.example"

var (
	srcAddrs = []string{"192.0.2.1", "192.0.2.2", "192.0.2.130", "198.51.100.7", "10.1.2.3", "2001:db8:1::1", "2001:db8:1:2::9", "2001:db8:2::1", "fe80::1%eth0", "fe80::2%eth1", "fe80::2%eth0", "::ffff:192.0.2.1", "127.0.0.1"}
	listIPs  = []string{"192.0.2.1", "192.0.2.2", "198.51.100.7", "2001:db8:1::1", "2001:db8:2::1", "fe80::1", "10.1.2.3", "fe80::1%eth0", "fe80::2%eth1"}
	listNets = []string{"192.0.2.0/24", "192.0.2.128/25", "192.0.2.0/31", "0.0.0.0/0", "10.0.0.0/8", "198.51.100.7/32", "2001:db8:1::/48", "2001:db8:1:2::/64", "::/0", "fe80::/10", "2001:db8:2::1/128"}
	cids     = []string{"alice", "bob", "kid-1", "x"}
	hostPats = []string{"blocked.test", "||ads.test^", "*.wild.test", "||x.example^$dnstype=AAAA", "|exact.test^", "sub.blocked.test", "||test2^"}
	qnames   = []string{"blocked.test", "sub.blocked.test", "ads.test", "a.ads.test", "x.wild.test", "wild.test", "x.example", "exact.test", "a.exact.test", "fine.test", "ok.example", "a.test2", "BLOCKED.test", "Ads.TEST"}
	protos   = []string{"udp", "tcp", "tls", "https", "quic", "dnscrypt"}
	qtypes   = []uint16{dns.TypeA, dns.TypeAAAA, dns.TypeTXT}

	// junkEntries can denote neither an address, nor a CIDR, nor a ClientID (a
	// ClientID is one host-name label).
	junkEntries = []string{"10.9.9.0/33", "192.0.2.300", "2001:db8::/129", "not a client", "bad_id!", "a.b", "-x-", ""}
	// rawBodies are request bodies that are no document of three string lists.
	rawBodies = []string{``, `{`, `{"allowed_clients":["192.0.2.1"],"disallowed_clients":[`, `{"allowed_clients":"192.0.2.1","disallowed_clients":[],"blocked_hosts":[]}`, `{"allowed_clients":[],"disallowed_clients":[7],"blocked_hosts":[]}`, `[]`}
	// writeKinds are settings writes that have nothing to do with the access
	// lists (and re-send the values already in force, so that the answers to
	// admitted requests stay what they are); each makes the component fire its
	// "configuration modified" callback.
	writeKinds = []string{"dns_protection", "dns_blocking_mode", "filtering_config"}
)

func genLists(t *rapid.T) Lists {
	var l Lists
	pick := func(label string, max int) []string {
		var out []string
		for i, n := 0, rapid.IntRange(0, max).Draw(t, label+"_n"); i < n; i++ {
			switch rapid.IntRange(0, 2).Draw(t, label+"_kind") {
			case 0:
				out = append(out, rapid.SampledFrom(listIPs).Draw(t, label+"_ip"))
			case 1:
				out = append(out, rapid.SampledFrom(listNets).Draw(t, label+"_net"))
			default:
				out = append(out, rapid.SampledFrom(cids).Draw(t, label+"_cid"))
			}
		}
		return out
	}
	switch rapid.IntRange(0, 3).Draw(t, "list_shape") {
	case 0: // disallow mode only
		l.Disallowed = pick("dis", 4)
	case 1: // allow-list mode, disallowed list present but must be ignored
		l.Allowed = pick("alw", 3)
		l.Disallowed = pick("dis", 3)
	case 2:
		l.Allowed = pick("alw", 4)
	}
	// The API rejects duplicates and intersections; keep the lists valid.
	seen := map[string]bool{}
	uniq := func(in []string) (out []string) {
		for _, s := range in {
			if !seen[s] {
				seen[s] = true
				out = append(out, s)
			}
		}
		return out
	}
	l.Allowed = uniq(l.Allowed)
	l.Disallowed = uniq(l.Disallowed)
	hseen := map[string]bool{}
	for i, n := 0, rapid.IntRange(0, 3).Draw(t, "hosts_n"); i < n; i++ {
		h := rapid.SampledFrom(hostPats).Draw(t, "host_pat")
		if !hseen[h] {
			hseen[h] = true
			l.Hosts = append(l.Hosts, h)
		}
	}
	return l
}

// genBadSet draws an update the API has a reason to reject: valid lists
// spoiled in one of the ways a user can get them wrong.
func genBadSet(t *rapid.T) Op {
	op := Op{Kind: "set", Bad: rapid.SampledFrom([]string{"dup", "intersect", "unparsable", "unparsable", "undecodable"}).Draw(t, "bad_kind")}
	if op.Bad == "undecodable" {
		op.Raw = rapid.SampledFrom(rawBodies).Draw(t, "raw_body")
		return op
	}
	l := genLists(t)
	insert := func(list []string, e string) []string {
		i := rapid.IntRange(0, len(list)).Draw(t, "bad_pos")
		out := append([]string{}, list[:i]...)
		out = append(out, e)
		return append(out, list[i:]...)
	}
	switch op.Bad {
	case "dup":
		var cands []*[]string
		for _, p := range []*[]string{&l.Allowed, &l.Disallowed, &l.Hosts} {
			if len(*p) > 0 {
				cands = append(cands, p)
			}
		}
		if len(cands) == 0 {
			l.Disallowed = []string{rapid.SampledFrom(listIPs).Draw(t, "dup_ip")}
			cands = append(cands, &l.Disallowed)
		}
		p := cands[rapid.IntRange(0, len(cands)-1).Draw(t, "dup_list")]
		*p = insert(*p, (*p)[rapid.IntRange(0, len(*p)-1).Draw(t, "dup_of")])
	case "intersect":
		var e string
		switch {
		case len(l.Allowed) > 0:
			e = l.Allowed[rapid.IntRange(0, len(l.Allowed)-1).Draw(t, "isect_of")]
			l.Disallowed = insert(l.Disallowed, e)
		case len(l.Disallowed) > 0:
			e = l.Disallowed[rapid.IntRange(0, len(l.Disallowed)-1).Draw(t, "isect_of")]
			l.Allowed = insert(l.Allowed, e)
		default:
			e = rapid.SampledFrom(listIPs).Draw(t, "isect_ip")
			l.Allowed, l.Disallowed = []string{e}, []string{e}
		}
	default:
		e := rapid.SampledFrom(junkEntries).Draw(t, "junk")
		if rapid.Bool().Draw(t, "junk_in_allowed") {
			l.Allowed = insert(l.Allowed, e)
		} else {
			l.Disallowed = insert(l.Disallowed, e)
		}
	}
	op.Lists = &l
	return op
}

func flipCase(t *rapid.T, s string) string {
	if rapid.IntRange(0, 2).Draw(t, "flip") != 0 {
		return s
	}
	return strings.ToUpper(s[:1]) + s[1:]
}

// Gen draws a scenario.
func Gen(t *rapid.T, tier string) any {
	sc := &Scenario{Initial: genLists(t)}
	maxOps := 30
	if tier == "thorough" {
		maxOps = 80
	}
	for i, n := 0, rapid.IntRange(4, maxOps).Draw(t, "n_ops"); i < n; i++ {
		switch rapid.IntRange(0, 19).Draw(t, "op_kind") {
		case 0, 1:
			if rapid.IntRange(0, 2).Draw(t, "bad_set") == 0 {
				sc.Ops = append(sc.Ops, genBadSet(t))
				continue
			}
			l := genLists(t)
			sc.Ops = append(sc.Ops, Op{Kind: "set", Lists: &l})
			continue
		case 2:
			sc.Ops = append(sc.Ops, Op{Kind: "restart"})
			continue
		case 3:
			sc.Ops = append(sc.Ops, Op{Kind: "reconfigure"})
			continue
		case 4:
			sc.Ops = append(sc.Ops, Op{Kind: "write", Write: rapid.SampledFrom(writeKinds).Draw(t, "write_kind")})
			continue
		}
		op := Op{Kind: "query",
			Proto: rapid.SampledFrom(protos).Draw(t, "proto"),
			Addr:  rapid.SampledFrom(srcAddrs).Draw(t, "addr"),
			Name:  rapid.SampledFrom(qnames).Draw(t, "qname"),
			Qtype: rapid.SampledFrom(qtypes).Draw(t, "qtype"),
		}
		if op.Proto == "tls" || op.Proto == "quic" || op.Proto == "https" {
			if rapid.IntRange(0, 2).Draw(t, "has_cid") != 0 {
				op.ClientID = flipCase(t, rapid.SampledFrom(append([]string{"zed"}, cids...)).Draw(t, "cid"))
				op.ViaPath = op.Proto == "https" && rapid.Bool().Draw(t, "via_path")
			}
		}
		sc.Ops = append(sc.Ops, op)
	}
	return sc
}

// ---- decision function written from the statement ----------------------------

type access struct {
	allowedIPs, disIPs   map[netip.Addr]bool
	allowedNets, disNets []netip.Prefix
	allowedIDs, disIDs   map[string]bool
	hosts                *urlfilter.DNSEngine
	store                *filterlist.RuleStorage
	allowMode            bool
}

func newAccess(l Lists) (*access, error) {
	a := &access{allowedIPs: map[netip.Addr]bool{}, disIPs: map[netip.Addr]bool{}, allowedIDs: map[string]bool{}, disIDs: map[string]bool{}}
	add := func(items []string, ips map[netip.Addr]bool, nets *[]netip.Prefix, ids map[string]bool) {
		for _, s := range items {
			if ip, err := netip.ParseAddr(s); err == nil {
				ips[ip] = true
			} else if p, err := netip.ParsePrefix(s); err == nil {
				*nets = append(*nets, p)
			} else {
				ids[s] = true
			}
		}
	}
	add(l.Allowed, a.allowedIPs, &a.allowedNets, a.allowedIDs)
	add(l.Disallowed, a.disIPs, &a.disNets, a.disIDs)
	a.allowMode = len(l.Allowed) > 0
	st, err := filterlist.NewRuleStorage([]filterlist.RuleList{&filterlist.StringRuleList{ID: 1, RulesText: strings.ToLower(strings.Join(l.Hosts, "\n")), IgnoreCosmetic: true}})
	if err != nil {
		return nil, err
	}
	a.store = st
	a.hosts = urlfilter.NewDNSEngine(st)
	return a, nil
}

func (a *access) close() { _ = a.store.Close() }

// decision is the reference verdict; open is set for the two shapes the
// statement does not fix (4-in-6 sources against plain IPv4 entries, zoned
// sources against un-zoned exact-address entries).
type decision struct {
	excluded bool
	open     bool
	why      string
}

func inSet(addr netip.Addr, ips map[netip.Addr]bool, nets []netip.Prefix) (hit, open bool) {
	if ips[addr] {
		return true, false
	}
	plain := addr.WithZone("")
	for _, n := range nets {
		if n.Contains(plain) {
			return true, false
		}
	}
	// Shapes the statement leaves open.
	if addr.Zone() != "" && ips[plain] {
		return false, true
	}
	if addr.Is4In6() {
		u := addr.Unmap()
		if ips[u] {
			return false, true
		}
		for _, n := range nets {
			if n.Contains(u) {
				return false, true
			}
		}
	}
	return false, false
}

func (a *access) decide(addr netip.Addr, clientID, host string, qt uint16) decision {
	if a.allowMode {
		hit, open := inSet(addr, a.allowedIPs, a.allowedNets)
		if !hit && !(clientID != "" && a.allowedIDs[clientID]) {
			return decision{excluded: true, open: open, why: "allow-list mode, neither address nor ClientID allowed"}
		}
	} else {
		hit, open := inSet(addr, a.disIPs, a.disNets)
		if hit || (clientID != "" && a.disIDs[clientID]) {
			return decision{excluded: true, why: "address or ClientID disallowed"}
		}
		if open {
			return decision{open: true, why: "open shape"}
		}
	}
	if _, ok := a.hosts.MatchRequest(&urlfilter.DNSRequest{Hostname: host, DNSType: qt}); ok {
		return decision{excluded: true, why: "name on the blocked-hosts list"}
	}
	return decision{why: "admitted"}
}

// ---- run ---------------------------------------------------------------------

type runner struct {
	c   *kernel.Ctx
	n   *dnsnode.Node
	dir string
	up  *env.Upstream
	ac  *access
	// accepted are the access settings in force: the initial ones, then the
	// last ones the API accepted.
	accepted Lists
	// disk is the DNS section of the configuration file: the initial one, then
	// whatever the system wrote at its last "configuration modified" callback.
	disk       []byte
	diskWrites int
	diskErr    error
	// setWrites is diskWrites right after the last accepted update (-1: none).
	setWrites int
	// for reach probes
	sinceRestart, sinceRejected bool
	// first decision seen for an "open" input, to assert consistency
	openSeen map[string]bool
}

// onConfigModified does what home's onConfigModified -> (*configuration).write
// does on every "configuration modified" callback of any component: it asks
// the components for their current settings again, at this very moment, and
// writes the result out (the file write itself is C14's subject; the text is
// kept in memory).
func (r *runner) onConfigModified() {
	n := r.n
	if n == nil || n.Server == nil {
		return
	}
	n.Filter.WriteDiskConfig(&filtering.Config{})
	dc := dnsforward.Config{}
	n.Server.WriteDiskConfig(&dc)
	b, err := yaml.Marshal(&dc)
	if err != nil {
		r.diskErr = fmt.Errorf("harness: encoding the configuration: %w", err)
		return
	}
	r.disk = b
	r.diskWrites++
}

// start builds a node from the configuration text in r.disk.
func (r *runner) start() error {
	dc := dnsforward.Config{}
	if err := yaml.Unmarshal(r.disk, &dc); err != nil {
		return fmt.Errorf("harness: decoding the configuration: %w\n%s", err, r.disk)
	}
	cfg := &dnsnode.Config{Dir: r.dir, ListServer: env.NewListServer(), Upstream: r.up, UpTimeout: 2 * time.Second, ServerName: serverName, OnModified: r.onConfigModified}
	cfg.Filtering = filtering.Config{BlockingMode: filtering.BlockingModeDefault, ProtectionEnabled: true, FilteringEnabled: true, FiltersUpdateIntervalHours: 24}
	cfg.DNS = dc
	r.n = nil
	n, err := dnsnode.New(cfg)
	if err != nil {
		return err
	}
	r.n = n
	kernel.Wait()
	return nil
}

func (r *runner) stop() {
	if r.n != nil {
		r.n.Close()
		r.n = nil
		kernel.Wait()
	}
}

func sameSet(a, b []string) bool {
	a, b = append([]string{}, a...), append([]string{}, b...)
	sort.Strings(a)
	sort.Strings(b)
	return fmt.Sprint(a) == fmt.Sprint(b) && len(a) == len(b)
}

// checkReported compares what GET /control/access/list reports with the
// settings in force.  An empty blocked-hosts list may stand for built-in
// defaults, which the statement does not fix: the reported hosts are compared
// only when the accepted list is non-empty.
func (r *runner) checkReported(class, what string) error {
	code, body, err := r.n.Mux.Do("GET", "/control/access/list", nil)
	if err != nil {
		if hp, ok := err.(*env.HandlerPanic); ok {
			return kernel.Violationf("api-panic", "%v", hp)
		}
		return err
	}
	var got struct {
		A []string `json:"allowed_clients"`
		D []string `json:"disallowed_clients"`
		H []string `json:"blocked_hosts"`
	}
	if code != http.StatusOK || json.Unmarshal(body, &got) != nil {
		return fmt.Errorf("harness: access/list -> %d %s", code, body)
	}
	hostsOK := sameSet(got.H, r.accepted.Hosts)
	if len(r.accepted.Hosts) == 0 {
		hostsOK = true
		if len(got.H) != 0 {
			r.c.Probe("default_blocked_hosts_reported")
		}
	}
	ok := sameSet(got.A, r.accepted.Allowed) && sameSet(got.D, r.accepted.Disallowed) && hostsOK
	r.c.Eventf("list %s -> allowed=%v disallowed=%v hosts=%v ok=%v", what, got.A, got.D, got.H, ok)
	if !ok {
		return kernel.Violationf(class, "%s the access settings in force are allowed=%v disallowed=%v blocked_hosts=%v, but GET /control/access/list reports allowed=%v disallowed=%v blocked_hosts=%v",
			what, r.accepted.Allowed, r.accepted.Disallowed, r.accepted.Hosts, got.A, got.D, got.H)
	}
	return nil
}

func (r *runner) query(op Op) error {
	addr := netip.MustParseAddr(op.Addr)
	q := &dnsnode.Query{Proto: op.Proto, Addr: netip.AddrPortFrom(addr, 40000), Name: op.Name, Qtype: op.Qtype}
	cid := strings.ToLower(op.ClientID)
	switch op.Proto {
	case "tls", "quic":
		q.SNI = serverName
		if op.ClientID != "" {
			q.SNI = op.ClientID + "." + serverName
		}
	case "https":
		q.SNI, q.Host = serverName, serverName
		if op.ClientID != "" {
			if op.ViaPath {
				q.Path = "/dns-query/" + op.ClientID
			} else {
				q.SNI = op.ClientID + "." + serverName
			}
		}
	}
	host := strings.ToLower(strings.TrimSuffix(op.Name, "."))
	d := r.ac.decide(addr, cid, host, op.Qtype)
	logN, statN, upN := r.n.QLog.Len(), r.n.Stats.Len(), r.n.Up.Len()
	rep := r.n.Do(q)
	kernel.Wait()
	if rep.WireErr != nil {
		return kernel.Violationf("malformed-reply", "%v", rep.WireErr)
	}
	rc := "none"
	if rep.Msg != nil {
		rc = dns.RcodeToString[rep.Msg.Rcode]
	}
	r.c.Eventf("query %s %s cid=%q %s %s -> %s writes=%d up=%d log=%d stat=%d | model excluded=%v open=%v", op.Proto, op.Addr, cid, op.Name, dns.Type(op.Qtype), rc, rep.Writes, r.n.Up.Len()-upN, r.n.QLog.Len()-logN, r.n.Stats.Len()-statN, d.excluded, d.open)
	desc := fmt.Sprintf("%s from %s cid=%q for %s %s", op.Proto, op.Addr, cid, op.Name, dns.Type(op.Qtype))

	refusedObserved := false
	switch op.Proto {
	case "udp", "dnscrypt":
		refusedObserved = rep.Dropped
	default:
		refusedObserved = rep.Msg != nil && rep.Msg.Rcode == dns.RcodeRefused
	}
	if d.open {
		// Only: a decision, and the same decision for the same input.
		r.c.Probe("open_shape")
		key := fmt.Sprintf("%s|%s|%s|%d", op.Addr, cid, host, op.Qtype)
		if prev, ok := r.openSeen[key]; ok && prev != refusedObserved {
			return kernel.Violationf("inconsistent-decision", "%s: served once and refused once under the same lists", desc)
		}
		r.openSeen[key] = refusedObserved
		d.excluded = refusedObserved
	}
	if d.excluded {
		r.c.Probe("excluded_request")
		if r.sinceRestart {
			r.c.Probe("excluded_after_restart")
		}
		if r.sinceRejected {
			r.c.Probe("excluded_after_rejected_update")
		}
		r.c.Probe("excluded_" + op.Proto)
		if d.why == "name on the blocked-hosts list" {
			r.c.Probe("excluded_by_name")
		}
		switch op.Proto {
		case "udp", "dnscrypt":
			if !rep.Dropped {
				return kernel.Violationf("excluded-got-reply", "%s is excluded (%s): over %s there must be no reply at all, got %s", desc, d.why, op.Proto, rc)
			}
		default:
			if rep.Msg == nil || rep.Writes != 1 || rep.Msg.Rcode != dns.RcodeRefused || len(rep.Msg.Answer) != 0 {
				return kernel.Violationf("excluded-not-refused", "%s is excluded (%s): want exactly one REFUSED reply, got %s (writes=%d http=%d)", desc, d.why, rc, rep.Writes, rep.HTTPStatus)
			}
		}
		if n := r.n.Up.Len() - upN; n != 0 {
			return kernel.Violationf("excluded-resolved", "%s is excluded (%s) but %d question(s) went upstream", desc, d.why, n)
		}
		if n := r.n.QLog.Len() - logN; n != 0 {
			return kernel.Violationf("excluded-logged", "%s is excluded (%s) but was written to the query log", desc, d.why)
		}
		if n := r.n.Stats.Len() - statN; n != 0 {
			return kernel.Violationf("excluded-counted", "%s is excluded (%s) but was counted in statistics", desc, d.why)
		}
		return nil
	}
	r.c.Probe("served_request")
	if r.sinceRestart {
		r.c.Probe("served_after_restart")
	}
	if r.sinceRejected {
		r.c.Probe("served_after_rejected_update")
	}
	if cid != "" {
		r.c.Probe("served_with_clientid")
	}
	if rep.Msg == nil || rep.Msg.Rcode != dns.RcodeSuccess {
		return kernel.Violationf("admitted-not-served", "%s must be served (%s; allow-mode=%v) but got %s (writes=%d http=%d err=%v)", desc, d.why, r.ac.allowMode, rc, rep.Writes, rep.HTTPStatus, rep.Err)
	}
	if r.n.Up.Len()-upN < 1 || r.n.QLog.Len()-logN != 1 || r.n.Stats.Len()-statN != 1 {
		return kernel.Violationf("admitted-not-processed", "%s served but up=%d log=%d stat=%d (want >=1, 1, 1)", desc, r.n.Up.Len()-upN, r.n.QLog.Len()-logN, r.n.Stats.Len()-statN)
	}
	return nil
}

func listsBody(l Lists) []byte {
	orEmpty := func(s []string) []string {
		if s == nil {
			return []string{}
		}
		return s
	}
	b, _ := json.Marshal(map[string]any{"allowed_clients": orEmpty(l.Allowed), "disallowed_clients": orEmpty(l.Disallowed), "blocked_hosts": orEmpty(l.Hosts)})
	return b
}

// set sends one update.  The API's answer decides: 200 makes the lists of the
// request the settings in force, a 4xx answer leaves the previous ones in
// force.  Lists that are valid by construction must be accepted; for the
// spoiled ones either answer is taken (the statement does not say which
// documents are acceptable), an undecodable document cannot be accepted.
func (r *runner) set(op Op) error {
	var b []byte
	if op.Lists != nil {
		b = listsBody(*op.Lists)
	} else {
		b = []byte(op.Raw)
	}
	code, resp, err := r.n.Mux.Do("POST", "/control/access/set", b)
	if err != nil {
		if hp, ok := err.(*env.HandlerPanic); ok {
			return kernel.Violationf("api-panic", "%v", hp)
		}
		return err
	}
	kernel.Wait()
	if r.diskErr != nil {
		return r.diskErr
	}
	r.c.Eventf("set bad=%q %s -> %d", op.Bad, b, code)
	switch {
	case code == http.StatusOK && op.Lists == nil:
		return kernel.Violationf("undecodable-update-accepted", "POST /control/access/set with body %q, which is no document of three string lists, was answered 200", b)
	case code == http.StatusOK:
		l := *op.Lists
		r.ac.close()
		if r.ac, err = newAccess(l); err != nil {
			return err
		}
		r.accepted = l
		r.openSeen = map[string]bool{}
		r.setWrites = r.diskWrites
		r.sinceRejected = false
		r.c.Fault("live_access_update")
		if op.Bad != "" {
			r.c.Probe("invalid_update_accepted")
		}
		return r.checkReported("accepted-update-not-reported", fmt.Sprintf("after the accepted update %s", b))
	case code >= 400 && code <= 499 && op.Bad != "":
		r.sinceRejected = true
		r.c.Fault("rejected_access_update")
		r.c.Probe("invalid_" + op.Bad + "_rejected")
		return r.checkReported("rejected-update-visible", fmt.Sprintf("after the rejected (%d) update %s", code, b))
	}
	return fmt.Errorf("harness: access/set %s -> %d %s", b, code, resp)
}

// restart ends the process and starts a new one from the configuration the
// system wrote last.
func (r *runner) restart() error {
	if r.setWrites >= 0 && r.setWrites == r.diskWrites {
		r.c.Probe("restart_right_after_update")
	}
	if r.sinceRejected {
		r.c.Probe("restart_after_rejected_update")
	}
	r.stop()
	r.c.Eventf("restart writes=%d", r.diskWrites)
	if err := r.start(); err != nil {
		return kernel.Violationf("restart-failed", "the node does not start from the configuration it wrote itself: %v\n%s", err, r.disk)
	}
	r.sinceRestart = true
	r.c.Fault("restart_from_written_config")
	return r.checkReported("restart-changed-settings", "after a restart from the written configuration")
}

// reconfigure rebuilds the running server from its own current configuration,
// as saving DNS settings that need a restart of the server does.
func (r *runner) reconfigure() error {
	if r.sinceRejected {
		r.c.Probe("reconfigure_after_rejected_update")
	}
	err := r.n.ReconfigureNoListen()
	kernel.Wait()
	r.c.SimTime += 100 * time.Millisecond
	r.c.Eventf("reconfigure -> err=%v", err != nil)
	if err != nil {
		return kernel.Violationf("reconfigure-failed", "reconfiguring the server with its own current settings fails and leaves it stopped: %v", err)
	}
	r.c.Fault("reconfigure")
	return r.checkReported("reconfigure-changed-settings", "after a reconfiguration")
}

// write saves settings that are not the access lists.
func (r *runner) write(kind string) error {
	path, body := "/control/dns_config", `{"protection_enabled":true}`
	switch kind {
	case "dns_protection":
	case "dns_blocking_mode":
		body = `{"blocking_mode":"default"}`
	case "filtering_config":
		path, body = "/control/filtering/config", `{"enabled":true,"interval":24}`
	default:
		return fmt.Errorf("harness: unknown write %q", kind)
	}
	before := r.diskWrites
	code, resp, err := r.n.Mux.Do("POST", path, []byte(body))
	if err != nil {
		if hp, ok := err.(*env.HandlerPanic); ok {
			return kernel.Violationf("api-panic", "%v", hp)
		}
		return err
	}
	kernel.Wait()
	if r.diskErr != nil {
		return r.diskErr
	}
	if code != http.StatusOK {
		return fmt.Errorf("harness: %s %s -> %d %s", path, body, code, resp)
	}
	r.c.Eventf("write %s -> %d, %d configuration write(s)", kind, code, r.diskWrites-before)
	if r.diskWrites > before {
		r.c.Fault("unrelated_config_write")
		if r.sinceRejected {
			r.c.Probe("write_after_rejected_update")
		}
	}
	return r.checkReported("reported-settings-mismatch", "after an unrelated settings write")
}

// Run executes one scenario.
func Run(t *testing.T, scAny any, c *kernel.Ctx) error {
	sc := scAny.(*Scenario)
	dnsnode.InitProcess()
	dir, err := kernel.TempDir("c03")
	if err != nil {
		return err
	}
	defer os.RemoveAll(dir)
	return kernel.Bubble(t, func() error {
		up := &env.Upstream{Addr: "sim-upstream:53", Answer: env.DefaultAnswer, Latency: 2 * time.Millisecond}
		r := &runner{c: c, dir: dir, up: up, accepted: sc.Initial, setWrites: -1, openSeen: map[string]bool{}}
		// The configuration file the first process starts from.
		var err error
		r.disk, err = yaml.Marshal(&dnsforward.Config{AllowedClients: sc.Initial.Allowed, DisallowedClients: sc.Initial.Disallowed, BlockedHosts: sc.Initial.Hosts})
		if err != nil {
			return fmt.Errorf("harness: encoding the initial configuration: %w", err)
		}
		if len(sc.Initial.Hosts) == 0 {
			// An empty list in the configuration means the built-in defaults;
			// they cover names this workload never asks for.
			c.Probe("default_blocked_hosts")
		}
		if err = r.start(); err != nil {
			return err
		}
		defer func() { r.stop() }()
		if r.ac, err = newAccess(sc.Initial); err != nil {
			return err
		}
		defer func() { r.ac.close() }()
		if err = r.checkReported("initial-settings-not-reported", "after the first start"); err != nil {
			return err
		}
		for i, op := range sc.Ops {
			var err error
			switch op.Kind {
			case "set":
				if op.Lists == nil && op.Bad == "" {
					return fmt.Errorf("harness: set without lists")
				}
				err = r.set(op)
			case "restart":
				err = r.restart()
			case "reconfigure":
				err = r.reconfigure()
			case "write":
				err = r.write(op.Write)
			case "query":
				err = r.query(op)
			default:
				err = fmt.Errorf("harness: unknown op %q", op.Kind)
			}
			if err != nil {
				if v, ok := err.(*kernel.Violation); ok {
					v.Msg = fmt.Sprintf("op %d: %s", i, v.Msg)
				}
				return err
			}
			c.Step()
		}
		return nil
	})
}

// Prop is the registration.
var Prop = &kernel.Property{
	ID:    "C03",
	Level: "exploration",
	Rule: "seeded histories (rapid): allowed / disallowed lists mixing IPv4/IPv6 addresses, overlapping CIDRs (/0 .. /128) and ClientIDs, blocked-host patterns; set at start and replaced live through POST /control/access/set; updates the API may reject (duplicates, intersecting lists, entries that are no address / CIDR / ClientID, undecodable documents: the answer decides which lists are in force), unrelated settings writes, in-place reconfigurations and restarts from the configuration text the system itself wrote at its last configuration-modified callback, all mixed with the requests; after each of them GET /control/access/list is compared with the lists in force; requests over udp/tcp/tls/https/quic/dnscrypt from 11 source addresses (incl. zoned IPv6 and 4-in-6) with ClientIDs given by SNI label or DoH path in any letter case; " +
		"non-trivial = at least one excluded and one served request were executed in the case; distinct = distinct scenario digests",
	Gen: Gen,
	New: func() any { return &Scenario{} },
	Run: Run,
	NonTrivial: func(_ any, c *kernel.Ctx) bool {
		return c.Probes["excluded_request"] > 0 && c.Probes["served_request"] > 0
	},
	Real:        []string{"internal/dnsforward (HandleBefore, accessManager, ClientID extraction, access/set and access/list handlers, WriteDiskConfig, Prepare / reconfiguration, pipeline, query-log/statistics glue)", "dnsproxy request path (handleBefore, respond*)", "internal/filtering", "internal/client.Storage"},
	Stub:        []string{"upstream resolver (exchange log)", "client sockets of all six transports (fake conns / writers; UDP judged by the response message)", "query log and statistics (recorders)", "listeners / TLS handshakes (server name placed in the fake connection state)", "configuration file (YAML of the WriteDiskConfig snapshot taken inside every configuration-modified callback, as home's config.write takes it; a restart loads that text)", "Server.Reconfigure (VerifReconfigureNoListen: the same steps without opening listeners)"},
	Assumptions: []string{"blocked-host patterns are matched by urlfilter (trusted) against the lower-cased name", "4-in-6 sources against plain IPv4 entries and zoned IPv6 sources against un-zoned exact entries are not fixed by the statement: only 'a decision, and the same one for the same input' is asserted", "ClientIDs in the lists are lower-case (the extractor lower-cases the client's spelling)"},
	FaultKinds:  []string{"live_access_update", "rejected_access_update", "restart_from_written_config", "reconfigure", "unrelated_config_write"},
	ProbeNames:  []string{"excluded_request", "served_request", "served_with_clientid", "excluded_by_name", "open_shape", "excluded_udp", "excluded_tcp", "excluded_tls", "excluded_https", "excluded_quic", "excluded_dnscrypt", "default_blocked_hosts",
		"default_blocked_hosts_reported", "invalid_dup_rejected", "invalid_intersect_rejected", "invalid_unparsable_rejected", "invalid_undecodable_rejected",
		"restart_right_after_update", "restart_after_rejected_update", "reconfigure_after_rejected_update", "write_after_rejected_update",
		"served_after_restart", "excluded_after_restart", "served_after_rejected_update", "excluded_after_rejected_update"},
}
