package c02

// Widened exploration: storage faults on the list files of the data directory
// and custom-rule changes concurrent with queries (seeded cooperative
// scheduler).
//
// The oracle for the states these operations create is phrased with
// *candidate configurations*.  Normally exactly one rule configuration is in
// force: the one the API accepted last.  While the file of a list cannot be
// read it is open which configuration the system enforces — an attempt to
// apply a configuration may fail as a whole, or succeed without the rules of
// the unreadable list — so the candidates are: the configuration in force when
// the fault was injected, every configuration accepted since, and each of
// these without the rules of the faulted list.  An answer is judged only if
// all candidates agree on the verdict for the query name and on whether a
// record of the answer is blocked (an answer that must be replaced under every
// candidate must be replaced: nothing about the rules that block it is in
// doubt).  The doubt ends when a configuration that differs from the previous
// one has been applied with every file intact again.  The same rule judges the
// queries of a concurrent phase: candidates are the configuration before and
// after the overlapped set_rules call.

import (
	"fmt"
	"net/netip"
	"os"
	"path/filepath"
	"strings"
	"time"

	"github.com/AdguardTeam/AdGuardHome/verifsim/dnsnode"
	"github.com/AdguardTeam/AdGuardHome/verifsim/kernel"
	"github.com/AdguardTeam/AdGuardHome/verifsim/model"
	"github.com/AdguardTeam/AdGuardHome/verifsim/sched"
	"github.com/miekg/dns"
)

type cand struct {
	lists model.RuleLists
	eng   *model.Engines
}

func listsKey(l model.RuleLists) string {
	var b strings.Builder
	part := func(tag string, ls [][]string) {
		for _, l := range ls {
			if len(l) == 0 {
				continue
			}
			b.WriteString(tag)
			b.WriteString(strings.Join(l, "\n"))
			b.WriteString("\x00")
		}
	}
	part("U:", [][]string{l.User})
	part("B:", l.Block)
	part("A:", l.Allow)
	return b.String()
}

type conf model.RuleLists

func (c conf) key() string { return listsKey(model.RuleLists(c)) }

// conf is the configuration the API accepted last, without the rules of the
// list whose file is faulty if f is not nil.
func (r *runner) conf(f *listFault) conf {
	l := model.RuleLists{User: r.user}
	if r.blockOn && (f == nil || f.allow) {
		l.Block = [][]string{r.sc.Block}
	}
	if r.allowOn && (f == nil || !f.allow) {
		l.Allow = [][]string{r.sc.Allow}
	}
	return conf(l)
}

func (r *runner) closeCands() {
	for _, c := range r.cands {
		c.eng.Close()
	}
	r.cands = nil
}

func (r *runner) setCands(cs ...conf) error {
	r.closeCands()
	for _, c := range cs {
		if err := r.addCand(c); err != nil {
			return err
		}
	}
	return nil
}

func (r *runner) addCand(c conf) error {
	k := c.key()
	for _, o := range r.cands {
		if listsKey(o.lists) == k {
			return nil
		}
	}
	eng, err := model.NewEngines(model.RuleLists(c))
	if err != nil {
		return err
	}
	r.cands = append(r.cands, &cand{lists: model.RuleLists(c), eng: eng})
	return nil
}

func (r *runner) addCurrent() error {
	if err := r.addCand(r.conf(nil)); err != nil {
		return err
	}
	if r.fault != nil {
		return r.addCand(r.conf(r.fault))
	}
	return nil
}

// install is called when the updates loop has handled what the API accepted.
func (r *runner) install() error {
	cur := r.conf(nil)
	changed := cur.key() != r.acceptedKey
	r.acceptedKey = cur.key()
	if r.window {
		if r.fault == nil && changed && r.lastChangeIntact {
			// A configuration different from the previous one has been applied
			// and every file was intact: it is in force.
			r.window = false
			r.c.Probe("doubt_window_closed")
			r.c.Eventf("storage doubt ends")
			return r.setCands(cur)
		}
		return r.addCurrent()
	}
	return r.setCands(cur)
}

// ---- storage faults on list files ---------------------------------------------

type listFault struct {
	allow  bool
	path   string
	backup string
}

// injectFault replaces the file of one list by something that cannot be read
// as a file; the file itself is kept aside (a transient fault: heal puts it
// back).
func (r *runner) injectFault(op Op) error {
	if r.fault != nil {
		r.c.Probe("op_skipped_fault_active")
		return nil
	}
	// (The ids are the ones this harness gave the two lists at the start.)
	id := 10
	if op.Allow {
		id = 20
	}
	p := filepath.Join(r.dir, "filters", fmt.Sprintf("%d.txt", id))
	f := &listFault{allow: op.Allow, path: p, backup: filepath.Join(r.dir, "list-file-kept-aside")}
	if err := os.Rename(p, f.backup); err != nil {
		return err
	}
	var err error
	switch op.How {
	case "loop":
		err = os.Symlink(p, p)
	case "dir":
		err = os.Mkdir(p, 0o755)
	case "dangling":
		err = os.Symlink(filepath.Join(r.dir, "no-such-file"), p)
	default:
		err = fmt.Errorf("harness: unknown fault %q", op.How)
	}
	if err != nil {
		return err
	}
	r.fault, r.window = f, true
	r.c.Fault("list_file_fault")
	r.c.Eventf("list file fault %s on allow=%v", op.How, op.Allow)
	return nil
}

// heal ends the fault: the file is back as it was.
func (r *runner) heal() error {
	if r.fault == nil {
		r.c.Probe("op_skipped_no_fault")
		return nil
	}
	if err := os.RemoveAll(r.fault.path); err != nil {
		return err
	}
	if err := os.Rename(r.fault.backup, r.fault.path); err != nil {
		return err
	}
	r.c.Probe("fault_healed")
	r.c.Eventf("list file fault healed")
	r.fault = nil
	return nil
}

// ---- concurrent phase ------------------------------------------------------------

// par runs some queries — and, if the phase has one, a set_rules call and the
// body of the updates loop — as concurrent tasks.  A goroutine that one of the
// queries starts to switch protection on again after the deadline of a pause
// becomes a task of the phase.
func (r *runner) par(op Op) error {
	var adminOp *Op
	qs := op.Sub
	if len(qs) > 0 && qs[0].Kind == "set_rules" {
		adminOp, qs = &qs[0], qs[1:]
	}
	if (adminOp != nil && !r.sc.DelayedLoop) || len(qs) == 0 {
		r.c.Probe("op_skipped_no_scheduler")
		return nil
	}
	type flight struct {
		op  Op
		p   *dnsnode.Prepared
		rep *dnsnode.Reply
	}
	fl := make([]*flight, len(qs))
	for i, q := range qs {
		p, err := r.n.Prepare(&dnsnode.Query{Proto: q.Proto, Addr: netip.AddrPortFrom(netip.MustParseAddr(q.Addr), 40000), Name: q.Name, Qtype: q.Qtype})
		if err != nil {
			return err
		}
		fl[i] = &flight{op: q, p: p}
	}
	var adminErr error
	adminDone := false
	var names []string
	var fns []func()
	if adminOp != nil {
		names = []string{"admin:set_rules", "updates_loop"}
		fns = []func(){
			func() {
				defer func() { adminDone = true }()
				if adminErr = r.api("POST", "/control/filtering/set_rules", map[string]any{"rules": adminOp.Rules}); adminErr == nil {
					r.user = adminOp.Rules
				}
			},
			// The updates loop handles requests as they arrive, as long as the admin
			// call runs (its own goroutine blocks on the request channel; as a
			// cooperative task it polls between scheduling points).
			func() {
				for {
					done := adminDone
					r.n.Filter.VerifDrainInitializer()
					if done {
						return
					}
					sched.Yield()
				}
			},
		}
	}
	for _, f := range fl {
		names = append(names, "query")
		fns = append(fns, func() { f.rep = r.n.Handle(f.p) })
	}
	what := fmt.Sprintf("%d queries", len(fl))
	if adminOp != nil {
		what = "set_rules concurrent with " + what
	}
	upStart := r.up.Len()
	now := time.Now()
	prot := r.protAt(now)
	if r.crossed && prot {
		// The first requests after the deadline of a pause arrive together.
		r.c.Probe("par_first_after_pause")
	}
	lat := r.up.Latency
	r.up.Latency, r.up.OnExchange = 0, func() { sched.Yield() }
	res := sched.Run(op.Seed, op.Pct, names, fns)
	r.up.Latency, r.up.OnExchange = lat, nil
	r.c.Probes["sched_steps"] += res.Steps
	r.c.Probes["sched_switches"] += res.Switches
	if res.Deadlock != "" {
		r.abandon = true
		return kernel.Violationf("deadlock: "+res.Deadlock, "%s, schedule seed %d: every task waits for a lock:\n%s", what, op.Seed, res.Detail)
	}
	if adminErr != nil {
		return adminErr
	}
	if res.Spawned > 0 {
		r.c.Probe("par_reenable_task")
	}
	if adminOp != nil {
		r.n.Filter.VerifDrainInitializer()
	}
	kernel.Wait()
	r.crossed = false
	if adminOp != nil {
		r.c.Fault("concurrent_rule_change")
		r.c.Eventf("par set_rules with %d queries (steps %d)", len(fl), res.Steps)
		// Each answer is judged by what the configuration before and the one after
		// the call (and whatever else is in doubt) agree on.
		if err := r.addCurrent(); err != nil {
			return err
		}
	} else {
		r.c.Fault("concurrent_queries")
		r.c.Eventf("par %d queries (steps %d)", len(fl), res.Steps)
	}
	exch := r.up.Since(upStart)
	used := make([]bool, len(exch))
	for _, f := range fl {
		for j, e := range exch {
			if strings.EqualFold(e.Name, dns.Fqdn(f.op.Name)) {
				f.rep.Exchanges = append(f.rep.Exchanges, e)
				used[j] = true
			}
		}
	}
	for j, e := range exch {
		if !used[j] {
			return kernel.Violationf("forwarded-other-question", "concurrent phase: upstream was asked %s %s, which no client asked", e.Name, dns.Type(e.Qtype))
		}
	}
	r.overlapRules = adminOp != nil
	defer func() { r.overlapRules = false }()
	for _, f := range fl {
		r.c.Probe("par_query")
		if err := r.judge(f.op, f.rep, prot, prot, false, -1); err != nil {
			if v, ok := err.(*kernel.Violation); ok {
				v.Msg = fmt.Sprintf("concurrent phase, %s (schedule seed %d pct %d): %s", what, op.Seed, op.Pct, v.Msg)
			}
			return err
		}
	}
	if adminOp != nil {
		if err := r.install(); err != nil {
			return err
		}
		r.c.Fault("live_rule_change")
	}
	return nil
}

// mixtureEscapes reports whether an answer can pass unfiltered although every
// candidate configuration blocks one of its records, if its records are
// matched one after the other while the configuration in force changes:
// sets[c][i] says whether candidate c blocks record i.  With two candidates
// (before and after one rule change) the records up to some point are matched
// under the first and the rest under the second; with more, any assignment of
// candidates to records counts.
func mixtureEscapes(sets [][]bool) bool {
	if len(sets) < 2 {
		return false
	}
	n := len(sets[0])
	if len(sets) == 2 {
		for s := 0; s <= n; s++ {
			ok := true
			for i := 0; i < n; i++ {
				if (i < s && sets[0][i]) || (i >= s && sets[1][i]) {
					ok = false
				}
			}
			if ok {
				return true
			}
		}
		return false
	}
	for i := 0; i < n; i++ {
		all := true
		for _, set := range sets {
			if !set[i] {
				all = false
			}
		}
		if all {
			return false
		}
	}
	return true
}
