// Package c02 decides property C02 (an upstream answer that reveals a blocked
// CNAME target, address or HTTPS address hint is replaced by the blocking-mode
// response, wherever the offending record sits; otherwise it is delivered
// unchanged) by deterministic simulation on engine E1: the simulated upstream
// peer builds answer sections from the scenario's zone, the real
// dnsforward/filtering pipeline filters them, and a per-record reference
// model decides.
package c02

import (
	"encoding/json"
	"fmt"
	"net"
	"net/http"
	"net/netip"
	"os"
	"strings"
	"testing"
	"time"

	"github.com/AdguardTeam/AdGuardHome/internal/client"
	"github.com/AdguardTeam/AdGuardHome/internal/dnsforward"
	"github.com/AdguardTeam/AdGuardHome/internal/filtering"
	"github.com/AdguardTeam/AdGuardHome/verifsim/dnsnode"
	"github.com/AdguardTeam/AdGuardHome/verifsim/env"
	"github.com/AdguardTeam/AdGuardHome/verifsim/kernel"
	"github.com/AdguardTeam/AdGuardHome/verifsim/model"
	"github.com/AdguardTeam/AdGuardHome/verifsim/sched"
	"github.com/miekg/dns"
	"pgregory.net/rapid"
)

// RR is one record of a simulated upstream answer.
type RR struct {
	T      string   `json:"t"` // CNAME A AAAA HTTPS TXT MX NS
	Target string   `json:"target,omitempty"`
	IP     string   `json:"ip,omitempty"`
	V4     []string `json:"v4hint,omitempty"`
	V6     []string `json:"v6hint,omitempty"`
}

// Op is one generated operation.
type Op struct {
	Kind  string   `json:"k"`
	Name  string   `json:"name,omitempty"`
	Qtype uint16   `json:"qt,omitempty"`
	Addr  string   `json:"addr,omitempty"`
	Proto string   `json:"proto,omitempty"`
	Rules []string `json:"rules,omitempty"`
	On    bool     `json:"on,omitempty"`
	Mode  string   `json:"mode,omitempty"`
	// Ms: protection with On=false: duration of a timed pause (0 = until
	// switched on again); advance: how far the clock moves; to_deadline:
	// offset from the deadline of the running pause the clock is moved to
	// (negative: just before it).
	Ms int64 `json:"ms,omitempty"`
	// list_fault: Allow says which list's file in the data directory is hit,
	// How what takes its place ("loop": a symbolic link to itself, "dir": a
	// directory, "dangling": a symbolic link to nowhere).
	Allow bool   `json:"allow,omitempty"`
	How   string `json:"how,omitempty"`
	// Hold (rule-changing admin operations — set_rules, list_toggle, filtering
	// — in scenarios with DelayedLoop only): the filtering module's updates
	// loop does not get to run after this operation; it runs when the next
	// rule-changing operation that is not held has been issued, or before the
	// next query / clock movement / concurrent phase, so the requests of several
	// admin calls reach the module back to back.
	// list_toggle: Allow says which of the two lists is switched On or off
	// (set_url); filtering: the global filtering flag is set to On
	// (filtering/config).
	Hold bool `json:"hold,omitempty"`
	// par: Sub holds queries, optionally preceded by one set_rules call
	// (scenarios with DelayedLoop only); they (and, with a set_rules call, the
	// body of the filtering module's updates loop) run as concurrent tasks under
	// the cooperative scheduler seeded with Seed, which preempts with probability
	// Pct percent at lock boundaries.  The goroutine that a query starts to
	// switch protection on again after the deadline of a pause is a task of the
	// phase, too.
	Seed uint64 `json:"seed,omitempty"`
	Pct  int    `json:"pct,omitempty"`
	Sub  []Op   `json:"sub,omitempty"`
}

// Scenario is one case.
type Scenario struct {
	Mode         string          `json:"mode"`
	TTL          uint32          `json:"ttl"`
	Protection   bool            `json:"protection"`
	Filtering    bool            `json:"filtering"`
	AAAADisabled bool            `json:"aaaa_disabled"`
	CacheSize    uint32          `json:"cache_size"`
	User         []string        `json:"user_rules"`
	Block        []string        `json:"block_list"`
	Allow        []string        `json:"allow_list"`
	ClientOff    bool            `json:"client_filtering_off"` // 192.0.2.2 is a persistent client with filtering off
	Zone         map[string][]RR `json:"zone"`                 // "name|qtype" -> answer section
	// DelayedLoop: the body of the filtering module's updates loop is run by
	// the harness (after each rule change, or as a task of a concurrent phase)
	// instead of by its own goroutine.
	DelayedLoop bool `json:"delayed_loop,omitempty"`
	Ops         []Op `json:"ops"`
}

var (
	qnames  = []string{"site.test", "www.site.test", "shop.example", "cdn.shop.example", "plain.test"}
	targets = []string{"tracker.test", "cdn.tracker.test", "edge.example", "ads.edge.example", "ok.example", "deep.cdn.tracker.test"}
	ip4s    = []string{"198.18.1.1", "198.18.1.2", "198.18.2.1", "192.0.0.8"}
	ip6s    = []string{"fd00:1::1", "fd00:1::2", "fd00:2::1"}
	addrs   = []string{"192.0.2.1", "192.0.2.2", "2001:db8:1::1"}
	protos  = []string{"udp", "tcp", "tls", "https", "quic", "dnscrypt"}
	modes   = []string{"default", "null_ip", "custom_ip", "nxdomain", "refused"}
	v4Block = netip.MustParseAddr("198.18.9.9")
	v6Block = netip.MustParseAddr("fd00::9")
)

func genRule(t *rapid.T, allow bool) string {
	var subject string
	switch rapid.IntRange(0, 9).Draw(t, "subject_kind") {
	case 0, 1, 2, 3:
		subject = rapid.SampledFrom(targets).Draw(t, "rule_target")
	case 4, 5, 6:
		subject = rapid.SampledFrom(ip4s).Draw(t, "rule_ip4")
	case 7, 8:
		subject = rapid.SampledFrom(ip6s).Draw(t, "rule_ip6")
	default:
		subject = rapid.SampledFrom(qnames).Draw(t, "rule_qname")
	}
	if allow {
		return rapid.SampledFrom([]string{"||" + subject + "^", "|" + subject + "^"}).Draw(t, "allow_form")
	}
	switch rapid.IntRange(0, 9).Draw(t, "form") {
	case 0, 1, 2, 3:
		return "||" + subject + "^"
	case 4:
		return "|" + subject + "^"
	case 5:
		return "@@||" + subject + "^"
	case 6:
		return "||" + subject + "^$important"
	case 7:
		return "||" + subject + "^$dnstype=" + rapid.SampledFrom([]string{"A", "AAAA", "CNAME", "HTTPS", "~CNAME"}).Draw(t, "dnstype")
	case 8:
		if !strings.ContainsAny(subject, ":") && strings.Count(subject, ".") != 3 {
			return "0.0.0.0 " + subject
		}
		return "||" + subject + "^"
	default:
		return "||" + subject + "^$client=192.0.2.1"
	}
}

func genRules(t *rapid.T, allow bool, max int) []string {
	n := rapid.IntRange(0, max).Draw(t, "n_rules")
	out := make([]string, 0, n)
	for i := 0; i < n; i++ {
		out = append(out, genRule(t, allow))
	}
	return out
}

func genAnswer(t *rapid.T, qtype uint16) (out []RR) {
	for i, n := 0, rapid.IntRange(0, 3).Draw(t, "n_cname"); i < n; i++ {
		out = append(out, RR{T: "CNAME", Target: rapid.SampledFrom(targets).Draw(t, "cname_target")})
	}
	switch qtype {
	case dns.TypeA:
		for i, n := 0, rapid.IntRange(0, 3).Draw(t, "n_a"); i < n; i++ {
			out = append(out, RR{T: "A", IP: rapid.SampledFrom(ip4s).Draw(t, "a_ip")})
		}
	case dns.TypeAAAA:
		for i, n := 0, rapid.IntRange(0, 3).Draw(t, "n_aaaa"); i < n; i++ {
			out = append(out, RR{T: "AAAA", IP: rapid.SampledFrom(ip6s).Draw(t, "aaaa_ip")})
		}
	case dns.TypeHTTPS:
		for i, n := 0, rapid.IntRange(0, 2).Draw(t, "n_https"); i < n; i++ {
			r := RR{T: "HTTPS", Target: rapid.SampledFrom([]string{".", "edge.example"}).Draw(t, "https_target")}
			r.V4 = rapid.SliceOfN(rapid.SampledFrom(ip4s), 0, 2).Draw(t, "v4hint")
			r.V6 = rapid.SliceOfN(rapid.SampledFrom(ip6s), 0, 2).Draw(t, "v6hint")
			out = append(out, r)
		}
	}
	for i, n := 0, rapid.IntRange(0, 2).Draw(t, "n_other"); i < n; i++ {
		out = append(out, RR{T: rapid.SampledFrom([]string{"TXT", "MX", "NS"}).Draw(t, "other_t"), Target: rapid.SampledFrom(targets).Draw(t, "other_target")})
	}
	// Any order: the offending record must be found wherever it sits.
	perm := rapid.Permutation(out).Draw(t, "order")
	// A negative answer may legally carry a CNAME chain in its answer
	// section; it is subject to the same filtering.
	if rapid.IntRange(0, 5).Draw(t, "nxdomain") == 0 {
		perm = append(perm, RR{T: "RCODE-NXDOMAIN"})
	}
	return perm
}

// Gen draws a scenario.
func Gen(t *rapid.T, tier string) any {
	sc := &Scenario{Zone: map[string][]RR{}}
	sc.Mode = rapid.SampledFrom(modes).Draw(t, "mode")
	sc.TTL = uint32(rapid.SampledFrom([]int{10, 0, 300}).Draw(t, "ttl"))
	sc.Protection = rapid.IntRange(0, 9).Draw(t, "protection") != 0
	sc.Filtering = rapid.IntRange(0, 9).Draw(t, "filtering") != 0
	sc.AAAADisabled = rapid.IntRange(0, 4).Draw(t, "aaaa_disabled") == 0
	sc.CacheSize = uint32(rapid.SampledFrom([]int{0, 0, 1 << 20}).Draw(t, "cache"))
	sc.User = genRules(t, false, 5)
	sc.Block = genRules(t, false, 4)
	sc.Allow = genRules(t, true, 2)
	sc.ClientOff = rapid.Bool().Draw(t, "client_off")
	qts := []uint16{dns.TypeA, dns.TypeAAAA, dns.TypeHTTPS, dns.TypeTXT}
	for _, n := range qnames {
		for _, qt := range qts {
			if rapid.IntRange(0, 3).Draw(t, "has_zone") != 0 {
				sc.Zone[fmt.Sprintf("%s|%d", n, qt)] = genAnswer(t, qt)
			}
		}
	}
	sc.DelayedLoop = rapid.Bool().Draw(t, "delayed_loop")
	maxOps := 25
	if tier == "thorough" {
		maxOps = 60
	}
	pauseRuns := false
	faulty, faultAllow := false, false
	genQuery := func() Op {
		return Op{Kind: "query", Name: rapid.SampledFrom(qnames).Draw(t, "qname"), Qtype: rapid.SampledFrom(qts).Draw(t, "qtype"),
			Addr: rapid.SampledFrom(addrs).Draw(t, "addr"), Proto: rapid.SampledFrom(protos).Draw(t, "proto")}
	}
	for i, n := 0, rapid.IntRange(3, maxOps).Draw(t, "n_ops"); i < n; i++ {
		var op Op
		k := rapid.IntRange(0, 99).Draw(t, "kind")
		askFirst := 0
		if l := len(sc.Ops); l > 0 && sc.Ops[l-1].Kind == "to_deadline" {
			askFirst = rapid.IntRange(0, 5).Draw(t, "ask_first")
		}
		if askFirst >= 4 {
			k = 100 // several queries at once first thing after the clock was moved to the deadline
		} else if askFirst != 0 {
			k = 0 // a query first thing after the clock was moved to the deadline
		} else if pauseRuns && rapid.IntRange(0, 3).Draw(t, "aim") == 0 {
			k = 99 // a running pause: move the clock to its deadline soon
		}
		// genPar draws a concurrent phase: 2-5 queries, with or without a
		// custom-rules change (and the updates loop) alongside.
		genPar := func(withAdmin bool) Op {
			op := Op{Kind: "par", Seed: rapid.Uint64().Draw(t, "par_seed"), Pct: rapid.SampledFrom([]int{10, 20, 50, 80}).Draw(t, "par_pct")}
			if withAdmin {
				op.Sub = append(op.Sub, Op{Kind: "set_rules", Rules: genRules(t, false, 5)})
			}
			// (Distinct names: the upstream's exchanges are told apart by name.)
			for _, name := range rapid.SliceOfNDistinct(rapid.SampledFrom(qnames), 2, 5, rapid.ID[string]).Draw(t, "par_names") {
				q := genQuery()
				q.Name = name
				op.Sub = append(op.Sub, q)
			}
			return op
		}
		switch {
		case k >= 100:
			op = genPar(sc.DelayedLoop && rapid.Bool().Draw(t, "par_admin"))
		case k < 50 || (k >= 58 && k < 63 && !sc.DelayedLoop):
			op = genQuery()
		case k >= 63 && k < 66 && !sc.DelayedLoop:
			// Several queries at once (the updates loop runs on its own here, so
			// no rule change alongside).
			op = genPar(false)
		case k < 54:
			// A burst: several rule-changing admin calls back to back, the
			// updates loop not running in between (held operations).
			for j, m := 0, rapid.IntRange(2, 4).Draw(t, "burst_len"); j < m; j++ {
				b := genRuleOp(t)
				b.Hold = true
				sc.Ops = append(sc.Ops, b)
			}
			continue
		case k < 56:
			op = Op{Kind: "list_toggle", Allow: rapid.Bool().Draw(t, "tg_allow"), On: rapid.Bool().Draw(t, "tg_on")}
		case k < 58:
			op = Op{Kind: "filtering", On: rapid.IntRange(0, 2).Draw(t, "flt_on") != 0}
		case k < 66:
			// A custom-rules change, the updates loop and queries, concurrently
			// (now and then the queries alone).
			op = genPar(rapid.IntRange(0, 3).Draw(t, "par_admin") != 0)
		case k < 70:
			// A storage fault on the file of one of the two lists in the data
			// directory, and its end (the generator follows whether a fault is
			// active so that a heal is not wasted).
			if faulty && rapid.IntRange(0, 2).Draw(t, "lf_heal") != 0 {
				op = Op{Kind: "list_heal"}
				faulty = false
				break
			}
			if faulty {
				// The list whose file is faulty is switched off and on again: the
				// second call has to fetch the list and replace the file.
				sc.Ops = append(sc.Ops, Op{Kind: "list_toggle", Allow: faultAllow, Hold: rapid.IntRange(0, 4).Draw(t, "hold") == 0})
				op = Op{Kind: "list_toggle", Allow: faultAllow, On: true}
				break
			}
			op = Op{Kind: "list_fault", Allow: rapid.Bool().Draw(t, "lf_allow"), How: rapid.SampledFrom([]string{"loop", "loop", "dir", "dangling"}).Draw(t, "lf_how")}
			faulty, faultAllow = true, op.Allow
		case k < 77:
			op = Op{Kind: "set_rules", Rules: genRules(t, false, 5)}
		case k < 83:
			op = Op{Kind: "protection", On: rapid.Bool().Draw(t, "prot_on")}
			if !op.On && rapid.IntRange(0, 2).Draw(t, "prot_timed") != 0 {
				op.Ms = int64(rapid.SampledFrom([]int{1000, 30_000, 600_000}).Draw(t, "prot_ms"))
			}
			pauseRuns = op.Ms > 0
		case k < 86:
			op = Op{Kind: "mode", Mode: rapid.SampledFrom(modes).Draw(t, "new_mode")}
		case k < 88:
			op = Op{Kind: "aaaa_disabled", On: rapid.Bool().Draw(t, "aaaa_on")}
		case k < 91:
			op = Op{Kind: "advance", Ms: int64(rapid.SampledFrom([]int{1, 999, 1000, 29_000, 31_000, 600_000, 3_600_000}).Draw(t, "adv_ms"))}
		case !pauseRuns:
			// (The generator follows the pauses it has drawn so that the next
			// operation of this slot can aim at the deadline.)
			op = Op{Kind: "protection", Ms: int64(rapid.SampledFrom([]int{1000, 30_000, 600_000}).Draw(t, "prot_ms"))}
			pauseRuns = true
		default:
			// Aim at the deadline of the running pause: just before it,
			// exactly at it, past it.
			op = Op{Kind: "to_deadline", Ms: int64(rapid.SampledFrom([]int{0, 1, -1, 2, 1000, -1000}).Draw(t, "deadline_off"))}
			if op.Ms >= 0 {
				pauseRuns = false
			}
		}
		if ruleChanging(op.Kind) {
			op.Hold = rapid.IntRange(0, 4).Draw(t, "hold") == 0
		}
		sc.Ops = append(sc.Ops, op)
	}
	return sc
}

// genRuleOp draws one rule-changing admin operation (any endpoint of the
// family this scenario's configuration gives a meaning to).
func genRuleOp(t *rapid.T) Op {
	switch rapid.IntRange(0, 5).Draw(t, "rule_op") {
	case 0:
		return Op{Kind: "list_toggle", Allow: rapid.Bool().Draw(t, "tg_allow"), On: rapid.Bool().Draw(t, "tg_on")}
	case 1:
		return Op{Kind: "filtering", On: rapid.IntRange(0, 2).Draw(t, "flt_on") != 0}
	default:
		return Op{Kind: "set_rules", Rules: genRules(t, false, 5)}
	}
}

// ruleChanging says whether an operation of this kind makes the filtering
// module rebuild its matching engines.
func ruleChanging(kind string) bool {
	switch kind {
	case "set_rules", "list_toggle", "filtering":
		return true
	}
	return false
}

func buildRR(owner string, qtype uint16, r RR) dns.RR {
	h := dns.RR_Header{Name: dns.Fqdn(owner), Class: dns.ClassINET, Ttl: env.MarkerTTL}
	switch r.T {
	case "CNAME":
		h.Rrtype = dns.TypeCNAME
		return &dns.CNAME{Hdr: h, Target: dns.Fqdn(r.Target)}
	case "A":
		h.Rrtype = dns.TypeA
		return &dns.A{Hdr: h, A: net.ParseIP(r.IP).To4()}
	case "AAAA":
		h.Rrtype = dns.TypeAAAA
		return &dns.AAAA{Hdr: h, AAAA: net.ParseIP(r.IP)}
	case "HTTPS":
		h.Rrtype = dns.TypeHTTPS
		rr := &dns.HTTPS{SVCB: dns.SVCB{Hdr: h, Priority: 1, Target: dns.Fqdn(r.Target)}}
		rr.Value = append(rr.Value, &dns.SVCBAlpn{Alpn: []string{"h2"}})
		if len(r.V4) > 0 {
			hint := &dns.SVCBIPv4Hint{}
			for _, ip := range r.V4 {
				hint.Hint = append(hint.Hint, net.ParseIP(ip).To4())
			}
			rr.Value = append(rr.Value, hint)
		}
		if len(r.V6) > 0 {
			hint := &dns.SVCBIPv6Hint{}
			for _, ip := range r.V6 {
				hint.Hint = append(hint.Hint, net.ParseIP(ip))
			}
			rr.Value = append(rr.Value, hint)
		}
		return rr
	case "MX":
		h.Rrtype = dns.TypeMX
		return &dns.MX{Hdr: h, Preference: 5, Mx: dns.Fqdn(r.Target)}
	case "NS":
		h.Rrtype = dns.TypeNS
		return &dns.NS{Hdr: h, Ns: dns.Fqdn(r.Target)}
	default:
		h.Rrtype = dns.TypeTXT
		return &dns.TXT{Hdr: h, Txt: []string{"v=" + r.Target}}
	}
}

type runner struct {
	sc   *Scenario
	c    *kernel.Ctx
	n    *dnsnode.Node
	bc   model.BlockConf
	prot bool
	// pausedTill is the deadline of a timed protection pause (zero: none).
	pausedTill time.Time
	// crossed is set when the clock has passed the deadline of a pause and no
	// query has been asked since.
	crossed bool
	aaaaOff bool
	user    []string
	// filt is the global filtering flag; blockOn / allowOn say whether the
	// block list and the allow list are enabled.
	filt, blockOn, allowOn bool
	// held is the number of rule-changing admin calls issued since the updates
	// loop last ran (DelayedLoop scenarios).
	held int
	// afterBurst: the configuration in force was accepted by the last call of a
	// burst the updates loop saw at once.
	afterBurst bool
	ls         *env.ListServer
	// cands are the rule configurations one of which is in force: exactly one
	// except while a storage fault on a list file, or an overlapping rule
	// change, leaves it open which (see c02_wide.go).
	cands []*cand
	dir   string
	up    *env.Upstream
	// fault is the active storage fault; window is set from its injection
	// until a configuration is known to have been applied with all files
	// intact.
	fault  *listFault
	window bool
	// lastChangeIntact: the latest admin call was made while no list file was
	// faulty (only such a change is known to have been applied in full).
	lastChangeIntact bool
	acceptedKey      string
	// abandon: a concurrent phase ended in a deadlock; the parked tasks hold the
	// node's locks.
	abandon bool
	// overlapRules is set while the answers of a concurrent phase that contained
	// a rule change are judged.
	overlapRules bool
}

func (r *runner) answer(req *dns.Msg) *dns.Msg {
	q := req.Question[0]
	m := new(dns.Msg)
	m.SetReply(req)
	name := strings.ToLower(strings.TrimSuffix(q.Name, "."))
	for _, rr := range r.sc.Zone[fmt.Sprintf("%s|%d", name, q.Qtype)] {
		if rr.T == "RCODE-NXDOMAIN" {
			m.Rcode = dns.RcodeNameError
			continue
		}
		m.Answer = append(m.Answer, buildRR(name, q.Qtype, rr))
	}
	return m
}

// protAt is the protection state at the given instant: a timed pause lasts
// until its deadline, then protection is on again.
func (r *runner) protAt(now time.Time) bool {
	if !r.pausedTill.IsZero() {
		return !now.Before(r.pausedTill)
	}
	return r.prot
}

// sleep moves the simulated clock.
func (r *runner) sleep(d time.Duration) {
	before := time.Now()
	time.Sleep(d)
	r.c.SimTime += d
	r.c.Fault("clock_advance")
	if !r.pausedTill.IsZero() && before.Before(r.pausedTill) && !time.Now().Before(r.pausedTill) {
		r.c.Probe("pause_deadline_crossed")
		r.crossed = true
	}
}

func (r *runner) api(method, path string, body any) error {
	r.lastChangeIntact = r.fault == nil
	b, _ := json.Marshal(body)
	code, resp, err := r.n.Mux.Do(method, path, b)
	if err != nil {
		if hp, ok := err.(*env.HandlerPanic); ok {
			return kernel.Violationf("api-panic", "%v", hp)
		}
		return err
	}
	if code != http.StatusOK {
		return fmt.Errorf("harness: %s %s %s -> %d %s", method, path, b, code, resp)
	}
	return nil
}

// apiMay is api for an operation that touches the file of a list: while a
// storage fault is in doubt the answer of the API says whether the operation
// was accepted (applied=false: refused, nothing changed).
func (r *runner) apiMay(method, path string, body any) (applied bool, err error) {
	r.lastChangeIntact = r.fault == nil
	b, _ := json.Marshal(body)
	code, resp, err := r.n.Mux.Do(method, path, b)
	if err != nil {
		if hp, ok := err.(*env.HandlerPanic); ok {
			return false, kernel.Violationf("api-panic", "%v", hp)
		}
		return false, err
	}
	if code != http.StatusOK {
		if r.window {
			r.c.Probe("api_refused_under_fault")
			r.c.Eventf("api %s refused: %d", path, code)
			return false, nil
		}
		return false, fmt.Errorf("harness: %s %s %s -> %d %s", method, path, b, code, resp)
	}
	return true, nil
}

// offending returns the first record of the answer that the reference model
// says is blocked for this client, with aaaaOff hint stripping applied.
func (r *runner) offending(eng *model.Engines, ans []RR, addr netip.Addr, clientName string) (idx int, what string, anyAllowed bool) {
	for i, rr := range ans {
		type probe struct {
			host string
			qt   uint16
		}
		var probes []probe
		switch rr.T {
		case "CNAME":
			probes = append(probes, probe{strings.ToLower(rr.Target), dns.TypeCNAME})
		case "A":
			probes = append(probes, probe{rr.IP, dns.TypeA})
		case "AAAA":
			probes = append(probes, probe{rr.IP, dns.TypeAAAA})
		case "HTTPS":
			for _, ip := range rr.V4 {
				probes = append(probes, probe{ip, dns.TypeHTTPS})
			}
			if !r.aaaaOff {
				for _, ip := range rr.V6 {
					probes = append(probes, probe{ip, dns.TypeHTTPS})
				}
			}
		}
		for _, p := range probes {
			switch m := eng.Check(p.host, p.qt, addr, clientName); m.Verdict {
			case model.Blocked:
				return i, fmt.Sprintf("%s %s (rule %s)", rr.T, p.host, m.Rule), anyAllowed
			case model.Allowed:
				anyAllowed = true
			}
		}
	}
	return -1, "", anyAllowed
}

func (r *runner) query(op Op) error {
	addr := netip.MustParseAddr(op.Addr)
	logBefore := r.n.QLog.Len()
	start := time.Now()
	prot := r.protAt(start)
	rep := r.n.Do(&dnsnode.Query{Proto: op.Proto, Addr: netip.AddrPortFrom(addr, 40000), Name: op.Name, Qtype: op.Qtype})
	end := time.Now()
	r.c.SimTime += end.Sub(start)
	kernel.Wait()
	first := r.crossed
	r.crossed = false
	if !r.pausedTill.IsZero() && start.Before(r.pausedTill) && !end.Before(r.pausedTill) {
		r.c.Probe("pause_deadline_crossed")
	}
	return r.judge(op, rep, prot, r.protAt(end), first, logBefore)
}

// judge compares what one query was answered with what the reference model
// expects.  logBefore is the length of the query log before the query, or -1
// if the log record cannot be told apart (concurrent phase).
func (r *runner) judge(op Op, rep *dnsnode.Reply, prot, protEnd, first bool, logBefore int) error {
	addr := netip.MustParseAddr(op.Addr)
	name := op.Name
	key := fmt.Sprintf("%s|%d", name, op.Qtype)
	zoneAll := r.sc.Zone[key]
	wantRcode := dns.RcodeSuccess
	var zone []RR
	for _, rr := range zoneAll {
		if rr.T == "RCODE-NXDOMAIN" {
			wantRcode = dns.RcodeNameError
			continue
		}
		zone = append(zone, rr)
	}
	if wantRcode != dns.RcodeSuccess {
		r.c.Probe("negative_upstream_answer")
	}
	clientName, clientFilt := "", r.filt
	if r.sc.ClientOff && op.Addr == "192.0.2.2" {
		clientName, clientFilt = "nofilter", false
	}
	if rep.WireErr != nil {
		return kernel.Violationf("malformed-reply", "%s %s over %s: %v", name, dns.Type(op.Qtype), op.Proto, rep.WireErr)
	}
	r.c.Eventf("query %s %s %s %s -> %s up=%d", op.Proto, op.Addr, name, dns.Type(op.Qtype), brief(rep.Msg), len(rep.Exchanges))

	if r.aaaaOff && op.Qtype == dns.TypeAAAA {
		r.c.Probe("aaaa_disabled_query")
		return nil // answered locally before any filtering (C01 checks that)
	}
	if prot != protEnd {
		// The pause ended while the query was in flight: the statement does not
		// say which state applies to it.
		r.c.Probe("query_straddles_deadline")
		return nil
	}
	if first && prot {
		r.c.Probe("first_query_after_pause")
	}
	if !r.pausedTill.IsZero() && !prot {
		r.c.Probe("query_during_pause")
	}
	// The verdict of every configuration that may be in force; only what all
	// of them agree on is asserted.
	var (
		reqStage   model.Match
		idx        = -1
		what       string
		anyAllowed bool
	)
	var blockedSets [][]bool
	for i, cd := range r.cands {
		rs := model.Match{}
		if prot && clientFilt {
			rs = cd.eng.Check(name, op.Qtype, addr, clientName)
		}
		ix, wh, aa := -1, "", false
		if prot && clientFilt && rs.Verdict == model.NoMatch {
			ix, wh, aa = r.offending(cd.eng, zone, addr, clientName)
			set := make([]bool, len(zone))
			for k := range zone {
				j, _, _ := r.offending(cd.eng, zone[k:k+1], addr, clientName)
				set[k] = j >= 0
			}
			blockedSets = append(blockedSets, set)
		}
		if i == 0 {
			reqStage, idx, what, anyAllowed = rs, ix, wh, aa
			continue
		}
		if rs.Verdict != reqStage.Verdict || (ix >= 0) != (idx >= 0) {
			r.c.Probe("query_in_doubt_disagree")
			return nil
		}
	}
	if len(r.cands) > 1 {
		r.c.Probe("query_in_doubt_agree")
	}
	if reqStage.Verdict == model.Blocked {
		r.c.Probe("blocked_at_request_stage")
		if len(rep.Exchanges) != 0 {
			return kernel.Violationf("blocked-forwarded", "%s %s blocked by %s but went upstream", name, dns.Type(op.Qtype), reqStage.Rule)
		}
		return nil
	}
	if rep.Msg == nil {
		return kernel.Violationf("no-reply", "%s %s over %s: client got nothing (err=%v)", name, dns.Type(op.Qtype), op.Proto, rep.Err)
	}
	// Build what the upstream sent.
	var upAns []dns.RR
	for _, rr := range zone {
		upAns = append(upAns, buildRR(name, op.Qtype, rr))
	}
	applicable := prot && clientFilt && reqStage.Verdict != model.Allowed
	if applicable {
		if anyAllowed {
			r.c.Probe("record_allowlisted")
		}
	} else {
		switch {
		case !prot:
			r.c.Probe("protection_off_query")
		case !clientFilt:
			r.c.Probe("filtering_off_query")
		default:
			r.c.Probe("qname_allowlisted_query")
		}
	}
	if idx >= 0 {
		r.c.Probe("blocked_by_response")
		if r.afterBurst {
			r.c.Probe("blocked_after_burst")
		}
		if first {
			r.c.Probe("blocked_first_after_pause")
		}
		r.c.Probe("offender_" + zone[idx].T)
		if idx > 0 {
			r.c.Probe("offender_not_first")
		}
		if msg := model.CheckBlockedReply(r.bc, name, op.Qtype, nil, rep.Msg); msg != "" {
			if logBefore < 0 && r.overlapRules && mixtureEscapes(blockedSets) {
				// Every configuration that may be in force blocks a record of
				// this answer, but not the same one, and the records of one
				// answer are matched one by one while the rule change goes on.
				v := kernel.Violationf("response-judged-by-mixed-configurations", "%s %s from %s: the configuration before and the one after the overlapping rule change both block a record of the upstream answer (first: #%d %s), but not the same record; the client must get the %s blocking response under either, and got: %s\nupstream answer: %v\nclient reply:\n%s", name, dns.Type(op.Qtype), op.Addr, idx, what, r.bc.Mode, msg, model.RRKeys(upAns), rep.Msg)
				if r.c.Tolerate(v) {
					return nil
				}
				return v
			}
			return kernel.Violationf("response-not-blocked", "%s %s from %s: upstream answer record #%d %s is blocked, client must get the %s blocking response: %s\nupstream answer: %v\nclient reply:\n%s", name, dns.Type(op.Qtype), op.Addr, idx, what, r.bc.Mode, msg, model.RRKeys(upAns), rep.Msg)
		}
		// Nothing of the upstream answer may be delivered.
		for _, rr := range rep.Msg.Answer {
			for _, u := range upAns {
				if model.RRKey(rr) == model.RRKey(u) {
					return kernel.Violationf("response-leak", "%s %s: blocked by %s but upstream record %s was delivered", name, dns.Type(op.Qtype), what, rr)
				}
			}
		}
		if len(r.cands) > 1 {
			r.c.Probe("doubt_all_agree_blocked")
		}
		// The query log keeps the original answer.
		if logBefore >= 0 && r.n.QLog.Len() > logBefore {
			e, _ := r.n.QLog.Last()
			// (IPv6 hints may have been stripped from it when AAAA is disabled,
			// so only its presence and shape are compared.)
			if e.Orig == nil || len(e.Orig.Answer) != len(upAns) {
				return kernel.Violationf("qlog-orig-answer", "%s %s: replaced answer, but the query-log record does not keep the original upstream answer: %v", name, dns.Type(op.Qtype), e.Orig)
			}
		}
		return nil
	}
	r.c.Probe("delivered_unchanged")
	// Delivered unchanged (IPv6 hints stripped when AAAA is disabled and the
	// answer went through response filtering).
	want := model.RRKeys(upAns)
	got := model.RRKeys(rep.Msg.Answer)
	if strings.Join(want, "\n") != strings.Join(got, "\n") {
		if r.aaaaOff && applicable {
			var stripped []dns.RR
			for _, rr := range zone {
				rr2 := rr
				if rr2.T == "HTTPS" {
					rr2.V6 = nil
				}
				stripped = append(stripped, buildRR(name, op.Qtype, rr2))
			}
			if strings.Join(model.RRKeys(stripped), "\n") == strings.Join(got, "\n") {
				r.c.Probe("ipv6_hints_stripped")
				return nil
			}
		}
		return kernel.Violationf("answer-changed", "%s %s from %s (protection=%v filtering=%v qname verdict=%s): no record of the upstream answer is blocked, yet the client did not receive it unchanged\nupstream: %v\nclient:   %v (rcode %s)", name, dns.Type(op.Qtype), op.Addr, prot, clientFilt, reqStage.Verdict, want, got, dns.RcodeToString[rep.Msg.Rcode])
	}
	if rep.Msg.Rcode != wantRcode {
		return kernel.Violationf("answer-changed", "%s %s: upstream %s became %s", name, dns.Type(op.Qtype), dns.RcodeToString[wantRcode], dns.RcodeToString[rep.Msg.Rcode])
	}
	return nil
}

func brief(m *dns.Msg) string {
	if m == nil {
		return "none"
	}
	return fmt.Sprintf("%s/%d", dns.RcodeToString[m.Rcode], len(m.Answer))
}

// settle lets the updates loop run (DelayedLoop scenarios: its body is run
// here), waits for quiescence and brings the reference model to the last
// accepted configuration: this is the rule set every later query is judged by.
func (r *runner) settle() error {
	r.afterBurst = false
	if r.sc.DelayedLoop {
		n := r.n.Filter.VerifDrainInitializer()
		if r.held > 1 {
			r.afterBurst = true
			r.c.Fault("updates_loop_delayed")
			r.c.Probe("burst_settled")
			r.c.Eventf("updates loop runs after %d admin calls: %d request(s) handled", r.held, n)
		}
	}
	r.held = 0
	kernel.Wait()
	r.c.Fault("live_rule_change")
	return r.install()
}

// listURL is the address the harness gave the block or the allow list.
func listURL(allow bool) string {
	if allow {
		return "https://lists.invalid/a.txt"
	}
	return "https://lists.invalid/b.txt"
}

func listText(rules []string) string { return strings.Join(rules, "\n") + "\n" }

// admin performs one rule-changing administrative operation and brings the
// reference model's configuration up to date.  It does not wait.
func (r *runner) admin(op Op) error {
	switch op.Kind {
	case "set_rules":
		if err := r.api("POST", "/control/filtering/set_rules", map[string]any{"rules": op.Rules}); err != nil {
			return err
		}
		r.user = op.Rules
	case "list_toggle":
		u := listURL(op.Allow)
		name := "b"
		if op.Allow {
			name = "a"
		}
		applied, err := r.apiMay("POST", "/control/filtering/set_url", map[string]any{"url": u, "whitelist": op.Allow, "data": map[string]any{"enabled": op.On, "name": name, "url": u}})
		if err != nil {
			return err
		}
		if applied {
			if op.Allow {
				r.allowOn = op.On
			} else {
				r.blockOn = op.On
			}
			r.c.Probe("list_toggled")
		}
	case "filtering":
		if err := r.api("POST", "/control/filtering/config", map[string]any{"enabled": op.On, "interval": 24}); err != nil {
			return err
		}
		r.filt = op.On
	default:
		return fmt.Errorf("harness: unknown rule operation %q", op.Kind)
	}
	return nil
}

func (r *runner) apply(op Op) error {
	if r.held > 0 {
		switch op.Kind {
		case "query", "advance", "to_deadline", "par":
			// The loop gets to run at the latest now: queries are judged against
			// the last accepted configuration.
			if err := r.settle(); err != nil {
				return err
			}
		}
	}
	switch op.Kind {
	case "query":
		return r.query(op)
	case "set_rules", "list_toggle", "filtering":
		if err := r.admin(op); err != nil {
			return err
		}
		r.held++
		if r.sc.DelayedLoop && op.Hold {
			// The admin call has returned; the updates loop has not run yet.
			kernel.Wait()
			r.c.Probe("held_rule_change")
			return nil
		}
		return r.settle()
	case "list_fault":
		return r.injectFault(op)
	case "list_heal":
		return r.heal()
	case "par":
		return r.par(op)
	case "protection":
		body := map[string]any{"enabled": op.On}
		if op.Ms > 0 {
			body["duration"] = op.Ms
		}
		if err := r.api("POST", "/control/protection", body); err != nil {
			return err
		}
		r.prot = op.On
		r.pausedTill = time.Time{}
		r.crossed = false
		if !op.On && op.Ms > 0 {
			r.pausedTill = time.Now().Add(time.Duration(op.Ms) * time.Millisecond)
			r.c.Fault("protection_pause")
		}
		r.c.Fault("live_flag_change")
	case "advance":
		r.sleep(time.Duration(op.Ms) * time.Millisecond)
	case "to_deadline":
		d := r.pausedTill.Add(time.Duration(op.Ms) * time.Millisecond).Sub(time.Now())
		if r.pausedTill.IsZero() || !time.Now().Before(r.pausedTill) || d <= 0 {
			r.c.Probe("op_skipped_no_pause")
			return nil
		}
		r.sleep(d)
	case "mode":
		body := map[string]any{"blocking_mode": op.Mode}
		if op.Mode == "custom_ip" {
			body["blocking_ipv4"], body["blocking_ipv6"] = v4Block.String(), v6Block.String()
		}
		if err := r.api("POST", "/control/dns_config", body); err != nil {
			return err
		}
		r.bc.Mode = op.Mode
		r.c.Fault("live_flag_change")
	case "aaaa_disabled":
		if err := r.api("POST", "/control/dns_config", map[string]any{"disable_ipv6": op.On}); err != nil {
			return err
		}
		r.aaaaOff = op.On
		r.c.Fault("live_flag_change")
	default:
		return fmt.Errorf("harness: unknown op %q", op.Kind)
	}
	kernel.Wait()
	return nil
}

// Run executes one scenario.
func Run(t *testing.T, scAny any, c *kernel.Ctx) error {
	sc := scAny.(*Scenario)
	dnsnode.InitProcess()
	sched.Init()
	sched.SpawnAllow = []string{"enableProtectionAfterPause"}
	dir, err := kernel.TempDir("c02")
	if err != nil {
		return err
	}
	defer os.RemoveAll(dir)
	return kernel.Bubble(t, func() error {
		r := &runner{sc: sc, c: c, prot: sc.Protection, aaaaOff: sc.AAAADisabled, user: sc.User, dir: dir,
			filt: sc.Filtering, blockOn: true, allowOn: true, ls: env.NewListServer(),
			bc: model.BlockConf{Mode: sc.Mode, V4: v4Block, V6: v6Block, TTL: sc.TTL}}
		up := &env.Upstream{Addr: "sim-upstream:53", Answer: r.answer, Latency: 3 * time.Millisecond}
		r.up = up
		cfg := &dnsnode.Config{Dir: dir, ListServer: r.ls, Upstream: up, UpTimeout: 2 * time.Second, NoUpdatesLoop: sc.DelayedLoop}
		cfg.Filtering = filtering.Config{BlockingMode: filtering.BlockingMode(sc.Mode), BlockingIPv4: v4Block, BlockingIPv6: v6Block, BlockedResponseTTL: sc.TTL,
			ProtectionEnabled: sc.Protection, FilteringEnabled: sc.Filtering, UserRules: sc.User, FiltersUpdateIntervalHours: 24}
		cfg.BlockLists = []dnsnode.ListSpec{{ID: 10, URL: listURL(false), Name: "b", Text: listText(sc.Block), Enabled: true}}
		cfg.AllowLists = []dnsnode.ListSpec{{ID: 20, URL: listURL(true), Name: "a", Text: listText(sc.Allow), Enabled: true}}
		// The server the lists came from still serves what the data directory
		// holds (a list that is switched on again is downloaded again).
		r.ls.Set(listURL(false), listText(sc.Block))
		r.ls.Set(listURL(true), listText(sc.Allow))
		if sc.ClientOff {
			cfg.InitialClients = []*client.Persistent{{Name: "nofilter", IPs: []netip.Addr{netip.MustParseAddr("192.0.2.2")}, UID: client.MustNewUID(), UseOwnSettings: true, FilteringEnabled: false}}
		}
		cfg.DNS = dnsforward.Config{CacheSize: sc.CacheSize, AAAADisabled: sc.AAAADisabled}
		n, err := dnsnode.New(cfg)
		if err != nil {
			return err
		}
		defer func() {
			if !r.abandon {
				n.Close()
			}
		}()
		r.n = n
		if err = r.setCands(r.conf(nil)); err != nil {
			return err
		}
		r.acceptedKey = r.conf(nil).key()
		defer r.closeCands()
		kernel.Wait()
		for i, op := range sc.Ops {
			c.Eventf("op %d %s", i, op.Kind)
			if err := r.apply(op); err != nil {
				if v, ok := err.(*kernel.Violation); ok {
					v.Msg = fmt.Sprintf("op %d: %s", i, v.Msg)
				}
				return err
			}
			c.Step()
		}
		return nil
	})
}

// Prop is the registration.
var Prop = &kernel.Property{
	ID:    "C02",
	Level: "exploration",
	Rule: "seeded cases (rapid): a zone of upstream answer sections (CNAME chains 0-3, 0-3 A/AAAA, HTTPS records with ipv4hint/ipv6hint, unrelated TXT/MX/NS, randomly permuted) served by the simulated upstream; rules over CNAME targets, IP literals and query names in custom rules, a block list and an allow list (||, |, @@, $important, $dnstype, $client, hosts-style); queries of 4 types over 6 transports from 3 sources interleaved with live set_rules / protection on, off and timed pause / blocking-mode / AAAA-disabled changes and clock movements (fixed steps; to just before, exactly at and past the deadline of the running pause); storage faults on the file of the block list or of the allow list in the data directory (replaced by a symlink loop, a directory or a dangling link, healed later) between rule changes, answers then being judged by what every configuration that may be in force agrees on; in half of the cases the filtering module's updates loop is scheduled by the harness, with phases in which a set_rules call, the updates loop and 2-5 queries run as concurrent tasks interleaved at lock boundaries by a seeded cooperative scheduler, each answer judged by what the configurations before and after the call agree on (such phases also without the set_rules call, in every scenario, and often first thing after the clock has crossed the deadline of a pause: the goroutine a request starts to switch protection on again is then a task of the phase, and every one of the queries is judged with protection on), and every rule-changing admin call (set_rules, set_url switching the block list or the allow list on or off, filtering/config switching the global filtering flag) may be held, alone or in bursts of 2-4: the updates loop then runs only after the following calls have been issued, before the next query, which is judged by the configuration accepted last; " +
		"non-trivial = the reference model found at least one answer that must be replaced AND one that must be delivered unchanged; distinct = distinct scenario digests",
	Gen: Gen,
	New: func() any { return &Scenario{} },
	Run: Run,
	NonTrivial: func(_ any, c *kernel.Ctx) bool {
		return c.Probes["blocked_by_response"] > 0 && c.Probes["delivered_unchanged"] > 0
	},
	Real:        []string{"internal/dnsforward (pipeline, filterDNSResponse, HTTPS hint filtering, blocking-mode responses)", "internal/filtering (CheckHostRules, engines)", "dnsproxy request path incl. cache", "internal/client.Storage", "urlfilter"},
	Stub:        []string{"upstream resolver (answer sections from the scenario's zone)", "client sockets", "query log / statistics (recorders)", "wall clock (synctest)"},
	Assumptions: []string{"urlfilter's matching of one rule set against one host name / IP literal is trusted", "CNAME targets are matched as type CNAME, addresses as A/AAAA, hints as HTTPS for $dnstype purposes (documented behaviour of response filtering)", "while the file of a list cannot be read, and during an overlapping rule change, the statement does not say which of the configurations accepted so far is in force: only what all of them (with and without the unreadable list) agree on is asserted"},
	FaultKinds:  []string{"live_rule_change", "live_flag_change", "protection_pause", "clock_advance", "list_file_fault", "concurrent_rule_change", "concurrent_queries", "updates_loop_delayed"},
	ProbeNames:  []string{"blocked_by_response", "delivered_unchanged", "offender_CNAME", "offender_A", "offender_AAAA", "offender_HTTPS", "offender_not_first", "record_allowlisted", "protection_off_query", "filtering_off_query", "qname_allowlisted_query", "blocked_at_request_stage", "aaaa_disabled_query", "ipv6_hints_stripped", "negative_upstream_answer", "pause_deadline_crossed", "first_query_after_pause", "blocked_first_after_pause", "query_during_pause", "query_straddles_deadline", "op_skipped_no_pause", "fault_healed", "query_in_doubt_agree", "query_in_doubt_disagree", "doubt_all_agree_blocked", "doubt_window_closed", "par_query", "par_first_after_pause", "par_reenable_task", "sched_steps", "sched_switches", "held_rule_change", "burst_settled", "list_toggled", "api_refused_under_fault", "blocked_after_burst"},
}
