package c20

import (
	"context"
	"fmt"
	"io"
	"time"

	"github.com/AdguardTeam/AdGuardHome/internal/querylog"
	"github.com/AdguardTeam/AdGuardHome/verifsim/kernel"
	"pgregory.net/rapid"
)

// This file adds *sequences of operations on one reader*: a generated list of
// timestamp seeks (aimed at every region of the log: before the first entry,
// inside each file, exactly on entries, in the gap between the files, after the
// last entry), reads of k entries, SeekStart and re-opening, all applied to the
// same stateful reader, so that what a seek leaves behind (the file the reader
// points at, the position inside each file, the chunk buffer) meets every
// later operation.  The reference model is a cursor into the forward split of
// the file bytes, newest line first:
//
//   - a seek to a stored timestamp must report success and the next read must
//     return that entry ("lands on the entry");
//   - a seek to an absent timestamp must report not-found / too-early /
//     too-late; the position it leaves is not specified by the statement, so
//     the next read may return any stored line (or the end), and from there on
//     the reads must again be the contiguous older lines;
//   - if a seek to an absent timestamp T reports success all the same (listed
//     finding reader-seek-absent-reports-found, tolerated), the reader claims
//     to stand at T in a log that is read backwards in time: the reads that
//     follow must be exactly the entries older than T, newest first.  Landing
//     on an older entry (entries skipped), on a newer entry, or at the very
//     start of the log although entries newer than T exist, are three classes of
//     their own;
//   - SeekStart must be followed by the newest line of the newest file;
//   - every read returns the line after the previous one, each line once, and
//     then the end, across the file boundary.

// SeqOp is one operation of the sequence.  Targets are relative to the lines
// the case happens to produce, so that the generator can aim without knowing
// the timestamps.
type SeqOp struct {
	// Op is "seek", "read", "start" or "reopen".
	Op string `json:"op"`
	// Anchor of a seek: "oldest", "newest", "edge_old" (last line of the older
	// file), "edge_new" (first line of the newer file), "frac".
	Anchor string `json:"anchor,omitempty"`
	// Frac is the permille position among all lines, oldest first (anchor
	// "frac").
	Frac int `json:"frac,omitempty"`
	// Off moves the anchor by so many lines (positive = newer).
	Off int `json:"off,omitempty"`
	// Shift moves the target timestamp away from the anchor line's: "" (the
	// stored timestamp), "+1", "-1" (nanoseconds), "mid" (half-way to the next
	// newer line), "far+", "far-" (1000 hours).
	Shift string `json:"shift,omitempty"`
	// K is the number of reads (-1 = until the end is reported).
	K int `json:"k,omitempty"`
}

func genSeq(t *rapid.T) []SeqOp {
	n := rapid.IntRange(0, 120).Draw(t, "seq_len")
	var ops []SeqOp
	for i := 0; i < n; i++ {
		var op SeqOp
		switch k := rapid.IntRange(0, 19).Draw(t, "seq_op"); {
		case k < 10:
			op.Op = "seek"
			op.Anchor = rapid.SampledFrom([]string{"oldest", "newest", "edge_old", "edge_new", "frac", "frac"}).Draw(t, "anchor")
			if op.Anchor == "frac" {
				op.Frac = rapid.IntRange(0, 1000).Draw(t, "frac")
			}
			op.Off = rapid.SampledFrom([]int{0, 0, 0, 1, -1, 2, -2, 5, -5}).Draw(t, "off")
			op.Shift = rapid.SampledFrom([]string{"", "", "", "+1", "-1", "mid", "far+", "far-"}).Draw(t, "shift")
		case k < 17:
			op.Op = "read"
			switch rapid.IntRange(0, 11).Draw(t, "read_kind") {
			case 0:
				op.K = -1
			case 1, 2:
				op.K = rapid.IntRange(5, 40).Draw(t, "read_k")
			default:
				op.K = rapid.IntRange(1, 4).Draw(t, "read_k_small")
			}
		case k < 19:
			op.Op = "start"
		default:
			op.Op = "reopen"
		}
		ops = append(ops, op)
	}
	return ops
}

// seqReader is what a sequence drives: the multi-file reader or, through an
// adapter, the single-file reader.
type seqReader interface {
	SeekTS(ctx context.Context, ts int64) error
	SeekStart() error
	ReadNext() (string, error)
	Close() error
}

type fileAdapter struct {
	q   *querylog.VerifFile
	run *run
}

func (a fileAdapter) SeekTS(ctx context.Context, ts int64) error {
	_, depth, err := a.q.SeekTS(ctx, a.run.log, ts)
	if depth >= 100 && err == nil {
		return kernel.Violationf("seek-too-many-probes", "a successful seek took %d probes", depth)
	}
	return err
}
func (a fileAdapter) SeekStart() error          { _, err := a.q.SeekStart(); return err }
func (a fileAdapter) ReadNext() (string, error) { return a.q.ReadNext() }
func (a fileAdapter) Close() error              { return a.q.Close() }

// seqModel is the reference: all lines newest first, and the cursor.
type seqModel struct {
	rev    []string
	ts     []int64 // parallel to rev, strictly decreasing
	fileOf []int   // parallel to rev: index into files (0 = older)
	idx    map[string]int
	multi  bool

	// known: the index of the line the next read must return is pos (n = the
	// end).  Otherwise any stored line or the end may come.
	known bool
	pos   int
	// after describes the operation that set the cursor, for the first read
	// after it: "" (a read), "start", "present", "absent-found".
	after  string
	target int64
}

// firstNotNewer returns the index in rev of the newest line whose timestamp is
// <= t (n if there is none).
func (m *seqModel) firstNotNewer(t int64) int {
	for i, v := range m.ts {
		if v <= t {
			return i
		}
	}
	return len(m.ts)
}

// resolve turns the relative target of a seek into a timestamp.
func (m *seqModel) resolve(op *SeqOp) int64 {
	n := len(m.rev)
	// Chronological index: 0 = oldest.
	edgeOld, edgeNew := n-1, 0
	for i := 0; i+1 < n; i++ {
		if m.fileOf[i] != m.fileOf[i+1] {
			// rev[i] is the first line of the newer file, rev[i+1] the last of
			// the older one.
			edgeNew, edgeOld = n-1-i, n-1-(i+1)
		}
	}
	var c int
	switch op.Anchor {
	case "oldest":
		c = 0
	case "newest":
		c = n - 1
	case "edge_old":
		c = edgeOld
	case "edge_new":
		c = edgeNew
	default:
		c = op.Frac * (n - 1) / 1000
	}
	c = min(max(c+op.Off, 0), n-1)
	at := func(c int) int64 { return m.ts[n-1-c] }
	t := at(c)
	switch op.Shift {
	case "+1":
		t++
	case "-1":
		t--
	case "mid":
		if c+1 < n {
			t += (at(c+1) - t) / 2
		} else {
			t += int64(time.Second)
		}
	case "far+":
		t += int64(1000 * time.Hour)
	case "far-":
		t -= int64(1000 * time.Hour)
	}
	return t
}

// region names where t lies, for the event log and the reach probes.
func (m *seqModel) region(t int64) string {
	n := len(m.ts)
	e := m.firstNotNewer(t)
	switch {
	case e < n && m.ts[e] == t:
		return "present"
	case e == 0:
		return "after_all"
	case e == n:
		return "before_all"
	case m.fileOf[e] != m.fileOf[e-1]:
		return "between_files"
	default:
		return "between_neighbours"
	}
}

// checkSeq applies ops to one reader made by open.
// single tells that the reader is the single-file one, which has no listed
// finding.
func (r *run) checkSeq(what string, single bool, files []*file, ops []SeqOp, open func() (seqReader, error)) (err error) {
	if len(ops) == 0 {
		return nil
	}
	ctx := context.Background()
	m := &seqModel{idx: map[string]int{}, multi: len(files) > 1}
	for fi := len(files) - 1; fi >= 0; fi-- {
		f := files[fi]
		for i := len(f.lines) - 1; i >= 0; i-- {
			m.idx[f.lines[i]] = len(m.rev)
			m.rev = append(m.rev, f.lines[i])
			m.ts = append(m.ts, f.ts[i])
			m.fileOf = append(m.fileOf, fi)
		}
	}
	n := len(m.rev)
	rd, err := open()
	if err != nil {
		return fmt.Errorf("harness: %w", err)
	}
	defer func() { _ = rd.Close() }()
	c := r.c
	c.Eventf("%s: sequence of %d operations over %d lines", what, len(ops), n)
	for oi := range ops {
		op := &ops[oi]
		at := fmt.Sprintf("%s, operation %d (%s)", what, oi, op.Op)
		switch op.Op {
		case "reopen":
			_ = rd.Close()
			if rd, err = open(); err != nil {
				return fmt.Errorf("harness: %w", err)
			}
			m.known = false
			c.Probe("seq_reopen")
			c.Eventf("%d reopen", oi)
		case "start":
			if err = rd.SeekStart(); err != nil {
				return kernel.Violationf("seek-start-error", "%s: SeekStart: %v", at, err)
			}
			m.known, m.pos, m.after = true, 0, "start"
			c.Probe("seq_start")
			c.Eventf("%d start", oi)
		case "seek":
			t := m.resolve(op)
			reg := m.region(t)
			e := m.firstNotNewer(t)
			inOlder := m.multi && m.known && m.pos < n && m.fileOf[m.pos] == 0
			serr := rd.SeekTS(ctx, t)
			if v, ok := serr.(*kernel.Violation); ok {
				return v
			}
			cls := querylog.VerifSeekErrClass(serr)
			c.Eventf("%d seek %s/%d/%d/%s -> %s: %s", oi, op.Anchor, op.Frac, op.Off, op.Shift, reg, cls)
			c.Probe("seq_seek_" + reg)
			if inOlder && reg == "after_all" {
				c.Probe("seq_seek_after_all_from_older_file")
			}
			if reg == "present" {
				if serr != nil {
					return kernel.Violationf("seq-seek-present-not-found", "%s: seeking the timestamp of the %d-th newest of %d lines reports %q: %s", at, e, n, cls, r.clean(serr))
				}
				m.known, m.pos, m.after, m.target = true, e, "present", t
				break
			}
			switch cls {
			case "not-found", "too-early", "too-late":
				// The statement does not say where a failed seek leaves the
				// reader.
				m.known = false
				c.Probe("seq_seek_absent_refused")
			case "found":
				cl := "reader-seek-absent-reports-found"
				if single {
					cl = "seek-absent-found"
				}
				v := kernel.Violationf(cl, "%s: seeking a timestamp that no line has (%s) reports success", at, reg)
				if !c.Tolerate(v) {
					return v
				}
				m.known, m.pos, m.after, m.target = true, e, "absent-found", t
			default:
				return kernel.Violationf("seq-seek-absent-"+cls, "%s: seeking a timestamp that no line has (%s) reports %s", at, reg, r.clean(serr))
			}
		case "read":
			for k := 0; op.K < 0 || k < op.K; k++ {
				line, rerr := rd.ReadNext()
				got := n
				if rerr == nil {
					var ok bool
					if got, ok = m.idx[line]; !ok {
						return kernel.Violationf("seq-read-unknown-line", "%s: read %d returned %q, which is not a line of the files", at, k, short(line))
					}
				} else if rerr != io.EOF {
					return kernel.Violationf("seq-read-error", "%s: read %d returned error %s", at, k, r.clean(rerr))
				}
				if v := r.judgeRead(m, at, k, got); v != nil {
					if !c.Tolerate(v) {
						return v
					}
				}
				if got < n && got > 0 && m.fileOf[got] != m.fileOf[got-1] && m.after == "" {
					c.Probe("seq_read_across_files")
				}
				m.known, m.pos, m.after = true, min(got+1, n), ""
				if got == n {
					c.Probe("seq_read_end")
					break
				}
			}
			c.Eventf("%d read %d -> next %d", oi, op.K, m.pos)
		default:
			return fmt.Errorf("harness: unknown sequence operation %q", op.Op)
		}
		c.Step()
	}
	return nil
}

// judgeRead compares the index of the line a read returned (n = the end) with
// the cursor of the model.
func (r *run) judgeRead(m *seqModel, at string, k, got int) *kernel.Violation {
	n := len(m.rev)
	name := func(i int) string {
		if i == n {
			return "the end"
		}
		return fmt.Sprintf("the %d-th newest line", i)
	}
	if !m.known {
		r.c.Probe("seq_read_at_unspecified_position")
		return nil
	}
	if got == m.pos {
		switch m.after {
		case "present":
			r.c.Probe("seq_seek_present_landed")
		case "absent-found":
			r.c.Probe("seq_seek_absent_found_landed_on_next_older")
		}
		return nil
	}
	switch m.after {
	case "start":
		return kernel.Violationf("seq-seek-start-misplaced", "%s: the first read after SeekStart returned %s of %d instead of the newest", at, name(got), n)
	case "present":
		return kernel.Violationf("seq-seek-present-misplaced", "%s: the seek to the timestamp of the %d-th newest of %d lines reported success, but the next read returned %s", at, m.pos, n, name(got))
	case "absent-found":
		switch {
		case got > m.pos:
			return kernel.Violationf("seq-seek-absent-found-skips-entries", "%s: the seek to an absent timestamp reported success; the newest line older than the target is the %d-th newest of %d, but the next read returned %s: the lines in between are never returned", at, m.pos, n, name(got))
		case got == 0:
			return kernel.Violationf("seq-seek-absent-found-lands-at-log-start", "%s: the seek to an absent timestamp reported success; the newest line older than the target is the %d-th newest of %d, but the next read returned the newest line of the log, which is newer than the target", at, m.pos, n)
		default:
			return kernel.Violationf("seq-seek-absent-found-lands-too-new", "%s: the seek to an absent timestamp reported success; the newest line older than the target is the %d-th newest of %d, but the next read returned %s, which is newer than the target", at, m.pos, n, name(got))
		}
	default:
		return kernel.Violationf("seq-read-not-contiguous", "%s: read %d returned %s of %d, the line after the previous one is %s", at, k, name(got), n, name(m.pos))
	}
}
