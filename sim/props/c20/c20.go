// Package c20 decides property C20 (query-log files are read backwards
// completely; timestamp seeks land on the entry) on engine E2 (qlogsim) in its
// large-file profile: the files are produced by the real Add / flush / rotation
// code from generated entries whose stored lines are between ~200 bytes and
// 16 KiB - 1 long, so that current and rotated file exceed the reader's 1.6 MB
// window several times; the private reverse reader (single file and multi
// file) is then driven through accessor hooks and compared with an independent
// forward split of the file bytes, for a full backward read and for every seek
// target (all stored timestamps, and absent ones between neighbours, before the
// first, after the last, between the files).
package c20

import (
	"context"
	"fmt"
	"io"
	"log/slog"
	"os"
	"path/filepath"
	"testing"
	"time"

	"github.com/AdguardTeam/AdGuardHome/internal/querylog"
	"github.com/AdguardTeam/AdGuardHome/verifsim/kernel"
	"github.com/AdguardTeam/AdGuardHome/verifsim/qlogsim"
	"github.com/miekg/dns"
	"pgregory.net/rapid"
)

// Block describes a run of entries.  The i-th entry of the block gets the
// target line length Lo + (i*Stride) mod (Hi-Lo+1) and is recorded
// GapLo + (i*7919) mod GapMod nanoseconds after the previous one.
type Block struct {
	N      int   `json:"n"`
	Lo     int   `json:"lo"`
	Hi     int   `json:"hi"`
	Stride int   `json:"stride"`
	Txt    int   `json:"txt,omitempty"`
	GapLo  int64 `json:"gap_lo"`
	GapMod int64 `json:"gap_mod"`
	// Rotate forces a rotation after the block (advance past the interval).
	Rotate bool `json:"rotate,omitempty"`
}

// Scenario is one case.
type Scenario struct {
	MemSize int     `json:"mem_size"`
	Blocks  []Block `json:"blocks"`
	// Every k-th stored timestamp is used as a seek target (1 = all).
	TargetStep int `json:"target_step"`
	// Seq is a sequence of operations applied to ONE reader (seq.go): to the
	// multi-file reader over all files and to the single-file reader of each.
	Seq []SeqOp `json:"seq,omitempty"`
}

const (
	// limit is the entry limit of the statement: lines are shorter than this.
	limit   = 16 * 1024
	minLine = 150
)

func genBlock(t *rapid.T, large bool, left *int) Block {
	b := Block{Stride: rapid.SampledFrom([]int{1, 7, 13, 101, 997, 4093}).Draw(t, "stride")}
	switch rapid.IntRange(0, 6).Draw(t, "len_kind") {
	case 0: // tiny
		b.Lo, b.Hi = minLine, minLine+rapid.IntRange(0, 200).Draw(t, "tiny_span")
	case 1: // just under the limit
		b.Hi = limit - 1
		b.Lo = b.Hi - rapid.IntRange(0, 40).Draw(t, "near_span")
	case 2: // exactly one length
		b.Lo = rapid.SampledFrom([]int{limit - 1, limit - 2, limit / 2, limit/2 + 1, 4096, 1000, 8191, 8192, 8193}).Draw(t, "one_len")
		b.Hi = b.Lo
	case 3: // mid
		b.Lo = rapid.IntRange(minLine, 6000).Draw(t, "mid_lo")
		b.Hi = b.Lo + rapid.IntRange(0, 6000).Draw(t, "mid_span")
	default: // whole range
		b.Lo, b.Hi = minLine, limit-1
	}
	b.Txt = rapid.SampledFrom([]int{0, 0, 1000, 4000, 9000}).Draw(t, "txt")
	switch rapid.IntRange(0, 3).Draw(t, "gap_kind") {
	case 0:
		b.GapLo, b.GapMod = 1, 1
	case 1:
		b.GapLo, b.GapMod = 1, 3
	case 2:
		b.GapLo, b.GapMod = 2, int64(rapid.IntRange(1, 1_000_000).Draw(t, "gap_mod"))
	default:
		b.GapLo, b.GapMod = int64(rapid.IntRange(1, 1_000_000_000).Draw(t, "gap_lo")), int64(rapid.IntRange(1, 3_000_000_000).Draw(t, "gap_mod2"))
	}
	if large {
		avg := (b.Lo + b.Hi) / 2
		want := rapid.SampledFrom([]int{2_000_000, 3_500_000, 1_000_000, 300_000, 5_200_000}).Draw(t, "block_bytes")
		if want > *left {
			want = *left
		}
		b.N = want/avg + 1
		if b.N > 4000 {
			b.N = 4000
		}
		*left -= b.N * avg
	} else {
		b.N = rapid.IntRange(1, 12).Draw(t, "n")
	}
	b.Rotate = rapid.IntRange(0, 3).Draw(t, "rotate") == 0
	return b
}

// Gen draws a scenario.
func Gen(t *rapid.T, tier string) any {
	large := rapid.IntRange(0, 9).Draw(t, "profile") < 4
	sc := &Scenario{TargetStep: 1}
	if large {
		sc.MemSize = rapid.SampledFrom([]int{16, 64, 100, 257, 1000}).Draw(t, "mem_size")
		if tier != "thorough" {
			sc.TargetStep = rapid.SampledFrom([]int{1, 3, 7}).Draw(t, "target_step")
		}
	} else {
		sc.MemSize = rapid.SampledFrom([]int{1, 2, 3, 5, 50}).Draw(t, "mem_size")
	}
	n := rapid.IntRange(1, 5).Draw(t, "n_blocks")
	left := 9_000_000 // bytes per case
	if tier == "thorough" {
		left = 16_000_000
	}
	for i := 0; i < n; i++ {
		sc.Blocks = append(sc.Blocks, genBlock(t, large, &left))
	}
	sc.Seq = genSeq(t)
	return sc
}

// ---- the run ---------------------------------------------------------------------

type run struct {
	n    *qlogsim.Node
	c    *kernel.Ctx
	base map[int]int // TxtPad -> line length without timestamp text and padding
	log  *slog.Logger
}

func baseRec(txt int) *qlogsim.Rec {
	return &qlogsim.Rec{
		GapNs: 1, Host: "a.test", QType: dns.TypeA, IP: "192.0.2.1", Ups: "x",
		NoAns: txt == 0, TxtPad: txt, ElapsedUs: 1500,
	}
}

// calibrate measures, with a scratch query log, the length of the stored line
// of the fixed entry shape for a given TXT padding.
func (r *run) calibrate(dir string, txts map[int]bool) error {
	cal := &qlogsim.Node{Dir: filepath.Join(dir, "cal")}
	if err := os.Mkdir(cal.Dir, 0o755); err != nil {
		return err
	}
	if err := cal.Open(qlogsim.Conf{MemSize: 1, Interval: 24 * time.Hour, Enabled: true}); err != nil {
		return err
	}
	r.base = map[int]int{}
	for _, txt := range []int{0, 1000, 4000, 9000} {
		if !txts[txt] {
			continue
		}
		time.Sleep(1)
		tsLen := len(time.Now().Format(time.RFC3339Nano))
		if _, _, logged, err := cal.Record(baseRec(txt)); err != nil || !logged {
			return fmt.Errorf("harness: calibration record failed: %v", err)
		}
		b, err := os.ReadFile(cal.LogFile(false))
		if err != nil {
			return fmt.Errorf("harness: calibration: %w", err)
		}
		lines, _ := qlogsim.SplitLines(b)
		r.base[txt] = len(lines[len(lines)-1]) - tsLen
	}
	return nil
}

func (r *run) produce(sc *Scenario) error {
	n := r.n
	for bi := range sc.Blocks {
		b := &sc.Blocks[bi]
		for i := 0; i < b.N; i++ {
			want := b.Lo + (i*b.Stride)%(b.Hi-b.Lo+1)
			gap := b.GapLo + (int64(i)*7919)%b.GapMod
			time.Sleep(time.Duration(gap))
			r.c.SimTime += time.Duration(gap)
			tsLen := len(time.Now().Format(time.RFC3339Nano))
			txt := b.Txt
			if r.base[txt]+tsLen > want {
				txt = 0
			}
			rec := baseRec(txt)
			if pad := want - r.base[txt] - tsLen; pad > 0 {
				rec.UpsPad = pad
			}
			if _, _, logged, err := n.Record(rec); err != nil || !logged {
				return fmt.Errorf("harness: record failed: %v", err)
			}
		}
		if b.Rotate {
			if err := n.Flush(); err != nil && querylog.VerifMemLen(n.QL) > 0 {
				return fmt.Errorf("harness: flush: %w", err)
			}
			time.Sleep(25 * time.Hour)
			r.c.SimTime += 25 * time.Hour
			had := n.Observe(false).Exists
			n.Tick()
			if had && !n.Observe(false).Exists {
				r.c.Probe("rotated")
			}
		}
	}
	if querylog.VerifMemLen(n.QL) > 0 {
		if err := n.Flush(); err != nil {
			return fmt.Errorf("harness: final flush: %w", err)
		}
	}
	kernel.Wait()
	return nil
}

// clean makes an error of the reader printable: no per-case path, bounded.
func (r *run) clean(err error) string {
	if err == nil {
		return "<nil>"
	}
	s := kernel.CleanPath(r.n.Dir, err.Error())
	if len(s) > 300 {
		s = s[:300] + "..."
	}
	return s
}

// file is the independent view of one log file.
type file struct {
	path  string
	name  string
	lines []string
	ts    []int64
}

func loadFile(path, name string) (*file, error) {
	b, err := os.ReadFile(path)
	if os.IsNotExist(err) {
		return nil, nil
	} else if err != nil {
		return nil, fmt.Errorf("harness: %w", err)
	}
	f := &file{path: path, name: name}
	var complete bool
	f.lines, complete = qlogsim.SplitLines(b)
	if !complete {
		return nil, kernel.Violationf("file-torn-line", "%s does not end with a newline", name)
	}
	for i, l := range f.lines {
		ts, terr := qlogsim.LineTS(l)
		if terr != nil {
			return nil, kernel.Violationf("file-bad-line", "%s line %d: %v", name, i, terr)
		}
		if i > 0 && ts <= f.ts[i-1] {
			return nil, fmt.Errorf("harness: timestamps in %s not strictly increasing at line %d", name, i)
		}
		f.ts = append(f.ts, ts)
	}
	return f, nil
}

type lineReader interface {
	ReadNext() (string, error)
}

func short(s string) string {
	if len(s) > 60 {
		return fmt.Sprintf("%s...(%d bytes)", s[:60], len(s))
	}
	return s
}

// expectReads reads len(want) lines and then optionally expects the end.
func expectReads(what string, rd lineReader, want []string, thenEOF bool) error {
	for i, w := range want {
		got, err := rd.ReadNext()
		if err != nil {
			return kernel.Violationf("reverse-read-short", "%s: read %d of %d returned error %v instead of a %d-byte line", what, i, len(want), err, len(w))
		}
		if got != w {
			return kernel.Violationf("reverse-read-wrong-line", "%s: read %d of %d returned %q, the forward split has %q there", what, i, len(want), short(got), short(w))
		}
	}
	if thenEOF {
		got, err := rd.ReadNext()
		if err != io.EOF {
			return kernel.Violationf("reverse-read-no-end", "%s: after all %d lines the next read returned (%q, %v) instead of EOF", what, len(want), short(got), err)
		}
	}
	return nil
}

func reversed(l []string) []string {
	out := make([]string, len(l))
	for i, s := range l {
		out[len(l)-1-i] = s
	}
	return out
}

func (r *run) lenProbes(f *file) {
	var size int
	for _, l := range f.lines {
		size += len(l) + 1
		switch {
		case len(l) == limit-1:
			r.c.Probe("line_len_limit_minus_1")
		case len(l) >= limit:
			r.c.Probe("line_len_at_or_over_limit")
		case len(l) < 256:
			r.c.Probe("line_len_tiny")
		}
	}
	if size > querylog.VerifBufferSize {
		r.c.Probe("file_larger_than_window")
	}
	if size > 3*querylog.VerifBufferSize {
		r.c.Probe("file_larger_than_3_windows")
	}
	if len(f.lines) == 1 {
		r.c.Probe("one_line_file")
	}
}

// checkFile runs the single-file reader over f.
func (r *run) checkFile(f *file, step int) error {
	ctx := context.Background()
	q, err := querylog.VerifNewFile(f.path)
	if err != nil {
		return fmt.Errorf("harness: %w", err)
	}
	defer q.Close()
	rev := reversed(f.lines)
	if _, err = q.SeekStart(); err != nil {
		return kernel.Violationf("seek-start-error", "%s: SeekStart: %v", f.name, err)
	}
	if err = expectReads(f.name+" full backward read", q, rev, true); err != nil {
		return err
	}
	r.c.Probe("full_read_file")

	n := len(f.lines)
	// Present targets.
	for i := 0; i < n; i++ {
		if i%step != 0 && i != n-1 && i != 1 {
			continue
		}
		_, depth, serr := q.SeekTS(ctx, r.log, f.ts[i])
		if serr != nil {
			return kernel.Violationf("seek-present-not-found", "%s (%d lines): seeking the timestamp of line %d (%d bytes) reports %q: %s", f.name, n, i, len(f.lines[i]), querylog.VerifSeekErrClass(serr), r.clean(serr))
		}
		if depth >= 100 {
			return kernel.Violationf("seek-too-many-probes", "%s: seek to line %d took %d probes", f.name, i, depth)
		}
		// The next reads return that line, then the ones before it.
		k := min(3, i+1)
		if err = expectReads(fmt.Sprintf("%s after seek to line %d of %d", f.name, i, n), q, rev[n-1-i:n-1-i+k], k == i+1); err != nil {
			return err
		}
		r.c.Probe("seek_present")
	}
	// Absent targets.
	type target struct {
		ts   int64
		what string
	}
	var absent []target
	absent = append(absent, target{f.ts[0] - 1, "just before the first"}, target{f.ts[n-1] + 1, "just after the last"},
		target{1, "long before the first"}, target{f.ts[n-1] + int64(1000*time.Hour), "long after the last"})
	for i := 0; i+1 < n; i++ {
		if i%step != 0 && i != n-2 {
			continue
		}
		if f.ts[i+1]-f.ts[i] > 1 {
			absent = append(absent, target{f.ts[i] + 1, fmt.Sprintf("between lines %d and %d", i, i+1)})
			if f.ts[i+1]-f.ts[i] > 2 {
				absent = append(absent, target{f.ts[i+1] - 1, fmt.Sprintf("between lines %d and %d (upper end)", i, i+1)})
			}
		}
	}
	for ai, a := range absent {
		_, depth, serr := q.SeekTS(ctx, r.log, a.ts)
		cls := querylog.VerifSeekErrClass(serr)
		switch cls {
		case "not-found", "too-early", "too-late":
			r.c.Probe("seek_absent_" + cls)
		default:
			return kernel.Violationf("seek-absent-"+cls, "%s (%d lines): seeking a timestamp %s, which no line has, reports %q (%s) instead of not-found / too-early / too-late", f.name, n, a.what, cls, r.clean(serr))
		}
		if depth >= 100 {
			return kernel.Violationf("seek-too-many-probes", "%s: seek to an absent timestamp %s took %d probes", f.name, a.what, depth)
		}
		// A fresh start and a full read are still complete (all of it for a
		// few targets, the newest lines for the others).
		if _, err = q.SeekStart(); err != nil {
			return kernel.Violationf("seek-start-error", "%s: SeekStart: %v", f.name, err)
		}
		if ai < 4 || ai%97 == 0 {
			err = expectReads(fmt.Sprintf("%s full read after failed seek %s", f.name, a.what), q, rev, true)
		} else {
			err = expectReads(fmt.Sprintf("%s read after failed seek %s", f.name, a.what), q, rev[:min(2, n)], false)
		}
		if err != nil {
			return err
		}
	}
	return nil
}

// checkReader runs the multi-file reader over the rotated and current file.
func (r *run) checkReader(files []*file, step int) error {
	ctx := context.Background()
	var paths []string
	var rev []string // everything, newest first
	var ts []int64   // parallel to rev
	var fileOf []int
	for fi := len(files) - 1; fi >= 0; fi-- {
		f := files[fi]
		for i := len(f.lines) - 1; i >= 0; i-- {
			rev = append(rev, f.lines[i])
			ts = append(ts, f.ts[i])
			fileOf = append(fileOf, fi)
		}
	}
	for _, f := range files {
		paths = append(paths, f.path)
	}
	// Also name a file that does not exist, as the search path does.
	if len(files) == 1 {
		paths = append([]string{files[0].path + ".absent"}, paths...)
	}
	rd, err := querylog.VerifNewReader(ctx, r.log, paths)
	if err != nil {
		return fmt.Errorf("harness: %w", err)
	}
	defer rd.Close()
	what := fmt.Sprintf("reader over %d file(s)", len(files))
	if err = rd.SeekStart(); err != nil {
		return kernel.Violationf("seek-start-error", "%s: SeekStart: %v", what, err)
	}
	if err = expectReads(what+" full backward read", rd, rev, true); err != nil {
		return err
	}
	r.c.Probe("full_read_reader")
	if len(files) == 2 {
		r.c.Probe("two_files")
	}
	n := len(rev)
	for i := 0; i < n; i++ {
		boundary := i > 0 && fileOf[i] != fileOf[i-1] || i+1 < n && fileOf[i] != fileOf[i+1]
		if i%step != 0 && i != n-1 && !boundary {
			continue
		}
		if serr := rd.SeekTS(ctx, ts[i]); serr != nil {
			return kernel.Violationf("seek-present-not-found", "%s: seeking the timestamp of the %d-th newest of %d lines reports %q: %s", what, i, n, querylog.VerifSeekErrClass(serr), r.clean(serr))
		}
		k := min(3, n-i)
		if boundary || i%(97*step) == 0 {
			k = n - i // read on to the very end, across the file boundary
			if boundary {
				r.c.Probe("seek_then_read_across_files")
			}
		}
		if err = expectReads(fmt.Sprintf("%s after seek to the %d-th newest of %d lines", what, i, n), rd, rev[i:i+k], k == n-i); err != nil {
			return err
		}
		r.c.Probe("seek_present_reader")
	}
	// Absent targets through the multi-file reader.
	type target struct {
		ts   int64
		what string
	}
	absent := []target{{ts[0] + 1, "after the last line of the newest file"}, {ts[n-1] - 1, "before the first line of the oldest file"}}
	for i := 0; i+1 < n; i++ {
		if fileOf[i] != fileOf[i+1] && ts[i]-ts[i+1] > 1 {
			absent = append(absent, target{ts[i+1] + 1, "between the two files"})
		}
	}
	for i := 0; i+1 < n && len(absent) < 12; i += 1 + n/8 {
		if fileOf[i] == fileOf[i+1] && ts[i]-ts[i+1] > 1 {
			absent = append(absent, target{ts[i+1] + 1, "between two neighbours of one file"})
		}
	}
	for _, a := range absent {
		serr := rd.SeekTS(ctx, a.ts)
		switch cls := querylog.VerifSeekErrClass(serr); cls {
		case "not-found", "too-early", "too-late":
			r.c.Probe("seek_absent_reader_" + cls)
		case "found":
			v := kernel.Violationf("reader-seek-absent-reports-found", "%s: seeking a timestamp %s, which no line has, reports success", what, a.what)
			if !r.c.Tolerate(v) {
				return v
			}
		default:
			return kernel.Violationf("seek-absent-"+cls, "%s: seeking a timestamp %s reports %s", what, a.what, r.clean(serr))
		}
		if err = rd.SeekStart(); err != nil {
			return kernel.Violationf("seek-start-error", "%s: SeekStart: %v", what, err)
		}
		if err = expectReads(fmt.Sprintf("%s full read after seek %s", what, a.what), rd, rev, true); err != nil {
			return err
		}
	}
	return nil
}

// Run executes one scenario.
func Run(t *testing.T, scAny any, c *kernel.Ctx) error {
	sc := scAny.(*Scenario)
	dir, err := kernel.TempDir("c20")
	if err != nil {
		return err
	}
	defer os.RemoveAll(dir)
	return kernel.Bubble(t, func() error {
		r := &run{n: &qlogsim.Node{Dir: dir}, c: c, log: slog.New(slog.DiscardHandler)}
		txts := map[int]bool{0: true}
		for _, b := range sc.Blocks {
			txts[b.Txt] = true
		}
		if err := r.calibrate(dir, txts); err != nil {
			return err
		}
		if err := r.n.Open(qlogsim.Conf{MemSize: uint(sc.MemSize), Interval: 24 * time.Hour, Enabled: true}); err != nil {
			return err
		}
		r.n.Tick()
		if err := r.produce(sc); err != nil {
			return err
		}
		c.Step()
		var files []*file
		for _, rot := range []bool{true, false} {
			name := "querylog.json"
			if rot {
				name += ".1"
			}
			f, ferr := loadFile(r.n.LogFile(rot), name)
			if ferr != nil {
				return ferr
			}
			if f != nil && len(f.lines) > 0 {
				files = append(files, f)
			}
		}
		step := max(1, sc.TargetStep)
		for _, f := range files {
			r.lenProbes(f)
			c.Eventf("file %s: %d lines, first %d bytes, last %d bytes", f.name, len(f.lines), len(f.lines[0]), len(f.lines[len(f.lines)-1]))
			if err := r.checkFile(f, step); err != nil {
				return err
			}
			c.Step()
		}
		if len(files) > 0 {
			if err := r.checkReader(files, step); err != nil {
				return err
			}
			c.Step()
			var paths []string
			for _, f := range files {
				paths = append(paths, f.path)
			}
			err := r.checkSeq(fmt.Sprintf("reader over %d file(s)", len(files)), false, files, sc.Seq, func() (seqReader, error) {
				return querylog.VerifNewReader(context.Background(), r.log, paths)
			})
			if err != nil {
				return err
			}
			for _, f := range files {
				err = r.checkSeq(f.name, true, []*file{f}, sc.Seq, func() (seqReader, error) {
					q, oerr := querylog.VerifNewFile(f.path)
					return fileAdapter{q: q, run: r}, oerr
				})
				if err != nil {
					return err
				}
			}
		}
		return nil
	})
}

// Prop is the registration.
var Prop = &kernel.Property{
	ID:    "C20",
	Level: "exploration",
	Rule: "seeded file shapes (rapid): 1-5 blocks of entries with target stored-line lengths between 150 bytes and 16 KiB - 1 (tiny, exactly one length, just under the limit, whole range with several strides) and timestamp gaps from 1 ns to seconds, written by the real Add / flush (MemSize 1..1000) / rotation code into one or two files (small profile: 1-60 lines; large profile: 0.3-5.2 MB per block, files of several reader windows); every stored timestamp (every k-th in the quick large profile) and absent timestamps are sought through the private single-file and multi-file readers; then a sequence of 0-120 operations (timestamp seeks anchored at the oldest / newest line, at both sides of the file boundary or anywhere, on the stored timestamp, 1 ns beside it, half-way to the neighbour or 1000 h away; reads of 1-40 lines or to the end; SeekStart; re-open) is applied to ONE multi-file reader and to one single-file reader per file, against a cursor model; " +
		"a case is non-trivial when >=1 file was read back completely and >=1 present and >=1 absent seek ran; distinct = distinct scenario digests. No fault kind applies to this property (a static file and a target decide it); the clock only spaces the timestamps and forces the rotation",
	Gen: Gen,
	New: func() any { return &Scenario{} },
	Run: Run,
	NonTrivial: func(_ any, c *kernel.Ctx) bool {
		p := c.Probes
		return p["full_read_file"] > 0 && p["seek_present"] > 0 && p["seek_absent_not-found"]+p["seek_absent_too-early"]+p["seek_absent_too-late"] > 0
	},
	Real: []string{"internal/querylog qLogFile and qLogReader (SeekStart, ReadNext, seekTS, readProbeLine, initBuffer)", "internal/querylog Add / flush / rotation check producing the files", "log files on tmpfs"},
	Stub: []string{"the hourly periodicRotate loop driver (body real)", "wall clock (synctest fake clock)"},
	Assumptions: []string{
		"a line is 'shorter than the 16 KiB entry limit' when it has at most 16383 bytes without its newline",
		"timestamps in a file are strictly increasing (entries recorded at least 1 ns apart)",
		"files with zero lines are not produced by the real writer and are not examined",
		"after a failed seek the reader is re-positioned with SeekStart before the next read (as the search path does); in operation sequences a read directly after a failed seek may return any stored line or the end, and the reads after it must continue from there",
		"a seek that reports success for a timestamp T no line has (listed finding) claims a position at T in a log read backwards in time: the reads that follow must be the lines older than T, newest first",
	},
	FaultKinds: []string{},
	ProbeNames: []string{"rotated", "two_files", "one_line_file", "file_larger_than_window", "file_larger_than_3_windows", "line_len_limit_minus_1", "line_len_tiny",
		"full_read_file", "full_read_reader", "seek_present", "seek_present_reader", "seek_then_read_across_files",
		"seek_absent_not-found", "seek_absent_too-early", "seek_absent_too-late", "seek_absent_reader_not-found",
		"seq_seek_present", "seq_seek_after_all", "seq_seek_before_all", "seq_seek_between_files", "seq_seek_between_neighbours",
		"seq_seek_after_all_from_older_file", "seq_seek_absent_refused", "seq_seek_present_landed", "seq_seek_absent_found_landed_on_next_older",
		"seq_read_across_files", "seq_read_end", "seq_read_at_unspecified_position", "seq_start", "seq_reopen"},
}
