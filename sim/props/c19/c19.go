// Package c19 decides property C19 (safe-browsing / parental lookups disclose
// only 2-byte SHA-256 prefixes of the queried name and of its parent domains —
// last four labels at most, ICANN public suffixes excluded — never the name;
// the name is blocked exactly when the service returns a full hash equal to
// one of those; the cache gives the verdict a fresh lookup would) by
// deterministic simulation: the real hashprefix.Checker over a simulated
// lookup service that logs every question it is sent, driven directly
// (Checker.Check), through filtering.DNSFilter.CheckHost and end-to-end
// through the DNS request path of dnsnode, with one cache shared by the whole
// history, a fake clock crossing entry expiry, a lookup-service database that
// changes during the history (the reference tracks which earlier answers are
// still within the cache time and may therefore still decide), LRU pressure,
// and lookup faults.
package c19

import (
	"crypto/sha256"
	"encoding/hex"
	"encoding/json"
	"errors"
	"fmt"
	"net/netip"
	"os"
	"sort"
	"strings"
	"sync"
	"testing"
	"time"

	"github.com/AdguardTeam/AdGuardHome/internal/dnsforward"
	"github.com/AdguardTeam/AdGuardHome/internal/filtering"
	"github.com/AdguardTeam/AdGuardHome/internal/filtering/hashprefix"
	"github.com/AdguardTeam/AdGuardHome/verifsim/dnsnode"
	"github.com/AdguardTeam/AdGuardHome/verifsim/env"
	"github.com/AdguardTeam/AdGuardHome/verifsim/kernel"
	"github.com/miekg/dns"
	"golang.org/x/net/publicsuffix"
	"pgregory.net/rapid"
)

// ---- hashing -------------------------------------------------------------------

type hash = [sha256.Size]byte
type pfx = [2]byte

func sum(name string) hash { return sha256.Sum256([]byte(name)) }

func pfxOf(h hash) pfx { return pfx{h[0], h[1]} }

func pfxHex(p pfx) string { return hex.EncodeToString(p[:]) }

// ---- reference: which names may be hashed for a host ------------------------------

// icannSuffix returns the ICANN public suffix of the (lower-case) name, or ""
// if the name is under no ICANN-managed suffix.  x/net/publicsuffix is the
// trusted base; it returns the longest matching rule of either section of the
// list, so a private rule is stepped over to the rule above it.
func icannSuffix(name string) string {
	s := name
	for s != "" {
		ps, icann := publicsuffix.PublicSuffix(s)
		if icann {
			return ps
		}
		// ps is a private (or default "*") rule: look above it.
		i := strings.IndexByte(ps, '.')
		if i < 0 {
			return ""
		}
		s = ps[i+1:]
	}
	return ""
}

// candidates returns, for a lower-case host name, the names whose hash
// prefixes the statement allows to be disclosed and whose full hashes decide
// the verdict: the name cut to its last four labels and its parent domains,
// without the ICANN public suffix (and anything above it).
func candidates(host string) (out []string) {
	labels := strings.Split(host, ".")
	if len(labels) > 4 {
		labels = labels[len(labels)-4:]
	}
	suf := icannSuffix(host)
	for i := range labels {
		s := strings.Join(labels[i:], ".")
		if s == suf || (suf != "" && strings.HasSuffix(suf, "."+s)) {
			break
		}
		out = append(out, s)
	}
	return out
}

// icannParents returns the label-suffixes of host that are ICANN public
// suffixes (or lie above one): names the statement excludes.
func icannParents(host string) (out []string) {
	suf := icannSuffix(host)
	if suf == "" {
		return nil
	}
	labels := strings.Split(host, ".")
	for i := range labels {
		s := strings.Join(labels[i:], ".")
		if s == suf || strings.HasSuffix(suf, "."+s) {
			out = append(out, s)
		}
	}
	return out
}

// allSuffixes returns every label-suffix of host, the full name first.
func allSuffixes(host string) (out []string) {
	labels := strings.Split(host, ".")
	for i := range labels {
		out = append(out, strings.Join(labels[i:], "."))
	}
	return out
}

// ---- collision table (a fixed name space, indexed by hash prefix) ------------------

var tableZones = []string{"example.com", "example.org", "shop.co.uk", "lab.test"}

const tableSize = 1 << 17

var (
	tableOnce sync.Once
	tableIdx  [1 << 16][]int32
)

func tableName(i int32) string {
	return fmt.Sprintf("n%d.%s", int(i)/len(tableZones), tableZones[int(i)%len(tableZones)])
}

// partners returns the names of the fixed name space whose SHA-256 starts
// with p (brute force, done once per process; a pure function).
func partners(p pfx) []int32 {
	tableOnce.Do(func() {
		for i := int32(0); i < tableSize; i++ {
			h := sum(tableName(i))
			k := int(h[0])<<8 | int(h[1])
			tableIdx[k] = append(tableIdx[k], i)
		}
	})
	return tableIdx[int(p[0])<<8|int(p[1])]
}

// ---- scenario ------------------------------------------------------------------

// Op is one generated operation.
type Op struct {
	K string `json:"k"` // check | advance | db
	// check
	Via   string   `json:"via,omitempty"` // direct | filter | dns
	Host  string   `json:"host,omitempty"`
	Qtype uint16   `json:"qt,omitempty"`
	Fault string   `json:"fault,omitempty"`
	Extra []string `json:"extra,omitempty"` // names whose hashes the service adds (unrelated_hashes)
	Fmt   int      `json:"fmt,omitempty"`   // layout of the TXT answer
	// advance
	Ms int64 `json:"ms,omitempty"`
	// db: names the lookup service starts / stops listing from now on.
	Add []string `json:"add,omitempty"`
	Del []string `json:"del,omitempty"`
	// db: from now on the service holds N filler hashes under the prefix of Of
	// (see Fill).
	Fill []Fill `json:"fill,omitempty"`
}

// Fill says that the lookup service's database holds N additional full hashes
// that share the 2-byte prefix of the name Of and are the SHA-256 of no name
// that is ever queried (the database of the service may hold any full hashes;
// the statement's quantifier asks for "distinct hashes sharing a prefix with
// the query").  They never change what the reference says about a name; they
// only make the answers about that prefix as long as a real service's may be.
type Fill struct {
	Of string `json:"of"`
	N  int    `json:"n"`
}

// fillerHash is the i-th filler hash under prefix p: a pure function, 30
// pseudo-random bytes behind the prefix.
func fillerHash(p pfx, i int) hash {
	h := sum(fmt.Sprintf("filler/%s/%d", pfxHex(p), i))
	h[0], h[1] = p[0], p[1]
	return h
}

// Scenario is one case.
type Scenario struct {
	Suffix     string `json:"suffix"`
	Slot       string `json:"slot"` // safebrowsing | parental
	CacheSize  uint   `json:"cache_size"`
	CacheTimeS int    `json:"cache_time_s"`
	// DB is what the service lists when the case starts; "db" operations change
	// it during the run.
	DB   []string `json:"db"`
	Pool []string `json:"pool"`
	// Fill: filler hashes the database holds when the case starts.
	Fill []Fill `json:"fill,omitempty"`
	// FilteringOff switches rule-list filtering off (the lookups stay on).
	FilteringOff bool `json:"filtering_off,omitempty"`
	Ops          []Op `json:"ops"`
}

var (
	suffixes = []string{"sb.dns.adguard.com.", "pc.dns.adguard.com.", "lookup.test."}
	// zone, then how the zone relates to the public suffix list.
	zones = []string{
		"example.com", "example.com", "evil.co.uk", "example.org", // ICANN suffixes of 1 and 2 labels
		"user.github.io", "site.blogspot.com", "bucket.s3.amazonaws.com", // private suffixes
		"box.internal", "a.test", // TLDs unknown to the list
		"com", "co.uk", "github.io", "io", "intranet", // the suffixes themselves, a single label
	}
	hostLabels = []string{"a", "b", "www", "cdn", "beef", "00ff", "x", "a"}
	// Cache sizes in bytes.  Small ones put the LRU under pressure.
	smallCaches = []uint{10, 12, 41, 42, 50, 52, 61, 62, 84, 100, 128, 200, 512}
	cacheTimes  = []int{1, 2, 30, 600, 3600}
	advances    = []int64{400, 1000, 1500, 2500, 31_000, 601_000, 3_601_000, 86_400_000}
	dnsQtypes   = []uint16{dns.TypeA, dns.TypeA, dns.TypeA, dns.TypeAAAA, dns.TypeTXT}

	// FaultKinds of the lookup service.
	faultKinds = []string{"lookup_error", "junk_wrong_length", "junk_non_hex", "junk_empty", "junk_split", "extra_records", "unrelated_hashes"}
)

// single reports whether the scenario runs in the regime in which a lookup
// answer never carries full hashes of more than one prefix: hashprefix stores
// an answer by ranging over a Go map, so with an LRU under pressure the order
// of insertion (hence what is evicted) would differ from run to run and a
// case could not be replayed.  Large and unlimited caches never evict within a
// case and have no such restriction.
func (sc *Scenario) single() bool { return sc.CacheSize != 0 && sc.CacheSize < 1<<20 }

func flipCase(t *rapid.T, s string) string {
	if rapid.IntRange(0, 2).Draw(t, "flip") == 0 {
		return s
	}
	b := []byte(s)
	for i := range b {
		if b[i] >= 'a' && b[i] <= 'z' && rapid.IntRange(0, 2).Draw(t, "up") == 0 {
			b[i] -= 32
		}
	}
	return string(b)
}

func contains(l []string, s string) bool {
	for _, x := range l {
		if x == s {
			return true
		}
	}
	return false
}

// Gen draws a scenario.
func Gen(t *rapid.T, tier string) any {
	sc := &Scenario{}
	sc.Suffix = rapid.SampledFrom(suffixes).Draw(t, "suffix")
	sc.Slot = rapid.SampledFrom([]string{"safebrowsing", "parental"}).Draw(t, "slot")
	sc.FilteringOff = rapid.IntRange(0, 3).Draw(t, "filtering_off") == 0
	switch rapid.IntRange(0, 5).Draw(t, "cache_kind") {
	case 0, 1:
		sc.CacheSize = 0 // unlimited
	case 2:
		sc.CacheSize = 1 << 20
	default:
		sc.CacheSize = rapid.SampledFrom(smallCaches).Draw(t, "cache_size")
	}
	sc.CacheTimeS = rapid.SampledFrom(cacheTimes).Draw(t, "cache_time")

	// Host pool: a few zones, hosts of 1..8 labels under them.
	addPool := func(h string) {
		if !contains(sc.Pool, h) {
			sc.Pool = append(sc.Pool, h)
		}
	}
	for i, n := 0, rapid.IntRange(2, 4).Draw(t, "n_zones"); i < n; i++ {
		z := rapid.SampledFrom(zones).Draw(t, "zone")
		zl := strings.Count(z, ".") + 1
		for j, m := 0, rapid.IntRange(1, 3).Draw(t, "n_hosts"); j < m; j++ {
			k := 0
			switch rapid.IntRange(0, 5).Draw(t, "depth_kind") {
			case 0, 1:
				k = 0
			case 2, 3:
				k = rapid.IntRange(0, 2).Draw(t, "depth_small")
			default:
				k = rapid.IntRange(0, 8-zl).Draw(t, "depth")
			}
			h := z
			for ; k > 0; k-- {
				h = rapid.SampledFrom(hostLabels).Draw(t, "label") + "." + h
			}
			addPool(h)
		}
	}

	// Tentative database: label-suffixes of pool hosts (including names beyond
	// the four-label cut and public suffixes, which must not block anything).
	var universe []string
	for _, h := range sc.Pool {
		for _, s := range allSuffixes(h) {
			if !contains(universe, s) {
				universe = append(universe, s)
			}
		}
	}
	var db []string
	for i, n := 0, rapid.IntRange(0, 6).Draw(t, "n_db"); i < n; i++ {
		s := rapid.SampledFrom(universe).Draw(t, "db_name")
		if !contains(db, s) {
			db = append(db, s)
		}
	}
	// Names of the fixed name space whose hashes share a prefix with a database
	// entry or with a clean candidate: into the database (distinct hashes under
	// one prefix) or into the pool (a clean name under a listed prefix).
	pick := func(p pfx, label string) string {
		ps := partners(p)
		if len(ps) == 0 {
			return ""
		}
		return tableName(ps[rapid.IntRange(0, len(ps)-1).Draw(t, label)])
	}
	for _, s := range append([]string(nil), db...) {
		switch rapid.IntRange(0, 3).Draw(t, "partner_kind") {
		case 0:
			if p := pick(pfxOf(sum(s)), "partner_db"); p != "" && !contains(db, p) {
				db = append(db, p)
			}
		case 1:
			if p := pick(pfxOf(sum(s)), "partner_pool"); p != "" {
				addPool(p)
			}
		}
	}
	for i, n := 0, rapid.IntRange(0, 2).Draw(t, "n_clean_partner"); i < n; i++ {
		// A listed hash sharing the prefix of a clean candidate.
		c := rapid.SampledFrom(universe).Draw(t, "clean_cand")
		if p := pick(pfxOf(sum(c)), "partner_of_clean"); p != "" && !contains(db, p) && p != c {
			db = append(db, p)
		}
	}

	// Per-host candidate prefixes.
	// candPfx: prefixes of the names the statement allows to be hashed; widePfx:
	// prefixes of every label-suffix of the host (whatever an implementation
	// may hash and ask for, e.g. the ICANN suffix above a private one).
	candPfx := map[string][]pfx{}
	widePfx := map[string][]pfx{}
	allCand := map[string]bool{}
	for _, h := range sc.Pool {
		for _, c := range candidates(h) {
			candPfx[h] = append(candPfx[h], pfxOf(sum(c)))
		}
		for _, c := range allSuffixes(h) {
			widePfx[h] = append(widePfx[h], pfxOf(sum(c)))
			allCand[c] = true
		}
	}
	// admissible: in the single-prefix regime (see Scenario.single) a name may
	// be listed only if no pool host then has two listed prefixes among its
	// label-suffixes.
	dbPfx := map[pfx]int{}
	admissible := func(p pfx) bool {
		if !sc.single() {
			return true
		}
		for _, h := range sc.Pool {
			has, other := false, false
			for _, q := range widePfx[h] {
				if q == p {
					has = true
				} else if dbPfx[q] > 0 {
					other = true
				}
			}
			if has && other {
				return false
			}
		}
		return true
	}
	for _, s := range db {
		p := pfxOf(sum(s))
		if !admissible(p) {
			continue
		}
		dbPfx[p]++
		sc.DB = append(sc.DB, s)
	}
	cur := append([]string(nil), sc.DB...) // what the service lists at this point of the history

	// Filler hashes: 0..12 more full hashes (of no queried name) under the
	// prefix of a listed name or of any label-suffix of a pool host (hosts,
	// their parents, names beyond the cut), so that the answer about one prefix
	// carries up to a dozen hashes.  A prefix with filler counts as a listed
	// prefix for the single-prefix regime.
	fillCnt := map[pfx]int{}
	drawFill := func(from []string) (f Fill, ok bool) {
		var of string
		if len(from) > 0 && rapid.IntRange(0, 2).Draw(t, "fill_listed") > 0 {
			of = rapid.SampledFrom(from).Draw(t, "fill_of_listed")
		} else {
			of = rapid.SampledFrom(universe).Draw(t, "fill_of")
		}
		n := rapid.IntRange(0, 12).Draw(t, "fill_n")
		p := pfxOf(sum(of))
		switch {
		case n == fillCnt[p]:
			return f, false
		case n == 0:
			dbPfx[p]--
		case fillCnt[p] == 0:
			if !admissible(p) {
				return f, false
			}
			dbPfx[p]++
		}
		fillCnt[p] = n
		return Fill{Of: of, N: n}, true
	}
	for i, n := 0, rapid.IntRange(0, 3).Draw(t, "n_fill"); i < n; i++ {
		if f, ok := drawFill(sc.DB); ok {
			sc.Fill = append(sc.Fill, f)
		}
	}

	// Operations.
	maxOps := 40
	if tier == "thorough" {
		maxOps = 80
	}
	faultPct := rapid.SampledFrom([]int{0, 15, 30, 50}).Draw(t, "fault_pct")
	for i, n := 0, rapid.IntRange(10, maxOps).Draw(t, "n_ops"); i < n; i++ {
		if k := rapid.IntRange(0, 99).Draw(t, "kind"); k >= 40 && k < 66 {
			sc.Ops = append(sc.Ops, Op{K: "advance", Ms: rapid.SampledFrom(advances).Draw(t, "adv_ms")})
			continue
		} else if k >= 66 && k < 77 {
			// The service's database changes: names of the pool's name space
			// (hosts, parents, names beyond the four-label cut, public suffixes)
			// and prefix partners become listed or stop being listed.
			op := Op{K: "db"}
			if rapid.IntRange(0, 3).Draw(t, "db_fill") == 0 {
				// The number of filler hashes under one prefix changes.
				if f, ok := drawFill(cur); ok {
					op.Fill = append(op.Fill, f)
				}
			}
			for j, m := 0, rapid.IntRange(1, 2).Draw(t, "n_dbchg"); j < m; j++ {
				if len(cur) > 0 && rapid.IntRange(0, 2).Draw(t, "db_del") == 0 {
					x := rapid.SampledFrom(cur).Draw(t, "db_del_name")
					if contains(op.Add, x) {
						continue
					}
					for ci, y := range cur {
						if y == x {
							cur = append(cur[:ci:ci], cur[ci+1:]...)
							break
						}
					}
					dbPfx[pfxOf(sum(x))]--
					op.Del = append(op.Del, x)
					continue
				}
				x := rapid.SampledFrom(universe).Draw(t, "db_add_name")
				if rapid.IntRange(0, 3).Draw(t, "db_add_partner") == 0 {
					x = pick(pfxOf(sum(x)), "db_add_partner_name")
				}
				if x == "" || contains(cur, x) || contains(op.Del, x) || !admissible(pfxOf(sum(x))) {
					continue
				}
				cur = append(cur, x)
				dbPfx[pfxOf(sum(x))]++
				op.Add = append(op.Add, x)
			}
			if len(op.Add)+len(op.Del)+len(op.Fill) > 0 {
				sc.Ops = append(sc.Ops, op)
			}
			continue
		}
		op := Op{K: "check"}
		h := rapid.SampledFrom(sc.Pool).Draw(t, "host")
		op.Via = rapid.SampledFrom([]string{"direct", "direct", "filter", "dns"}).Draw(t, "via")
		op.Host = h
		op.Fmt = rapid.IntRange(0, 5).Draw(t, "fmt")
		switch op.Via {
		case "filter":
			op.Host = flipCase(t, h)
			op.Qtype = dns.TypeA
		case "dns":
			op.Host = flipCase(t, h)
			op.Qtype = rapid.SampledFrom(dnsQtypes).Draw(t, "qtype")
		}
		if rapid.IntRange(0, 99).Draw(t, "fault") < faultPct {
			op.Fault = rapid.SampledFrom(faultKinds).Draw(t, "fault_kind")
			switch op.Fault {
			case "unrelated_hashes":
				// Full hashes of names that are nobody's candidate.  The service
				// decides at answer time which of them it may add.
				for j, m := 0, rapid.IntRange(1, 3).Draw(t, "n_extra"); j < m; j++ {
					var p pfx
					if ps := candPfx[h]; len(ps) > 0 && rapid.Bool().Draw(t, "extra_shares") {
						p = ps[rapid.IntRange(0, len(ps)-1).Draw(t, "extra_cand")]
					} else {
						p = pfx{byte(rapid.IntRange(0, 255).Draw(t, "extra_p0")), byte(rapid.IntRange(0, 255).Draw(t, "extra_p1"))}
					}
					if x := pick(p, "extra_name"); x != "" && !allCand[x] && !contains(db, x) && !contains(cur, x) && !contains(op.Extra, x) {
						op.Extra = append(op.Extra, x)
					}
				}
			}
		}
		sc.Ops = append(sc.Ops, op)
	}
	return sc
}

// ---- simulated lookup service ----------------------------------------------------

type asked struct {
	name  string
	qtype uint16
}

// snap is what one answer of the service said about one prefix: the full
// hashes listed under it at that instant.
type snap struct {
	at     time.Time
	listed map[hash]bool
}

// lookup is the simulated hash-prefix lookup service (an upstream.Upstream).
// Its database changes only between checks ("db" operations).  It answers a
// question with every full hash listed at that moment under each asked prefix,
// plus whatever the armed fault adds.
type lookup struct {
	suffix string
	single bool
	db     map[hash]bool
	byPfx  map[pfx][]hash // in database order: the listed names' hashes, then the filler
	named  map[pfx][]hash // hashes of listed names, in database order
	fill   map[pfx]int    // number of filler hashes under a prefix

	// snaps: per prefix, what the answers given to the current checker said
	// about it and when (reference model of what a cache may legitimately hold).
	snaps map[pfx][]snap

	log []asked

	// armed for the current check.
	fault string
	extra []string
	fmtK  int
	cur   []hash // full hashes of the current host's candidates

	fired      string       // fault that actually fired during the current check
	hashesSent int          // valid full hashes in the answers of the current check
	groups     int          // prefixes asked in the current check
	askedNow   map[pfx]bool // the prefixes asked in the current check
	c          *kernel.Ctx
}

func (l *lookup) Address() string { return "sim-lookup:53" }
func (l *lookup) Close() error    { return nil }

// parse returns the prefixes a question asks for (ok=false if the name is not
// of the documented form at all).
func (l *lookup) parse(name string) (ps []pfx, ok bool) {
	lower := strings.ToLower(name)
	if !strings.HasSuffix(lower, "."+l.suffix) {
		return nil, false
	}
	head := strings.TrimSuffix(lower, "."+l.suffix)
	ok = true
	for _, g := range strings.Split(head, ".") {
		b, err := hex.DecodeString(g)
		if err != nil || len(b) != 2 {
			ok = false
			continue
		}
		ps = append(ps, pfx{b[0], b[1]})
	}
	return ps, ok
}

func (l *lookup) Exchange(req *dns.Msg) (resp *dns.Msg, err error) {
	q := req.Question[0]
	l.log = append(l.log, asked{name: q.Name, qtype: q.Qtype})
	time.Sleep(5 * time.Millisecond)
	fire := func() {
		l.fired = l.fault
		l.c.Fault(l.fault)
	}
	ps, _ := l.parse(q.Name)
	l.groups += len(ps)
	askedSet := map[pfx]bool{}
	for _, p := range ps {
		askedSet[p] = true
		l.askedNow[p] = true
	}
	switch l.fault {
	case "lookup_error":
		fire()
		return nil, errors.New("simulated lookup service: connection refused")
	}

	// The correct answer: every listed hash under every asked prefix.
	var valid []string
	seen := map[pfx]bool{}
	for _, p := range ps {
		if seen[p] {
			continue
		}
		seen[p] = true
		for _, h := range l.byPfx[p] {
			valid = append(valid, hex.EncodeToString(h[:]))
		}
	}
	told := append([]pfx(nil), ps...) // prefixes this answer says something about
	var junk []string
	var extraRR []dns.RR
	hdr := dns.RR_Header{Name: q.Name, Rrtype: dns.TypeTXT, Class: dns.ClassINET, Ttl: 60}
	own := func(i int) string { // hex of one of the current host's own candidate hashes
		if len(l.cur) == 0 {
			return strings.Repeat("ab", 32)
		}
		h := l.cur[i%len(l.cur)]
		return hex.EncodeToString(h[:])
	}
	switch l.fault {
	case "junk_wrong_length":
		fire()
		for i := range max(1, len(l.cur)) {
			s := own(i)
			junk = append(junk, s[:62], s+"00", s[:4], s[:63])
		}
	case "junk_non_hex":
		fire()
		for i := range max(1, len(l.cur)) {
			s := own(i)
			junk = append(junk, s[:10]+"g"+s[11:], "zz"+s[2:], s[:63]+" ", "0x"+s[:62])
		}
	case "junk_empty":
		fire()
		junk = append(junk, "", "")
	case "junk_split":
		fire()
		for i := range max(1, len(l.cur)) {
			s := own(i)
			junk = append(junk, s[:32], s[32:])
		}
	case "extra_records":
		fire()
		ah := hdr
		ah.Rrtype = dns.TypeA
		ch := hdr
		ch.Rrtype = dns.TypeCNAME
		extraRR = append(extraRR, &dns.A{Hdr: ah, A: []byte{192, 0, 2, 1}}, &dns.CNAME{Hdr: ch, Target: own(0) + ".invalid."})
	case "unrelated_hashes":
		// Full hashes of names that are nobody's candidate.  A hash under a
		// listed prefix is only added when that prefix is asked for in this
		// question (the answer for the prefix stays complete); under LRU
		// pressure all valid hashes of one answer stay under one prefix.
		var group *pfx
		if l.single && len(valid) > 0 {
			b, _ := hex.DecodeString(valid[0][:4])
			group = &pfx{b[0], b[1]}
		}
		for _, x := range l.extra {
			h := sum(x)
			p := pfxOf(h)
			if len(l.byPfx[p]) > 0 && !askedSet[p] {
				continue
			}
			if l.single {
				if group == nil {
					group = &p
				} else if *group != p {
					continue
				}
			}
			valid = append(valid, hex.EncodeToString(h[:]))
			told = append(told, p)
			if l.fired == "" {
				fire()
			}
		}
	}
	l.hashesSent += len(valid)
	now := time.Now()
	done := map[pfx]bool{}
	for _, p := range told {
		if done[p] {
			continue
		}
		done[p] = true
		sn := snap{at: now, listed: map[hash]bool{}}
		for _, h := range l.byPfx[p] {
			sn.listed[h] = true
		}
		l.snaps[p] = append(l.snaps[p], sn)
	}

	// Layout.
	if l.fmtK&1 == 1 {
		for i, s := range valid {
			valid[i] = strings.ToUpper(s)
		}
	}
	var strs []string
	if l.fmtK&2 == 2 {
		strs = append(append(strs, junk...), valid...)
	} else {
		strs = append(append(strs, valid...), junk...)
	}
	m := new(dns.Msg)
	m.SetReply(req)
	if l.fmtK >= 4 {
		// One TXT record carrying all strings.
		if len(strs) > 0 {
			m.Answer = append(m.Answer, &dns.TXT{Hdr: hdr, Txt: strs})
		}
	} else {
		for _, s := range strs {
			m.Answer = append(m.Answer, &dns.TXT{Hdr: hdr, Txt: []string{s}})
		}
	}
	if l.fmtK&2 == 2 {
		m.Answer = append(extraRR, m.Answer...)
	} else {
		m.Answer = append(m.Answer, extraRR...)
	}
	return m, nil
}

// swapChecker lets the harness give the filter a fresh hashprefix.Checker
// (an empty cache) after a listed cache finding was carried past.
type swapChecker struct{ cur *hashprefix.Checker }

func (s *swapChecker) Check(host string) (bool, error) { return s.cur.Check(host) }

// ---- run -----------------------------------------------------------------------

const (
	sbBlockIP  = "198.18.0.77"
	parBlockIP = "198.18.0.78"
)

type runner struct {
	sc  *Scenario
	c   *kernel.Ctx
	n   *dnsnode.Node
	lk  *lookup
	chk *swapChecker
	// bound is an upper bound of the bytes the answers so far can occupy in
	// the cache; while it is below the cache size nothing can have been
	// evicted or refused.
	bound uint
	// cachedOnce: hosts that were answered without a lookup at least once.
	fullyLooked map[string]time.Time
}

func (r *runner) newChecker() {
	r.chk.cur = hashprefix.New(&hashprefix.Config{
		Upstream:    r.lk,
		ServiceName: r.sc.Slot,
		TXTSuffix:   r.sc.Suffix,
		CacheTime:   time.Duration(r.sc.CacheTimeS) * time.Second,
		CacheSize:   r.sc.CacheSize,
	})
	r.bound = 0
	r.fullyLooked = map[string]time.Time{}
	r.lk.snaps = map[pfx][]snap{}
}

// rebuild recomputes what the service holds under prefix p.
func (l *lookup) rebuild(p pfx) {
	hs := append([]hash(nil), l.named[p]...)
	for i := 0; i < l.fill[p]; i++ {
		hs = append(hs, fillerHash(p, i))
	}
	if len(hs) == 0 {
		delete(l.byPfx, p)
	} else {
		l.byPfx[p] = hs
	}
}

// list makes the service list the name x (false: it did already).
func (l *lookup) list(x string) bool {
	h := sum(x)
	if l.db[h] {
		return false
	}
	l.db[h] = true
	p := pfxOf(h)
	l.named[p] = append(l.named[p], h)
	l.rebuild(p)
	return true
}

// setFill sets the number of filler hashes under the prefix of f.Of.
func (l *lookup) setFill(f Fill) {
	p := pfxOf(sum(f.Of))
	for i := 0; i < l.fill[p]; i++ {
		delete(l.db, fillerHash(p, i))
	}
	if f.N == 0 {
		delete(l.fill, p)
	} else {
		l.fill[p] = f.N
	}
	for i := 0; i < f.N; i++ {
		l.db[fillerHash(p, i)] = true
	}
	l.rebuild(p)
}

// setListed applies a "db" operation to the service.
func (r *runner) setListed(op Op) {
	lk := r.lk
	for _, x := range op.Del {
		h := sum(x)
		if !lk.db[h] {
			continue
		}
		delete(lk.db, h)
		p := pfxOf(h)
		var keep []hash
		for _, y := range lk.named[p] {
			if y != h {
				keep = append(keep, y)
			}
		}
		if len(keep) == 0 {
			delete(lk.named, p)
		} else {
			lk.named[p] = keep
		}
		lk.rebuild(p)
	}
	for _, f := range op.Fill {
		lk.setFill(f)
	}
	for _, x := range op.Add {
		if !lk.list(x) {
			continue
		}
		h := sum(x)
		// Reach: a name becomes listed while an answer that said "not listed" is
		// still within the cache time.
		for _, sn := range lk.snaps[pfxOf(h)] {
			if !sn.listed[h] && time.Since(sn.at) <= r.cacheTime() {
				r.c.Probe("listed_while_clean_answer_cached")
				break
			}
		}
	}
	r.c.Fault("db_change")
}

func (r *runner) cacheTime() time.Duration { return time.Duration(r.sc.CacheTimeS) * time.Second }

// pgroup is the candidates of a host that share one hash prefix (one cache
// entry / one group of the question).
type pgroup struct {
	p     pfx
	hs    []hash
	names []string
}

// listedIn says whether src lists one of the group's candidates.
func (g *pgroup) listedIn(src map[hash]bool) bool {
	for _, h := range g.hs {
		if src[h] {
			return true
		}
	}
	return false
}

// verdictSources is the statement's cache clause as a reference: the verdict
// about the candidates under one prefix comes from a fresh lookup (the
// database as it is now) or, when the prefix was not asked for in this check,
// possibly from an earlier answer about that prefix that is not older than the
// cache time ("until the entry expires").  expired are the older answers; they
// are not sources and only serve to name the class of a mismatch.
func (r *runner) verdictSources(p pfx, askedFresh bool) (legit, expired []map[hash]bool) {
	legit = append(legit, r.lk.db)
	if askedFresh {
		return legit, nil
	}
	for _, sn := range r.lk.snaps[p] {
		if time.Since(sn.at) <= r.cacheTime() {
			legit = append(legit, sn.listed)
		} else {
			expired = append(expired, sn.listed)
		}
	}
	return legit, expired
}

func (r *runner) pressure() bool { return r.sc.CacheSize != 0 && r.bound > r.sc.CacheSize }

// outcome of one check as the caller observed it.
type outcome struct {
	blocked bool
	failed  bool // the check reported failure (error / SERVFAIL) instead of a verdict
	detail  string
}

func (r *runner) viaDNS(op Op) (o outcome, err error) {
	q := &dnsnode.Query{Proto: "udp", Addr: netip.MustParseAddrPort("192.0.2.9:40000"), Name: op.Host, Qtype: op.Qtype}
	rep := r.n.Do(q)
	kernel.Wait()
	if rep.WireErr != nil {
		return o, kernel.Violationf("malformed-reply", "%s %s: %v", op.Host, dns.Type(op.Qtype), rep.WireErr)
	}
	m := rep.Msg
	want := sbBlockIP
	if r.sc.Slot == "parental" {
		want = parBlockIP
	}
	forwarded := len(rep.Exchanges) > 0
	for _, e := range rep.Exchanges {
		if !strings.EqualFold(e.Name, dns.Fqdn(op.Host)) || e.Qtype != op.Qtype {
			return o, kernel.Violationf("forwarded-other-question", "%s %s: the resolver upstream was asked %s %s", op.Host, dns.Type(op.Qtype), e.Name, dns.Type(e.Qtype))
		}
	}
	switch {
	case m == nil:
		o.failed = true
		o.detail = fmt.Sprintf("no reply (err=%v)", rep.Err)
	case m.Rcode == dns.RcodeServerFailure && len(m.Answer) == 0 && !forwarded:
		o.failed = true
		o.detail = "SERVFAIL"
	case forwarded:
		// Not blocked: the resolver's answer must have come through.
		o.detail = fmt.Sprintf("forwarded, rcode=%s ans=%d", dns.RcodeToString[m.Rcode], len(m.Answer))
		exp := env.DefaultAnswer(q.NewReq())
		if len(m.Answer) != len(exp.Answer) {
			return o, kernel.Violationf("forwarded-answer-changed", "%s %s: resolver answered %v, client got %v", op.Host, dns.Type(op.Qtype), exp.Answer, m.Answer)
		}
	default:
		o.blocked = true
		o.detail = fmt.Sprintf("answered locally, rcode=%s ans=%d", dns.RcodeToString[m.Rcode], len(m.Answer))
		if m.Rcode != dns.RcodeSuccess {
			return o, kernel.Violationf("blocked-reply-shape", "%s %s: answered locally with rcode %s:\n%s", op.Host, dns.Type(op.Qtype), dns.RcodeToString[m.Rcode], m)
		}
		if op.Qtype == dns.TypeA {
			if len(m.Answer) != 1 {
				return o, kernel.Violationf("blocked-reply-shape", "%s A: want one A record %s:\n%s", op.Host, want, m)
			}
			a, ok := m.Answer[0].(*dns.A)
			if !ok || a.A.String() != want {
				return o, kernel.Violationf("blocked-reply-shape", "%s A: want the %s block address %s:\n%s", op.Host, r.sc.Slot, want, m)
			}
		} else if len(m.Answer) != 0 {
			return o, kernel.Violationf("blocked-reply-shape", "%s %s: want an empty answer:\n%s", op.Host, dns.Type(op.Qtype), m)
		}
	}
	return o, nil
}

func (r *runner) check(i int, op Op) error {
	host := strings.ToLower(op.Host)
	cands := candidates(host)
	var (
		candHashes []hash
		allowed    = map[string]string{} // hex prefix -> candidate
		truth      bool
		listed     string
	)
	for _, c := range cands {
		h := sum(c)
		candHashes = append(candHashes, h)
		allowed[pfxHex(pfxOf(h))] = c
		if r.lk.db[h] && !truth {
			truth, listed = true, c
		}
	}
	lk := r.lk
	lk.fault, lk.extra, lk.fmtK, lk.cur = op.Fault, op.Extra, op.Fmt, candHashes
	lk.fired, lk.hashesSent, lk.groups, lk.askedNow = "", 0, 0, map[pfx]bool{}
	n0 := len(lk.log)
	// Reach: before this check, the newest answer about a candidate's prefix is
	// past the cache time and says something else than the database does now.
	for _, h := range candHashes {
		if sn := lk.snaps[pfxOf(h)]; len(sn) > 0 && time.Since(sn[len(sn)-1].at) > r.cacheTime() && sn[len(sn)-1].listed[h] != lk.db[h] {
			r.c.Probe("check_after_expiry_of_changed_verdict")
			break
		}
	}

	var o outcome
	switch op.Via {
	case "direct":
		// Checker.Check is called by filtering.CheckHost with the lower-case
		// name.
		b, err := r.chk.Check(host)
		kernel.Wait()
		o = outcome{blocked: b, failed: err != nil, detail: fmt.Sprintf("blocked=%v err=%v", b, err)}
	case "filter":
		setts := r.n.Filter.Settings()
		setts.ProtectionEnabled = true
		res, err := r.n.Filter.CheckHost(op.Host, op.Qtype, setts)
		kernel.Wait()
		want := filtering.FilteredSafeBrowsing
		if r.sc.Slot == "parental" {
			want = filtering.FilteredParental
		}
		if err == nil && res.Reason != want && res.Reason != filtering.NotFilteredNotFound {
			return kernel.Violationf("filter-other-reason", "CheckHost(%q): reason %s", op.Host, res.Reason)
		}
		o = outcome{blocked: err == nil && res.Reason == want && res.IsFiltered, failed: err != nil, detail: fmt.Sprintf("reason=%s filtered=%v err=%v", res.Reason, res.IsFiltered, err)}
	case "dns":
		var err error
		if o, err = r.viaDNS(op); err != nil {
			return err
		}
	default:
		return fmt.Errorf("harness: unknown via %q", op.Via)
	}
	lk.fault, lk.extra = "", nil
	qs := lk.log[n0:]
	r.bound += 64 * uint(lk.groups+lk.hashesSent)

	// What was sent; the event log must not depend on anything the property
	// leaves open, but with a constant database and the single-prefix regime
	// the questions are a function of the scenario.
	var qnames []string
	for _, q := range qs {
		qnames = append(qnames, q.name)
	}
	res := "clean"
	switch {
	case o.failed:
		res = "failed"
	case o.blocked:
		res = "blocked"
	}
	r.c.Eventf("check %d %s %s truth=%v(%s) fault=%s fired=%s -> %s [%s] lookups=%v", i, op.Via, op.Host, truth, listed, op.Fault, lk.fired, res, o.detail, qnames)

	// ---- privacy: nothing but allowed prefixes in any question.
	icannPfx := map[string]string{}
	for _, s := range icannParents(host) {
		icannPfx[pfxHex(pfxOf(sum(s)))] = s
	}
	hostLabels := strings.Split(host, ".")
	// The longest public-suffix rule matching the host is a private one.
	_, longestICANN := publicsuffix.PublicSuffix(host)
	underPrivate := !longestICANN && icannSuffix(host) != ""
	for _, q := range qs {
		lower := strings.ToLower(q.name)
		if !strings.HasSuffix(lower, "."+r.sc.Suffix) {
			return kernel.Violationf("question-grammar", "check of %q: question %q does not end in .%s", op.Host, q.name, r.sc.Suffix)
		}
		head := strings.TrimSuffix(lower, "."+r.sc.Suffix)
		if strings.Contains(head, host) {
			return kernel.Violationf("name-disclosed", "check of %q: question %q contains the name", op.Host, q.name)
		}
		groups := strings.Split(head, ".")
		for _, g := range groups {
			if _, ok := allowed[g]; ok {
				continue
			}
			if s, ok := icannPfx[g]; ok {
				cls := "icann-suffix-prefix-disclosed"
				if underPrivate {
					cls += "-under-private-suffix"
				}
				v := kernel.Violationf(cls, "check of %q: question %q carries %s, the hash prefix of %q, an ICANN public suffix, which the statement excludes (allowed: %v)", op.Host, q.name, g, s, allowed)
				if r.c.Tolerate(v) || replayTolerated[v.Class] {
					continue
				}
				return v
			}
			b, err := hex.DecodeString(g)
			if err != nil || len(b) != 2 {
				cls := "question-grammar"
				if contains(hostLabels, g) {
					cls = "name-disclosed"
				}
				return kernel.Violationf(cls, "check of %q: question %q has group %q, which is not a 2-byte prefix in hex (allowed: %v)", op.Host, q.name, g, allowed)
			}
			return kernel.Violationf("foreign-prefix-disclosed", "check of %q: question %q carries prefix %s, which is the hash prefix of none of %v", op.Host, q.name, g, cands)
		}
		if q.qtype != dns.TypeTXT {
			return kernel.Violationf("question-grammar", "check of %q: question %q has type %s, not TXT", op.Host, q.name, dns.Type(q.qtype))
		}
	}

	// ---- reach probes.
	if truth {
		r.c.Probe("truth_blocked")
	} else {
		r.c.Probe("truth_clean")
	}
	switch {
	case len(cands) == 0:
		r.c.Probe("no_candidates")
	case len(qs) == 0:
		r.c.Probe("answered_from_cache")
		if truth {
			r.c.Probe("cache_hit_blocked")
		}
	default:
		r.c.Probe("lookup_sent")
		if lk.groups < len(cands) {
			r.c.Probe("partial_lookup")
		}
		if t0, ok := r.fullyLooked[host]; ok && time.Since(t0) > time.Duration(r.sc.CacheTimeS)*time.Second {
			r.c.Probe("expired_refetch")
		}
		if !o.failed {
			r.fullyLooked[host] = time.Now()
		}
	}
	if len(strings.Split(host, ".")) > 4 {
		r.c.Probe("host_over_4_labels")
	}
	if !truth {
		for _, h := range candHashes {
			if len(lk.byPfx[pfxOf(h)]) > 0 {
				r.c.Probe("clean_under_listed_prefix")
				break
			}
		}
	} else if n := len(lk.byPfx[pfxOf(sum(listed))]); n > 1 {
		r.c.Probe("listed_with_prefix_sibling")
		if n >= 5 {
			r.c.Probe("listed_under_crowded_prefix")
			if len(qs) == 0 {
				r.c.Probe("cache_hit_blocked_crowded_prefix")
			}
		}
	}
	if r.pressure() {
		r.c.Probe("lru_pressure")
	}

	// ---- verdict.
	if o.failed {
		if lk.fired == "lookup_error" {
			// The lookup failed: the check may fail (it must not give a wrong
			// verdict, and later checks must not suffer).
			r.c.Probe("check_failed_on_lookup_error")
			return nil
		}
		return kernel.Violationf("unexpected-check-failure", "check %d of %q (%s): failed (%s) although the lookup service did not fail (fault fired: %q)", i, op.Host, op.Via, o.detail, lk.fired)
	}
	// Which verdicts the statement allows now: per prefix group of candidates,
	// the legitimate sources (see verdictSources).  "blocked" needs one group
	// with a source that lists a candidate, "clean" needs for every group a
	// source that lists none.  With a database that did not change since the
	// answers were given this is "verdict == ground truth".
	lookupOK := len(qs) > 0 && lk.fired != "lookup_error"
	var groups []*pgroup
	for ci, h := range candHashes {
		var g *pgroup
		for _, x := range groups {
			if x.p == pfxOf(h) {
				g = x
			}
		}
		if g == nil {
			g = &pgroup{p: pfxOf(h)}
			groups = append(groups, g)
		}
		g.hs = append(g.hs, h)
		g.names = append(g.names, cands[ci])
	}
	mayBlock, mayClean := false, true
	var noClean *pgroup // first group without a legitimate "not listed" source
	staleClean, staleBlock := false, false
	for _, g := range groups {
		legit, expired := r.verdictSources(g.p, lookupOK && lk.askedNow[g.p])
		canClean := false
		for _, src := range legit {
			if g.listedIn(src) {
				mayBlock = true
			} else {
				canClean = true
			}
		}
		for _, src := range expired {
			if g.listedIn(src) {
				staleBlock = true
			} else if !canClean {
				staleClean = true
			}
		}
		if !canClean {
			mayClean = false
			if noClean == nil {
				noClean = g
			}
		}
	}
	if (o.blocked && mayBlock) || (!o.blocked && mayClean) {
		if o.blocked != truth {
			// The database changed; an entry within its lifetime still answers.
			r.c.Probe("older_verdict_served_within_cache_time")
		}
		return nil
	}
	// The part of the verdict that decides came from the cache if its prefix
	// was not asked for in this check.
	fromCache := len(qs) == 0
	if !o.blocked && noClean != nil && !lk.askedNow[noClean.p] {
		fromCache = true
	}
	var v *kernel.Violation
	desc := fmt.Sprintf("check %d of %q via %s: got blocked=%v (%s), the service lists now: blocked=%v (candidates %v, listed %q); lookups in this check: %v", i, op.Host, op.Via, o.blocked, o.detail, truth, cands, listed, qnames)
	switch {
	case o.blocked:
		// Blocked although no legitimate source lists a candidate's full hash.
		for _, s := range icannParents(host) {
			h := sum(s)
			was := lk.db[h]
			for _, sn := range lk.snaps[pfxOf(h)] {
				// ... or listed it in an answer the checker may have cached.
				was = was || sn.listed[h]
			}
			if was {
				cls := "blocked-by-icann-suffix-hash"
				if underPrivate {
					cls += "-under-private-suffix"
				}
				v = kernel.Violationf(cls, "%s; the database lists (or listed, in an earlier answer) %q, an ICANN public suffix above the name, which the statement excludes from the names that decide", desc, s)
			}
		}
		switch {
		case v != nil:
		case fromCache && staleBlock:
			v = kernel.Violationf("stale-block-after-expiry", "%s; the only answers of the service that listed a candidate are older than the cache time (%s)", desc, r.cacheTime())
		case fromCache:
			v = kernel.Violationf("cached-block-for-clean-name", "%s", desc)
		default:
			v = kernel.Violationf("fresh-block-for-clean-name", "%s", desc)
		}
	case lk.fired == "lookup_error":
		v = kernel.Violationf("verdict-after-lookup-error", "%s; the lookup failed, yet a verdict was returned and it is wrong", desc)
	case fromCache:
		switch {
		case r.pressure():
			v = kernel.Violationf("cached-clean-for-listed-name-under-lru-pressure", "%s; cache size %d bytes", desc, r.sc.CacheSize)
		case staleClean:
			v = kernel.Violationf("stale-clean-after-expiry", "%s; %v (prefix %s) was not asked about, and the only answers of the service that did not list it are older than the cache time (%s)", desc, noClean.names, pfxHex(noClean.p), r.cacheTime())
		default:
			v = kernel.Violationf("cached-clean-for-listed-name", "%s", desc)
		}
	default:
		v = kernel.Violationf("fresh-clean-for-listed-name", "%s", desc)
	}
	if r.c.Tolerate(v) || replayTolerated[v.Class] {
		// A listed finding: the cache is wrong from here on; carry on with a
		// fresh checker (empty cache), as after a restart.
		r.c.Eventf("listed finding %s: cache reset", v.Class)
		r.newChecker()
		return nil
	}
	return v
}

// replayTolerated works around the driver not passing the list of known
// findings to a replay process: when replaying a recorded scenario, the listed
// classes other than the recorded one are carried past exactly as during
// exploration, so that the replay reaches the recorded violation.
var replayTolerated = func() map[string]bool {
	out := map[string]bool{}
	path := os.Getenv("VERIF_REPLAY")
	if path == "" || os.Getenv("VERIF_KNOWN") != "" {
		return out
	}
	var rf struct {
		Class string `json:"class"`
	}
	if b, err := os.ReadFile(path); err == nil {
		_ = json.Unmarshal(b, &rf)
	}
	for _, dir := range []string{"props/c19", "."} {
		b, err := os.ReadFile(dir + "/known_findings.jsonl")
		if err != nil {
			continue
		}
		for _, line := range strings.Split(string(b), "\n") {
			var k struct {
				Class string `json:"class"`
			}
			if json.Unmarshal([]byte(line), &k) == nil && k.Class != "" && k.Class != rf.Class {
				out[k.Class] = true
			}
		}
		break
	}
	return out
}()

// Run executes one scenario.
func Run(t *testing.T, scAny any, c *kernel.Ctx) error {
	sc := scAny.(*Scenario)
	dnsnode.InitProcess()
	dir, err := kernel.TempDir("c19")
	if err != nil {
		return err
	}
	defer os.RemoveAll(dir)
	return kernel.Bubble(t, func() error {
		lk := &lookup{suffix: sc.Suffix, single: sc.single(), db: map[hash]bool{}, byPfx: map[pfx][]hash{}, named: map[pfx][]hash{}, fill: map[pfx]int{}, c: c}
		for _, s := range sc.DB {
			lk.list(s)
		}
		for _, f := range sc.Fill {
			lk.setFill(f)
		}
		r := &runner{sc: sc, c: c, lk: lk, chk: &swapChecker{}}
		r.newChecker()

		up := &env.Upstream{Addr: "sim-upstream:53", Answer: env.DefaultAnswer, Latency: 5 * time.Millisecond}
		cfg := &dnsnode.Config{Dir: dir, ListServer: env.NewListServer(), Upstream: up, UpTimeout: 2 * time.Second}
		cfg.Filtering = filtering.Config{
			ProtectionEnabled: true, FilteringEnabled: !sc.FilteringOff,
			SafeBrowsingEnabled: sc.Slot == "safebrowsing", ParentalEnabled: sc.Slot == "parental",
			SafeBrowsingBlockHost: sbBlockIP, ParentalBlockHost: parBlockIP,
			FiltersUpdateIntervalHours: 24, CacheTime: 30, BlockedResponseTTL: 10,
			BlockingMode: filtering.BlockingModeDefault,
		}
		if sc.Slot == "safebrowsing" {
			cfg.SafeBrowsing = r.chk
		} else {
			cfg.Parental = r.chk
		}
		cfg.DNS = dnsforward.Config{CacheSize: 0, UpstreamMode: dnsforward.UpstreamModeLoadBalance}
		n, err := dnsnode.New(cfg)
		if err != nil {
			return err
		}
		defer n.Close()
		r.n = n
		kernel.Wait()

		for i, op := range sc.Ops {
			switch op.K {
			case "check":
				if err := r.check(i, op); err != nil {
					return err
				}
			case "db":
				r.setListed(op)
				c.Eventf("db %d add=%v del=%v fill=%v", i, op.Add, op.Del, op.Fill)
			case "advance":
				d := time.Duration(op.Ms) * time.Millisecond
				time.Sleep(d)
				kernel.Wait()
				c.SimTime += d
				c.Fault("clock_advance")
				c.Eventf("advance %d %s", i, d)
			default:
				return fmt.Errorf("harness: unknown op %q", op.K)
			}
			c.Step()
		}
		return nil
	})
}

var _ = sort.Strings

// Prop is the registration.
var Prop = &kernel.Property{
	ID:    "C19",
	Level: "exploration",
	Rule: "seeded histories (rapid): a lookup-service database drawn from the label-suffixes of the pool hosts (full names beyond the four-label cut and public suffixes included as entries that must not decide anything) plus brute-forced names whose SHA-256 shares the 2-byte prefix of a listed or of a clean candidate, plus 0..12 filler full hashes (of no queried name) under the prefix of listed names, pool hosts and their parents, so that one prefix carries up to a dozen hashes (initially and changed by database operations); pool hosts of 1..8 labels under ICANN (com, co.uk, org), private (github.io, blogspot.com, s3.amazonaws.com) and unknown (internal, test, single label) suffixes, mixed case; 10..80 ops = checks through Checker.Check / DNSFilter.CheckHost / the UDP request path (A, AAAA, TXT), all sharing one cache (unlimited, 1 MiB, or 10..512 bytes) with entry lifetime 1 s..1 h, clock advances 0.4 s..1 d, and changes of the service's database between checks (pool hosts, their parents, names beyond the four-label cut, public suffixes and prefix partners become listed / stop being listed); lookup faults error / malformed TXT strings derived from the host's own hashes (wrong length, non-hex, empty, split) / non-TXT records / unrelated full hashes; " +
		"non-trivial = at least one check answered from the cache AND one lookup sent AND both a listed and a clean name checked AND at least one fault fired or the clock advanced; distinct = distinct scenario digests",
	Gen: Gen,
	New: func() any { return &Scenario{} },
	Run: Run,
	NonTrivial: func(_ any, c *kernel.Ctx) bool {
		nf := 0
		for _, v := range c.Faults {
			nf += v
		}
		return c.Probes["answered_from_cache"] > 0 && c.Probes["lookup_sent"] > 0 && c.Probes["truth_blocked"] > 0 && c.Probes["truth_clean"] > 0 && nf > 0
	},
	Real: []string{"internal/filtering/hashprefix (Checker: sub-domain enumeration, question, answer processing, cache)", "golibs/cache (LRU)", "golang.org/x/net/publicsuffix as used by hashprefix", "internal/filtering (DNSFilter.CheckHost, checkSafeBrowsing / checkParental)", "internal/dnsforward request pipeline + blocked-host response", "dnsproxy request path"},
	Stub: []string{"hash-prefix lookup service (upstream.Upstream stub: database changed by generated operations between checks, logs every question; seeded faults)", "resolver upstream (logs every question)", "client socket", "query log and statistics (recorders)", "wall clock (synctest)"},
	Assumptions: []string{
		"golang.org/x/net/publicsuffix is the trusted source of what an ICANN public suffix is (the reference walks over private rules to the ICANN rule above them)",
		"the lookup service always returns every listed hash under every asked prefix; malformed strings and foreign records are added to that answer, never replace it (otherwise ground truth would not be defined)",
		"Checker.Check is given lower-case names (its only caller, filtering.CheckHost, lower-cases); mixed case enters through CheckHost and the DNS path",
		"hashprefix stores an answer by ranging over a Go map, so with a cache small enough to evict, answers with full hashes under two or more prefixes make the LRU order differ from run to run; such cases are not generated (small caches: every pool host has at most one listed prefix among its candidates; multi-prefix answers are exercised with the 1 MiB and unlimited caches)",
		"outside the statement's quantifier and therefore not generated: a lookup service that answers with a failure response code (SERVFAIL; hashprefix reads only the answer section, so such a reply counts as 'nothing listed' and is cached as such), and a service that answers for listed prefixes it was not asked about (hashprefix stores every prefix an answer mentions as complete knowledge about it); unrelated hashes are only added under prefixes that are unlisted or asked for in the same question",
		"cache clause as modelled: a verdict that differs from what the service lists now is accepted only if the prefix concerned was not asked about in this check and an earlier answer about it, not older than the configured cache time (boundary inclusive), supports the verdict; whether a lookup is sent after expiry when the verdict would be the same is not asserted; early expiry (1 s granularity of the stored expiry) is allowed",
		"an answer that carries an unrelated full hash under a prefix that was not asked about (and is unlisted at that moment) counts as an answer about that prefix: hashprefix caches it as such, and the statement does not say otherwise",
	},
	FaultKinds: append([]string{"clock_advance", "db_change"}, faultKinds...),
	ProbeNames: []string{"truth_blocked", "truth_clean", "answered_from_cache", "cache_hit_blocked", "lookup_sent", "partial_lookup", "expired_refetch", "no_candidates", "host_over_4_labels", "clean_under_listed_prefix", "listed_with_prefix_sibling", "lru_pressure", "check_failed_on_lookup_error",
		"listed_while_clean_answer_cached", "check_after_expiry_of_changed_verdict", "older_verdict_served_within_cache_time",
		"listed_under_crowded_prefix", "cache_hit_blocked_crowded_prefix"},
}
