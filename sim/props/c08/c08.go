// Package c08 decides property C08 (names on the ignore lists and clients
// marked as ignored never reach the query log or the statistics, neither in
// memory nor on disk; the log API does not return entries whose name or client
// is currently ignored; with anonymisation on every stored or reported client
// address is masked) by deterministic simulation on engine E1 with the REAL
// query log (memory ring + file on tmpfs) and the REAL statistics (bbolt),
// wired with the real home callbacks, under live changes of ignore lists,
// anonymisation and client flags, flushes and DHCP-identified clients.
package c08

import (
	"bufio"
	"bytes"
	"context"
	"encoding/json"
	"fmt"
	"log/slog"
	"net"
	"net/http"
	"net/netip"
	"os"
	"path/filepath"
	"strings"
	"testing"
	"time"

	"github.com/AdguardTeam/AdGuardHome/internal/aghnet"
	"github.com/AdguardTeam/AdGuardHome/internal/client"
	"github.com/AdguardTeam/AdGuardHome/internal/dhcpsvc"
	"github.com/AdguardTeam/AdGuardHome/internal/dnsforward"
	"github.com/AdguardTeam/AdGuardHome/internal/filtering"
	"github.com/AdguardTeam/AdGuardHome/internal/home"
	"github.com/AdguardTeam/AdGuardHome/internal/querylog"
	"github.com/AdguardTeam/AdGuardHome/internal/stats"
	"github.com/AdguardTeam/AdGuardHome/verifsim/dnsnode"
	"github.com/AdguardTeam/AdGuardHome/verifsim/env"
	"github.com/AdguardTeam/AdGuardHome/verifsim/kernel"
	"github.com/AdguardTeam/urlfilter"
	"github.com/AdguardTeam/urlfilter/filterlist"
	"github.com/miekg/dns"
	"pgregory.net/rapid"
)

// Client is one persistent client.
type Client struct {
	Name        string `json:"name"`
	ID          string `json:"id"` // IP, CIDR, MAC or ClientID
	IgnoreLog   bool   `json:"ignore_log"`
	IgnoreStats bool   `json:"ignore_stats"`
}

// Op is one generated operation.
type Op struct {
	Kind  string `json:"k"`
	Name  string `json:"name,omitempty"`
	Qtype uint16 `json:"qt,omitempty"`
	Addr  string `json:"addr,omitempty"`
	CID   string `json:"cid,omitempty"`
	// config
	Ignored []string `json:"ignored,omitempty"`
	Anon    bool     `json:"anon,omitempty"`
	// client flags
	Client int  `json:"client,omitempty"`
	Log    bool `json:"log,omitempty"`
	Stats  bool `json:"stats,omitempty"`
}

// Scenario is one case.
type Scenario struct {
	LogIgnored   []string `json:"log_ignored"`
	StatsIgnored []string `json:"stats_ignored"`
	Anon         bool     `json:"anon"`
	RefuseAny    bool     `json:"refuse_any"`
	MemSize      uint     `json:"mem_size"`
	Clients      []Client `json:"clients"`
	Ops          []Op     `json:"ops"`
}

const serverName = "dns.example"

var (
	patterns = []string{"secret.test", "||hidden.test^", "*.wild.test", "|.^", "||example^", "Mixed.Test", "||sub.deep.test^"}
	qnames   = []string{"secret.test", "SECRET.test", "a.secret.test", "hidden.test", "x.hidden.test", "HIDDEN.TEST", "a.wild.test", "wild.test", ".", "ok.example", "example", "mixed.test", "fine.test", "plain.test", "sub.deep.test", "deep.test"}
	srcAddrs = []string{"192.0.2.77", "192.0.2.78", "192.0.3.9", "198.51.100.200", "10.7.7.7", "2001:db8:1:2:3:4:5:6", "2001:db8:1:2::9", "::ffff:192.0.2.77"}
	clientID = []string{"192.0.2.77", "192.0.2.0/24", "192.0.0.0/16", "2001:db8:1:2:3:4:5:6", "2001:db8:1::/48", "aa:bb:cc:dd:ee:01", "phone", "tv", "10.7.7.7"}
	cids     = []string{"phone", "tv", "other"}
	leaseMAC = map[string]string{"198.51.100.200": "aa:bb:cc:dd:ee:01"}
	qtypes   = []uint16{dns.TypeA, dns.TypeAAAA, dns.TypeTXT, dns.TypeANY}
)

func genIgnored(t *rapid.T, label string) []string {
	return rapid.SliceOfNDistinct(rapid.SampledFrom(patterns), 0, 3, rapid.ID[string]).Draw(t, label)
}

// Gen draws a scenario.
func Gen(t *rapid.T, tier string) any {
	sc := &Scenario{LogIgnored: genIgnored(t, "log_ignored"), StatsIgnored: genIgnored(t, "stats_ignored"),
		Anon: rapid.Bool().Draw(t, "anon"), RefuseAny: rapid.Bool().Draw(t, "refuse_any"),
		MemSize: uint(rapid.SampledFrom([]int{1, 2, 3, 5, 50}).Draw(t, "mem_size"))}
	ids := rapid.SliceOfNDistinct(rapid.SampledFrom(clientID), 0, 3, rapid.ID[string]).Draw(t, "client_ids")
	for i, id := range ids {
		sc.Clients = append(sc.Clients, Client{Name: fmt.Sprintf("c%d", i), ID: id, IgnoreLog: rapid.Bool().Draw(t, "ign_log"), IgnoreStats: rapid.Bool().Draw(t, "ign_stats")})
	}
	maxOps := 30
	if tier == "thorough" {
		maxOps = 80
	}
	for i, n := 0, rapid.IntRange(4, maxOps).Draw(t, "n_ops"); i < n; i++ {
		var op Op
		switch k := rapid.IntRange(0, 99).Draw(t, "kind"); {
		case k < 72:
			op = Op{Kind: "query", Name: rapid.SampledFrom(qnames).Draw(t, "qname"), Qtype: rapid.SampledFrom(qtypes).Draw(t, "qtype"), Addr: rapid.SampledFrom(srcAddrs).Draw(t, "addr")}
			if rapid.IntRange(0, 3).Draw(t, "has_cid") == 0 {
				op.CID = rapid.SampledFrom(cids).Draw(t, "cid")
			}
		case k < 78:
			op = Op{Kind: "log_config", Ignored: genIgnored(t, "new_log_ignored"), Anon: rapid.Bool().Draw(t, "new_anon")}
		case k < 80:
			// the deprecated endpoint: only changes anonymisation here
			op = Op{Kind: "log_config_legacy", Anon: rapid.Bool().Draw(t, "legacy_anon")}
		case k < 86:
			op = Op{Kind: "stats_config", Ignored: genIgnored(t, "new_stats_ignored")}
		case k < 93:
			op = Op{Kind: "client_flags", Client: rapid.IntRange(0, 2).Draw(t, "cl_idx"), Log: rapid.Bool().Draw(t, "cl_log"), Stats: rapid.Bool().Draw(t, "cl_stats")}
		case k < 97:
			op = Op{Kind: "flush"}
		default:
			op = Op{Kind: "advance"}
		}
		sc.Ops = append(sc.Ops, op)
	}
	return sc
}

// ---- reference model ---------------------------------------------------------

type ignoreSet struct {
	eng *urlfilter.DNSEngine
	st  *filterlist.RuleStorage
}

func newIgnoreSet(p []string) *ignoreSet {
	st, err := filterlist.NewRuleStorage([]filterlist.RuleList{&filterlist.StringRuleList{ID: 1, RulesText: strings.ToLower(strings.Join(p, "\n")), IgnoreCosmetic: true}})
	if err != nil {
		panic(err)
	}
	return &ignoreSet{eng: urlfilter.NewDNSEngine(st), st: st}
}

func (s *ignoreSet) has(host string) bool { _, ok := s.eng.Match(host); return ok }
func (s *ignoreSet) close()               { _ = s.st.Close() }

type rec struct {
	host     string
	ip       string // as it must be stored
	cid      string
	optional bool // may or may not have been recorded (ANY with ANY-refusal)
	// shadow marks a record that must NOT exist: the request came from an
	// ignored client, but its masked address alone does not identify that
	// client.  If such a record shows up it is reported under its own class.
	shadow bool
	anon   bool
}

type mstate struct {
	logIgn, statIgn *ignoreSet
	anon            bool
	clients         []Client
	log             []rec // expected query-log content, oldest first
	counted         int   // expected statistics total
	countedOpt      int   // optional ones
	countedShadow   int   // must not be counted: ignored client hidden behind a masked address
	domains         map[string]bool
	statClients     map[string]bool
}

// attribute returns the index of the persistent client owning (cid, addr) by
// ClientID > exact IP > most specific CIDR > MAC of the lease, or -1.
func (m *mstate) attribute(cid string, addr netip.Addr) int {
	addr = addr.Unmap().WithZone("")
	for i, c := range m.clients {
		if cid != "" && c.ID == cid {
			return i
		}
	}
	for i, c := range m.clients {
		if ip, err := netip.ParseAddr(c.ID); err == nil && ip == addr {
			return i
		}
	}
	best, bits := -1, -1
	for i, c := range m.clients {
		if p, err := netip.ParsePrefix(c.ID); err == nil && p.Contains(addr) && p.Bits() > bits {
			best, bits = i, p.Bits()
		}
	}
	if best >= 0 {
		return best
	}
	if mac, ok := leaseMAC[addr.String()]; ok {
		for i, c := range m.clients {
			if c.ID == mac {
				return i
			}
		}
	}
	return -1
}

func mask(addr netip.Addr) netip.Addr {
	addr = addr.Unmap()
	b := addr.AsSlice()
	if addr.Is4() {
		b[2], b[3] = 0, 0
	} else {
		for i := 6; i < 16; i++ {
			b[i] = 0
		}
	}
	out, _ := netip.AddrFromSlice(b)
	return out
}

func isMasked(s string) bool {
	a, err := netip.ParseAddr(s)
	if err != nil {
		return true // not an address (a ClientID)
	}
	return mask(a) == a.Unmap()
}

// ---- run ---------------------------------------------------------------------

type simDHCP struct{}

func (simDHCP) Leases() []*dhcpsvc.Lease   { return nil }
func (simDHCP) HostByIP(netip.Addr) string { return "" }
func (simDHCP) MACByIP(ip netip.Addr) net.HardwareAddr {
	if m, ok := leaseMAC[ip.String()]; ok {
		mac, _ := net.ParseMAC(m)
		return mac
	}
	return nil
}

type runner struct {
	c    *kernel.Ctx
	sc   *Scenario
	n    *dnsnode.Node
	ql   querylog.QueryLog
	st   *stats.StatsCtx
	m    *mstate
	dir  string
	find func([]string) (*querylog.Client, error)
	cnt  func([]string) bool
}

func (r *runner) api(method, path string, body any) (int, []byte, error) {
	var b []byte
	if body != nil {
		b, _ = json.Marshal(body)
	}
	code, resp, err := r.n.Mux.Do(method, path, b)
	if err != nil {
		if hp, ok := err.(*env.HandlerPanic); ok {
			return 0, nil, kernel.Violationf("api-panic", "%v", hp)
		}
		return 0, nil, err
	}
	return code, resp, nil
}

func (r *runner) query(op Op) error {
	addr := netip.MustParseAddr(op.Addr)
	q := &dnsnode.Query{Proto: "udp", Addr: netip.AddrPortFrom(addr, 5353), Name: op.Name, Qtype: op.Qtype}
	if op.CID != "" {
		q.Proto, q.SNI = "tls", op.CID+"."+serverName
	}
	m := r.m
	host := strings.ToLower(strings.TrimSuffix(op.Name, "."))
	if op.Name == "." {
		host = "."
	}
	owner := m.attribute(op.CID, addr)
	optional := op.Qtype == dns.TypeANY && r.sc.RefuseAny
	stored := addr.Unmap().String()
	if m.anon {
		stored = mask(addr).String()
	}
	wantLog := !m.logIgn.has(host) && !(owner >= 0 && m.clients[owner].IgnoreLog)
	wantCount := !m.statIgn.has(host) && !(owner >= 0 && m.clients[owner].IgnoreStats)
	rep := r.n.Do(q)
	kernel.Wait()
	if rep.WireErr != nil {
		return kernel.Violationf("malformed-reply", "%v", rep.WireErr)
	}
	r.c.Eventf("query %s %s cid=%q from %s owner=%d wantLog=%v wantCount=%v opt=%v", op.Name, dns.Type(op.Qtype), op.CID, op.Addr, owner, wantLog, wantCount, optional)
	if wantLog {
		m.log = append(m.log, rec{host: host, ip: stored, cid: op.CID, optional: optional, anon: m.anon})
		r.c.Probe("query_logged")
	} else {
		r.c.Probe("query_not_logged")
		if owner >= 0 && m.clients[owner].IgnoreLog {
			r.c.Probe("ignored_client_query")
			if m.anon {
				r.c.Probe("ignored_client_query_anonymised")
				if o2 := m.attribute(op.CID, mask(addr)); !m.logIgn.has(host) && !(o2 >= 0 && m.clients[o2].IgnoreLog) {
					m.log = append(m.log, rec{host: host, ip: stored, cid: op.CID, shadow: true, anon: true})
				}
			}
		}
	}
	if wantCount {
		if optional {
			m.countedOpt++
		} else {
			m.counted++
			m.domains[host] = true
		}
	} else {
		r.c.Probe("query_not_counted")
		if owner >= 0 && m.clients[owner].IgnoreStats && m.anon && !m.statIgn.has(host) && !optional {
			if o2 := m.attribute(op.CID, mask(addr)); !(o2 >= 0 && m.clients[o2].IgnoreStats) {
				m.countedShadow++
			}
		}
	}
	return nil
}

type fileLine struct {
	QH  string `json:"QH"`
	IP  string `json:"IP"`
	CID string `json:"CID"`
}

func (r *runner) readFile() ([]fileLine, []byte, error) {
	b, err := os.ReadFile(filepath.Join(r.dir, "querylog.json"))
	if os.IsNotExist(err) {
		return nil, nil, nil
	}
	if err != nil {
		return nil, nil, err
	}
	var out []fileLine
	sc := bufio.NewScanner(bytes.NewReader(b))
	sc.Buffer(make([]byte, 1<<20), 1<<20)
	for sc.Scan() {
		if len(bytes.TrimSpace(sc.Bytes())) == 0 {
			continue
		}
		var l fileLine
		if err = json.Unmarshal(sc.Bytes(), &l); err != nil {
			return nil, b, kernel.Violationf("file-garbage", "querylog.json line does not parse: %v: %s", err, sc.Text())
		}
		out = append(out, l)
	}
	return out, b, nil
}

type apiEntry struct {
	Client   string `json:"client"`
	ClientID string `json:"client_id"`
	Question struct {
		Name string `json:"name"`
	} `json:"question"`
}

func (r *runner) readAPI() ([]apiEntry, error) {
	code, body, err := r.api("GET", "/control/querylog?limit=1000", nil)
	if err != nil {
		return nil, err
	}
	if code != http.StatusOK {
		return nil, kernel.Violationf("api-status", "GET /control/querylog -> %d %s", code, body)
	}
	var resp struct {
		Data []apiEntry `json:"data"`
	}
	if err = json.Unmarshal(body, &resp); err != nil {
		return nil, kernel.Violationf("api-json", "%v", err)
	}
	return resp.Data, nil
}

// matchSeq checks that actual (oldest first) can be explained by the expected
// sequence: actual must be a subsequence of expected that contains every
// required record (optional records may be absent; "shadow" records must be
// absent and are only used if there is no explanation without them).  With
// prefixOK, actual only has to explain a prefix of expected.  It returns the
// index of the first actual record that cannot be placed (or -1), a required
// record that is missing (or nil), and the shadow record that had to be used.
func matchSeq(expected []rec, actual []rec, prefixOK bool) (bad int, missing *rec, shadow *rec) {
	same := func(e, a rec) bool { return e.host == a.host && e.ip == a.ip && e.cid == a.cid }
	solve := func(allowShadow bool) (ok bool, used *rec) {
		type key struct{ i, j int }
		memo := map[key]bool{}
		var f func(i, j int) bool
		f = func(i, j int) bool {
			if j == len(actual) {
				if prefixOK {
					return true
				}
				for ; i < len(expected); i++ {
					if !expected[i].optional && !expected[i].shadow {
						return false
					}
				}
				return true
			}
			if i == len(expected) {
				return false
			}
			k := key{i, j}
			if v, ok := memo[k]; ok {
				return v
			}
			res := false
			e := expected[i]
			if same(e, actual[j]) && (!e.shadow || allowShadow) && f(i+1, j+1) {
				res = true
			} else if (e.optional || e.shadow) && f(i+1, j) {
				res = true
			}
			memo[k] = res
			return res
		}
		if !f(0, 0) {
			return false, nil
		}
		// Walk the solution to find a used shadow record.
		i, j := 0, 0
		for j < len(actual) {
			e := expected[i]
			if same(e, actual[j]) && (!e.shadow || allowShadow) && f(i+1, j+1) {
				if e.shadow && used == nil {
					used = &expected[i]
				}
				i, j = i+1, j+1
			} else {
				i++
			}
		}
		return true, used
	}
	if ok, _ := solve(false); ok {
		return -1, nil, nil
	}
	if ok, used := solve(true); ok {
		return -1, nil, used
	}
	// No explanation: produce a diagnostic with a greedy walk.
	i := 0
	for j, a := range actual {
		for i < len(expected) && !same(expected[i], a) {
			if !expected[i].optional && !expected[i].shadow && !prefixOK {
				return -1, &expected[i], nil
			}
			i++
		}
		if i >= len(expected) {
			return j, nil, nil
		}
		i++
	}
	for ; i < len(expected); i++ {
		if !expected[i].optional && !expected[i].shadow {
			return -1, &expected[i], nil
		}
	}
	return len(actual) - 1, nil, nil
}

// shadowViolation reports the presence of a record of an ignored client that
// hid behind its masked address.
func (r *runner) shadowViolation(where string, s *rec) error {
	v := kernel.Violationf("anonymised-ignored-client-logged", "%s holds {name:%q client:%q client_id:%q}: the request came from a client marked 'ignore in query log' (identified by its real address), anonymisation was on, and the record was written all the same because the ignore lookup used the masked address", where, s.host, s.ip, s.cid)
	if r.c.Tolerate(v) {
		return nil
	}
	return v
}

func (r *runner) check() error {
	m := r.m
	// (a) raw file: every line must be a record the model expects, in order;
	// the file holds the oldest part of the log.
	lines, raw, err := r.readFile()
	if err != nil {
		return err
	}
	var fileRecs []rec
	for _, l := range lines {
		fileRecs = append(fileRecs, rec{host: l.QH, ip: l.IP, cid: l.CID})
	}
	bad, _, shadow := matchSeq(m.log, fileRecs, true)
	if bad >= 0 {
		l := lines[bad]
		return r.classify("disk", l.QH, l.IP, l.CID, fmt.Sprintf("querylog.json line %d {QH:%q IP:%q CID:%q} is not a record the reference model allows on disk (ignored name / ignored client / un-masked address, or out of order); expected log (oldest first): %v", bad, l.QH, l.IP, l.CID, m.log))
	}
	if shadow != nil {
		if err = r.shadowViolation("querylog.json", shadow); err != nil {
			return err
		}
	}
	_ = raw
	// (b) API: everything recorded, minus what is currently ignored, newest
	// first; masked on output when anonymisation is on now.
	ents, err := r.readAPI()
	if err != nil {
		return err
	}
	var apiRecs []rec
	for i := len(ents) - 1; i >= 0; i-- {
		e := ents[i]
		if m.anon && !isMasked(e.Client) {
			return kernel.Violationf("api-unmasked-address", "anonymisation is on but GET /control/querylog reports client %q", e.Client)
		}
		apiRecs = append(apiRecs, rec{host: e.Question.Name, ip: e.Client, cid: e.ClientID})
	}
	var visible []rec
	for _, e := range m.log {
		ip := e.ip
		if a, err := netip.ParseAddr(ip); err == nil {
			if m.logIgn.has(e.host) {
				continue
			}
			if o := m.attribute(e.cid, a); o >= 0 && m.clients[o].IgnoreLog {
				continue
			}
			if m.anon {
				ip = mask(a).String()
			}
		}
		visible = append(visible, rec{host: e.host, ip: ip, cid: e.cid, optional: e.optional, shadow: e.shadow})
	}
	bad, miss, shadow := matchSeq(visible, apiRecs, false)
	if shadow != nil && bad < 0 && miss == nil {
		if err = r.shadowViolation("GET /control/querylog", shadow); err != nil {
			return err
		}
	}
	if bad >= 0 || miss != nil {
		if bad >= 0 {
			a := apiRecs[bad]
			return r.classify("api", a.host, a.ip, a.cid, fmt.Sprintf("GET /control/querylog returns {name:%q client:%q client_id:%q} which the reference model does not allow (currently ignored name / client, or never recorded); allowed now (oldest first): %v; api (oldest first): %v", a.host, a.ip, a.cid, visible, apiRecs))
		}
		return kernel.Violationf("log-entry-missing", "record {name:%q client:%q client_id:%q} should be returned by the query-log API but is not; api (oldest first): %v", miss.host, miss.ip, miss.cid, apiRecs)
	}
	// (c) statistics.
	code, body, err := r.api("GET", "/control/stats", nil)
	if err != nil {
		return err
	}
	if code != http.StatusOK {
		return kernel.Violationf("api-status", "GET /control/stats -> %d", code)
	}
	var sr struct {
		Num        uint64              `json:"num_dns_queries"`
		TopQueried []map[string]uint64 `json:"top_queried_domains"`
		TopBlocked []map[string]uint64 `json:"top_blocked_domains"`
		TopClients []map[string]uint64 `json:"top_clients"`
	}
	if err = json.Unmarshal(body, &sr); err != nil {
		return kernel.Violationf("api-json", "%v", err)
	}
	if int(sr.Num) > m.counted+m.countedOpt && int(sr.Num) <= m.counted+m.countedOpt+m.countedShadow {
		v := kernel.Violationf("anonymised-ignored-client-counted", "statistics count %d queries, the reference model allows at most %d: %d request(s) of clients marked 'ignore in statistics' (identified by their real address) were counted because anonymisation was on and the ignore lookup used the masked address", sr.Num, m.counted+m.countedOpt, m.countedShadow)
		if !r.c.Tolerate(v) {
			return v
		}
	} else if int(sr.Num) < m.counted || int(sr.Num) > m.counted+m.countedOpt {
		return r.classifyStats(fmt.Sprintf("statistics count %d queries, the reference model expects %d (+%d optional): an ignored name or client was counted, or a countable one was not", sr.Num, m.counted, m.countedOpt))
	}
	for _, l := range [][]map[string]uint64{sr.TopQueried, sr.TopBlocked} {
		for _, kv := range l {
			for name := range kv {
				if m.statIgn.has(name) {
					return kernel.Violationf("stats-ignored-name", "statistics report the ignored name %q", name)
				}
			}
		}
	}
	for _, kv := range sr.TopClients {
		for cl := range kv {
			if a, err := netip.ParseAddr(cl); err == nil {
				if o := m.attribute("", a); o >= 0 && m.clients[o].IgnoreStats {
					return kernel.Violationf("stats-ignored-client", "statistics report the ignored client %q", cl)
				}
			}
		}
	}
	return nil
}

// classify names the violation after the forbidden content found.
func (r *runner) classify(where, host, ip, cid, msg string) error {
	m := r.m
	class := where + "-forbidden-record"
	a, perr := netip.ParseAddr(ip)
	switch {
	case m.logIgn.has(host) && where == "api":
		class = "api-returns-ignored-name"
	case perr == nil && !isMasked(ip) && m.anon && where == "api":
		class = "api-unmasked-address"
	case perr == nil:
		if o := m.attribute(cid, a); o >= 0 && m.clients[o].IgnoreLog && where == "api" {
			class = "api-returns-ignored-client"
		}
	}
	if strings.HasPrefix(class, "api-returns-ignored") {
		// Is the record on disk, or only in the memory buffer?
		onDisk := false
		lines, _, _ := r.readFile()
		for _, l := range lines {
			lip := l.IP
			if la, err := netip.ParseAddr(lip); err == nil && m.anon {
				lip = mask(la).String()
			}
			if l.QH == host && lip == ip && l.CID == cid {
				onDisk = true
			}
		}
		if !onDisk {
			class += "-from-memory"
		}
	}
	return kernel.Violationf(class, "%s", msg)
}

func (r *runner) classifyStats(msg string) error {
	return kernel.Violationf("stats-count-mismatch", "%s", msg)
}

func (r *runner) apply(op Op) error {
	m := r.m
	switch op.Kind {
	case "query":
		return r.query(op)
	case "log_config":
		code, body, err := r.api("PUT", "/control/querylog/config/update", map[string]any{"enabled": true, "anonymize_client_ip": op.Anon, "interval": 86_400_000, "ignored": orEmpty(op.Ignored)})
		if err != nil {
			return err
		}
		if code != http.StatusOK {
			return fmt.Errorf("harness: querylog config -> %d %s", code, body)
		}
		m.logIgn.close()
		m.logIgn, m.anon = newIgnoreSet(op.Ignored), op.Anon
		r.c.Fault("live_log_config_change")
	case "log_config_legacy":
		code, body, err := r.api("POST", "/control/querylog_config", map[string]any{"anonymize_client_ip": op.Anon})
		if err != nil {
			return err
		}
		if code != http.StatusOK {
			return fmt.Errorf("harness: legacy querylog config -> %d %s", code, body)
		}
		m.anon = op.Anon
		r.c.Fault("live_log_config_change")
		r.c.Probe("legacy_config_endpoint")
	case "stats_config":
		code, body, err := r.api("PUT", "/control/stats/config/update", map[string]any{"enabled": true, "interval": 86_400_000, "ignored": orEmpty(op.Ignored)})
		if err != nil {
			return err
		}
		if code != http.StatusOK {
			return fmt.Errorf("harness: stats config -> %d %s", code, body)
		}
		m.statIgn.close()
		m.statIgn = newIgnoreSet(op.Ignored)
		r.c.Fault("live_stats_config_change")
	case "client_flags":
		if op.Client >= len(m.clients) {
			return nil
		}
		c := &m.clients[op.Client]
		c.IgnoreLog, c.IgnoreStats = op.Log, op.Stats
		p, err := toPersistent(*c)
		if err != nil {
			return err
		}
		if err = r.n.Clients.Update(context.Background(), c.Name, p); err != nil {
			return fmt.Errorf("harness: client update: %w", err)
		}
		r.c.Fault("live_client_flag_change")
	case "flush":
		if err := querylog.VerifFlush(context.Background(), r.ql); err != nil && !strings.Contains(err.Error(), "nothing to write") {
			return fmt.Errorf("harness: flush: %w", err)
		}
		r.c.Fault("flush_to_disk")
	case "advance":
		time.Sleep(7 * time.Second)
		r.c.SimTime += 7 * time.Second
	}
	kernel.Wait()
	return nil
}

func orEmpty(s []string) []string {
	if s == nil {
		return []string{}
	}
	return s
}

func toPersistent(c Client) (*client.Persistent, error) {
	p := &client.Persistent{Name: c.Name, UID: client.MustNewUID(), IgnoreQueryLog: c.IgnoreLog, IgnoreStatistics: c.IgnoreStats}
	if err := p.SetIDs([]string{c.ID}); err != nil {
		return nil, fmt.Errorf("harness: SetIDs: %w", err)
	}
	return p, nil
}

// Run executes one scenario.
func Run(t *testing.T, scAny any, c *kernel.Ctx) error {
	sc := scAny.(*Scenario)
	dnsnode.InitProcess()
	dir, err := kernel.TempDir("c08")
	if err != nil {
		return err
	}
	defer os.RemoveAll(dir)
	return kernel.Bubble(t, func() error {
		time.Sleep(5 * time.Minute) // stay well inside one statistics hour
		r := &runner{c: c, sc: sc, dir: dir}
		r.m = &mstate{logIgn: newIgnoreSet(sc.LogIgnored), statIgn: newIgnoreSet(sc.StatsIgnored), anon: sc.Anon, clients: append([]Client(nil), sc.Clients...), domains: map[string]bool{}}
		defer func() { r.m.logIgn.close(); r.m.statIgn.close() }()
		var anonFn aghnet.IPMutFunc
		if sc.Anon {
			anonFn = querylog.AnonymizeIP
		}
		anonymizer := aghnet.NewIPMut(anonFn)
		mux := env.NewMux()
		logger := slog.New(slog.DiscardHandler)
		logEng, _ := aghnet.NewIgnoreEngine(sc.LogIgnored)
		statEng, _ := aghnet.NewIgnoreEngine(sc.StatsIgnored)
		ql, err := querylog.New(querylog.Config{Logger: logger, Ignored: logEng, Anonymizer: anonymizer, ConfigModified: func() {}, HTTPRegister: mux.Register,
			FindClient: func(ids []string) (*querylog.Client, error) { return r.find(ids) }, BaseDir: dir, RotationIvl: 24 * time.Hour,
			MemSize: sc.MemSize, Enabled: true, FileEnabled: true, AnonymizeClientIP: sc.Anon})
		if err != nil {
			return err
		}
		r.ql = ql
		querylog.VerifInitWeb(ql)
		st, err := stats.New(stats.Config{Logger: logger, Filename: filepath.Join(dir, "stats.db"), Limit: 24 * time.Hour, Enabled: true, Ignored: statEng,
			ConfigModified: func() {}, HTTPRegister: mux.Register, ShouldCountClient: func(ids []string) bool { return r.cnt(ids) }})
		if err != nil {
			return err
		}
		r.st = st
		st.VerifInitWeb()
		defer st.VerifCrash()
		up := &env.Upstream{Addr: "sim-upstream:53", Answer: env.DefaultAnswer}
		cfg := &dnsnode.Config{Dir: dir, ListServer: env.NewListServer(), Upstream: up, UpTimeout: 2 * time.Second, ServerName: serverName,
			QueryLog: ql, Stats: st, Anonymizer: anonymizer, ClientDHCP: simDHCP{}}
		cfg.Filtering = filtering.Config{BlockingMode: filtering.BlockingModeDefault, ProtectionEnabled: true, FilteringEnabled: true, FiltersUpdateIntervalHours: 24}
		cfg.DNS = dnsforward.Config{RefuseAny: sc.RefuseAny}
		for _, cl := range sc.Clients {
			p, err := toPersistent(cl)
			if err != nil {
				return err
			}
			cfg.InitialClients = append(cfg.InitialClients, p)
		}
		n, err := dnsnode.New(cfg)
		if err != nil {
			return err
		}
		defer n.Close()
		r.n = n
		r.find, r.cnt = home.VerifClientFuncs(n.Clients, n.Server)
		// The handlers of query log and statistics live on their own mux;
		// merge them into the node's.
		for _, rt := range mux.Routes() {
			n.Mux.Register(rt.Method, rt.Path, rt.Handler)
		}
		kernel.Wait()
		for i, op := range sc.Ops {
			c.Eventf("op %d %s", i, op.Kind)
			err := r.apply(op)
			if err == nil {
				err = r.check()
			}
			if err != nil {
				if v, ok := err.(*kernel.Violation); ok {
					v.Msg = fmt.Sprintf("op %d (%s): %s", i, op.Kind, v.Msg)
				}
				return err
			}
			c.Step()
		}
		return nil
	})
}

// Prop is the registration.
var Prop = &kernel.Property{
	ID:    "C08",
	Level: "exploration",
	Rule: "seeded histories (rapid): ignore lists for log and statistics (plain names, ||rules^, wildcards, the root |.^, mixed case), persistent clients identified by IP / CIDR / MAC (through a DHCP lease) / ClientID with ignore flags, anonymisation on/off, ANY-refusal on/off, memory sizes 1..50; ops = queries (any case, root, ANY, 8 sources incl. 4-in-6, ClientIDs over TLS) interleaved with live changes of both ignore lists, anonymisation and client flags, forced flushes and clock advances; after every op the raw log file, GET /control/querylog and GET /control/stats are compared with the reference model; " +
		"non-trivial = at least one query was recorded and at least one was withheld from the log or the statistics; distinct = distinct scenario digests",
	Gen: Gen,
	New: func() any { return &Scenario{} },
	Run: Run,
	NonTrivial: func(_ any, c *kernel.Ctx) bool {
		return c.Probes["query_logged"] > 0 && (c.Probes["query_not_logged"]+c.Probes["query_not_counted"] > 0)
	},
	Real:        []string{"internal/querylog (memory ring, file, search, HTTP handlers, config update)", "internal/stats + bbolt", "internal/dnsforward (processQueryLogsAndStats, anonymiser)", "internal/home callbacks findMultiple / shouldCountClient (via VerifClientFuncs)", "internal/client.Storage", "internal/aghnet (IgnoreEngine, IPMut)"},
	Stub:        []string{"upstream resolver", "client sockets", "DHCP lease table (one static lease)", "query-log rotation and statistics flush loops (not started; the case stays inside one hour)"},
	Assumptions: []string{"ignore patterns are matched by urlfilter (trusted) against the lower-cased name", "a request is attributed to an ignored client by its real identity: ClientID > exact IP > most specific CIDR > MAC of the lease", "ANY queries under ANY-refusal may or may not be recorded (the statement does not say)"},
	FaultKinds:  []string{"live_log_config_change", "live_stats_config_change", "live_client_flag_change", "flush_to_disk"},
	ProbeNames:  []string{"query_logged", "query_not_logged", "query_not_counted", "ignored_client_query", "ignored_client_query_anonymised", "legacy_config_endpoint"},
}
