// Package c08 decides property C08 (names on the ignore lists and clients
// marked as ignored never reach the query log or the statistics, neither in
// memory nor on disk; the log API does not return entries whose name or client
// is currently ignored; with anonymisation on every stored or reported client
// address is masked) by deterministic simulation on engine E1 with the REAL
// query log (memory ring + file on tmpfs) and the REAL statistics (bbolt),
// wired with the real home callbacks, under live changes of ignore lists,
// anonymisation and client flags, flushes and DHCP-identified clients.
package c08

import (
	"bufio"
	"bytes"
	"context"
	"encoding/json"
	"fmt"
	"log/slog"
	"net"
	"net/http"
	"net/netip"
	"net/url"
	"os"
	"path/filepath"
	"slices"
	"sort"
	"strings"
	"sync"
	"testing"
	"time"

	"github.com/AdguardTeam/AdGuardHome/internal/aghnet"
	"github.com/AdguardTeam/AdGuardHome/internal/client"
	"github.com/AdguardTeam/AdGuardHome/internal/dhcpsvc"
	"github.com/AdguardTeam/AdGuardHome/internal/dnsforward"
	"github.com/AdguardTeam/AdGuardHome/internal/filtering"
	"github.com/AdguardTeam/AdGuardHome/internal/home"
	"github.com/AdguardTeam/AdGuardHome/internal/querylog"
	"github.com/AdguardTeam/AdGuardHome/internal/stats"
	"github.com/AdguardTeam/AdGuardHome/internal/verifyield"
	"github.com/AdguardTeam/AdGuardHome/verifsim/dnsnode"
	"github.com/AdguardTeam/AdGuardHome/verifsim/env"
	"github.com/AdguardTeam/AdGuardHome/verifsim/kernel"
	"github.com/AdguardTeam/AdGuardHome/verifsim/sched"
	"github.com/AdguardTeam/urlfilter"
	"github.com/AdguardTeam/urlfilter/filterlist"
	"github.com/miekg/dns"
	"pgregory.net/rapid"
)

// Client is one persistent client.
type Client struct {
	Name        string `json:"name"`
	ID          string `json:"id"` // IP, CIDR, MAC or ClientID
	IgnoreLog   bool   `json:"ignore_log"`
	IgnoreStats bool   `json:"ignore_stats"`
}

// Op is one generated operation.
type Op struct {
	Kind  string `json:"k"`
	Name  string `json:"name,omitempty"`
	Qtype uint16 `json:"qt,omitempty"`
	Addr  string `json:"addr,omitempty"`
	CID   string `json:"cid,omitempty"`
	// config
	Ignored []string `json:"ignored,omitempty"`
	Anon    bool     `json:"anon,omitempty"`
	// client flags
	Client int  `json:"client,omitempty"`
	Log    bool `json:"log,omitempty"`
	Stats  bool `json:"stats,omitempty"`
	// client_update / client_add: the new name and identifier ("" = keep the
	// current one); they may clash with those of another persistent client, in
	// which case the registry is expected to refuse (home answers 400) and
	// nothing may change.  client_update / client_del address the client at
	// index Client modulo the number of clients.
	NewName string `json:"new_name,omitempty"`
	NewID   string `json:"new_id,omitempty"`
	// config_par: settings requests that are in flight together; they run as
	// concurrent tasks, interleaved at lock boundaries by the seeded cooperative
	// scheduler (Seed = its seed, Pct = preemption probability in percent).
	Reqs []CfgReq `json:"reqs,omitempty"`
	Seed uint64   `json:"seed,omitempty"`
	Pct  int      `json:"pct,omitempty"`
	// query: simulated milliseconds that pass before the request.
	GapMs int `json:"gap_ms,omitempty"`
	// page: one request of a listing the way the UI scrolls through the log.
	// Older continues from the cursor ("oldest") of the previous page, if there
	// is one; otherwise the newest page is requested (with Offset).
	Limit  int    `json:"limit,omitempty"`
	Older  bool   `json:"older,omitempty"`
	Offset int    `json:"offset,omitempty"`
	Search string `json:"search,omitempty"`
	// Obs selects how the whole log is read back after the op: 0 = one request
	// without cursor, 1 = one request with a cursor newer than every record
	// (older_than in the future: must list the same), 2 = not read back after
	// this op (the file, the statistics and the settings are still checked).
	Obs int `json:"obs,omitempty"`
}

// CfgReq is one settings request: Kind is log_config (PUT
// /control/querylog/config/update), log_config_legacy (POST
// /control/querylog_config) or stats_config (PUT /control/stats/config/update).
type CfgReq struct {
	Kind    string   `json:"k"`
	Ignored []string `json:"ignored,omitempty"`
	Anon    bool     `json:"anon,omitempty"`
}

// Scenario is one case.
type Scenario struct {
	LogIgnored   []string `json:"log_ignored"`
	StatsIgnored []string `json:"stats_ignored"`
	Anon         bool     `json:"anon"`
	RefuseAny    bool     `json:"refuse_any"`
	MemSize      uint     `json:"mem_size"`
	Clients      []Client `json:"clients"`
	Ops          []Op     `json:"ops"`
}

const serverName = "dns.example"

var (
	patterns = []string{"secret.test", "||hidden.test^", "*.wild.test", "|.^", "||example^", "Mixed.Test", "||sub.deep.test^"}
	qnames   = []string{"secret.test", "SECRET.test", "a.secret.test", "hidden.test", "x.hidden.test", "HIDDEN.TEST", "a.wild.test", "wild.test", ".", "ok.example", "example", "mixed.test", "fine.test", "plain.test", "sub.deep.test", "deep.test"}
	srcAddrs = []string{"192.0.2.77", "192.0.2.78", "192.0.3.9", "198.51.100.200", "10.7.7.7", "2001:db8:1:2:3:4:5:6", "2001:db8:1:2::9", "::ffff:192.0.2.77"}
	clientID = []string{"192.0.2.77", "192.0.2.0/24", "192.0.0.0/16", "2001:db8:1:2:3:4:5:6", "2001:db8:1::/48", "aa:bb:cc:dd:ee:01", "phone", "tv", "10.7.7.7"}
	cids     = []string{"phone", "tv", "other"}
	leaseMAC = map[string]string{"198.51.100.200": "aa:bb:cc:dd:ee:01"}
	qtypes   = []uint16{dns.TypeA, dns.TypeAAAA, dns.TypeTXT, dns.TypeANY}
	gapsMs   = []int{0, 1, 1, 3, 1000}
	searches = []string{"", "", "", "test", "c0", "192.0", "phone"}
	// names of persistent clients (the initial ones are c0, c1, c2)
	clientNames = []string{"c0", "c1", "c2", "c3"}
	cfgKinds    = []string{"log_config", "log_config", "log_config_legacy", "log_config_legacy", "stats_config"}
	pcts        = []int{20, 50, 80}
)

func genCfgReq(t *rapid.T, kind string) CfgReq {
	q := CfgReq{Kind: kind}
	switch kind {
	case "log_config":
		q.Ignored, q.Anon = genIgnored(t, "new_log_ignored"), rapid.Bool().Draw(t, "new_anon")
	case "log_config_legacy":
		// the deprecated endpoint: only changes anonymisation here
		q.Anon = rapid.Bool().Draw(t, "legacy_anon")
	case "stats_config":
		q.Ignored = genIgnored(t, "new_stats_ignored")
	}
	return q
}

// keepOr draws "" (keep the current value) about half of the time, otherwise a
// value of the alphabet.
func keepOr(t *rapid.T, alphabet []string, label string) string {
	if rapid.Bool().Draw(t, label+"_keep") {
		return ""
	}
	return rapid.SampledFrom(alphabet).Draw(t, label)
}

func genIgnored(t *rapid.T, label string) []string {
	return rapid.SliceOfNDistinct(rapid.SampledFrom(patterns), 0, 3, rapid.ID[string]).Draw(t, label)
}

// Gen draws a scenario.
func Gen(t *rapid.T, tier string) any {
	sc := &Scenario{LogIgnored: genIgnored(t, "log_ignored"), StatsIgnored: genIgnored(t, "stats_ignored"),
		Anon: rapid.Bool().Draw(t, "anon"), RefuseAny: rapid.Bool().Draw(t, "refuse_any"),
		MemSize: uint(rapid.SampledFrom([]int{1, 2, 3, 5, 50}).Draw(t, "mem_size"))}
	ids := rapid.SliceOfNDistinct(rapid.SampledFrom(clientID), 0, 3, rapid.ID[string]).Draw(t, "client_ids")
	for i, id := range ids {
		sc.Clients = append(sc.Clients, Client{Name: fmt.Sprintf("c%d", i), ID: id, IgnoreLog: rapid.Bool().Draw(t, "ign_log"), IgnoreStats: rapid.Bool().Draw(t, "ign_stats")})
	}
	maxOps := 30
	if tier == "thorough" {
		maxOps = 80
	}
	// listing: a page has been requested, i.e. a user has the log open and may
	// scroll on; while that is so, further pages are more frequent.
	listing := false
	for i, n := 0, rapid.IntRange(4, maxOps).Draw(t, "n_ops"); i < n; i++ {
		var op Op
		k := rapid.IntRange(0, 99).Draw(t, "kind")
		if listing && k < 14 {
			k = 90
		}
		switch {
		case k < 54:
			op = Op{Kind: "query", Name: rapid.SampledFrom(qnames).Draw(t, "qname"), Qtype: rapid.SampledFrom(qtypes).Draw(t, "qtype"), Addr: rapid.SampledFrom(srcAddrs).Draw(t, "addr"),
				GapMs: rapid.SampledFrom(gapsMs).Draw(t, "gap_ms")}
			if rapid.IntRange(0, 3).Draw(t, "has_cid") == 0 {
				op.CID = rapid.SampledFrom(cids).Draw(t, "cid")
			}
		case k < 59:
			q := genCfgReq(t, "log_config")
			op = Op{Kind: q.Kind, Ignored: q.Ignored, Anon: q.Anon}
		case k < 62:
			q := genCfgReq(t, "log_config_legacy")
			op = Op{Kind: q.Kind, Anon: q.Anon}
		case k < 66:
			q := genCfgReq(t, "stats_config")
			op = Op{Kind: q.Kind, Ignored: q.Ignored}
		case k < 72:
			op = Op{Kind: "client_flags", Client: rapid.IntRange(0, max(len(sc.Clients)-1, 0)).Draw(t, "cl_idx"), Log: rapid.Bool().Draw(t, "cl_log"), Stats: rapid.Bool().Draw(t, "cl_stats")}
		case k < 78:
			// the whole record is sent, as the UI does: name, identifier, flags
			op = Op{Kind: "client_update", Client: rapid.IntRange(0, 3).Draw(t, "cl_idx"), NewName: keepOr(t, clientNames, "cl_name"), NewID: keepOr(t, clientID, "cl_id"),
				Log: rapid.Bool().Draw(t, "cl_log"), Stats: rapid.Bool().Draw(t, "cl_stats")}
		case k < 80:
			op = Op{Kind: "client_add", NewName: rapid.SampledFrom(clientNames).Draw(t, "cl_name"), NewID: rapid.SampledFrom(clientID).Draw(t, "cl_id"),
				Log: rapid.Bool().Draw(t, "cl_log"), Stats: rapid.Bool().Draw(t, "cl_stats")}
		case k < 81:
			op = Op{Kind: "client_del", Client: rapid.IntRange(0, 3).Draw(t, "cl_idx")}
		case k < 84:
			op = Op{Kind: "flush"}
		case k < 86:
			op = Op{Kind: "advance"}
		case k < 94:
			op = Op{Kind: "page", Limit: rapid.IntRange(1, 3).Draw(t, "limit"), Older: listing && rapid.IntRange(0, 3).Draw(t, "older") > 0, Search: rapid.SampledFrom(searches).Draw(t, "search")}
			if !op.Older {
				op.Offset = rapid.SampledFrom([]int{0, 0, 1, 2}).Draw(t, "offset")
			}
			listing = true
		case k < 97:
			op = Op{Kind: "config_par", Seed: rapid.Uint64().Draw(t, "par_seed"), Pct: rapid.SampledFrom(pcts).Draw(t, "par_pct")}
			for j, n := 0, rapid.IntRange(2, 3).Draw(t, "par_n"); j < n; j++ {
				op.Reqs = append(op.Reqs, genCfgReq(t, rapid.SampledFrom(cfgKinds).Draw(t, "par_kind")))
			}
		default:
			op = Op{Kind: "restart"}
		}
		op.Obs = rapid.SampledFrom([]int{0, 0, 1, 1, 2}).Draw(t, "obs")
		sc.Ops = append(sc.Ops, op)
	}
	return sc
}

// ---- reference model ---------------------------------------------------------

type ignoreSet struct {
	eng *urlfilter.DNSEngine
	st  *filterlist.RuleStorage
}

func newIgnoreSet(p []string) *ignoreSet {
	st, err := filterlist.NewRuleStorage([]filterlist.RuleList{&filterlist.StringRuleList{ID: 1, RulesText: strings.ToLower(strings.Join(p, "\n")), IgnoreCosmetic: true}})
	if err != nil {
		panic(err)
	}
	return &ignoreSet{eng: urlfilter.NewDNSEngine(st), st: st}
}

func (s *ignoreSet) has(host string) bool { _, ok := s.eng.Match(host); return ok }
func (s *ignoreSet) close()               { _ = s.st.Close() }

type rec struct {
	host     string
	ip       string // as it must be stored
	cid      string
	optional bool // may or may not have been recorded (ANY with ANY-refusal)
	// shadow marks a record that must NOT exist: the request came from an
	// ignored client, but its masked address alone does not identify that
	// client.  If such a record shows up it is reported under its own class.
	shadow bool
	anon   bool
}

type mstate struct {
	logIgn, statIgn *ignoreSet
	anon            bool
	clients         []Client
	log             []rec // expected query-log content, oldest first
	counted         int   // expected statistics total
	countedOpt      int   // optional ones
	countedShadow   int   // must not be counted: ignored client hidden behind a masked address
	domains         map[string]bool
	// statClients are the full addresses that were counted while anonymisation
	// was off (the only un-masked addresses the statistics may report).
	statClients map[string]bool
	// the accepted settings, as the user entered them
	logIgnList, statIgnList []string
}

// attribute returns the index of the persistent client owning (cid, addr) by
// ClientID > exact IP > most specific CIDR > MAC of the lease, or -1.
func (m *mstate) attribute(cid string, addr netip.Addr) int {
	addr = addr.Unmap().WithZone("")
	for i, c := range m.clients {
		if cid != "" && c.ID == cid {
			return i
		}
	}
	for i, c := range m.clients {
		if ip, err := netip.ParseAddr(c.ID); err == nil && ip == addr {
			return i
		}
	}
	best, bits := -1, -1
	for i, c := range m.clients {
		if p, err := netip.ParsePrefix(c.ID); err == nil && p.Contains(addr) && p.Bits() > bits {
			best, bits = i, p.Bits()
		}
	}
	if best >= 0 {
		return best
	}
	if mac, ok := leaseMAC[addr.String()]; ok {
		for i, c := range m.clients {
			if c.ID == mac {
				return i
			}
		}
	}
	return -1
}

func mask(addr netip.Addr) netip.Addr {
	addr = addr.Unmap()
	b := addr.AsSlice()
	if addr.Is4() {
		b[2], b[3] = 0, 0
	} else {
		for i := 6; i < 16; i++ {
			b[i] = 0
		}
	}
	out, _ := netip.AddrFromSlice(b)
	return out
}

func isMasked(s string) bool {
	a, err := netip.ParseAddr(s)
	if err != nil {
		return true // not an address (a ClientID)
	}
	return mask(a) == a.Unmap()
}

// ---- run ---------------------------------------------------------------------

type simDHCP struct{}

func (simDHCP) Leases() []*dhcpsvc.Lease   { return nil }
func (simDHCP) HostByIP(netip.Addr) string { return "" }
func (simDHCP) MACByIP(ip netip.Addr) net.HardwareAddr {
	if m, ok := leaseMAC[ip.String()]; ok {
		mac, _ := net.ParseMAC(m)
		return mac
	}
	return nil
}

type runner struct {
	c    *kernel.Ctx
	sc   *Scenario
	n    *dnsnode.Node
	ql   querylog.QueryLog
	st   *stats.StatsCtx
	m    *mstate
	dir  string
	find func([]string) (*querylog.Client, error)
	cnt  func([]string) bool
	// saved is what the configuration file holds: the settings the instance
	// was started from, replaced by what query log and statistics report
	// through WriteDiskConfig whenever a configuration-modified callback fires.
	saved saved
	// cursor is the "oldest" value of the last page of the listing a user is
	// scrolling through ("" = none).
	cursor string
	// dirty: a setting was changed through the API since the last (re)start.
	dirty bool
	// confLock plays the role of home's configuration lock, which
	// (*configuration).write holds while it collects the settings of the
	// components (settings requests in flight together call it concurrently).
	confLock sync.Mutex
	// abandon is set when settings requests in flight together ended in a
	// deadlock: the parked tasks hold the instance's locks for ever and it must
	// not be stopped.
	abandon bool
}

// saved is the part of the configuration file that belongs to the query log
// and the statistics.
type saved struct {
	LogIgnored  []string
	LogEnabled  bool
	FileEnabled bool
	LogIvl      time.Duration
	MemSize     uint
	Anon        bool

	StatsIgnored []string
	StatsEnabled bool
	StatsLimit   time.Duration
}

// writeConfig is home's configuration.write reduced to the two components of
// this property: every component is asked for its current settings again.
func (r *runner) writeConfig() {
	verifyield.Acquire(r.confLock.TryLock, r.confLock.Lock, "config.lock")
	defer verifyield.Release(r.confLock.Unlock)

	if r.ql != nil {
		dc := querylog.Config{}
		r.ql.WriteDiskConfig(&dc)
		r.saved.Anon = dc.AnonymizeClientIP
		r.saved.LogEnabled = dc.Enabled
		r.saved.FileEnabled = dc.FileEnabled
		r.saved.LogIvl = dc.RotationIvl
		r.saved.MemSize = dc.MemSize
		r.saved.LogIgnored = dc.Ignored.Values()
	}
	if r.st != nil {
		sc := stats.Config{}
		r.st.WriteDiskConfig(&sc)
		r.saved.StatsLimit = sc.Limit
		r.saved.StatsEnabled = sc.Enabled
		r.saved.StatsIgnored = sc.Ignored.Values()
	}
	r.c.Probe("config_written")
}

// start builds query log, statistics and the DNS node from the saved
// configuration and the given persistent clients, the way home does at start.
func (r *runner) start(clients []*client.Persistent) error {
	sv := r.saved
	var anonFn aghnet.IPMutFunc
	if sv.Anon {
		anonFn = querylog.AnonymizeIP
	}
	anonymizer := aghnet.NewIPMut(anonFn)
	mux := env.NewMux()
	logger := slog.New(slog.DiscardHandler)
	logEng, err := aghnet.NewIgnoreEngine(sv.LogIgnored)
	if err != nil {
		return fmt.Errorf("harness: log ignore engine: %w", err)
	}
	statEng, err := aghnet.NewIgnoreEngine(sv.StatsIgnored)
	if err != nil {
		return fmt.Errorf("harness: stats ignore engine: %w", err)
	}
	ql, err := querylog.New(querylog.Config{Logger: logger, Ignored: logEng, Anonymizer: anonymizer, ConfigModified: r.writeConfig, HTTPRegister: mux.Register,
		FindClient: func(ids []string) (*querylog.Client, error) { return r.find(ids) }, BaseDir: r.dir, RotationIvl: sv.LogIvl,
		MemSize: sv.MemSize, Enabled: sv.LogEnabled, FileEnabled: sv.FileEnabled, AnonymizeClientIP: sv.Anon})
	if err != nil {
		return err
	}
	r.ql = ql
	querylog.VerifInitWeb(ql)
	st, err := stats.New(stats.Config{Logger: logger, Filename: filepath.Join(r.dir, "stats.db"), Limit: sv.StatsLimit, Enabled: sv.StatsEnabled, Ignored: statEng,
		ConfigModified: r.writeConfig, HTTPRegister: mux.Register, ShouldCountClient: func(ids []string) bool { return r.cnt(ids) }})
	if err != nil {
		return err
	}
	r.st = st
	st.VerifInitWeb()
	up := &env.Upstream{Addr: "sim-upstream:53", Answer: env.DefaultAnswer}
	cfg := &dnsnode.Config{Dir: r.dir, ListServer: env.NewListServer(), Upstream: up, UpTimeout: 2 * time.Second, ServerName: serverName,
		QueryLog: ql, Stats: st, Anonymizer: anonymizer, ClientDHCP: simDHCP{}, InitialClients: clients}
	cfg.Filtering = filtering.Config{BlockingMode: filtering.BlockingModeDefault, ProtectionEnabled: true, FilteringEnabled: true, FiltersUpdateIntervalHours: 24}
	cfg.DNS = dnsforward.Config{RefuseAny: r.sc.RefuseAny}
	n, err := dnsnode.New(cfg)
	if err != nil {
		return err
	}
	r.n = n
	r.find, r.cnt = home.VerifClientFuncs(n.Clients, n.Server)
	// The handlers of query log and statistics live on their own mux;
	// merge them into the node's.
	for _, rt := range mux.Routes() {
		n.Mux.Register(rt.Method, rt.Path, rt.Handler)
	}
	r.dirty = false
	kernel.Wait()
	return nil
}

// stop stops the instance: cleanly (the query log flushes its buffer, the
// statistics their current unit) or, at the end of the case, the cheap way.
func (r *runner) stop(clean bool) error {
	if r.abandon {
		return nil
	}
	if r.n != nil {
		r.n.Close()
		r.n = nil
	}
	if clean && r.ql != nil {
		if err := r.ql.Shutdown(context.Background()); err != nil && !strings.Contains(err.Error(), "nothing to write") {
			return fmt.Errorf("harness: query log shutdown: %w", err)
		}
	}
	if r.st != nil {
		if clean {
			if err := r.st.Close(); err != nil {
				return fmt.Errorf("harness: statistics close: %w", err)
			}
		} else {
			r.st.VerifCrash()
		}
		r.st = nil
	}
	r.ql = nil
	kernel.Wait()
	return nil
}

// restart is a clean stop followed by a start from the configuration file as
// the system itself last wrote it; the persistent clients are the ones the
// client storage holds (home writes them on every change).
func (r *runner) restart() error {
	var clients []*client.Persistent
	r.n.Clients.RangeByName(func(p *client.Persistent) bool {
		clients = append(clients, p.ShallowClone())
		return true
	})
	if r.dirty {
		r.c.Probe("restart_after_config_change")
	}
	if err := r.stop(true); err != nil {
		return err
	}
	return r.start(clients)
}

func (r *runner) api(method, path string, body any) (int, []byte, error) {
	var b []byte
	if body != nil {
		b, _ = json.Marshal(body)
	}
	code, resp, err := r.n.Mux.Do(method, path, b)
	if err != nil {
		if hp, ok := err.(*env.HandlerPanic); ok {
			return 0, nil, kernel.Violationf("api-panic", "%v", hp)
		}
		return 0, nil, err
	}
	return code, resp, nil
}

func (r *runner) query(op Op) error {
	addr := netip.MustParseAddr(op.Addr)
	q := &dnsnode.Query{Proto: "udp", Addr: netip.AddrPortFrom(addr, 5353), Name: op.Name, Qtype: op.Qtype}
	if op.CID != "" {
		q.Proto, q.SNI = "tls", op.CID+"."+serverName
	}
	m := r.m
	host := strings.ToLower(strings.TrimSuffix(op.Name, "."))
	if op.Name == "." {
		host = "."
	}
	owner := m.attribute(op.CID, addr)
	optional := op.Qtype == dns.TypeANY && r.sc.RefuseAny
	stored := addr.Unmap().String()
	if m.anon {
		stored = mask(addr).String()
	}
	wantLog := !m.logIgn.has(host) && !(owner >= 0 && m.clients[owner].IgnoreLog)
	wantCount := !m.statIgn.has(host) && !(owner >= 0 && m.clients[owner].IgnoreStats)
	if op.GapMs > 0 {
		d := time.Duration(op.GapMs) * time.Millisecond
		time.Sleep(d)
		r.c.SimTime += d
	}
	rep := r.n.Do(q)
	kernel.Wait()
	if rep.WireErr != nil {
		return kernel.Violationf("malformed-reply", "%v", rep.WireErr)
	}
	r.c.Eventf("query %s %s cid=%q from %s owner=%d wantLog=%v wantCount=%v opt=%v", op.Name, dns.Type(op.Qtype), op.CID, op.Addr, owner, wantLog, wantCount, optional)
	if wantLog {
		m.log = append(m.log, rec{host: host, ip: stored, cid: op.CID, optional: optional, anon: m.anon})
		r.c.Probe("query_logged")
	} else {
		r.c.Probe("query_not_logged")
		if owner >= 0 && m.clients[owner].IgnoreLog {
			r.c.Probe("ignored_client_query")
			if m.anon {
				r.c.Probe("ignored_client_query_anonymised")
				if o2 := m.attribute(op.CID, mask(addr)); !m.logIgn.has(host) && !(o2 >= 0 && m.clients[o2].IgnoreLog) {
					m.log = append(m.log, rec{host: host, ip: stored, cid: op.CID, shadow: true, anon: true})
				}
			}
		}
	}
	if wantCount {
		if !m.anon {
			m.statClients[stored] = true
		}
		if optional {
			m.countedOpt++
		} else {
			m.counted++
			m.domains[host] = true
		}
	} else {
		r.c.Probe("query_not_counted")
		if owner >= 0 && m.clients[owner].IgnoreStats && m.anon && !m.statIgn.has(host) && !optional {
			if o2 := m.attribute(op.CID, mask(addr)); !(o2 >= 0 && m.clients[o2].IgnoreStats) {
				m.countedShadow++
			}
		}
	}
	return nil
}

type fileLine struct {
	QH  string `json:"QH"`
	IP  string `json:"IP"`
	CID string `json:"CID"`
}

func (r *runner) readFile() ([]fileLine, []byte, error) {
	b, err := os.ReadFile(filepath.Join(r.dir, "querylog.json"))
	if os.IsNotExist(err) {
		return nil, nil, nil
	}
	if err != nil {
		return nil, nil, err
	}
	var out []fileLine
	sc := bufio.NewScanner(bytes.NewReader(b))
	sc.Buffer(make([]byte, 1<<20), 1<<20)
	for sc.Scan() {
		if len(bytes.TrimSpace(sc.Bytes())) == 0 {
			continue
		}
		var l fileLine
		if err = json.Unmarshal(sc.Bytes(), &l); err != nil {
			return nil, b, kernel.Violationf("file-garbage", "querylog.json line does not parse: %v: %s", err, sc.Text())
		}
		out = append(out, l)
	}
	return out, b, nil
}

type apiEntry struct {
	Client   string `json:"client"`
	ClientID string `json:"client_id"`
	Question struct {
		Name string `json:"name"`
	} `json:"question"`
}

// list sends GET /control/querylog with the given parameters.
func (r *runner) list(params url.Values) (ents []apiEntry, oldest string, err error) {
	code, body, err := r.api("GET", "/control/querylog?"+params.Encode(), nil)
	if err != nil {
		return nil, "", err
	}
	if code != http.StatusOK {
		return nil, "", kernel.Violationf("api-status", "GET /control/querylog?%s -> %d %s", params.Encode(), code, body)
	}
	var resp struct {
		Data   []apiEntry `json:"data"`
		Oldest string     `json:"oldest"`
	}
	if err = json.Unmarshal(body, &resp); err != nil {
		return nil, "", kernel.Violationf("api-json", "%v", err)
	}
	return resp.Data, resp.Oldest, nil
}

// readAPI reads the whole log back: without a cursor, or (cursorForm) with a
// cursor that is newer than every record, which must list the same.
func (r *runner) readAPI(cursorForm bool) ([]apiEntry, error) {
	params := url.Values{"limit": {"1000"}}
	if cursorForm {
		params.Set("older_than", time.Now().Add(time.Hour).UTC().Format(time.RFC3339Nano))
		r.c.Probe("obs_cursor_listing")
	}
	ents, _, err := r.list(params)
	return ents, err
}

// visible is what the log API may return now (oldest first): everything
// recorded, minus what is currently ignored, masked on output when
// anonymisation is on now.
func (r *runner) visible() (visible []rec) {
	m := r.m
	for _, e := range m.log {
		ip := e.ip
		if a, err := netip.ParseAddr(ip); err == nil {
			if m.logIgn.has(e.host) {
				continue
			}
			if o := m.attribute(e.cid, a); o >= 0 && m.clients[o].IgnoreLog {
				continue
			}
			if m.anon {
				ip = mask(a).String()
			}
		}
		visible = append(visible, rec{host: e.host, ip: ip, cid: e.cid, optional: e.optional, shadow: e.shadow})
	}
	return visible
}

// toRecs converts API entries (newest first) to records, oldest first.
func (r *runner) toRecs(ents []apiEntry) (out []rec, err error) {
	for i := len(ents) - 1; i >= 0; i-- {
		e := ents[i]
		if r.m.anon && !isMasked(e.Client) {
			return nil, kernel.Violationf("api-unmasked-address", "anonymisation is on but GET /control/querylog reports client %q", e.Client)
		}
		out = append(out, rec{host: e.Question.Name, ip: e.Client, cid: e.ClientID})
	}
	return out, nil
}

// page is one request of a user scrolling through the log.  Which of the
// allowed records a page holds is not this property's business (limits,
// offsets, cursors and search terms select them); what it must never hold is a
// record that is currently ignored, was never recorded, or shows an un-masked
// address: the page must be an ordered selection of the allowed records.
func (r *runner) page(op Op) error {
	params := url.Values{"limit": {fmt.Sprint(op.Limit)}}
	older := op.Older && r.cursor != ""
	if older {
		params.Set("older_than", r.cursor)
		r.c.Probe("page_older")
	} else {
		if op.Offset > 0 {
			params.Set("offset", fmt.Sprint(op.Offset))
		}
		r.c.Probe("page_first")
	}
	if op.Search != "" {
		params.Set("search", op.Search)
	}
	ents, oldest, err := r.list(params)
	if err != nil {
		return err
	}
	r.c.Eventf("page limit=%d older=%v offset=%d search=%q -> %d entries, more=%v", op.Limit, older, op.Offset, op.Search, len(ents), oldest != "")
	r.cursor = oldest
	if older && len(ents) > 0 {
		r.c.Probe("page_older_nonempty")
	}
	got, err := r.toRecs(ents)
	if err != nil {
		return err
	}
	allowed := r.visible()
	for i := range allowed {
		if !allowed[i].shadow {
			allowed[i].optional = true
		}
	}
	bad, _, shadow := matchSeq(allowed, got, false)
	if bad >= 0 {
		a := got[bad]
		return r.classify("api", a.host, a.ip, a.cid, fmt.Sprintf("GET /control/querylog?%s returns {name:%q client:%q client_id:%q} which the reference model does not allow on any page (currently ignored name / client, or never recorded); allowed now (oldest first): %v; page (oldest first): %v", params.Encode(), a.host, a.ip, a.cid, allowed, got))
	}
	if shadow != nil {
		return r.shadowViolation("GET /control/querylog?"+params.Encode(), shadow)
	}
	return nil
}

// matchSeq checks that actual (oldest first) can be explained by the expected
// sequence: actual must be a subsequence of expected that contains every
// required record (optional records may be absent; "shadow" records must be
// absent and are only used if there is no explanation without them).  With
// prefixOK, actual only has to explain a prefix of expected.  It returns the
// index of the first actual record that cannot be placed (or -1), a required
// record that is missing (or nil), and the shadow record that had to be used.
func matchSeq(expected []rec, actual []rec, prefixOK bool) (bad int, missing *rec, shadow *rec) {
	same := func(e, a rec) bool { return e.host == a.host && e.ip == a.ip && e.cid == a.cid }
	solve := func(allowShadow bool) (ok bool, used *rec) {
		type key struct{ i, j int }
		memo := map[key]bool{}
		var f func(i, j int) bool
		f = func(i, j int) bool {
			if j == len(actual) {
				if prefixOK {
					return true
				}
				for ; i < len(expected); i++ {
					if !expected[i].optional && !expected[i].shadow {
						return false
					}
				}
				return true
			}
			if i == len(expected) {
				return false
			}
			k := key{i, j}
			if v, ok := memo[k]; ok {
				return v
			}
			res := false
			e := expected[i]
			if same(e, actual[j]) && (!e.shadow || allowShadow) && f(i+1, j+1) {
				res = true
			} else if (e.optional || e.shadow) && f(i+1, j) {
				res = true
			}
			memo[k] = res
			return res
		}
		if !f(0, 0) {
			return false, nil
		}
		// Walk the solution to find a used shadow record.
		i, j := 0, 0
		for j < len(actual) {
			e := expected[i]
			if same(e, actual[j]) && (!e.shadow || allowShadow) && f(i+1, j+1) {
				if e.shadow && used == nil {
					used = &expected[i]
				}
				i, j = i+1, j+1
			} else {
				i++
			}
		}
		return true, used
	}
	if ok, _ := solve(false); ok {
		return -1, nil, nil
	}
	if ok, used := solve(true); ok {
		return -1, nil, used
	}
	// No explanation: produce a diagnostic with a greedy walk.
	i := 0
	for j, a := range actual {
		for i < len(expected) && !same(expected[i], a) {
			if !expected[i].optional && !expected[i].shadow && !prefixOK {
				return -1, &expected[i], nil
			}
			i++
		}
		if i >= len(expected) {
			return j, nil, nil
		}
		i++
	}
	for ; i < len(expected); i++ {
		if !expected[i].optional && !expected[i].shadow {
			return -1, &expected[i], nil
		}
	}
	return len(actual) - 1, nil, nil
}

// shadowViolation reports the presence of a record of an ignored client that
// hid behind its masked address.
func (r *runner) shadowViolation(where string, s *rec) error {
	v := kernel.Violationf("anonymised-ignored-client-logged", "%s holds {name:%q client:%q client_id:%q}: the request came from a client marked 'ignore in query log' (identified by its real address), anonymisation was on, and the record was written all the same because the ignore lookup used the masked address", where, s.host, s.ip, s.cid)
	if r.c.Tolerate(v) {
		return nil
	}
	return v
}

func (r *runner) check(obs int) error {
	m := r.m
	// (a) raw file: every line must be a record the model expects, in order;
	// the file holds the oldest part of the log.
	lines, raw, err := r.readFile()
	if err != nil {
		return err
	}
	var fileRecs []rec
	for _, l := range lines {
		fileRecs = append(fileRecs, rec{host: l.QH, ip: l.IP, cid: l.CID})
	}
	bad, _, shadow := matchSeq(m.log, fileRecs, true)
	if bad >= 0 {
		l := lines[bad]
		return r.classify("disk", l.QH, l.IP, l.CID, fmt.Sprintf("querylog.json line %d {QH:%q IP:%q CID:%q} is not a record the reference model allows on disk (ignored name / ignored client / un-masked address, or out of order); expected log (oldest first): %v", bad, l.QH, l.IP, l.CID, m.log))
	}
	if shadow != nil {
		if err = r.shadowViolation("querylog.json", shadow); err != nil {
			return err
		}
	}
	_ = raw
	// (b) API: everything recorded, minus what is currently ignored, newest
	// first; masked on output when anonymisation is on now.
	if obs == 2 {
		r.c.Probe("obs_skipped")
	} else if err = r.checkAPI(obs == 1); err != nil {
		return err
	}
	// (b') the settings the system reports are the accepted ones.
	if err = r.checkSettings(); err != nil {
		return err
	}
	// (c) statistics.
	code, body, err := r.api("GET", "/control/stats", nil)
	if err != nil {
		return err
	}
	if code != http.StatusOK {
		return kernel.Violationf("api-status", "GET /control/stats -> %d", code)
	}
	var sr struct {
		Num        uint64              `json:"num_dns_queries"`
		TopQueried []map[string]uint64 `json:"top_queried_domains"`
		TopBlocked []map[string]uint64 `json:"top_blocked_domains"`
		TopClients []map[string]uint64 `json:"top_clients"`
	}
	if err = json.Unmarshal(body, &sr); err != nil {
		return kernel.Violationf("api-json", "%v", err)
	}
	if int(sr.Num) > m.counted+m.countedOpt && int(sr.Num) <= m.counted+m.countedOpt+m.countedShadow {
		v := kernel.Violationf("anonymised-ignored-client-counted", "statistics count %d queries, the reference model allows at most %d: %d request(s) of clients marked 'ignore in statistics' (identified by their real address) were counted because anonymisation was on and the ignore lookup used the masked address", sr.Num, m.counted+m.countedOpt, m.countedShadow)
		if !r.c.Tolerate(v) {
			return v
		}
	} else if int(sr.Num) < m.counted || int(sr.Num) > m.counted+m.countedOpt {
		return r.classifyStats(fmt.Sprintf("statistics count %d queries, the reference model expects %d (+%d optional): an ignored name or client was counted, or a countable one was not", sr.Num, m.counted, m.countedOpt))
	}
	for _, l := range [][]map[string]uint64{sr.TopQueried, sr.TopBlocked} {
		for _, kv := range l {
			for name := range kv {
				if m.statIgn.has(name) {
					return kernel.Violationf("stats-ignored-name", "statistics report the ignored name %q", name)
				}
			}
		}
	}
	for _, kv := range sr.TopClients {
		for cl := range kv {
			if a, err := netip.ParseAddr(cl); err == nil {
				if o := m.attribute("", a); o >= 0 && m.clients[o].IgnoreStats {
					return kernel.Violationf("stats-ignored-client", "statistics report the ignored client %q", cl)
				}
				if !isMasked(cl) && !m.statClients[a.Unmap().String()] {
					return kernel.Violationf("stats-unmasked-address", "statistics report the client address %q, but no request from it was counted while anonymisation was off (full addresses counted then: %v)", cl, sortedKeys(m.statClients))
				}
			}
		}
	}
	return nil
}

func (r *runner) checkAPI(cursorForm bool) error {
	ents, err := r.readAPI(cursorForm)
	if err != nil {
		return err
	}
	apiRecs, err := r.toRecs(ents)
	if err != nil {
		return err
	}
	visible := r.visible()
	bad, miss, shadow := matchSeq(visible, apiRecs, false)
	if shadow != nil && bad < 0 && miss == nil {
		if err = r.shadowViolation("GET /control/querylog", shadow); err != nil {
			return err
		}
	}
	if bad >= 0 || miss != nil {
		form := ""
		if cursorForm {
			form = " (with older_than newer than every record)"
		}
		if bad >= 0 {
			a := apiRecs[bad]
			return r.classify("api", a.host, a.ip, a.cid, fmt.Sprintf("GET /control/querylog%s returns {name:%q client:%q client_id:%q} which the reference model does not allow (currently ignored name / client, or never recorded); allowed now (oldest first): %v; api (oldest first): %v", form, a.host, a.ip, a.cid, visible, apiRecs))
		}
		return kernel.Violationf("log-entry-missing", "record {name:%q client:%q client_id:%q} should be returned by the query-log API%s but is not; api (oldest first): %v", miss.host, miss.ip, miss.cid, form, apiRecs)
	}
	return nil
}

func sortedKeys(m map[string]bool) []string {
	out := make([]string, 0, len(m))
	for k := range m {
		out = append(out, k)
	}
	sort.Strings(out)
	return out
}

func sameSet(a, b []string) bool {
	x, y := append([]string(nil), a...), append([]string(nil), b...)
	sort.Strings(x)
	sort.Strings(y)
	return slices.Equal(x, y)
}

// checkSettings reads the settings back through every endpoint that reports
// them: what "anonymisation is on" and "is on the ignore list" mean to the
// user is what was accepted and is reported there.
func (r *runner) checkSettings() error {
	m := r.m
	get := func(path string, v any) error {
		code, body, err := r.api("GET", path, nil)
		if err != nil {
			return err
		}
		if code != http.StatusOK {
			return kernel.Violationf("api-status", "GET %s -> %d %s", path, code, body)
		}
		if err = json.Unmarshal(body, v); err != nil {
			return kernel.Violationf("api-json", "GET %s: %v", path, err)
		}
		return nil
	}
	var lc struct {
		Ignored []string `json:"ignored"`
		Anon    *bool    `json:"anonymize_client_ip"`
	}
	if err := get("/control/querylog/config", &lc); err != nil {
		return err
	}
	if lc.Anon == nil || *lc.Anon != m.anon {
		return kernel.Violationf("config-report-mismatch", "GET /control/querylog/config reports anonymize_client_ip=%s, the accepted setting is %v", fmtBool(lc.Anon), m.anon)
	}
	if !sameSet(lc.Ignored, m.logIgnList) {
		return kernel.Violationf("config-report-mismatch", "GET /control/querylog/config reports ignored=%q, the accepted list is %q", lc.Ignored, m.logIgnList)
	}
	var li struct {
		Anon *bool `json:"anonymize_client_ip"`
	}
	if err := get("/control/querylog_info", &li); err != nil {
		return err
	}
	if li.Anon == nil || *li.Anon != m.anon {
		return kernel.Violationf("config-report-mismatch", "GET /control/querylog_info reports anonymize_client_ip=%s, the accepted setting is %v", fmtBool(li.Anon), m.anon)
	}
	var sc struct {
		Ignored []string `json:"ignored"`
	}
	if err := get("/control/stats/config", &sc); err != nil {
		return err
	}
	if !sameSet(sc.Ignored, m.statIgnList) {
		return kernel.Violationf("config-report-mismatch", "GET /control/stats/config reports ignored=%q, the accepted list is %q", sc.Ignored, m.statIgnList)
	}
	return r.checkClients()
}

// checkClients reads the persistent clients back from the registry (what GET
// /control/clients lists and what home writes to the configuration file):
// which clients are "marked to be ignored" is what was accepted, so the
// registry must hold exactly the accepted clients with the accepted
// identifiers and flags.
func (r *runner) checkClients() error {
	var want, got []string
	for _, c := range r.m.clients {
		p, err := toPersistent(c)
		if err != nil {
			return err
		}
		want = append(want, fmt.Sprintf("%s%q ignore_querylog=%v ignore_statistics=%v", c.Name, p.IDs(), c.IgnoreLog, c.IgnoreStats))
	}
	r.n.Clients.RangeByName(func(p *client.Persistent) bool {
		got = append(got, fmt.Sprintf("%s%q ignore_querylog=%v ignore_statistics=%v", p.Name, p.IDs(), p.IgnoreQueryLog, p.IgnoreStatistics))
		return true
	})
	if !sameSet(want, got) {
		sort.Strings(want)
		return kernel.Violationf("client-report-mismatch", "the client registry holds %v, the accepted persistent clients are %v (a refused change must leave everything as it was)", got, want)
	}
	return nil
}

func fmtBool(b *bool) string {
	if b == nil {
		return "<absent>"
	}
	return fmt.Sprint(*b)
}

// classify names the violation after the forbidden content found.
func (r *runner) classify(where, host, ip, cid, msg string) error {
	m := r.m
	class := where + "-forbidden-record"
	a, perr := netip.ParseAddr(ip)
	switch {
	case m.logIgn.has(host) && where == "api":
		class = "api-returns-ignored-name"
	case perr == nil && !isMasked(ip) && m.anon && where == "api":
		class = "api-unmasked-address"
	case perr == nil:
		if o := m.attribute(cid, a); o >= 0 && m.clients[o].IgnoreLog && where == "api" {
			class = "api-returns-ignored-client"
		}
	}
	if strings.HasPrefix(class, "api-returns-ignored") {
		// Is the record on disk, or only in the memory buffer?
		onDisk := false
		lines, _, _ := r.readFile()
		for _, l := range lines {
			lip := l.IP
			if la, err := netip.ParseAddr(lip); err == nil && m.anon {
				lip = mask(la).String()
			}
			if l.QH == host && lip == ip && l.CID == cid {
				onDisk = true
			}
		}
		if !onDisk {
			class += "-from-memory"
		}
	}
	return kernel.Violationf(class, "%s", msg)
}

func (r *runner) classifyStats(msg string) error {
	return kernel.Violationf("stats-count-mismatch", "%s", msg)
}

// settings are the accepted settings of query log and statistics this
// property is about.
type settings struct {
	anon            bool
	logIgn, statIgn []string
}

func (m *mstate) settings() settings {
	return settings{anon: m.anon, logIgn: m.logIgnList, statIgn: m.statIgnList}
}

// set makes s the accepted settings.
func (m *mstate) set(s settings) {
	m.logIgn.close()
	m.statIgn.close()
	m.logIgn, m.statIgn = newIgnoreSet(s.logIgn), newIgnoreSet(s.statIgn)
	m.anon, m.logIgnList, m.statIgnList = s.anon, s.logIgn, s.statIgn
}

// after returns the settings once request q has been accepted.
func (s settings) after(q CfgReq) settings {
	switch q.Kind {
	case "log_config":
		s.logIgn, s.anon = q.Ignored, q.Anon
	case "log_config_legacy":
		s.anon = q.Anon
	case "stats_config":
		s.statIgn = q.Ignored
	}
	return s
}

func (s settings) equal(o settings) bool {
	return s.anon == o.anon && sameSet(s.logIgn, o.logIgn) && sameSet(s.statIgn, o.statIgn)
}

func (s settings) String() string {
	return fmt.Sprintf("{anonymize_client_ip:%v querylog ignored:%q stats ignored:%q}", s.anon, orEmpty(s.logIgn), orEmpty(s.statIgn))
}

// sendCfg sends one settings request.
func (r *runner) sendCfg(q CfgReq) (int, []byte, error) {
	switch q.Kind {
	case "log_config":
		return r.api("PUT", "/control/querylog/config/update", map[string]any{"enabled": true, "anonymize_client_ip": q.Anon, "interval": 86_400_000, "ignored": orEmpty(q.Ignored)})
	case "log_config_legacy":
		return r.api("POST", "/control/querylog_config", map[string]any{"anonymize_client_ip": q.Anon})
	case "stats_config":
		return r.api("PUT", "/control/stats/config/update", map[string]any{"enabled": true, "interval": 86_400_000, "ignored": orEmpty(q.Ignored)})
	}
	return 0, nil, fmt.Errorf("harness: settings request of unknown kind %q", q.Kind)
}

// cfgDone does the bookkeeping of an accepted settings request.
func (r *runner) cfgDone(q CfgReq) {
	r.dirty = true
	if q.Kind == "stats_config" {
		r.c.Fault("live_stats_config_change")
		return
	}
	r.c.Fault("live_log_config_change")
	if q.Kind == "log_config_legacy" {
		r.c.Probe("legacy_config_endpoint")
	}
}

// reported reads the settings back through the endpoints that report them.
func (r *runner) reported() (s settings, err error) {
	var lc struct {
		Ignored []string `json:"ignored"`
		Anon    *bool    `json:"anonymize_client_ip"`
	}
	if err = r.getJSON("/control/querylog/config", &lc); err != nil {
		return s, err
	}
	if lc.Anon == nil {
		return s, kernel.Violationf("config-report-mismatch", "GET /control/querylog/config reports no anonymize_client_ip")
	}
	var sc struct {
		Ignored []string `json:"ignored"`
	}
	if err = r.getJSON("/control/stats/config", &sc); err != nil {
		return s, err
	}
	return settings{anon: *lc.Anon, logIgn: lc.Ignored, statIgn: sc.Ignored}, nil
}

func (r *runner) getJSON(path string, v any) error {
	code, body, err := r.api("GET", path, nil)
	if err != nil {
		return err
	}
	if code != http.StatusOK {
		return kernel.Violationf("api-status", "GET %s -> %d %s", path, code, body)
	}
	if err = json.Unmarshal(body, v); err != nil {
		return kernel.Violationf("api-json", "GET %s: %v", path, err)
	}
	return nil
}

// orders returns the permutations of 0..n-1 in a fixed order.
func orders(n int) (out [][]int) {
	var rec func(cur []int, used uint)
	rec = func(cur []int, used uint) {
		if len(cur) == n {
			out = append(out, slices.Clone(cur))
			return
		}
		for i := 0; i < n; i++ {
			if used&(1<<i) == 0 {
				rec(append(cur, i), used|1<<i)
			}
		}
	}
	rec(nil, 0)
	return out
}

// configPar sends the settings requests of op so that they are in flight
// together: each is a task of the seeded cooperative scheduler, which
// interleaves them at the lock boundaries of the handlers (and of the
// configuration-modified callbacks they make).  Every request is a valid one
// and must be accepted; the statement leaves open in which order requests in
// flight together take effect, so the settings the system reports afterwards
// must be those of ONE serial order of the requests.  The reference model goes
// on from those: what "anonymisation is on" and "is on the ignore list" mean
// to the user is what is reported, and the checks after this and the following
// operations hold the effective behaviour (log file, log API, statistics)
// against it.
func (r *runner) configPar(op Op) error {
	type answer struct {
		code int
		body []byte
		err  error
	}
	ans := make([]answer, len(op.Reqs))
	var names []string
	var fns []func()
	for j, q := range op.Reqs {
		names = append(names, q.Kind)
		fns = append(fns, func() { ans[j].code, ans[j].body, ans[j].err = r.sendCfg(q) })
	}
	res := sched.Run(op.Seed, op.Pct, names, fns)
	r.c.Probes["sched_steps"] += res.Steps
	r.c.Probes["sched_switches"] += res.Switches
	if res.Deadlock != "" {
		r.abandon = true
		return kernel.Violationf("deadlock: "+res.Deadlock, "%d settings requests in flight together %v, schedule seed %d: every task waits for a lock:\n%s", len(op.Reqs), op.Reqs, op.Seed, res.Detail)
	}
	kernel.Wait()
	r.c.Fault("settings_requests_in_flight_together")
	for j, a := range ans {
		if a.err != nil {
			return a.err
		}
		if a.code != http.StatusOK {
			return fmt.Errorf("harness: %s (in flight with others) -> %d %s", op.Reqs[j].Kind, a.code, a.body)
		}
		r.cfgDone(op.Reqs[j])
	}
	got, err := r.reported()
	if err != nil {
		return err
	}
	m := r.m
	before := m.settings()
	var tried []string
	distinct := map[string]bool{}
	for _, ord := range orders(len(op.Reqs)) {
		s := before
		for _, j := range ord {
			s = s.after(op.Reqs[j])
		}
		distinct[s.String()] = true
		if s.equal(got) {
			r.c.Eventf("config_par %d requests (steps %d): reported settings %s = serial order %v", len(op.Reqs), res.Steps, got, ord)
			if len(distinct) > 1 {
				r.c.Probe("par_later_order_matched")
			}
			m.set(s)
			return nil
		}
		tried = append(tried, fmt.Sprintf("%v -> %s", ord, s))
	}
	return kernel.Violationf("concurrent-config-no-serial-order", "%d settings requests in flight together %+v (schedule seed %d), all accepted; settings before: %s; the system now reports %s, which no serial order of the requests yields: %s", len(op.Reqs), op.Reqs, op.Seed, before, got, strings.Join(tried, "; "))
}

func (r *runner) apply(op Op) error {
	m := r.m
	switch op.Kind {
	case "query":
		return r.query(op)
	case "log_config", "log_config_legacy", "stats_config":
		q := CfgReq{Kind: op.Kind, Ignored: op.Ignored, Anon: op.Anon}
		code, body, err := r.sendCfg(q)
		if err != nil {
			return err
		}
		if code != http.StatusOK {
			return fmt.Errorf("harness: %s -> %d %s", op.Kind, code, body)
		}
		m.set(m.settings().after(q))
		r.cfgDone(q)
	case "config_par":
		if err := r.configPar(op); err != nil {
			return err
		}
	case "client_flags":
		if op.Client >= len(m.clients) {
			return nil
		}
		c := &m.clients[op.Client]
		c.IgnoreLog, c.IgnoreStats = op.Log, op.Stats
		p, err := toPersistent(*c)
		if err != nil {
			return err
		}
		if err = r.n.Clients.Update(context.Background(), c.Name, p); err != nil {
			return fmt.Errorf("harness: client update: %w", err)
		}
		// home writes the configuration file after every client change.
		r.writeConfig()
		r.c.Fault("live_client_flag_change")
	case "client_update":
		if len(m.clients) == 0 {
			r.c.Probe("client_op_without_clients")
			return nil
		}
		idx := op.Client % len(m.clients)
		cur := m.clients[idx]
		nc := Client{Name: cur.Name, ID: cur.ID, IgnoreLog: op.Log, IgnoreStats: op.Stats}
		if op.NewName != "" {
			nc.Name = op.NewName
		}
		if op.NewID != "" {
			nc.ID = op.NewID
		}
		p, err := toPersistent(nc)
		if err != nil {
			return err
		}
		// What home's handler of POST /control/clients/update does with the
		// decoded record: an error is answered with 400 and nothing else happens.
		if err = r.n.Clients.Update(context.Background(), cur.Name, p); err != nil {
			r.c.Eventf("client_update %s{%s} -> %s{%s} log=%v stats=%v: refused", cur.Name, cur.ID, nc.Name, nc.ID, nc.IgnoreLog, nc.IgnoreStats)
			r.c.Probe("client_change_refused")
			if cur.IgnoreLog || cur.IgnoreStats {
				r.c.Probe("client_change_refused_for_ignored_client")
			}
			break
		}
		r.c.Eventf("client_update %s{%s} -> %s{%s} log=%v stats=%v: accepted", cur.Name, cur.ID, nc.Name, nc.ID, nc.IgnoreLog, nc.IgnoreStats)
		m.clients[idx] = nc
		if nc.ID != cur.ID {
			r.c.Probe("client_identifier_changed")
		}
		// home writes the configuration file after every client change.
		r.writeConfig()
		r.c.Fault("live_client_change")
	case "client_add":
		nc := Client{Name: op.NewName, ID: op.NewID, IgnoreLog: op.Log, IgnoreStats: op.Stats}
		p, err := toPersistent(nc)
		if err != nil {
			return err
		}
		// POST /control/clients/add: as above.
		if err = r.n.Clients.Add(context.Background(), p); err != nil {
			r.c.Eventf("client_add %s{%s}: refused", nc.Name, nc.ID)
			r.c.Probe("client_change_refused")
			break
		}
		r.c.Eventf("client_add %s{%s} log=%v stats=%v: accepted", nc.Name, nc.ID, nc.IgnoreLog, nc.IgnoreStats)
		m.clients = append(m.clients, nc)
		r.writeConfig()
		r.c.Fault("live_client_change")
		r.c.Probe("client_added")
	case "client_del":
		if len(m.clients) == 0 {
			r.c.Probe("client_op_without_clients")
			return nil
		}
		idx := op.Client % len(m.clients)
		cur := m.clients[idx]
		// POST /control/clients/delete: "not found" is answered with 400.
		if !r.n.Clients.RemoveByName(context.Background(), cur.Name) {
			r.c.Eventf("client_del %s{%s}: refused", cur.Name, cur.ID)
			r.c.Probe("client_change_refused")
			break
		}
		r.c.Eventf("client_del %s{%s}: accepted", cur.Name, cur.ID)
		m.clients = slices.Delete(slices.Clone(m.clients), idx, idx+1)
		r.writeConfig()
		r.c.Fault("live_client_change")
		r.c.Probe("client_deleted")
	case "flush":
		if err := querylog.VerifFlush(context.Background(), r.ql); err != nil && !strings.Contains(err.Error(), "nothing to write") {
			return fmt.Errorf("harness: flush: %w", err)
		}
		r.c.Fault("flush_to_disk")
	case "advance":
		time.Sleep(7 * time.Second)
		r.c.SimTime += 7 * time.Second
	case "page":
		if err := r.page(op); err != nil {
			return err
		}
	case "restart":
		if err := r.restart(); err != nil {
			return err
		}
		r.c.Fault("restart_from_saved_config")
	}
	kernel.Wait()
	return nil
}

func orEmpty(s []string) []string {
	if s == nil {
		return []string{}
	}
	return s
}

func toPersistent(c Client) (*client.Persistent, error) {
	p := &client.Persistent{Name: c.Name, UID: client.MustNewUID(), IgnoreQueryLog: c.IgnoreLog, IgnoreStatistics: c.IgnoreStats}
	if err := p.SetIDs([]string{c.ID}); err != nil {
		return nil, fmt.Errorf("harness: SetIDs: %w", err)
	}
	return p, nil
}

// Run executes one scenario.
func Run(t *testing.T, scAny any, c *kernel.Ctx) error {
	sc := scAny.(*Scenario)
	dnsnode.InitProcess()
	sched.Init()
	dir, err := kernel.TempDir("c08")
	if err != nil {
		return err
	}
	defer os.RemoveAll(dir)
	return kernel.Bubble(t, func() error {
		time.Sleep(5 * time.Minute) // stay well inside one statistics hour
		r := &runner{c: c, sc: sc, dir: dir}
		r.m = &mstate{logIgn: newIgnoreSet(sc.LogIgnored), statIgn: newIgnoreSet(sc.StatsIgnored), anon: sc.Anon, clients: append([]Client(nil), sc.Clients...), domains: map[string]bool{},
			statClients: map[string]bool{}, logIgnList: sc.LogIgnored, statIgnList: sc.StatsIgnored}
		defer func() { r.m.logIgn.close(); r.m.statIgn.close() }()
		// The configuration file the instance is started from.
		r.saved = saved{LogIgnored: sc.LogIgnored, LogEnabled: true, FileEnabled: true, LogIvl: 24 * time.Hour, MemSize: sc.MemSize, Anon: sc.Anon,
			StatsIgnored: sc.StatsIgnored, StatsEnabled: true, StatsLimit: 24 * time.Hour}
		var initial []*client.Persistent
		for _, cl := range sc.Clients {
			p, err := toPersistent(cl)
			if err != nil {
				return err
			}
			initial = append(initial, p)
		}
		defer func() { _ = r.stop(false) }()
		if err := r.start(initial); err != nil {
			return err
		}
		for i, op := range sc.Ops {
			c.Eventf("op %d %s", i, op.Kind)
			err := r.apply(op)
			if err == nil {
				err = r.check(op.Obs)
			}
			if err != nil {
				if v, ok := err.(*kernel.Violation); ok {
					v.Msg = fmt.Sprintf("op %d (%s): %s", i, op.Kind, v.Msg)
				}
				return err
			}
			c.Step()
		}
		return nil
	})
}

// Prop is the registration.
var Prop = &kernel.Property{
	ID:    "C08",
	Level: "exploration",
	Rule: "seeded histories (rapid): ignore lists for log and statistics (plain names, ||rules^, wildcards, the root |.^, mixed case), persistent clients identified by IP / CIDR / MAC (through a DHCP lease) / ClientID with ignore flags, anonymisation on/off, ANY-refusal on/off, memory sizes 1..50; ops = queries (any case, root, ANY, 8 sources incl. 4-in-6, ClientIDs over TLS) interleaved with live changes of both ignore lists, anonymisation (current and deprecated endpoint) and client flags, changes of the persistent clients themselves (updates of name / identifier / flags, additions, deletions, among them ones the registry refuses because name or identifier clash with another client: the answer decides, a refused change leaves everything as it was), two or three settings requests in flight together (current and deprecated query-log endpoint, statistics; concurrent tasks interleaved at lock boundaries by a seeded cooperative scheduler on an instrumented scratch copy of the tree: the reported settings must be those of one serial order, and the model goes on from them), forced flushes, clock advances, pages of a listing a user scrolls through (limit 1..3, older_than cursor of the previous page, offset, search terms) and clean restarts from the configuration the components themselves last reported at their configuration-modified callback; after every op the raw log file, GET /control/querylog (without cursor, with a cursor newer than every record, or not at all), GET /control/stats, the settings reported by GET querylog/config, querylog_info and stats/config and the persistent clients the registry holds are compared with the reference model; " +
		"non-trivial = at least one query was recorded and at least one was withheld from the log or the statistics; distinct = distinct scenario digests",
	Gen: Gen,
	New: func() any { return &Scenario{} },
	Run: Run,
	NonTrivial: func(_ any, c *kernel.Ctx) bool {
		return c.Probes["query_logged"] > 0 && (c.Probes["query_not_logged"]+c.Probes["query_not_counted"] > 0)
	},
	Real:        []string{"internal/querylog (memory ring, file, search, HTTP handlers, config update)", "internal/stats + bbolt", "internal/dnsforward (processQueryLogsAndStats, anonymiser)", "internal/home callbacks findMultiple / shouldCountClient (via VerifClientFuncs)", "internal/client.Storage", "internal/aghnet (IgnoreEngine, IPMut)"},
	Stub:        []string{"upstream resolver", "client sockets", "DHCP lease table (one static lease)", "query-log rotation and statistics flush loops (not started; the case stays inside one hour)", "the configuration file (kept in memory: what query log and statistics report through WriteDiskConfig whenever a configuration-modified callback fires, as home's configuration.write collects it; a restart starts from it)"},
	Assumptions: []string{"ignore patterns are matched by urlfilter (trusted) against the lower-cased name", "a request is attributed to an ignored client by its real identity: ClientID > exact IP > most specific CIDR > MAC of the lease", "ANY queries under ANY-refusal may or may not be recorded (the statement does not say)"},
	FaultKinds:  []string{"live_log_config_change", "live_stats_config_change", "live_client_flag_change", "live_client_change", "settings_requests_in_flight_together", "flush_to_disk", "restart_from_saved_config"},
	ProbeNames:  []string{"query_logged", "query_not_logged", "query_not_counted", "ignored_client_query", "ignored_client_query_anonymised", "legacy_config_endpoint", "page_first", "page_older", "page_older_nonempty", "obs_cursor_listing", "obs_skipped", "config_written", "restart_after_config_change",
		"client_change_refused", "client_change_refused_for_ignored_client", "client_identifier_changed", "client_added", "client_deleted", "client_op_without_clients", "par_later_order_matched", "sched_steps", "sched_switches"},
}
